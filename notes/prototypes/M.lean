namespace M

inductive F64 where
  | nan | ninf | fin (o : Int) | pinf
  deriving DecidableEq, Repr

namespace F64
def le : F64 → F64 → Bool
  | fin a, fin b => decide (a ≤ b)
  | ninf, ninf => true | ninf, fin _ => true | ninf, pinf => true
  | fin _, pinf => true | pinf, pinf => true
  | _, _ => false
def isFinite : F64 → Bool | fin _ => true | _ => false
end F64

inductive PClass where | zero | mid | one
  deriving DecidableEq, Repr

mutual
inductive SNode where
  | real (init scale : F64) (min max : Option F64)
  | int (init : Int) (scale : F64) (min max : Option Int)
  | bool (init : Bool)
  | sub (fields : SFields)
  | array (elem : SNode) (size : Nat)
  | amap (elem : SNode) (initSize : Nat) (minSize maxSize : Option Nat)
  | variant (opts : SFields) (init : String)
  | enum (values : List String) (init : String)
  | opt (elem : SNode) (initPresent : Bool)
  | const
inductive SFields where
  | nil | cons (k : String) (n : SNode) (rest : SFields)
end

mutual
inductive VNode where
  | real (x : F64) | int (i : Int) | bool (b : Bool)
  | sub (f : VFields) | array (l : VList) | amap (m : VEntries)
  | variant (name : String) (v : VNode) | enum (s : String)
  | onone | osome (v : VNode)
  | const
inductive VFields where
  | nil | cons (k : String) (v : VNode) (rest : VFields)
inductive VList where
  | nil | cons (v : VNode) (rest : VList)
inductive VEntries where
  | nil | cons (k : Nat) (v : VNode) (rest : VEntries)
end

instance : Inhabited VNode := ⟨.const⟩

def SFields.lookup : SFields → String → Option SNode
  | .nil, _ => none
  | .cons k n r, x => if k == x then some n else r.lookup x

def VEntries.lookup : VEntries → Nat → Option VNode
  | .nil, _ => none
  | .cons k v r, x => if k == x then some v else r.lookup x
def VEntries.keys : VEntries → List Nat
  | .nil => [] | .cons k _ r => k :: r.keys
def VEntries.length : VEntries → Nat
  | .nil => 0 | .cons _ _ r => r.length + 1
def VEntries.any (f : VNode → Bool) : VEntries → Bool
  | .nil => false | .cons _ v r => f v || r.any f
def VList.length : VList → Nat
  | .nil => 0 | .cons _ r => r.length + 1

def replicateV (v : VNode) : Nat → VList
  | 0 => .nil | n+1 => .cons v (replicateV v n)
/-- entries `from, from+1, ..., from+n-1`, all holding `v` -/
def rangeE (v : VNode) : Nat → Nat → VEntries
  | _, 0 => .nil | a, n+1 => .cons a v (rangeE v (a+1) n)

mutual
def initialValue : SNode → VNode
  | .real i _ _ _ => .real i
  | .int i _ _ _ => .int i
  | .bool b => .bool b
  | .sub f => .sub (initialFields f)
  | .array e n => .array (replicateV (initialValue e) n)
  | .amap e n _ _ => .amap (rangeE (initialValue e) 0 n)
  | .variant o i => .variant i (initialOpt o i)
  | .enum _ i => .enum i
  | .opt e p => if p then .osome (initialValue e) else .onone
  | .const => .const
def initialFields : SFields → VFields
  | .nil => .nil
  | .cons k n r => .cons k (initialValue n) (initialFields r)
/-- initial value of the option named `i` (const when the name is unknown: excluded by WellFormed) -/
def initialOpt : SFields → String → VNode
  | .nil, _ => .const
  | .cons k n r, i => if k == i then initialValue n else initialOpt r i
end

def inBoundsF (x : F64) (mn mx : Option F64) : Bool :=
  x.isFinite && (match mn with | none => true | some m => F64.le m x)
             && (match mx with | none => true | some m => F64.le x m)
def inBoundsI (x : Int) (mn mx : Option Int) : Bool :=
  (match mn with | none => true | some m => decide (m ≤ x)) && (match mx with | none => true | some m => decide (x ≤ m))

def atMin (n : Nat) (mn : Option Nat) : Bool := n == 0 || mn == some n
def atMax (n : Nat) (mx : Option Nat) : Bool := mx == some n

/-
`mutAcc pc s vin vout`: vout is a possible result of `mutation::mutate` on vin (rescaling factors = 1).
Structural recursion on vout.  Key freshness is checked locally (`fresh`): the added key is not a key of vin.
-/
mutual
def mutAcc (pc : PClass) : SNode → VNode → VNode → Bool
  | .real _ _ mn mx, .real x, .real y => (x == y) || (pc != .zero && inBoundsF y mn mx)
  | .int _ _ mn mx, .int x, .int y => (x == y) || (pc != .zero && inBoundsI y mn mx)
  | .bool _, .bool x, .bool y => match pc with | .zero => x == y | .one => x != y | .mid => true
  | .enum vs _, .enum x, .enum y =>
      match pc with | .zero => x == y | .one => x != y && vs.contains y | .mid => x == y || vs.contains y
  | .sub sf, .sub fi, .sub fo => mutAccFields pc sf fi fo
  | .array e _, .array li, .array lo => mutAccList pc e li lo
  | .variant opts _, .variant n v, .variant n' v' =>
      if n == n' then
        pc != .one && (match opts.lookup n with | some cs => mutAcc pc cs v v' | none => false)
      else
        pc != .zero && (match opts.lookup n' with | some cs => mutAcc pc cs (initialValue cs) v' | none => false)
  | .opt e _, .osome v, .osome v' => pc != .one && mutAcc pc e v v'
  | .opt e _, .onone, .osome v' => pc != .zero && mutAcc pc e (initialValue e) v'
  | .opt _ _, .osome _, .onone => pc != .zero
  | .opt _ _, .onone, .onone => pc != .one
  | .const, .const, .const => true
  | .amap e _ mn mx, .amap mi, .amap mo =>
      let n := mi.length
      let n' := mo.length
      if n' == n then
        pc != .one && mutAccSame pc e mi mo
      else if n' + 1 == n then
        -- one key removed, the others keep their keys
        pc != .zero && !(atMin n mn) && mo.keys.all (mi.keys.contains ·) && mutAccEntries pc e mi none mo
      else if n' == n + 1 then
        -- one key added
        match mo.keys.filter (fun k => !(mi.keys.contains k)) with
        | [k] => pc != .zero && (atMin n mn || !(atMax n mx)) && mutAccEntries pc e mi (some k) mo
        | _ => false
      else false
  | _, _, _ => false
termination_by structural _ _ vout => vout
def mutAccFields (pc : PClass) : SFields → VFields → VFields → Bool
  | .nil, .nil, .nil => true
  | .cons k s sr, .cons k1 v vr, .cons k2 v' vr' => k == k1 && k == k2 && mutAcc pc s v v' && mutAccFields pc sr vr vr'
  | _, _, _ => false
termination_by structural _ _ fo => fo
def mutAccList (pc : PClass) (e : SNode) : VList → VList → Bool
  | .nil, .nil => true
  | .cons v r, .cons v' r' => mutAcc pc e v v' && mutAccList pc e r r'
  | _, _ => false
termination_by structural _ lo => lo
def mutAccSame (pc : PClass) (e : SNode) : VEntries → VEntries → Bool
  | .nil, .nil => true
  | .cons k v r, .cons k' v' r' => k == k' && mutAcc pc e v v' && mutAccSame pc e r r'
  | _, _ => false
termination_by structural _ mo => mo
/-- every output entry is the mutation of the input entry with the same key; the entry at `added`
    is the mutation of a clone of some input entry (or of the initial value when the input is empty) -/
def mutAccEntries (pc : PClass) (e : SNode) (mi : VEntries) (added : Option Nat) : VEntries → Bool
  | .nil => true
  | .cons k v' r =>
      (if added == some k then
         (match mi with
          | .nil => mutAcc pc e (initialValue e) v'
          | _ => mi.any (fun src => mutAcc pc e src v'))
       else match mi.lookup k with
         | some v => mutAcc pc e v v'
         | none => false)
      && mutAccEntries pc e mi added r
termination_by structural mo => mo
end



theorem len_eq_of_same (pc : PClass) (e : SNode) : ∀ (mi mo : VEntries), mutAccSame pc e mi mo = true → mo.length = mi.length
  | .nil, .nil, _ => rfl
  | .cons _ _ r, .cons _ _ r', h => by
      simp [mutAccSame] at h
      simp [VEntries.length, len_eq_of_same pc e r r' h.2]
  | .nil, .cons _ _ _, h => by simp [mutAccSame] at h
  | .cons _ _ _, .nil, h => by simp [mutAccSame] at h

-- C13, first clause: probability 0 returns the input unchanged (every node kind, any nesting).
mutual
theorem mut_zero_id (s : SNode) (vi vo : VNode) (h : mutAcc .zero s vi vo = true) : vo = vi := by
  cases vo with
  | real y => cases s <;> cases vi <;> simp [mutAcc] at h <;> simp [h]
  | int y => cases s <;> cases vi <;> simp [mutAcc] at h <;> simp [h]
  | bool y => cases s <;> cases vi <;> simp [mutAcc] at h <;> simp [h]
  | enum y => cases s <;> cases vi <;> simp [mutAcc] at h <;> simp [h]
  | const => cases s <;> cases vi <;> simp [mutAcc] at h <;> rfl
  | onone => cases s <;> cases vi <;> simp [mutAcc] at h <;> rfl
  | osome v' =>
      cases s <;> cases vi <;> simp [mutAcc] at h
      case opt.osome e _ v => rw [mut_zero_id e v v' h]
  | sub fo =>
      cases s <;> cases vi <;> simp [mutAcc] at h
      case sub.sub sf fi => rw [mut_zero_fields sf fi fo h]
  | array lo =>
      cases s <;> cases vi <;> simp [mutAcc] at h
      case array.array e _ li => rw [mut_zero_list e li lo h]
  | variant n' v' =>
      cases s <;> cases vi <;> try (simp [mutAcc] at h; done)
      case variant.variant opts _ n v =>
        simp only [mutAcc] at h
        split at h
        · rename_i hn
          simp at h
          have hn' : n = n' := by simpa using hn
          subst hn'
          cases ho : opts.lookup n with
          | none => simp [ho] at h
          | some cs => simp [ho] at h; rw [mut_zero_id cs v v' h]
        · simp at h
  | amap mo =>
      cases s <;> cases vi <;> try (simp [mutAcc] at h; done)
      case amap.amap e _ mn mx mi =>
        simp only [mutAcc] at h
        split at h
        · simp at h; rw [mut_zero_same e mi mo h]
        · split at h
          · simp at h
          · split at h
            · split at h <;> simp at h
            · simp at h
theorem mut_zero_fields (sf : SFields) (fi fo : VFields) (h : mutAccFields .zero sf fi fo = true) : fo = fi := by
  cases fo with
  | nil => cases sf <;> cases fi <;> simp [mutAccFields] at h <;> rfl
  | cons k2 v' vr' =>
      cases sf <;> cases fi <;> simp [mutAccFields] at h
      case cons.cons k s sr k1 v vr =>
        obtain ⟨⟨⟨h1, h2⟩, h3⟩, h4⟩ := h
        rw [mut_zero_id s v v' h3, mut_zero_fields sr vr vr' h4, ← h1, ← h2]
theorem mut_zero_list (e : SNode) (li lo : VList) (h : mutAccList .zero e li lo = true) : lo = li := by
  cases lo with
  | nil => cases li <;> simp [mutAccList] at h <;> rfl
  | cons v' r' =>
      cases li <;> simp [mutAccList] at h
      case cons v r => rw [mut_zero_id e v v' h.1, mut_zero_list e r r' h.2]
theorem mut_zero_same (e : SNode) (mi mo : VEntries) (h : mutAccSame .zero e mi mo = true) : mo = mi := by
  cases mo with
  | nil => cases mi <;> simp [mutAccSame] at h <;> rfl
  | cons k' v' r' =>
      cases mi <;> simp [mutAccSame] at h
      case cons k v r => rw [mut_zero_id e v v' h.1.2, mut_zero_same e r r' h.2, h.1.1]
end

#print axioms mut_zero_id
end M
