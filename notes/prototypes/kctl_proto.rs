// Prototype of the K-ctl harness: harness-dictated completion order, outcomes, abort behaviour.
use async_trait::async_trait;
use cambrian::error::Error;
use cambrian::message::Command;
use cambrian::meta::{AlgoConfigBuilder, AsyncObjectiveFunction};
use cambrian::{async_launch, spec_util};
use futures::channel::{mpsc, oneshot};
use futures::SinkExt;
use std::sync::{Arc, Mutex};

#[derive(Debug, Clone)]
enum Outcome { Acc(f64), Rej, Fail, NonFinite }

struct Slot { seed: u64, id: usize, tx: Option<oneshot::Sender<Outcome>>, abort_seen: bool }

#[derive(Default)]
struct Shared { slots: Vec<Slot>, trace: Vec<String>, abort_mode: u8 /*0 at once,1 never*/ }

struct Obj { sh: Arc<Mutex<Shared>> }

#[async_trait]
impl AsyncObjectiveFunction for Obj {
    async fn evaluate(&self, value: serde_json::Value, mut abort: async_broadcast::Receiver<()>, seed: u64, id: usize) -> Result<Option<f64>, Error> {
        let (tx, rx) = oneshot::channel();
        let mode = {
            let mut sh = self.sh.lock().unwrap();
            sh.trace.push(format!("start seed={seed} id={id} value={value}"));
            sh.slots.push(Slot { seed, id, tx: Some(tx), abort_seen: false });
            sh.abort_mode
        };
        let mut rx = rx;
        let out = loop {
            tokio::select! {
                o = &mut rx => break o.unwrap(),
                _ = abort.recv() => {
                    {
                        let mut sh = self.sh.lock().unwrap();
                        sh.trace.push(format!("abort-seen seed={seed}"));
                        if let Some(s) = sh.slots.iter_mut().find(|s| s.seed == seed) { s.abort_seen = true; }
                        if mode == 0 { sh.slots.retain(|s| s.seed != seed); return Ok(None); }
                    }
                    // ignore the abort: keep waiting for the scheduler
                    break (&mut rx).await.unwrap();
                }
            }
        };
        match out {
            Outcome::Acc(x) => Ok(Some(x)),
            Outcome::Rej => Ok(None),
            Outcome::Fail => Err(Error::ClientHungUp), // any error value will do for the prototype
            Outcome::NonFinite => Ok(Some(f64::NAN)),
        }
    }
}

struct Rng(u64);
impl Rng { fn next(&mut self) -> u64 { self.0 = self.0.wrapping_add(0x9E3779B97F4A7C15); let mut z = self.0; z = (z ^ (z >> 30)).wrapping_mul(0xBF58476D1CE4E5B9); z = (z ^ (z >> 27)).wrapping_mul(0x94D049BB133111EB); z ^ (z >> 31) } }

fn run(seed: u64, nc: usize, n: Option<usize>, target: Option<f64>, term_at: Option<usize>, abort_mode: u8) -> Vec<String> { run2(seed, nc, n, target, term_at, abort_mode, vec![]) }
fn run2(seed: u64, nc: usize, n: Option<usize>, target: Option<f64>, term_at: Option<usize>, abort_mode: u8, fails: Vec<(usize, Outcome)>) -> Vec<String> {
    let sh = Arc::new(Mutex::new(Shared { abort_mode, ..Default::default() }));
    let sh2 = sh.clone();
    let rt = tokio::runtime::Builder::new_current_thread().enable_all().build().unwrap();
    let res = rt.block_on(async move {
        let spec = spec_util::from_yaml_str("type: int\ninit: 0\nscale: 3").unwrap();
        let cfg = AlgoConfigBuilder::new().num_concurrent(nc).build().unwrap();
        let (mut cmd_tx, cmd_rx) = mpsc::channel::<Command>(4);
        let (rep_tx, mut rep_rx) = mpsc::channel(256);
        let launch = async_launch::launch(spec, Obj { sh: sh2.clone() }, cfg, cmd_rx, rep_tx, n, target, None);
        tokio::pin!(launch);
        let mut rng = Rng(seed);
        let mut step = 0usize;
        let mut ncomp = 0usize;
        let mut result = None;
        loop {
            // let the controller run until it is quiescent
            for _ in 0..4 {
                tokio::select! { biased; r = &mut launch, if result.is_none() => { result = Some(r); } _ = tokio::task::yield_now() => {} }
            }
            while let Ok(Some(item)) = rep_rx.try_next() {
                sh2.lock().unwrap().trace.push(format!("item id={} seed={} val={:?}", item.individual_id, item.seed, item.obj_func_val));
            }
            if result.is_some() { break; }
            if Some(step) == term_at {
                sh2.lock().unwrap().trace.push("send-terminate".into());
                cmd_tx.send(Command::Terminate).await.unwrap();
                step += 1; continue;
            }
            // choose one in-flight evaluation and complete it (burst of 2 every 5th step)
            let burst = if step % 5 == 4 { 2 } else { 1 };
            for _ in 0..burst {
                let mut g = sh2.lock().unwrap();
                if g.slots.is_empty() { break; }
                let k = (rng.next() % g.slots.len() as u64) as usize;
                let mut slot = g.slots.remove(k);
                let mut o = match rng.next() % 10 { 0 => Outcome::Rej, _ => Outcome::Acc(((rng.next() % 1000) as f64) / 10.0) };
                if let Some((_, f)) = fails.iter().find(|(i, _)| *i == ncomp) { o = f.clone(); }
                ncomp += 1;
                g.trace.push(format!("complete seed={} {:?}", slot.seed, o));
                slot.tx.take().unwrap().send(o).ok();
            }
            step += 1;
            if step > 10_000 { break; }
        }
        result
    });
    let mut t = sh.lock().unwrap().trace.clone();
    t.push(format!("return {:?}", res.map(|r| r.map(|f| (f.best_seen.obj_func_val, f.num_obj_func_eval_completed, f.num_obj_func_eval_rejected)).map_err(|e| e.to_string()))));
    t
}

fn main() {
    println!("---- N=0"); for l in run(1, 3, Some(0), None, None, 0) { println!("{l}"); }
    println!("---- N=2 < nc=4"); for l in run(1, 4, Some(2), None, None, 0) { println!("{l}"); }
    println!("---- failure at completion 3, nc=3, later result below target 1000");
    for l in run2(2, 3, None, Some(1000.0), None, 0, vec![(3, Outcome::Fail)]) { println!("{l}"); }
    println!("---- non-finite at completion 2, second failure at 3, evaluations ignore abort (mode 1)");
    for l in run2(3, 3, None, None, None, 1, vec![(2, Outcome::NonFinite), (3, Outcome::Fail)]) { println!("{l}"); }
    println!("---- target hit with siblings in flight");
    for l in run2(4, 3, None, Some(50.0), None, 0, vec![]) { println!("{l}"); }
}
