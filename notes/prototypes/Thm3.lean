import Cm.Basic
namespace Cm

def okSample (mn mx : Option F64) (s : F64) : Prop := inBounds (clampReal s mn mx) mn mx = true

/-- every `sample` token in the stream is acceptable for every real it may reach (simplified for the probe) -/
def OkStream (o : List Choice) : Prop := ∀ s mn mx, Choice.sample s ∈ o → okSample mn mx s

mutual
theorem mut_conf (s : SNode) (v : VNode) (o : List Choice) (v' : VNode) (o' : List Choice)
    (ho : OkStream o) (hc : conforms s v = true) (hm : mutN s v o = some (v', o')) :
    conforms s v' = true ∧ OkStream o' := by
  cases s <;> cases v <;> simp [conforms] at hc
  case real.real i sc mn mx x =>
    cases o with
    | nil => simp [mutN] at hm
    | cons c o =>
      cases c with
      | bern b =>
        cases b with
        | false =>
          simp [mutN] at hm; obtain ⟨rfl, rfl⟩ := hm
          exact ⟨by simpa [conforms] using hc, fun s mn mx h => ho s mn mx (by simp [h])⟩
        | true =>
          cases o with
          | nil => simp [mutN] at hm
          | cons c2 o =>
            cases c2 <;> simp [mutN] at hm
            obtain ⟨rfl, rfl⟩ := hm
            refine ⟨?_, fun s mn mx h => ho s mn mx (by simp [h])⟩
            rename_i xs; have := ho xs mn mx (by simp); simpa [conforms, okSample] using this
      | sample _ => simp [mutN] at hm
      | pick _ => simp [mutN] at hm
  case bool.bool i b =>
    cases o with
    | nil => simp [mutN] at hm
    | cons c o =>
      cases c <;> simp [mutN] at hm
      obtain ⟨rfl, rfl⟩ := hm
      exact ⟨by simp [conforms], fun s mn mx h => ho s mn mx (by simp [h])⟩
  case sub.sub sf vf =>
    simp [mutN] at hm
    obtain ⟨f', hf, rfl⟩ := hm
    have := mutFields_conf sf vf o f' o' ho hc hf
    exact ⟨by simpa [conforms] using this.1, this.2⟩
  case array.array e n l =>
    simp [mutN] at hm
    obtain ⟨l', hl, rfl⟩ := hm
    have := mutList_conf e l o l' o' ho hc.1 hl
    exact ⟨by simp [conforms, this.1, this.2.1, hc.2], this.2.2⟩
  case amap.amap => simp [mutN] at hm

theorem mutFields_conf (sf : SFields) (vf : VFields) (o : List Choice) (f' : VFields) (o' : List Choice)
    (ho : OkStream o) (hc : conformsFields sf vf = true) (hm : mutFields sf vf o = some (f', o')) :
    conformsFields sf f' = true ∧ OkStream o' := by
  cases sf <;> cases vf <;> simp [conformsFields] at hc
  case nil.nil => simp [mutFields] at hm; obtain ⟨rfl, rfl⟩ := hm; exact ⟨by simp [conformsFields], ho⟩
  case cons.cons k s sr k' v vr =>
    simp only [mutFields] at hm
    split at hm
    · simp at hm
    · rename_i v1 o1 h1
      simp at hm
      obtain ⟨r', hr, rfl⟩ := hm
      have a := mut_conf s v o v1 o1 ho hc.1.2 h1
      have b := mutFields_conf sr vr o1 r' o' a.2 hc.2 hr
      exact ⟨by simp [conformsFields, a.1, b.1], b.2⟩

theorem mutList_conf (s : SNode) (l : VList) (o : List Choice) (l' : VList) (o' : List Choice)
    (ho : OkStream o) (hc : conformsList s l = true) (hm : mutList s l o = some (l', o')) :
    conformsList s l' = true ∧ l'.length = l.length ∧ OkStream o' := by
  cases l
  case nil => simp [mutList] at hm; obtain ⟨rfl, rfl⟩ := hm; exact ⟨by simp [conformsList], rfl, ho⟩
  case cons v r =>
    simp [conformsList] at hc
    simp only [mutList] at hm
    split at hm
    · simp at hm
    · rename_i v1 o1 h1
      simp at hm
      obtain ⟨r', hr, rfl⟩ := hm
      have a := mut_conf s v o v1 o1 ho hc.1 h1
      have b := mutList_conf s r o1 r' o' a.2 hc.2 hr
      exact ⟨by simp [conformsList, a.1, b.1], by simp [VList.length, b.2.1], b.2.2⟩
end

#print axioms mut_conf
end Cm
