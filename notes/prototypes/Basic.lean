namespace Cm

/-- f64 as an order code: finite values carry an order-isomorphic integer. -/
inductive F64 where
  | nan | ninf | fin (o : Int) | pinf
  deriving DecidableEq, Repr

namespace F64
def le : F64 → F64 → Bool
  | nan, _ => false | _, nan => false
  | ninf, _ => true | _, pinf => true
  | fin a, fin b => decide (a ≤ b)
  | fin _, ninf => false | pinf, fin _ => false | pinf, ninf => false
def isFinite : F64 → Bool | fin _ => true | _ => false
/-- Rust `f64::max`: NaN is ignored when the other operand is a number. -/
def max (a b : F64) : F64 :=
  match a, b with
  | nan, b => b | a, nan => a
  | a, b => if le a b then b else a
def min (a b : F64) : F64 :=
  match a, b with
  | nan, b => b | a, nan => a
  | a, b => if le a b then a else b
end F64

mutual
inductive SNode where
  | real (init scale : F64) (min max : Option F64)
  | bool (init : Bool)
  | sub (fields : SFields)
  | array (elem : SNode) (size : Nat)
  | amap (elem : SNode) (initSize : Nat) (minSize maxSize : Option Nat)
inductive SFields where
  | nil | cons (k : String) (n : SNode) (rest : SFields)
end

mutual
inductive VNode where
  | real (x : F64)
  | bool (b : Bool)
  | sub (f : VFields)
  | array (l : VList)
  | amap (m : VEntries)
  deriving Repr
inductive VFields where
  | nil | cons (k : String) (v : VNode) (rest : VFields)
inductive VList where
  | nil | cons (v : VNode) (rest : VList)
inductive VEntries where
  | nil | cons (k : Nat) (v : VNode) (rest : VEntries)
end

def VList.length : VList → Nat | .nil => 0 | .cons _ r => r.length + 1
def VEntries.length : VEntries → Nat | .nil => 0 | .cons _ _ r => r.length + 1

def inBounds (x : F64) (mn mx : Option F64) : Bool :=
  x.isFinite && (match mn with | none => true | some m => F64.le m x)
             && (match mx with | none => true | some m => F64.le x m)

mutual
def conforms : SNode → VNode → Bool
  | .real _ _ mn mx, .real x => inBounds x mn mx
  | .bool _, .bool _ => true
  | .sub sf, .sub vf => conformsFields sf vf
  | .array e n, .array l => conformsList e l && l.length == n
  | .amap e _ mn mx, .amap m =>
      conformsEntries e m && (match mn with | none => true | some k => k ≤ m.length)
        && (match mx with | none => true | some k => m.length ≤ k)
  | _, _ => false
def conformsFields : SFields → VFields → Bool
  | .nil, .nil => true
  | .cons k s sr, .cons k' v vr => k == k' && conforms s v && conformsFields sr vr
  | _, _ => false
def conformsList : SNode → VList → Bool
  | _, .nil => true
  | s, .cons v r => conforms s v && conformsList s r
def conformsEntries : SNode → VEntries → Bool
  | _, .nil => true
  | s, .cons _ v r => conforms s v && conformsEntries s r
end

/-- one oracle token per random decision -/
inductive Choice where
  | bern (b : Bool) | sample (x : F64) | pick (i : Nat)
  deriving Repr

def clampReal (x : F64) (mn mx : Option F64) : F64 :=
  let x := match mn with | none => x | some m => F64.max x m
  match mx with | none => x | some m => F64.min x m

mutual
def mutN : SNode → VNode → List Choice → Option (VNode × List Choice)
  | .real _ _ mn mx, .real x, .bern false :: o => some (.real x, o)
  | .real _ _ mn mx, .real _, .bern true :: .sample s :: o => some (.real (clampReal s mn mx), o)
  | .bool _, .bool b, .bern f :: o => some (.bool (b != f), o)
  | .sub sf, .sub vf, o => (mutFields sf vf o).map fun p => (.sub p.1, p.2)
  | .array e _, .array l, o => (mutList e l o).map fun p => (.array p.1, p.2)
  | _, _, _ => none
def mutFields : SFields → VFields → List Choice → Option (VFields × List Choice)
  | .nil, .nil, o => some (.nil, o)
  | .cons k s sr, .cons _ v vr, o =>
      match mutN s v o with
      | none => none
      | some (v', o) => (mutFields sr vr o).map fun p => (.cons k v' p.1, p.2)
  | _, _, _ => none
def mutList : SNode → VList → List Choice → Option (VList × List Choice)
  | _, .nil, o => some (.nil, o)
  | s, .cons v r, o =>
      match mutN s v o with
      | none => none
      | some (v', o) => (mutList s r o).map fun p => (.cons v' p.1, p.2)
end

end Cm
