namespace Pop

abbrev Key := Int × Nat           -- (objective order code, individual id)

def klt (a b : Key) : Bool := a.1 < b.1 || (a.1 == b.1 && a.2 < b.2)
def kle (a b : Key) : Bool := !(klt b a)

/-- BTreeMap::insert into the ranked population (keys are unique: ids are) -/
def ins (k : Key) : List Key → List Key
  | [] => [k]
  | x :: xs => if klt k x then k :: x :: xs else x :: ins k xs

/-- `while len > cap { remove last }` -/
def evict (cap : Nat) (l : List Key) : List Key := l.take cap

def accept (cap : Nat) (pop : List Key) (k : Key) : List Key := evict cap (ins k pop)

def best (pop : List Key) : Option Key := pop.head?

def runAcc (cap : Nat) (hist : List Key) : List Key := hist.foldl (accept cap) []

theorem klt_trans {a b c : Key} (h1 : klt a b = true) (h2 : klt b c = true) : klt a c = true := by
  simp [klt] at *; omega
theorem kle_of_klt {a b : Key} (h : klt a b = true) : kle a b = true := by
  simp [kle, klt] at *; omega
theorem kle_refl (a : Key) : kle a a = true := by simp [kle, klt]
theorem kle_trans {a b c : Key} (h1 : kle a b = true) (h2 : kle b c = true) : kle a c = true := by
  simp [kle, klt] at *; omega
theorem kle_total (a b : Key) : kle a b = true ∨ kle b a = true := by
  simp [kle, klt]; omega

/-- head of the population is a lower bound of everything in it -/
def HeadMin (l : List Key) : Prop := ∀ h, l.head? = some h → ∀ x ∈ l, kle h x = true

theorem ins_ne_nil (k : Key) (l : List Key) : ins k l ≠ [] := by
  cases l <;> simp [ins]; split <;> simp

theorem mem_ins (k x : Key) (l : List Key) : x ∈ ins k l ↔ x = k ∨ x ∈ l := by
  induction l with
  | nil => simp [ins]
  | cons y ys ih =>
    simp only [ins]; split
    · simp
    · simp [ih]; constructor <;> intro h <;> rcases h with h | h | h <;> simp_all

theorem head_ins (k : Key) (l : List Key) :
    (ins k l).head? = some (match l.head? with | none => k | some h => if klt k h then k else h) := by
  cases l with
  | nil => simp [ins]
  | cons y ys => simp only [ins]; split <;> simp_all

theorem headMin_ins (k : Key) (l : List Key) (h : HeadMin l) : HeadMin (ins k l) := by
  intro hd hhd x hx
  rw [head_ins] at hhd
  rw [mem_ins] at hx
  cases l with
  | nil =>
    simp at hhd; subst hhd
    rcases hx with rfl | hx
    · exact kle_refl _
    · simp at hx
  | cons y ys =>
    simp at hhd
    have hy := h y (by simp)
    by_cases c : klt k y = true
    · simp [c] at hhd; subst hhd
      rcases hx with rfl | hx
      · exact kle_refl _
      · exact kle_trans (kle_of_klt c) (hy x hx)
    · simp [c] at hhd; subst hhd
      rcases hx with rfl | hx
      · simpa [kle] using c
      · exact hy x hx

theorem headMin_take (n : Nat) (l : List Key) (h : HeadMin l) : HeadMin (l.take n) := by
  intro hd hhd x hx
  cases n with
  | zero => simp at hhd
  | succ n =>
    cases l with
    | nil => simp at hhd
    | cons y ys =>
      simp at hhd; subst hhd
      exact h y (by simp) x (List.mem_of_mem_take hx)

/-- C02 core, sample size 1: after any accepted history the best-ranked entry is a member of the history
    and is a minimum of the *whole* history, evicted entries included. -/
theorem best_is_min (cap : Nat) (hcap : 0 < cap) (hist : List Key) :
    (hist ≠ [] → ∃ b, best (runAcc cap hist) = some b ∧ b ∈ hist) ∧
    (∀ b, best (runAcc cap hist) = some b → ∀ x ∈ hist, kle b x = true) := by
  -- generalised over the starting population
  suffices ∀ (pop : List Key) (seen : List Key),
      HeadMin pop → (∀ x ∈ pop, x ∈ seen) → (seen ≠ [] → pop ≠ []) →
      (∀ b, pop.head? = some b → ∀ x ∈ seen, kle b x = true) →
      let pop' := hist.foldl (accept cap) pop
      HeadMin pop' ∧ (∀ x ∈ pop', x ∈ seen ++ hist) ∧ (seen ++ hist ≠ [] → pop' ≠ []) ∧
      (∀ b, pop'.head? = some b → ∀ x ∈ seen ++ hist, kle b x = true) by
    have := this [] [] (by intro h hh; simp at hh) (by simp) (by simp) (by simp)
    simp only [List.nil_append] at this
    obtain ⟨_, hsub, hne, hmin⟩ := this
    refine ⟨fun h => ?_, fun b hb => hmin b hb⟩
    have := hne h
    cases hp : runAcc cap hist with
    | nil => exact absurd hp this
    | cons b bs => exact ⟨b, by simp [best], hsub b (by simp [runAcc] at hp; simp [hp])⟩
  induction hist with
  | nil => intro pop seen h1 h2 h3 h4; simp only [List.foldl_nil, List.append_nil]; exact ⟨h1, h2, h3, h4⟩
  | cons k ks ih =>
    intro pop seen h1 h2 h3 h4
    have hins := headMin_ins k pop h1
    have hacc : HeadMin (accept cap pop k) := headMin_take cap _ hins
    have hsub : ∀ x ∈ accept cap pop k, x ∈ seen ++ [k] := by
      intro x hx
      have := List.mem_of_mem_take hx
      rw [mem_ins] at this
      rcases this with rfl | h
      · simp
      · simp [h2 x h]
    have hne : seen ++ [k] ≠ [] → accept cap pop k ≠ [] := by
      intro _
      have := ins_ne_nil k pop
      cases hi : ins k pop with
      | nil => exact absurd hi this
      | cons y ys =>
        cases cap with
        | zero => omega
        | succ c => simp [accept, evict, hi]
    have hmin : ∀ b, (accept cap pop k).head? = some b → ∀ x ∈ seen ++ [k], kle b x = true := by
      intro b hb x hx
      have hb' : (ins k pop).head? = some b := by
        cases cap with
        | zero => omega
        | succ c =>
          cases hi : ins k pop with
          | nil => simp [accept, evict, hi] at hb
          | cons y ys => simp [accept, evict, hi] at hb; simp [hb]
      rw [head_ins] at hb'
      simp at hx
      cases hp : pop.head? with
      | none =>
        have : pop = [] := by cases pop <;> simp_all
        subst this
        simp [hp] at hb'; subst hb'
        rcases hx with hx | rfl
        · have := h3 (List.ne_nil_of_mem hx); simp at this
        · exact kle_refl _
      | some h =>
        simp [hp] at hb'
        by_cases c : klt k h = true
        · simp [c] at hb'; subst hb'
          rcases hx with hx | rfl
          · exact kle_trans (kle_of_klt c) (h4 h hp x hx)
          · exact kle_refl _
        · simp [c] at hb'; subst hb'
          rcases hx with hx | rfl
          · exact h4 _ hp x hx
          · simpa [kle] using c
    have := ih (accept cap pop k) (seen ++ [k]) hacc hsub hne hmin
    simpa [List.append_assoc] using this

#print axioms best_is_min
end Pop
