namespace M

inductive F64 where
  | nan | ninf | fin (o : Int) | pinf
  deriving DecidableEq, Repr

namespace F64
def le : F64 → F64 → Bool
  | fin a, fin b => decide (a ≤ b)
  | ninf, ninf => true | ninf, fin _ => true | ninf, pinf => true
  | fin _, pinf => true | pinf, pinf => true
  | _, _ => false
def isFinite : F64 → Bool | fin _ => true | _ => false
end F64

inductive PClass where | zero | mid | one
  deriving DecidableEq, Repr

mutual
inductive SNode where
  | real (init scale : F64) (min max : Option F64)
  | int (init : Int) (scale : F64) (min max : Option Int)
  | bool (init : Bool)
  | sub (fields : SFields)
  | array (elem : SNode) (size : Nat)
  | amap (elem : SNode) (initSize : Nat) (minSize maxSize : Option Nat)
  | variant (opts : SFields) (init : String)
  | enum (values : List String) (init : String)
  | opt (elem : SNode) (initPresent : Bool)
  | const
inductive SFields where
  | nil | cons (k : String) (n : SNode) (rest : SFields)
end

mutual
inductive VNode where
  | real (x : F64) | int (i : Int) | bool (b : Bool)
  | sub (f : VFields) | array (l : VList) | amap (m : VEntries)
  | variant (name : String) (v : VNode) | enum (s : String)
  | onone | osome (v : VNode)
  | const
inductive VFields where
  | nil | cons (k : String) (v : VNode) (rest : VFields)
inductive VList where
  | nil | cons (v : VNode) (rest : VList)
inductive VEntries where
  | nil | cons (k : Nat) (v : VNode) (rest : VEntries)
end
deriving instance DecidableEq for VNode, VFields, VList, VEntries

instance : Inhabited VNode := ⟨.const⟩

def SFields.lookup : SFields → String → Option SNode
  | .nil, _ => none
  | .cons k n r, x => if k == x then some n else r.lookup x

def VEntries.lookup : VEntries → Nat → Option VNode
  | .nil, _ => none
  | .cons k v r, x => if k == x then some v else r.lookup x
def VEntries.keys : VEntries → List Nat
  | .nil => [] | .cons k _ r => k :: r.keys
def VEntries.length : VEntries → Nat
  | .nil => 0 | .cons _ _ r => r.length + 1
def VEntries.any (f : VNode → Bool) : VEntries → Bool
  | .nil => false | .cons _ v r => f v || r.any f
def VList.length : VList → Nat
  | .nil => 0 | .cons _ r => r.length + 1

def replicateV (v : VNode) : Nat → VList
  | 0 => .nil | n+1 => .cons v (replicateV v n)
/-- entries `from, from+1, ..., from+n-1`, all holding `v` -/
def rangeE (v : VNode) : Nat → Nat → VEntries
  | _, 0 => .nil | a, n+1 => .cons a v (rangeE v (a+1) n)

mutual
def initialValue : SNode → VNode
  | .real i _ _ _ => .real i
  | .int i _ _ _ => .int i
  | .bool b => .bool b
  | .sub f => .sub (initialFields f)
  | .array e n => .array (replicateV (initialValue e) n)
  | .amap e n _ _ => .amap (rangeE (initialValue e) 0 n)
  | .variant o i => .variant i (initialOpt o i)
  | .enum _ i => .enum i
  | .opt e p => if p then .osome (initialValue e) else .onone
  | .const => .const
def initialFields : SFields → VFields
  | .nil => .nil
  | .cons k n r => .cons k (initialValue n) (initialFields r)
/-- initial value of the option named `i` (const when the name is unknown: excluded by WellFormed) -/
def initialOpt : SFields → String → VNode
  | .nil, _ => .const
  | .cons k n r, i => if k == i then initialValue n else initialOpt r i
end

def inBoundsF (x : F64) (mn mx : Option F64) : Bool :=
  x.isFinite && (match mn with | none => true | some m => F64.le m x)
             && (match mx with | none => true | some m => F64.le x m)
def inBoundsI (x : Int) (mn mx : Option Int) : Bool :=
  (match mn with | none => true | some m => decide (m ≤ x)) && (match mx with | none => true | some m => decide (x ≤ m))

def atMin (n : Nat) (mn : Option Nat) : Bool := n == 0 || mn == some n
def atMax (n : Nat) (mx : Option Nat) : Bool := mx == some n

/-
`mutAcc pc s vin vout`: vout is a possible result of `mutation::mutate` on vin (rescaling factors = 1).
Structural recursion on vout.  Key freshness is checked locally (`fresh`): the added key is not a key of vin.
-/
mutual
def mutAcc (pc : PClass) : SNode → VNode → VNode → Bool
  | .real _ _ mn mx, .real x, .real y => (x == y) || (pc != .zero && inBoundsF y mn mx)
  | .int _ _ mn mx, .int x, .int y => (x == y) || (pc != .zero && inBoundsI y mn mx)
  | .bool _, .bool x, .bool y => match pc with | .zero => x == y | .one => x != y | .mid => true
  | .enum vs _, .enum x, .enum y =>
      match pc with | .zero => x == y | .one => x != y && vs.contains y | .mid => x == y || vs.contains y
  | .sub sf, .sub fi, .sub fo => mutAccFields pc sf fi fo
  | .array e _, .array li, .array lo => mutAccList pc e li lo
  | .variant opts _, .variant n v, .variant n' v' =>
      if n == n' then
        pc != .one && (match opts.lookup n with | some cs => mutAcc pc cs v v' | none => false)
      else
        pc != .zero && (match opts.lookup n' with | some cs => mutAcc pc cs (initialValue cs) v' | none => false)
  | .opt e _, .osome v, .osome v' => pc != .one && mutAcc pc e v v'
  | .opt e _, .onone, .osome v' => pc != .zero && mutAcc pc e (initialValue e) v'
  | .opt _ _, .osome _, .onone => pc != .zero
  | .opt _ _, .onone, .onone => pc != .one
  | .const, .const, .const => true
  | .amap e _ mn mx, .amap mi, .amap mo =>
      let n := mi.length
      let n' := mo.length
      if n' == n then
        pc != .one && mutAccSame pc e mi mo
      else if n' + 1 == n then
        -- one key removed, the others keep their keys
        pc != .zero && !(atMin n mn) && mo.keys.all (mi.keys.contains ·) && mutAccEntries pc e mi none mo
      else if n' == n + 1 then
        -- one key added
        match mo.keys.filter (fun k => !(mi.keys.contains k)) with
        | [k] => pc != .zero && (atMin n mn || !(atMax n mx)) && mutAccEntries pc e mi (some k) mo
        | _ => false
      else false
  | _, _, _ => false
termination_by structural _ _ vout => vout
def mutAccFields (pc : PClass) : SFields → VFields → VFields → Bool
  | .nil, .nil, .nil => true
  | .cons k s sr, .cons k1 v vr, .cons k2 v' vr' => k == k1 && k == k2 && mutAcc pc s v v' && mutAccFields pc sr vr vr'
  | _, _, _ => false
termination_by structural _ _ fo => fo
def mutAccList (pc : PClass) (e : SNode) : VList → VList → Bool
  | .nil, .nil => true
  | .cons v r, .cons v' r' => mutAcc pc e v v' && mutAccList pc e r r'
  | _, _ => false
termination_by structural _ lo => lo
def mutAccSame (pc : PClass) (e : SNode) : VEntries → VEntries → Bool
  | .nil, .nil => true
  | .cons k v r, .cons k' v' r' => k == k' && mutAcc pc e v v' && mutAccSame pc e r r'
  | _, _ => false
termination_by structural _ mo => mo
/-- every output entry is the mutation of the input entry with the same key; the entry at `added`
    is the mutation of a clone of some input entry (or of the initial value when the input is empty) -/
def mutAccEntries (pc : PClass) (e : SNode) (mi : VEntries) (added : Option Nat) : VEntries → Bool
  | .nil => true
  | .cons k v' r =>
      (if added == some k then
         (match mi with
          | .nil => mutAcc pc e (initialValue e) v'
          | _ => mi.any (fun src => mutAcc pc e src v'))
       else match mi.lookup k with
         | some v => mutAcc pc e v v'
         | none => false)
      && mutAccEntries pc e mi added r
termination_by structural mo => mo
end



theorem len_eq_of_same (pc : PClass) (e : SNode) : ∀ (mi mo : VEntries), mutAccSame pc e mi mo = true → mo.length = mi.length
  | .nil, .nil, _ => rfl
  | .cons _ _ r, .cons _ _ r', h => by
      simp [mutAccSame] at h
      simp [VEntries.length, len_eq_of_same pc e r r' h.2]
  | .nil, .cons _ _ _, h => by simp [mutAccSame] at h
  | .cons _ _ _, .nil, h => by simp [mutAccSame] at h


def VFields.lookup : VFields → String → Option VNode
  | .nil, _ => none
  | .cons k v r, x => if k == x then some v else r.lookup x
def VList.get? : VList → Nat → Option VNode
  | .nil, _ => none
  | .cons v _, 0 => some v
  | .cons _ r, n+1 => r.get? n

def subChild (k : String) : VNode → Option VNode | .sub f => f.lookup k | _ => none
def arrChild (i : Nat) : VNode → Option VNode | .array l => l.get? i | _ => none
def mapChild (k : Nat) : VNode → Option VNode | .amap m => m.lookup k | _ => none
def varChild (n : String) : VNode → Option VNode | .variant n' v => if n == n' then some v else none | _ => none
def optChild : VNode → Option VNode | .osome v => some v | _ => none
def isLeaf : SNode → Bool
  | .real .. | .int .. | .bool .. | .enum .. | .const => true | _ => false

-- provenance relation of C12
mutual
def prov : SNode → List VNode → VNode → Bool
  | .const, _, .const => true
  | s, ps, out =>
    ps.contains out ||
    (match s, out with
     | .sub sf, .sub fo => provFields sf ps fo
     | .array e _, .array lo => provList e ps 0 lo
     | .amap e _ _ _, .amap mo => provEntries e ps mo
     | .variant opts _, .variant n v => (ps.any fun p => (varChild n p).isSome) &&
         (match opts.lookup n with | some cs => prov cs (ps.filterMap (varChild n)) v | none => false)
     | .opt e _, .osome v => prov e (ps.filterMap optChild) v
     | .opt _ _, .onone => ps.any fun p => match p with | .onone => true | _ => false
     | _, _ => false)
termination_by structural _ _ out => out
def provFields : SFields → List VNode → VFields → Bool
  | .nil, _, .nil => true
  | .cons k s sr, ps, .cons k' v r => k == k' && prov s (ps.filterMap (subChild k)) v && provFields sr ps r
  | _, _, _ => false
termination_by structural _ _ fo => fo
def provList (e : SNode) (ps : List VNode) : Nat → VList → Bool
  | _, .nil => true
  | i, .cons v r => prov e (ps.filterMap (arrChild i)) v && provList e ps (i+1) r
termination_by structural _ lo => lo
def provEntries (e : SNode) (ps : List VNode) : VEntries → Bool
  | .nil => true
  | .cons k v r => (ps.any fun p => (mapChild k p).isSome) && prov e (ps.filterMap (mapChild k)) v && provEntries e ps r
termination_by structural mo => mo
end
end M
