namespace Ctl

structure Cfg where
  nc : Nat
  maxEval : Option Nat
  target : Option Int
  deriving Repr

inductive Res where
  | acc (x : Int) | rej | fail (e : Nat)
  deriving Repr, DecidableEq

inductive Ev where
  | complete (seed : Nat) (r : Res)
  | abortReq
  deriving Repr

structure St where
  pushed : Nat := 0
  accepted : Nat := 0
  rejected : Nat := 0
  failed : Nat := 0          -- ghost: evaluations that ended in an error
  aborted : Bool := false
  err : Option Nat := none
  inflight : List Nat := []
  best : Option Int := none   -- abstract algorithm core, sample size 1
  done : Bool := false
  startsAfterStop : Nat := 0  -- ghost: evaluations started while aborted/done
  deriving Repr

def budgetLeft (c : Cfg) (pushed : Nat) : Bool :=
  match c.maxEval with | none => true | some n => pushed < n

def init (c : Cfg) : St :=
  let k := match c.maxEval with | none => c.nc | some n => min c.nc n
  { pushed := k, inflight := List.range k, done := k == 0 }

def minOpt (b : Option Int) (x : Int) : Option Int :=
  match b with | none => some x | some y => some (if x < y then x else y)

def completedAll (c : Cfg) (acc rej : Nat) : Bool :=
  match c.maxEval with | none => false | some n => decide (n ≤ acc + rej)

def targetHit (c : Cfg) (b : Option Int) : Bool :=
  match c.target, b with | some t, some x => decide (x ≤ t) | _, _ => false

/-- the common tail of the acc / rej branches, factored so it is proved once -/
def afterResult (c : Cfg) (s1 : St) : St :=
  if targetHit c s1.best then { s1 with done := true } else
  if completedAll c s1.accepted s1.rejected then { s1 with done := true } else
  if budgetLeft c s1.pushed && !s1.aborted then
    { s1 with pushed := s1.pushed + 1, inflight := s1.inflight ++ [s1.pushed] }
  else { s1 with done := s1.inflight.isEmpty }

def step (c : Cfg) (s : St) : Ev → St
  | .abortReq => if s.done then s else { s with aborted := true }
  | .complete seed r =>
    if s.done || !(s.inflight.contains seed) then s else
    let infl := s.inflight.erase seed
    match r with
    | .fail e =>
      { s with inflight := infl, failed := s.failed + 1,
               aborted := true, err := if s.aborted then s.err else some e,
               done := infl.isEmpty }
    | .acc x =>
      afterResult c { s with inflight := infl, accepted := s.accepted + 1, best := minOpt s.best x }
    | .rej =>
      afterResult c { s with inflight := infl, rejected := s.rejected + 1 }

def run (c : Cfg) (evs : List Ev) : St := evs.foldl (step c) (init c)

/-- bookkeeping invariant -/
structure Inv (c : Cfg) (s : St) : Prop where
  bal : s.pushed = s.accepted + s.rejected + s.failed + s.inflight.length
  cap : s.inflight.length ≤ c.nc
  bud : ∀ n, c.maxEval = some n → s.pushed ≤ n
  lt  : ∀ x ∈ s.inflight, x < s.pushed
  nd  : s.inflight.Nodup

theorem init_inv (c : Cfg) : Inv c (init c) := by
  unfold init
  cases h : c.maxEval <;> constructor <;> simp_all [List.nodup_range] <;> omega

theorem erase_facts (l : List Nat) (x : Nat) (hx : l.contains x = true) (hn : l.Nodup) :
    (l.erase x).length + 1 = l.length ∧ (l.erase x).Nodup ∧ ∀ y ∈ l.erase x, y ∈ l := by
  have hm : x ∈ l := by simpa using hx
  refine ⟨?_, hn.erase x, fun y hy => List.mem_of_mem_erase hy⟩
  have := List.length_erase_of_mem hm
  have : 0 < l.length := List.length_pos_of_mem hm
  omega

/-- weaker invariant that holds in the middle of a step: one slot has been freed -/
structure InvMid (c : Cfg) (s : St) : Prop where
  bal : s.pushed = s.accepted + s.rejected + s.failed + s.inflight.length
  cap : s.inflight.length + 1 ≤ c.nc
  bud : ∀ n, c.maxEval = some n → s.pushed ≤ n
  lt  : ∀ x ∈ s.inflight, x < s.pushed
  nd  : s.inflight.Nodup

theorem afterResult_inv (c : Cfg) (s1 : St) (h : InvMid c s1) : Inv c (afterResult c s1) := by
  obtain ⟨bal, cap, bud, lt, nd⟩ := h
  unfold afterResult
  split
  · exact ⟨bal, by simp; omega, bud, lt, nd⟩
  · split
    · exact ⟨bal, by simp; omega, bud, lt, nd⟩
    · split
      · rename_i hb
        simp only [Bool.and_eq_true] at hb
        refine ⟨by simp; omega, by simp; omega, ?_, ?_, ?_⟩
        · intro n hn
          have := hb.1
          simp [budgetLeft, hn] at this
          simp; omega
        · intro x hx
          simp at hx
          rcases hx with hx | hx
          · have := lt x hx; simp; omega
          · simp; omega
        · simp only [List.nodup_append, nd, List.nodup_cons, List.not_mem_nil, not_false_eq_true,
            List.nodup_nil, and_self, List.mem_cons, or_false, true_and]
          intro a ha b hb2
          have := lt a ha
          omega
      · exact ⟨bal, by simp; omega, bud, lt, nd⟩

theorem step_inv (c : Cfg) (s : St) (e : Ev) (h : Inv c s) : Inv c (step c s e) := by
  cases e with
  | abortReq =>
    simp only [step]; split
    · exact h
    · exact ⟨h.bal, h.cap, h.bud, h.lt, h.nd⟩
  | complete seed r =>
    by_cases hg : (s.done || !(s.inflight.contains seed)) = true
    · simp only [step, hg, ↓reduceIte]; exact h
    · have hg' : (s.done || !(s.inflight.contains seed)) = false := by simpa using hg
      have hc : s.inflight.contains seed = true := by
        cases hd : s.done <;> simp_all
      obtain ⟨e1, e2, e3⟩ := erase_facts s.inflight seed hc h.nd
      have hbal := h.bal
      have hcap := h.cap
      cases r with
      | acc x =>
        simp only [step, hg', Bool.false_eq_true, ↓reduceIte]
        apply afterResult_inv
        exact ⟨by simp; omega, by simp; omega, h.bud, fun y hy => h.lt y (e3 y hy), e2⟩
      | rej =>
        simp only [step, hg', Bool.false_eq_true, ↓reduceIte]
        apply afterResult_inv
        exact ⟨by simp; omega, by simp; omega, h.bud, fun y hy => h.lt y (e3 y hy), e2⟩
      | fail er =>
        simp only [step, hg', Bool.false_eq_true, ↓reduceIte]
        exact ⟨by simp; omega, by simp; omega, h.bud, fun y hy => h.lt y (e3 y hy), e2⟩

theorem run_inv (c : Cfg) (evs : List Ev) : Inv c (run c evs) := by
  unfold run
  suffices ∀ s, Inv c s → Inv c (evs.foldl (step c) s) from this _ (init_inv c)
  induction evs with
  | nil => intro s h; exact h
  | cons e es ih => intro s h; exact ih _ (step_inv c s e h)

/-- C03 (first half) and C05 (first half), for every event sequence -/
theorem budget_never_exceeded (c : Cfg) (evs : List Ev) (n : Nat) (h : c.maxEval = some n) :
    (run c evs).pushed ≤ n := (run_inv c evs).bud n h
theorem concurrency_bound (c : Cfg) (evs : List Ev) : (run c evs).inflight.length ≤ c.nc :=
  (run_inv c evs).cap

#print axioms run_inv
end Ctl
