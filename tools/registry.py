"""Which theorems and which correspondences decide which property."""

CORRESPONDENCES = {
    # K-ctl: the real async_launch::launch under harness-dictated schedules vs the L6 state machine
    # K-codec: Value::to_json / value_util::from_json_value vs toJson / fromJson
    "codec": {"sub": "codec", "cases": {"quick": 30000, "thorough": 400000}, "shards": {"quick": 16, "thorough": 16}},
    # K-ops: Crossover::crossover / mutation::mutate in operation sequences sharing one PathContext vs crossAcc / mutAcc
    "ops": {"sub": "ops", "cases": {"quick": 8000, "thorough": 24000}, "shards": {"quick": 16, "thorough": 16}},
    # K-algo: the real AlgoContext driven directly; every in-run crossover/mutation call (hook H3) vs crossAcc / mutAcc
    "algo": {"sub": "algo", "cases": {"quick": 480, "thorough": 4000}, "shards": {"quick": 16, "thorough": 16}},
    # K-spec: spec_util::from_yaml_str on generated YAML text vs build
    "spec": {"sub": "spec", "cases": {"quick": 30000, "thorough": 300000}, "shards": {"quick": 16, "thorough": 16}},
    # K-proc: the real cambrian binary with scripted objprog children (release files, /proc scan) vs L7/L8/L9
    "proc": {"sub": "proc", "cases": {"quick": 192, "thorough": 1600}, "shards": {"quick": 16, "thorough": 16}},
    # K-sel / K-live / K-mix / benchmark battery (C17): select_ref frequencies vs selPmf, mutation liveness, mixed offspring, known-optimum runs
    "dir": {"sub": "dir", "cases": {"quick": 336, "thorough": 4000}, "shards": {"quick": 16, "thorough": 16}},
    # twin runs (C09): the same scripted run twice in one process and once in a fresh process
    "twin": {"sub": "twin", "cases": {"quick": 96, "thorough": 600}, "shards": {"quick": 16, "thorough": 16}},
    # K-pop: the real AlgoContext driven directly; the whole ranked population compared with the L5 model after every operation
    "pop": {"sub": "pop", "cases": {"quick": 400, "thorough": 4000}, "shards": {"quick": 16, "thorough": 16}},
    # K-run: whole runs through sync_launch::launch (threaded and current-thread launcher) with generated criteria lists vs the launch-layer model
    "run": {"sub": "run", "cases": {"quick": 480, "thorough": 6000}, "shards": {"quick": 16, "thorough": 16}},
    "ctl": {"sub": "ctl", "cases": {"quick": 6000, "thorough": 40000}, "shards": {"quick": 16, "thorough": 16}},
}


def replay_sub(path):
    """which harness subcommand a replay file belongs to (first line's mode)"""
    import json
    try:
        first = json.loads(open(path).readline())
        mode = first.get("mode", "")
        if mode == "ops" and first.get("inRun"):
            return "algo"
        if mode in ("sel", "selopt", "live", "mix", "bench"):
            return "dir"
        return mode
    except Exception:
        return ""


CTL_TRUST = [
    "model L6 (Controller.lean) and L5 (Algo.lean) are hand-written; tied to controller.rs/algorithm.rs by correspondence K-ctl (real async_launch::launch under scripted schedules)",
    "tokio/futures scheduling is outside the model: an event is 'the select! loop takes this completion / abort signal'",
]

OPS_TRUST = [
    "code-shaped, oracle-driven models of both operators (MutGen.lean, CrossGen.lean, KeySelect.lean: every random decision of mutation.rs / crossover.rs is an oracle field) are PROVED to refine the acceptors (C13_refine, C12_refine, C12_keys_refine), so the acceptors are not tighter than the algorithms they describe; the algorithm models themselves are hand-written from the source",
    "the acceptors mutAcc / crossAcc (Mutation.lean, Crossover.lean) are specifications of what the operators may produce, written by hand; the real mutation::mutate and Crossover::crossover are checked to refine them by correspondence K-ops (operation sequences on one shared PathContext, parameter corners 0 / (0,1) / 1, 1..8 parents)",
    "rand / rand_distr are outside the model: only the class of each probability (0, in between, 1) and 'a sample is some f64' are assumed; rescaling factors are the constant 1.0 outside cfg(test) (source lint L3)",
]

CODEC_TRUST = [
    "model L1/L2 (Spec.lean, Json.lean) is hand-written; tied to value.rs/value_util.rs by correspondence K-codec (round trips, both map encodings, single-defect corruptions of values and of JSON, arbitrary JSON)",
    "serde_json text <-> tree is outside the model (the model starts at the serde_json::Value tree); float law FL-cast (i64 -> f64 is total and finite)",
]

SPEC_TRUST = [
    "model L3 (SpecParse.lean) is hand-written, its whitelists / built-in names / typeDef prefixes are regenerated from spec_util.rs on every run; tied to the code by correspondence K-spec (rendered well-formed specs with hoisted, shadowed, chained typeDefs; single-rule violations; attribute soups; keyword-like member names)",
    "serde_yaml text -> tree is outside the model (the model starts at the serde_yaml::Value tree; the harness always goes through the real text path)",
]

PROC_TRUST = [
    "models L7/L8/L9 (Process.lean: report writer, per-evaluation machine, child result schema, CLI decision logic) are hand-written; tied to process.rs, sync_launch.rs and bin/cambrian.rs by correspondence K-proc (the real binary with scripted children)",
    "OS assumptions: a spawned child leads a fresh process group; killpg(SIGKILL) ends every member of the group; members stay in the group unless they call setsid/setpgid; dropping a tokio Child does not kill it",
    "clap, the file system, serde_json text parsing, tokio process/time drivers are outside the model; the /proc scan after each run is a test",
]

PROPS = {
    "C09": {
        "modules": ["CambrianModel.Props.C09"],
        "theorems": ["Cambrian.Props.C09_fun", "Cambrian.Props.C09_causal", "Cambrian.Props.C09_noop", "Cambrian.Props.C09_noop_done",
                     "Cambrian.Props.C09_seeds_ids"],
        "correspondences": ["twin", "ctl", "run"],
        "trusted": CTL_TRUST + ["the stream of random decisions (StdRng::seed_from_u64(0) threaded through crossover/mutation/meta adaptation) and FxHashMap iteration order are outside the model: decided by the twin-run correspondence and source lint L2"],
        "assumptions": ["partial: 'the real random stream is a function of the inputs' is a differential test (twin runs in-process and cross-process), not a theorem"],
    },
    "C17": {
        "modules": ["CambrianModel.Props.C17"],
        "theorems": ["Cambrian.Props.C17_sel_dist", "Cambrian.Props.C17_sel_sum", "Cambrian.Props.C17_sel_nonneg", "Cambrian.Props.C17_sel_mono",
                     "Cambrian.Props.C17_live_mut", "Cambrian.Props.C17_live_bool"],
        "correspondences": ["dir", "ops", "algo"],
        "trusted": OPS_TRUST + ["selection.rs is modelled exactly over Rat (selDist); tied to the code by K-sel (4e4 / 4e5 draws per case, 6-sigma band, pressures k/16)",
                                "the benchmark battery (sphere 2/5/10-D at three scales, optimum on a bound, integer grid, one-max, map size, variant/enum choice; nc 1 and 4, two completion orders) is a deterministic regression run against the thresholds of Sel.goals: a test"],
        "assumptions": ["partial: the benchmark clause and the 'within a few attempts' / 'mixed offspring' clauses are experiments (64 attempts each)"],
    },
    "C07": {
        "modules": ["CambrianModel.Props.C07"],
        "theorems": ["Cambrian.Props.C07_finished_not_killed", "Cambrian.Props.C07_timeout", "Cambrian.Props.C07_timeout_reaped", "Cambrian.Props.C07_paths",
                     "Cambrian.Props.C07_accounted", "Cambrian.Props.C07_dropped", "Cambrian.Props.C07_nothing_dropped_after_abort"],
        "correspondences": ["proc"],
        "trusted": PROC_TRUST + CTL_TRUST,
        "assumptions": ["partial: kernel signal delivery / reaping timing cannot be exhibited by the model; the /proc scan (1 s grace, zombies ignored) is a test"],
    },
    "C14": {
        "modules": ["CambrianModel.Props.C14"],
        "theorems": ["Cambrian.Props.C14_counts", "Cambrian.Props.C14_counts_always", "Cambrian.Props.C14_items",
                     "Cambrian.Props.C14_file", "Cambrian.Props.C14_meta_probs", "Cambrian.Props.C14_meta_scale", "Cambrian.Props.C14_row_roundtrip", "Cambrian.Props.C14_row_order", "Cambrian.Props.C14_drained", "Cambrian.Props.C14_drained_step"],
        "correspondences": ["proc", "ctl", "algo", "run"],
        "trusted": PROC_TRUST + CTL_TRUST + ["float law FL-mul-sign (product of a number >= 0 and a positive finite factor is a number >= 0)"],
        "assumptions": ["float law FL-mul-sign for the observed products; the clamp of the mutation scale is an extracted source fact (Generated.scaleClamped)"],
    },
    "C15": {
        "modules": ["CambrianModel.Props.C15"],
        "theorems": ["Cambrian.Props.C15_budget_bound", "Cambrian.Props.C15_no_wait_on_nothing", "Cambrian.Props.C15_nospin",
                     "Cambrian.Props.C15_prob_ok", "Cambrian.Props.C15_enum_other", "Cambrian.Props.C15_variant_init", "Cambrian.Props.C15_to_json_safe", "Cambrian.Props.C15_run_jsonable"],
        "correspondences": ["proc", "ctl", "ops", "algo", "spec", "codec", "run"],
        "trusted": PROC_TRUST + CTL_TRUST + ["panic-site inventory (tools/expected_sites.json, lint L1): sites not covered by a theorem are trusted with the reasons given in DESIGN.md"],
        "assumptions": ["each evaluation ends by itself, by its time limit or on the abort request", "float laws FL-mean-fin, FL-mul-sign",
                        "partial: memory exhaustion, stack depth, third-party code are outside the model"],
    },
    "C16": {
        "modules": ["CambrianModel.Props.C16"],
        "theorems": ["Cambrian.Props.C16_argv", "Cambrian.Props.C16_argv_last_two", "Cambrian.Props.C16_classify", "Cambrian.Props.C16_accept_iff",
                     "Cambrian.Props.C16_invalid_before_start", "Cambrian.Props.C16_outdir_refused", "Cambrian.Props.C16_success",
                     "Cambrian.Props.C16_child_failure", "Cambrian.Props.C16_criteria_conflict", "Cambrian.Props.C16_criteria_budget",
                     "Cambrian.Props.C16_schema", "Cambrian.Props.C16_schema_value", "Cambrian.Props.C16_schema_array"],
        "correspondences": ["proc", "run"],
        "trusted": PROC_TRUST,
        "assumptions": ["partial: the glue (argument parsing, files, spawning) is compared on generated scenarios, not proved"],
    },
    "C01": {
        "modules": ["CambrianModel.Props.C01"],
        "theorems": ["Cambrian.Props.C01_init", "Cambrian.Props.C01_guess", "Cambrian.Props.C01_cross",
                     "Cambrian.Props.C01_mut", "Cambrian.Props.C01_run", "Cambrian.Props.C01_report", "Cambrian.Props.C01_accepted_wf", "Cambrian.Props.C01_offspring_alg", "Cambrian.Props.C01_run_alg"],
        "correspondences": ["ops", "algo", "codec", "spec", "run"],
        "trusted": OPS_TRUST + CODEC_TRUST + CTL_TRUST,
        "assumptions": ["map keys are machine usize values (keysBounded)", "float law FL-cast for the guess reader",
                        "C01_run: every offspring the random decisions supply is one the operators can produce (LegalFrom) - checked on every in-run operator call by K-algo"],
    },
    "C10": {
        "modules": ["CambrianModel.Props.C10"],
        "theorems": ["Cambrian.Props.C10_total", "Cambrian.Props.C10_wf", "Cambrian.Props.C10_init_conf",
                     "Cambrian.Props.C10_roundtrip", "Cambrian.Props.C10_prefixes_agree", "Cambrian.Props.C10_scope_shadow",
                     "Cambrian.Props.C10_scope_outer", "Cambrian.Props.C10_unknown_type"],
        "correspondences": ["spec"],
        "trusted": SPEC_TRUST,
        "assumptions": ["serde_yaml trees: the as_i64 view of a number is in the i64 range (yvalid)"],
    },
    "C12": {
        "modules": ["CambrianModel.Props.C12"],
        "theorems": ["Cambrian.Props.C12_prov", "Cambrian.Props.C12_single", "Cambrian.Props.C12_same", "Cambrian.Props.C12_keys_refine", "Cambrian.Props.C12_refine", "Cambrian.Props.C12_prov_alg", "Cambrian.Props.C12_same_alg"],
        "correspondences": ["ops", "algo"],
        "trusted": OPS_TRUST,
        "assumptions": ["float laws used: none", "parents conform to a well-formed spec"],
    },
    "C13": {
        "modules": ["CambrianModel.Props.C13"],
        "theorems": ["Cambrian.Props.C13_id", "Cambrian.Props.C13_step", "Cambrian.Props.C13_init_variant",
                     "Cambrian.Props.C13_init_optional", "Cambrian.Props.C13_refine", "Cambrian.Props.C13_id_alg", "Cambrian.Props.C13_step_alg", "Cambrian.Props.C13_key_fresh", "Cambrian.Props.C13_key_once", "Cambrian.Props.C13_key_form"],
        "correspondences": ["ops", "algo"],
        "trusted": OPS_TRUST,
        "assumptions": ["float laws used: none", "the input conforms to a well-formed spec",
                        "key freshness is the local fact 'not a key of the input map' (after fix aa67b39 the key manager registers the map's keys before allocating)"],
    },
    "C11": {
        "modules": ["CambrianModel.Props.C11"],
        "theorems": ["Cambrian.Props.C11_reject", "Cambrian.Props.C11_rt_json", "Cambrian.Props.C11_rt_value",
                     "Cambrian.Props.C11_init_conf", "Cambrian.Props.C11_same", "Cambrian.Props.C11_before"],
        "correspondences": ["codec", "ctl", "twin", "run", "proc"],
        "trusted": CODEC_TRUST + CTL_TRUST,
        "assumptions": ["JSON documents: integers answered by as_i64 are in the i64 range, floats are finite, arrays have at most usize::MAX elements (jvalid, jsized)",
                        "round trip is stated for the model's own field order of map objects (numeric key order); the real serde_json order (string order) is covered by K-codec"],
    },
    "C02": {
        "modules": ["CambrianModel.Props.C02"],
        "theorems": ["Cambrian.Props.C02_member", "Cambrian.Props.C02_min1", "Cambrian.Props.C02_nonempty1",
                     "Cambrian.Ctl.run_popInv"],
        "correspondences": ["ctl", "pop", "run"],
        "trusted": CTL_TRUST + ["float law FL-mean1 (mean of one value is that value; exercised by cvh selftest); for sample size > 1 the mean is an observed value"],
        "assumptions": ["objective values compared through their order codes (-0.0 = 0.0)"],
    },
    "C08": {
        "modules": ["CambrianModel.Props.C08"],
        "theorems": ["Cambrian.Props.C08_seeds", "Cambrian.Props.C08_same", "Cambrian.Props.C08_count",
                     "Cambrian.Props.C08_ids", "Cambrian.Props.C08_first", "Cambrian.Props.C08_config_pos"],
        "correspondences": ["ctl", "pop", "codec", "spec", "run", "proc"],
        "trusted": CTL_TRUST,
        "assumptions": ["float laws used: none", "sample size >= 1 (AlgoConfigBuilder rejects 0)"],
    },
    "C04": {
        "modules": ["CambrianModel.Props.C04"],
        "theorems": ["Cambrian.Props.C04_abort_request", "Cambrian.Props.C04_no_start_after_abort",
                     "Cambrian.Props.C04_nothing_after_return", "Cambrian.Props.C04_broadcast_once",
                     "Cambrian.Props.C04_target", "Cambrian.Props.C04_drain", "Cambrian.Props.C04_returns_best",
                     "Cambrian.Props.C04_one_abort_request", "Cambrian.Props.C04_terminate_first", "Cambrian.Props.C04_terminate_again",
                     "Cambrian.Props.C04_time_limit_once", "Cambrian.Props.C04_criteria_kept"],
        "correspondences": ["ctl", "proc", "run"],
        "trusted": CTL_TRUST,
        "assumptions": ["float laws used: none", "'delivered' = taken by the controller loop; a request racing with a completion may be honoured one completion later"],
    },
    "C06": {
        "modules": ["CambrianModel.Props.C06"],
        "theorems": ["Cambrian.Props.C06_first", "Cambrian.Props.C06_after_abort_keeps_error", "Cambrian.Props.C06_child_not_ok",
                     "Cambrian.Props.C06_returns_once_ended", "Cambrian.Props.C06_failure_iff", "Cambrian.Props.C06_failure_kind"],
        "correspondences": ["ctl", "proc", "run"],
        "trusted": CTL_TRUST,
        "assumptions": ["float laws used: none"],
    },
    "C03": {
        "modules": ["CambrianModel.Props.C03"],
        "theorems": ["Cambrian.Props.C03_le", "Cambrian.Props.C03_zero", "Cambrian.Props.C03_starts_eq_pushed",
                     "Cambrian.Props.C03_exact", "Cambrian.Props.C03_exact_report"],
        "correspondences": ["ctl", "run", "proc"],
        "trusted": CTL_TRUST,
        "assumptions": ["float laws used: none"],
    },
    "C05": {
        "modules": ["CambrianModel.Props.C05"],
        "theorems": ["Cambrian.Props.C05_le", "Cambrian.Props.C05_inflight_seeds_nodup", "Cambrian.Props.C05_unique", "Cambrian.Props.C05_exact", "Cambrian.Props.C05_config_kept", "Cambrian.Props.C05_config_default"],
        "correspondences": ["ctl", "pop", "run", "proc"],
        "trusted": CTL_TRUST,
        "assumptions": ["float laws used: none"],
    },
}
