#!/bin/bash
# usage: seed_check.sh <patch> <prop> [<prop>...]   - apply a seeded change to /repo, run the given checks, undo it
PATCH=$1; shift
cd /verif
git -C /repo status --short | grep -v '^??' && { echo "/repo not clean"; exit 2; }
git -C /repo apply $PATCH || exit 3
for p in "$@"; do VERIF_NO_ESCALATE=${VERIF_NO_ESCALATE:-} ./check $p --tier quick 2>&1 | grep -E "VIOLATION|KNOWN|failing input|broken:|disagreement|^C[0-9][0-9] quick" | cut -c1-400; done
git -C /repo checkout -- .
