#!/bin/bash
# usage: tools/seed_matrix.sh [ids...]   - for every seeded change: apply it to $VERIF_REPO (default /repo), run ALL
# checks once (no escalation), undo it; one line per (change, property) in build/seed_matrix.tsv
cd "$(dirname "$0")/.."
REPO=${VERIF_REPO:-/repo}
OUT=build/seed_matrix.tsv
mkdir -p build; : > $OUT
ids="$@"; [ -z "$ids" ] && ids=$(ls seeded)
props=$(python3 -c "import sys; sys.path.insert(0,'tools'); import registry; print(' '.join(sorted(registry.PROPS)))")
for id in $ids; do
  git -C $REPO apply $PWD/seeded/$id/patch.diff || { echo "$id does not apply" >> $OUT; continue; }
  for p in $props; do
    r=$(VERIF_NO_ESCALATE=1 ./check $p --tier quick 2>&1 | grep -E "^VIOLATION" | head -1)
    case "$r" in
      *no-failing-input-found*) v=tie ;;
      VIOLATION*) v=input ;;
      *) v=- ;;
    esac
    printf "%s\t%s\t%s\n" $id $p $v >> $OUT
  done
  git -C $REPO apply -R $PWD/seeded/$id/patch.diff
done
