#!/bin/bash
# runs every claimed check at the quick tier on the current tree; prints one line per check and the alarms
cd "$(dirname "$0")/.."
props=$(python3 -c "import sys; sys.path.insert(0,'tools'); import registry; print(' '.join(sorted(registry.PROPS)))")
bad=0
for p in $props; do
  out=$(./check $p --tier quick 2>&1); rc=$?
  echo "$out" | grep -E "^C[0-9][0-9] quick" | cut -c1-160
  if [ $rc -ne 0 ] || echo "$out" | grep -q "^VIOLATION"; then bad=$((bad+1)); echo "$out" | grep -E "VIOLATION|failing input|broken:|disagreement" | head -5 | cut -c1-300; fi
done
echo "alarms: $bad"
