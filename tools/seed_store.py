#!/usr/bin/env python3
"""seed_store.py <round-dir> <results-dir> <first-k> <props...>: copy verified seeded changes into seeded/<P>-<k> with meta.json"""
import os, json, shutil, sys
src_root, res_root, first_k = sys.argv[1], sys.argv[2], int(sys.argv[3])
for P in sys.argv[4:]:
    for K in (1, 2):
        src = "%s/%s/%d" % (src_root, P, K)
        if not os.path.exists(src + "/patch.diff"):
            continue
        sid = "%s-%d" % (P, first_k + K - 1)
        dst = "/verif/seeded/" + sid
        os.makedirs(dst, exist_ok=True)
        for f in os.listdir(src):
            fp = os.path.join(src, f)
            if os.path.isdir(fp):
                shutil.copytree(fp, os.path.join(dst, f), dirs_exist_ok=True)
            else:
                shutil.copy(fp, dst)
        rd = lambda ext: open("%s/%s_%d.%s" % (res_root, P, K, ext)).read() if os.path.exists("%s/%s_%d.%s" % (res_root, P, K, ext)) else ""
        notes = open(src + "/notes.md").read() if os.path.exists(src + "/notes.md") else ""
        ver, chk = rd("verify"), rd("check")
        fi = [l.strip() for l in chk.splitlines() if "failing input" in l]
        meta = {"id": sid, "breaks_property": P, "needs_to_manifest": "see notes.md (written by the author of the change)",
                "notes_excerpt": notes[:1500],
                "confirmed": {"where": "scratch git worktree of /repo under /tmp (removed)",
                              "commands": ["tools/seed_verify.sh %s %d  (demo passes on HEAD; with patch.diff applied: cargo build --features verif-hooks, cargo test --workspace --no-fail-fast --offline passes, demo fails)" % (P, K)],
                              "log": ver[-1800:]},
                "check_run": {"command": "git -C /repo apply seeded/%s/patch.diff && ./check %s --tier quick ; git -C /repo checkout -- ." % (sid, P),
                              "result": ("VIOLATION (no failing input)" if "no-failing-input-found" in chk else "VIOLATION") if "VIOLATION" in chk else "not detected",
                              "failing_input": fi[0] if fi else None}}
        json.dump(meta, open(dst + "/meta.json", "w"), indent=1)
        print(sid, meta["check_run"]["result"], (meta["check_run"]["failing_input"] or "")[:100])
