#!/usr/bin/env python3
"""writes MANIFEST.json from tools/registry.py + tools/manifest_text.py (so the manifest never drifts from the registry)"""
import json, os, sys
ROOT = os.path.dirname(os.path.dirname(os.path.abspath(__file__)))
sys.path.insert(0, os.path.join(ROOT, "tools"))
import registry, manifest_text

repo_commits = manifest_text.HOOK_COMMITS
checks = []
for pid in sorted(registry.PROPS):
    t = manifest_text.TEXT[pid]
    checks.append({
        "property_id": pid,
        "quick_cmd": "./check %s --tier quick" % pid,
        "thorough_cmd": "./check %s --tier thorough" % pid,
        "evidence_file": "/verif/evidence/%s.json" % pid,
        "replay_cmd_template": "./check %s --replay {path}" % pid,
        "engine": "lean4-model+cvh",
        "level_claimed": {"category": "proof", "text": t["text"], "design_ref": t["design_ref"]},
        "level_note": t["note"],
        "technique": t["technique"],
    })
all_ids = [json.loads(l)["id"] for l in open(os.path.join(ROOT, "properties.jsonl"))]
na = [{"property_id": i, "reason": manifest_text.NOT_YET.get(i, "check not built yet in this framework (planned, see DESIGN.md section 7)")}
      for i in all_ids if i not in registry.PROPS]
m = {
    "version": 1,
    "setup_cmd": "./check --setup",
    "hooks": {
        "guard": "cargo feature verif-hooks",
        "enable": "the harness crate /verif/harness depends on cambrian by path with features = [\"verif-hooks\"]; cargo build --release --offline in /verif/harness rebuilds /repo's working tree with the hooks on",
        "baseline_off_cmd": "cd /repo && cargo test --workspace --no-fail-fast --offline",
        "source_commits": repo_commits,
        "add_only": True,
    },
    "engines": [{"name": "lean4-model+cvh", "path": "/verif/lean , /verif/harness , /verif/check",
                 "serves_properties": sorted(registry.PROPS),
                 "kind_free_text": "Lean 4 model with theorems (lake project CambrianModel), compiled model driver cmdriver, Rust correspondence harness cvh calling the real code, python orchestrator"}],
    "checks": checks,
    "not_applicable": na,
    "notes": manifest_text.NOTES,
}
json.dump(m, open(os.path.join(ROOT, "MANIFEST.json"), "w"), indent=1)
print("MANIFEST.json: %d checks, %d not claimed" % (len(checks), len(na)))
