#!/usr/bin/env python3
"""seed_store_groups.py <round-out-dir> <results-dir> <groups...>: store verified seeded changes that were assigned by
source file / theme (notes.md's first line names the property) as seeded/<P>-<next free k> with meta.json"""
import os, json, shutil, sys, re
src_root, res_root = sys.argv[1], sys.argv[2]
def next_k(P):
    ks = [int(d.split("-")[1]) for d in os.listdir("/verif/seeded") if d.startswith(P + "-")]
    return max(ks + [0]) + 1
for G in sys.argv[3:]:
    for K in (1, 2):
        src = "%s/%s/%d" % (src_root, G, K)
        if not os.path.exists(src + "/patch.diff") or not os.path.exists(src + "/notes.md"):
            continue
        notes = open(src + "/notes.md").read()
        m = re.match(r"PROPERTY:\s*(C\d\d)", notes)
        if not m:
            print(G, K, "no property line"); continue
        P = m.group(1)
        rd = lambda ext: open("%s/%s_%d.%s" % (res_root, G, K, ext)).read() if os.path.exists("%s/%s_%d.%s" % (res_root, G, K, ext)) else ""
        ver, chk = rd("verify"), rd("check")
        if "VIOLATION" not in chk:
            print(G, K, P, "NOT DETECTED - not stored"); continue
        sid = "%s-%d" % (P, next_k(P))
        dst = "/verif/seeded/" + sid
        os.makedirs(dst, exist_ok=True)
        for f in os.listdir(src):
            fp = os.path.join(src, f)
            if os.path.isdir(fp):
                shutil.copytree(fp, os.path.join(dst, f), dirs_exist_ok=True)
            else:
                shutil.copy(fp, dst)
        fi = [l.strip() for l in chk.splitlines() if "failing input" in l]
        meta = {"id": sid, "breaks_property": P, "assigned_by": "%s (round directory %s)" % (G, os.path.basename(src_root)),
                "needs_to_manifest": "see notes.md (written by the author of the change)",
                "notes_excerpt": notes[:1500],
                "confirmed": {"where": "scratch git worktree of /repo under /tmp (removed)",
                              "commands": ["tools/seed_verify.sh %s %d  (demo passes on HEAD; with patch.diff applied: cargo build --features verif-hooks, cargo test --workspace --no-fail-fast --offline passes, demo fails)" % (G, K)],
                              "log": ver[-1800:]},
                "check_run": {"command": "git -C /repo apply seeded/%s/patch.diff && ./check %s --tier quick ; git -C /repo checkout -- ." % (sid, P),
                              "result": "VIOLATION (no failing input)" if "no-failing-input-found" in chk else "VIOLATION",
                              "failing_input": fi[0] if fi else None}}
        json.dump(meta, open(dst + "/meta.json", "w"), indent=1)
        print(G, K, "->", sid, meta["check_run"]["result"], (meta["check_run"]["failing_input"] or "")[:110])
