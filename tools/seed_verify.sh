#!/bin/bash
# usage: seed_verify.sh <prop> <k>   - confirm a seeded change in the scratch worktree /tmp/wt_<prop>:
#   demo passes on HEAD, existing suite passes with the patch, demo fails with the patch
P=$1; K=$2; WT=${SEED_WT:-/tmp/wt_$P}; OUT=${SEED_OUT:-/tmp/seed_out}/$P/$K
cd $WT || exit 2
git checkout -q -- . ; rm -f tests/seed_demo*.rs
for f in $OUT/*.rs; do cp $f tests/; done
for f in $OUT/*.sh $OUT/*.py; do [ -e "$f" ] && cp $f tests/ ; done
demos=$(cd $OUT; ls *.rs | sed 's/\.rs$//')
FEAT=""; grep -q verif_hooks $OUT/*.rs 2>/dev/null && FEAT="--features verif-hooks"
echo "== HEAD: demo must pass"
for d in $demos; do timeout 900 cargo test --offline $FEAT --test $d 2>&1 | grep -E "^test result|FAILED|panicked|error(\[|:)" | head -5; done
git apply $OUT/patch.diff || { echo "PATCH DOES NOT APPLY"; exit 3; }
echo "== PATCHED: hooks build"
cargo build --offline --features verif-hooks 2>&1 | grep -E "^error|warning: unused" | head -3
echo "== PATCHED: existing suite (demo excluded)"
for d in $demos; do mv tests/$d.rs $WT/.hold_$d.rs; done
timeout 1800 cargo test --workspace --no-fail-fast --offline 2>&1 | grep -E "^test result|FAILED|failed" | head -12
for d in $demos; do mv $WT/.hold_$d.rs tests/$d.rs; done
echo "== PATCHED: demo must fail"
for d in $demos; do timeout 900 cargo test --offline $FEAT --test $d 2>&1 | grep -E "^test result|FAILED" | head -5; done
git checkout -q -- . ; rm -f tests/seed_demo*.rs
