#!/usr/bin/env python3
"""Regenerates lean/CambrianModel/Model/Generated.lean (constants, whitelists, guards) and runs the source lints,
from /repo/src as it is now.  Prints a line `TIE-BROKEN <what>` for every anchor that is lost or lint that hits
(a broken tie between model and source: handled by ./check like a broken proof obligation).
"""
import os, re, sys, json

ROOT = os.path.dirname(os.path.dirname(os.path.abspath(__file__)))
REPO = os.environ.get("VERIF_REPO", "/repo")
SRC = os.path.join(REPO, "src")
OUT = os.path.join(ROOT, "lean", "CambrianModel", "Model", "Generated.lean")
broken = []   # (properties concerned | "*", message)
CUR = ["*"]


def brk(msg, props=None):
    broken.append((props or CUR[0], msg))


def read(name):
    try:
        return open(os.path.join(SRC, name)).read()
    except OSError:
        brk("source file missing: " + name, "*")
        return ""


def strip_item_after(src, attr_re):
    """remove every item introduced by an attribute matching attr_re (the item ends at its matching `}` or `;`)"""
    out = src
    while True:
        m = re.search(attr_re, out)
        if not m:
            return out
        i = m.end()
        # find the end of the item: first `;` before any `{`, or the matching brace
        j = i
        depth = 0
        end = None
        while j < len(out):
            c = out[j]
            if c == "{":
                depth += 1
            elif c == "}":
                depth -= 1
                if depth == 0:
                    end = j + 1
                    break
            elif c == ";" and depth == 0:
                end = j + 1
                break
            j += 1
        if end is None:
            return out[:m.start()]
        out = out[:m.start()] + out[end:]


def strip_tests(src):
    """drop every `#[cfg(test)]` item and every cfg-gated verification hook"""
    src = strip_item_after(src, r"#\[cfg\(test\)\]")
    src = strip_item_after(src, r"#\[cfg\(feature = \"verif-hooks\"\)\]")
    return src


def find(pattern, text, what, default=None, flags=re.S, props="*"):
    m = re.search(pattern, text, flags)
    if not m:
        brk("anchor lost: " + what, props)
        return default
    return m.group(1)


algorithm = read("algorithm.rs")
controller = read("controller.rs")
sync_launch = read("sync_launch.rs")
spec_util = read("spec_util.rs")
meta_adapt = read("meta_adapt.rs")
detailed = read("detailed_report.rs")

max_pop = find(r"const STATIC_PARAMS[^;]*?max_pop_size:\s*(\d+)", algorithm, "STATIC_PARAMS.max_pop_size", "100", props="C02,C08,C05,C14")
min_reeval = find(r"const STATIC_PARAMS[^;]*?min_pop_size_for_reeval:\s*(\d+)", algorithm, "STATIC_PARAMS.min_pop_size_for_reeval", "20", props="C02,C08,C05")
chan = find(r"const CHANNEL_BUF_SIZE:\s*usize\s*=\s*(\d+)", sync_launch, "CHANNEL_BUF_SIZE", "256", props="C14")
bcap = find(r"async_broadcast::broadcast::<\(\)>\((\d+)\)", controller, "abort broadcast capacity", "1", props="C04,C15")
floor = find(r"META_PARAMS_MUTATION_RESCALE_FLOOR:\s*f64\s*=\s*([0-9.e+-]+)", meta_adapt, "RESCALE_FLOOR", "1e-12", props="C14,C15")
ceil = find(r"META_PARAMS_MUTATION_RESCALE_CEIL:\s*f64\s*=\s*([0-9.e+-]+)", meta_adapt, "RESCALE_CEIL", "1e12", props="C14,C15")

process_rs = read("process.rs")
reap_echild_ok = bool(re.search(r"wait::waitpid\(pgid,\s*None\)\s*\{[^}]*Ok\(_\)\s*\|\s*Err\(Errno::ECHILD\)\s*=>\s*Ok\(\(\)\)", strip_tests(process_rs), re.S))
scale_clamped = bool(re.search(r"fn rescale_scale\(.*?\{[^}]*\.clamp\(\s*f64::MIN_POSITIVE\s*,\s*f64::MAX\s*\)", strip_tests(meta_adapt), re.S)) and \
    bool(re.search(r"mutation_scale:\s*rescale_scale\(", strip_tests(meta_adapt)))
path_rs = strip_tests(read("path.rs"))
mutation_rs = strip_tests(read("mutation.rs"))
# KeyManager: the counter only moves up (`next_key = next_key.max(key + 1)`), `next_key()` hands out the counter and
# increments it; `mutate_anon_map` registers every existing key of the map before it asks for a new one
key_seen_max = bool(re.search(r"fn on_key_seen\(&mut self, key: usize\)\s*\{\s*self\.next_key = self\.next_key\.max\(key \+ 1\);\s*\}", path_rs))
key_next_counter = bool(re.search(r"fn next_key\(&mut self\) -> usize\s*\{\s*let result = self\.next_key;\s*self\.next_key \+= 1;\s*result\s*\}", path_rs))
key_registered_first = bool(re.search(r"for existing_key in value_map\.keys\(\)\s*\{\s*path_node_ctx\.on_key_seen\(\*existing_key\);\s*\}\s*let key = path_node_ctx\.next_key\(\);", mutation_rs))
meta_rs = strip_tests(read("meta.rs"))
zero_ss_rejected = bool(re.search(r"if algo_config\.individual_sample_size == 0\s*\{\s*return Err\(Error::ZeroSampleSize\);", meta_rs))
zero_nc_rejected = bool(re.search(r"if algo_config\.num_concurrent == 0\s*\{\s*return Err\(Error::ZeroNumConcurrent\);", meta_rs))
default_ss = find(r"const DEFAULT_IND_SAMPLE_SIZE: usize = (\d+);", meta_rs, "DEFAULT_IND_SAMPLE_SIZE", "1", props="C08")
default_nc = find(r"num_concurrent: self\.num_concurrent\.unwrap_or\((\d+)\)", meta_rs, "default num_concurrent", "1", props="C05")
# get_child_result: the exit status is judged by `ExitStatus::success()` (false for a death by signal), before the output is parsed
gcr = find(r"fn get_child_result\((.*?)\n\}", strip_tests(process_rs), "fn get_child_result", "", props="C06,C16")
status_by_success = bool(re.search(r"if output\.status\.success\(\)\s*\{", gcr or "")) and \
    ((gcr or "").find("output.status.success()") < ((gcr or "").find("from_slice") if "from_slice" in (gcr or "") else 10**9))
# ... and only a JSON object is parsed as a result (serde would read the struct from an array as well; fix b0d082e)
child_objects_only = (bool(re.search(r"let is_object = [^;]*==\s*Some\(&b'\{'\)", gcr or "")) and bool(re.search(r"\.filter\(\|_\|\s*is_object\)", gcr or ""))) \
    or bool(re.search(r"\.is_object\(\)", gcr or ""))
builtins = find(r"const BUILT_IN_TYPE_NAMES:[^=]*=\s*&\[(.*?)\];", spec_util, "BUILT_IN_TYPE_NAMES", "", props="C10")
builtins = re.findall(r'"([^"]*)"', builtins or "")


def whitelist(fn):
    body = find(r"fn %s\(.*?\{(.*?)\n\}" % fn, spec_util, "fn " + fn, "", props="C10")
    wl = find(r"check_for_unexpected_attributes\(\s*mapping,\s*\[(.*?)\]", body or "", "whitelist of " + fn, "", props="C10")
    return re.findall(r'"([^"]*)"', wl or "")


wl = {k: whitelist(f) for k, f in [("real", "build_real"), ("int", "build_int"), ("bool", "build_bool"),
                                   ("array", "build_array"), ("anonMap", "build_anon_map"), ("enum", "build_enum"),
                                   ("optional", "build_optional"), ("const", "build_const")]}

# the two passes of build_sub must test the same prefix for type definitions
sub_body = find(r"fn build_sub\(.*?\{(.*?)\n\}", spec_util, "fn build_sub", "", props="C10")
prefixes = re.findall(r'starts_with\("([^"]*)"\)', sub_body or "")
if len(prefixes) < 2:
    brk("anchor lost: typeDef prefix tests of build_sub", "C10")
def_prefix = prefixes[0] if prefixes else "typeDef "
member_prefix = prefixes[-1] if prefixes else "typeDef "

# select! branch guards of the controller loop
loop_body = find(r"loop \{\s*tokio::select! \{(.*?)\n    \}\n", controller, "controller select! loop", "", props="C04,C15")
abort_guard = bool(re.search(r"in_abort_signal_recv\s*,\s*if\s*!\s*abort_signal_received\s*=>", loop_body or ""))
completion_guard = bool(re.search(r"evaled_individuals\.try_next\(\)\s*,\s*if\b", loop_body or ""))
n_branches = len(re.findall(r"=>\s*\{", (loop_body or "").split("match evaled_individual")[0])) + 1 if loop_body else 0

csv_fmt = find(r'format!\(\s*"((?:\{\};)+\{\})\\n"\s*,(.*?)\)\s*\n\s*\}', strip_tests(detailed), "to_csv_row format! call", "", props="C14")
csv_fields = [re.sub(r"^self\.", "", a.strip()).split(".")[0] for a in ((csv_fmt and re.search(r'format!\(\s*"(?:\{\};)+\{\}\\n"\s*,(.*?)\)\s*\n\s*\}', strip_tests(detailed), re.S).group(1)) or "").split(",") if a.strip()]
csv_header = find(r'fn get_csv_header_row\(\)[^{]*\{\s*"(.*?)"', detailed, "csv header", "", props="C14")
csv_header = (csv_header or "").replace("\\n", "\n")


def lean_list(xs):
    return "[" + ", ".join(json.dumps(x, ensure_ascii=False) for x in xs) + "]"


gen = """/- GENERATED by tools/extract.py from /repo/src on every run.  Do not edit by hand. -/
namespace Cambrian.Generated

/-- `STATIC_PARAMS.max_pop_size` (algorithm.rs) -/
def maxPopSize : Nat := %s
/-- `STATIC_PARAMS.min_pop_size_for_reeval` (algorithm.rs) -/
def minPopSizeForReeval : Nat := %s
/-- `CHANNEL_BUF_SIZE` (sync_launch.rs) -/
def channelBufSize : Nat := %s
/-- capacity passed to `async_broadcast::broadcast` in controller.rs -/
def abortBroadcastCap : Nat := %s

/-- `BUILT_IN_TYPE_NAMES` (spec_util.rs) -/
def builtInTypeNames : List String := %s
/-- attribute whitelists of the `check_for_unexpected_attributes` calls (spec_util.rs) -/
def realAttrs : List String := %s
def intAttrs : List String := %s
def boolAttrs : List String := %s
def arrayAttrs : List String := %s
def anonMapAttrs : List String := %s
def enumAttrs : List String := %s
def optionalAttrs : List String := %s
def constAttrs : List String := %s
/-- the prefix tested by the definition pass and by the member pass of `build_sub` -/
def typeDefPrefixDefs : String := %s
def typeDefPrefixMembers : String := %s

/-- `tokio::select!` loop of `start_controller`: is the abort-signal branch disabled once the signal is latched
    (`, if !abort_signal_received`)?  is the completion branch unconditional? -/
def abortBranchGuarded : Bool := %s
def completionBranchGuarded : Bool := %s

/-- header row of the detailed report (detailed_report.rs) -/
def csvHeader : String := %s

/-- the arguments of the `format!` call of `to_csv_row`, in order (detailed_report.rs) -/
def csvFieldOrder : List String := %s

/-- `kill_and_reap_child_proc_group` treats `ECHILD` from `waitpid` after a successful `killpg` as reaped (process.rs) -/
def reapEchildOk : Bool := %s

/-- `meta_adapt::mutate` clamps the mutated mutation scale into `[f64::MIN_POSITIVE, f64::MAX]` (`rescale_scale`) -/
def scaleClamped : Bool := %s

/-- path.rs `KeyManager`: `on_key_seen` is `next_key = max(next_key, key + 1)`, `next_key()` returns the counter and
    increments it; mutation.rs `mutate_anon_map` calls `on_key_seen` for every existing key right before `next_key()` -/
def keyMgrSeenIsMax : Bool := %s
def keyMgrNextIsCounter : Bool := %s
def keysRegisteredBeforeAlloc : Bool := %s

/-- process.rs `get_child_result`: the child's exit status is judged by `ExitStatus::success()` and before its output is parsed -/
def childStatusBySuccessFirst : Bool := %s

/-- process.rs `get_child_result`: only a document that is a JSON object is read as a result -/
def childResultObjectsOnly : Bool := %s

/-- meta.rs `AlgoConfigBuilder::build`: defaults, and the two rejections -/
def defaultSampleSize : Nat := %s
def defaultNumConcurrent : Nat := %s
def zeroSampleSizeRejected : Bool := %s
def zeroNumConcurrentRejected : Bool := %s

end Cambrian.Generated
""" % (max_pop, min_reeval, chan, bcap, lean_list(builtins),
       lean_list(wl["real"]), lean_list(wl["int"]), lean_list(wl["bool"]), lean_list(wl["array"]),
       lean_list(wl["anonMap"]), lean_list(wl["enum"]), lean_list(wl["optional"]), lean_list(wl["const"]),
       json.dumps(def_prefix), json.dumps(member_prefix),
       "true" if abort_guard else "false", "true" if completion_guard else "false", json.dumps(csv_header or ""), lean_list(csv_fields), "true" if reap_echild_ok else "false", "true" if scale_clamped else "false",
       "true" if key_seen_max else "false", "true" if key_next_counter else "false", "true" if key_registered_first else "false",
       "true" if status_by_success else "false", "true" if child_objects_only else "false",
       default_ss, default_nc, "true" if zero_ss_rejected else "false", "true" if zero_nc_rejected else "false")

old = open(OUT).read() if os.path.exists(OUT) else ""
if gen != old:
    open(OUT, "w").write(gen)

# ------------------------------------------------------------------------------------------------ lints
# L2 determinism: no per-process randomness in decision paths
for name in sorted(os.listdir(SRC)) if os.path.isdir(SRC) else []:
    if not name.endswith(".rs") or name == "verif_hooks.rs":
        continue
    body = strip_tests(read(name))
    for bad in ["thread_rng", "from_entropy", "RandomState", "std::collections::HashMap", "std::collections::HashSet", "SystemTime",
                "static mut", "thread_local!", "AtomicU", "AtomicI", "AtomicBool", "OnceCell", "OnceLock", "getrandom", "OsRng", "process::id"]:
        if bad in body:
            brk("lint L2 (determinism): `%s` used in src/%s" % (bad, name), "C09")
    # the only lazy_static of the crate is the constant COIN_FLIP distribution
    for m in re.finditer(r"static ref (\w+)", body):
        if m.group(1) != "COIN_FLIP":
            brk("lint L2 (determinism): global `static ref %s` in src/%s" % (m.group(1), name), "C09")
# L3 rescaling factors are only ever assigned under cfg(test)
for name in ["mutation.rs", "crossover.rs", "path.rs", "algorithm.rs", "rescaling.rs", "controller.rs"]:
    body = strip_tests(read(name))
    if re.search(r"current_rescaling\s*=[^=]|_factor\s*=[^=]|_factor:\s*(?!1\.0)[0-9]", body) and name != "rescaling.rs":
        brk("lint L3 (rescaling factors constant 1.0): assignment in src/%s" % name, "C01,C12,C13,C17")
resc = strip_tests(read("rescaling.rs"))
if re.findall(r"_factor:\s*([0-9.]+)", resc) != ["1.0"] * 4:
    brk("lint L3 (rescaling factors constant 1.0): defaults in src/rescaling.rs are not all 1.0", "C01,C12,C13,C17")
# L4 the abort broadcast has exactly the two send sites that are modelled
if len(re.findall(r"abort_signal_sender\.broadcast\(", strip_tests(controller))) != 2:
    brk("lint L4: abort broadcast send sites in controller.rs != 2", "C04,C06")

# L5 log purity: the arguments of a log macro are only evaluated when that level is enabled, so "verbose changes nothing
# but the log" holds statically as long as they are pure and total: field reads, Display, a fixed list of pure methods;
# no division, no unwrap / expect, no other call; and no code guarded by `log_enabled!`
PURE_IN_LOG = {"display", "to_string", "len", "get", "as_ref", "to_string_lossy", "elapsed", "as_secs_f64", "iter", "join",
               "unwrap_or", "unwrap_or_default", "map", "collect", "clone", "as_str", "to_json", "is_empty", "keys", "values"}
import glob as _glob
for path in sorted(_glob.glob(os.path.join(SRC, "**", "*.rs"), recursive=True)):
    name = os.path.relpath(path, SRC)
    if name == "verif_hooks.rs":
        continue
    body = strip_tests(open(path).read())
    if "log_enabled!" in body:
        brk("lint L5 (log purity): `log_enabled!` guards code in src/%s" % name, "C15")
    for m in re.finditer(r"\b(info|debug|trace|warn|error)!\s*\(", body):
        i, d = m.end(), 1
        while i < len(body) and d > 0:
            d += {"(": 1, ")": -1}.get(body[i], 0)
            i += 1
        args = re.sub(r'"(?:[^"\\]|\\.)*"', '""', body[m.end():i - 1])
        bad = [c for c in re.findall(r"\.([a-z_0-9]+)\(", args) if c not in PURE_IN_LOG]
        bad += ["<free function %s>" % c for c in re.findall(r"(?<![.\w])([a-z_][a-z_0-9]*(?:::[a-zA-Z_0-9]+)*)\(", args) if c not in ("format", "String::from_utf8_lossy", "from_utf8_lossy")]
        if "/" in args:
            bad.append("<division>")
        if re.search(r"\bunwrap\(\)|\bexpect\(", args):
            bad.append("<unwrap>")
        if bad:
            brk("lint L5 (log purity): argument of %s! in src/%s calls %s" % (m.group(1), name, ", ".join(sorted(set(bad)))), "C15")

# L6 debug assertions are checks, not code: their arguments are not evaluated in release builds (what `cargo install`
# builds), so they must be pure - the same rule as for log macros
for path in sorted(_glob.glob(os.path.join(SRC, "**", "*.rs"), recursive=True)):
    name = os.path.relpath(path, SRC)
    if name == "verif_hooks.rs":
        continue
    body = strip_tests(open(path).read())
    for m in re.finditer(r"\bdebug_assert(?:_eq|_ne)?!\s*\(", body):
        i, d = m.end(), 1
        while i < len(body) and d > 0:
            d += {"(": 1, ")": -1}.get(body[i], 0)
            i += 1
        args = re.sub(r'"(?:[^"\\]|\\.)*"', '""', body[m.end():i - 1])
        bad = [c for c in re.findall(r"\.([a-z_0-9]+)\(", args) if c not in PURE_IN_LOG | {"is_none", "is_some", "contains", "contains_key", "all", "any", "is_finite", "is_nan", "abs"}]
        if bad:
            brk("lint L6 (debug assertions are pure): argument of a debug_assert in src/%s calls %s (not evaluated in release builds)" % (name, ", ".join(sorted(set(bad)))), "*")

# L1 panic-site inventory: compared with the committed expectation
sites = {}
for name in sorted(os.listdir(SRC)) if os.path.isdir(SRC) else []:
    if not name.endswith(".rs") or name == "testutil.rs" or name == "verif_hooks.rs":
        continue
    body = strip_tests(read(name))
    n = len(re.findall(r"\.unwrap\(\)|\.expect\(|unreachable!\(|panic!\(|unimplemented!\(|todo!\(", body))
    if n:
        sites[name] = n
bin_src = ""
try:
    bin_src = open(os.path.join(SRC, "bin", "cambrian.rs")).read()
    n = len(re.findall(r"\.unwrap\(\)|\.expect\(|unreachable!\(|panic!\(", bin_src))
    if n:
        sites["bin/cambrian.rs"] = n
except OSError:
    brk("source file missing: bin/cambrian.rs", "*")
exp_path = os.path.join(ROOT, "tools", "expected_sites.json")
if os.path.exists(exp_path):
    exp = json.load(open(exp_path))
    for f in sorted(set(exp) | set(sites)):
        if sites.get(f, 0) > exp.get(f, 0):
            brk("lint L1 (panic sites): src/%s has %d unwrap/expect/unreachable/panic sites, inventory covers %d" % (f, sites.get(f, 0), exp.get(f, 0)), "C15")
if "--write-sites" in sys.argv:
    json.dump(sites, open(exp_path, "w"), indent=1, sort_keys=True)

for props, b in broken:
    print("TIE-BROKEN [%s] %s" % (props, b))
print(json.dumps({"generated": OUT, "sites": sites, "broken": len(broken)}))
sys.exit(0)
