HOOK_COMMITS = ["d8a0f57"]
NOTES = ("Every check: (1) regenerates the extracted data, rebuilds the Lean theorems of the property and audits their axioms; "
         "(2) rebuilds the harness against /repo's working tree with hooks on; (3) runs the real code and the model's executable "
         "definitions on the same generated schedules/inputs and compares them, and evaluates the property's own predicates on what "
         "the implementation did. See DESIGN.md.")
CTL_NOTE = ("Trusted: Lean kernel (axioms propext, Classical.choice, Quot.sound only); the hand-written controller/algorithm model, tied to the code "
            "by the K-ctl correspondence (real async_launch::launch driven by scripted completion orders, outcomes, bursts, Terminate positions, "
            "abort-honouring/ignoring evaluations); tokio/futures scheduling itself is not modelled - an event is 'the select! loop takes this result'.")
TEXT = {
    "C03": {
        "text": "Theorems C03_le / C03_zero / C03_starts_eq_pushed: in the controller model, for every event list (all completion orders, outcomes, abort points), "
                "any concurrency, sample size and random decisions, the number of evaluations started never exceeds the budget. Proof by invariant over the event list; "
                "the model is checked against the real controller on generated schedules on every run.",
        "design_ref": "7 (C03), 4 (L6), 5.1 (K-ctl)", "note": CTL_NOTE,
        "technique": "Lean 4 invariant proof over all event sequences of a controller state machine + differential correspondence against the real controller",
    },
    "C05": {
        "text": "Theorems C05_le / C05_inflight_seeds_nodup: in the controller model the number of evaluations in flight never exceeds num_concurrent, for every event list; "
                "the harness additionally measures the real overlap and duplicate in-flight individuals inside its objective function.",
        "design_ref": "7 (C05), 4 (L6), 5.1 (K-ctl)", "note": CTL_NOTE,
        "technique": "Lean 4 invariant proof over all event sequences + differential correspondence against the real controller",
    },
}
NOT_YET = {}
