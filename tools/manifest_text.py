HOOK_COMMITS = ["d8a0f57"]
FIX_COMMITS = ["10a3687", "edbed29", "6730abc", "202cc98", "aa67b39", "628eb0d", "fc50b63", "67f5fe3", "2135ff7", "ab3e87d", "b409d3c", "fa38961"]
SPEC_NOTE = ("Trusted: Lean kernel (axioms propext, Classical.choice, Quot.sound only); the hand-written parser model (constants regenerated from the source), tied to spec_util.rs by the K-spec correspondence "
             "on generated YAML text; serde_yaml's text parser is outside the model.")
OPS_NOTE = ("Trusted: Lean kernel (axioms propext, Classical.choice, Quot.sound only); the acceptors are hand-written specifications of the operators' possible results, and the real operators are checked to "
            "stay inside them (K-ops: sequences of crossover+mutation on one PathContext, all parameter corners, all 10 node kinds incl. maps in maps/variants/optionals); rand/rand_distr are not modelled.")
CODEC_NOTE = ("Trusted: Lean kernel (axioms propext, Classical.choice, Quot.sound only); the hand-written spec/value/JSON model, tied to value.rs and value_util.rs by the "
              "K-codec correspondence on generated specs of all 10 node kinds with hostile keys, conforming values, both map encodings, single-defect corruptions and arbitrary JSON; "
              "serde_json's text parser/printer is outside the model.")
NOTES = ("Every check: (1) regenerates the extracted data, rebuilds the Lean theorems of the property and audits their axioms; "
         "(2) rebuilds the harness against /repo's working tree with hooks on; (3) runs the real code and the model's executable "
         "definitions on the same generated schedules/inputs and compares them, and evaluates the property's own predicates on what "
         "the implementation did. See DESIGN.md.")
CTL_NOTE = ("Trusted: Lean kernel (axioms propext, Classical.choice, Quot.sound only); the hand-written controller/algorithm model, tied to the code "
            "by the K-ctl correspondence (real async_launch::launch driven by scripted completion orders, outcomes, bursts, Terminate positions, "
            "abort-honouring/ignoring evaluations); tokio/futures scheduling itself is not modelled - an event is 'the select! loop takes this result'.")
PROC_NOTE = ("Trusted: Lean kernel (axioms propext, Classical.choice, Quot.sound only); the hand-written process/CLI/report-writer models, tied to the code by K-proc: the real cambrian binary run with scripted "
             "objprog children whose completion order is dictated through release files, survivors found by a /proc scan for a marker environment variable; OS semantics of process groups and signals are assumed (listed in DESIGN 3.5).")
TEXT = {
    "C09": {
        "text": "PARTIAL. Theorems over the controller+core model for every schedule: the whole observable trace (evaluate() calls with seed/id/parameters, report items, final report) is a function of exactly the declared inputs (configuration, "
                "initial value, objective results in completion order, random decisions); later completions never revise earlier actions; impossible completions are no-ops; seeds are 0,1,2,... in start order. That the real random stream "
                "and map iteration are themselves input-determined is not expressible in the model: it is decided by twin runs (same scripted run twice in one process and once in a fresh process, bit-for-bit trace comparison, nc 1..7 with "
                "harness-fixed completion orders, sample sizes 1..3, nested maps) and by source lint L2 (no entropy sources, RandomState, clocks or global mutable state in decision paths).",
        "design_ref": "7 (C09), 5.3 (L2)", "note": CTL_NOTE,
        "technique": "Lean 4 theorems (trace is a causal function of the declared inputs) + twin-run differential (in-process and cross-process) + determinism lint",
    },
    "C17": {
        "text": "PARTIAL. Theorems: select_ref's loop has the distribution p(1-p)^i + (1-p)^n/n, it sums to 1 and is non-increasing in the rank for every pressure in [0,1] and every length (Rat, Mathlib ring/linarith); every result mutation may "
                "produce at probability 1 flips every boolean, changes every enum, switches every variant, flips every optional and resizes every map, at any nesting (mutual structural induction over the acceptor). Tests (labelled): select_ref "
                "frequencies vs the model (6-sigma), numeric leaves with scale >= 1 change within 64 attempts, recombination at crossover probability 1 gives a mixed offspring within 64 attempts, and the benchmark battery with stated thresholds "
                "(sphere2 1e4x, sphere5 1e3x, sphere10 20x in 2000 evaluations; bound/grid/onemax/mapsize/choice reach the optimum) at nc 1 and 4 with two completion orders.",
        "design_ref": "7 (C17), 3.3", "note": OPS_NOTE,
        "technique": "Lean 4 proofs (exact selection distribution over Rat; mutual structural induction for operator liveness) + statistical correspondence + deterministic benchmark regression",
    },
    "C07": {
        "text": "PARTIAL. Theorems over the per-evaluation machine and the controller: a child finishing in time is never killed; timeout = killpg + waitpid + rejected; every other ending (abort, dropped future) kills the group; every started "
                "evaluation is accounted for at the return (processed, failed, or dropped - and the dropped list is exactly what is in flight then). The claim about real processes rests on OS assumptions and on running the real binary: every "
                "termination cause x concurrency x child behaviour (slow, forks background processes, ignores SIGTERM, fails), with the set of siblings in flight at the end chosen through release files, then a /proc scan. Known finding D7 "
                "(background process of a normally exited child) is reported as KNOWN-FINDING."
                " Families include group members that ignore SIGTERM, a leader that exits while its group keeps the output pipe open (the time limit must still kill the group), and a helper that left the group with setsid but holds the pipe (the evaluation must still end at its time limit); survivors are judged by process group.",
        "design_ref": "7 (C07), 3.5, 9 (D3, D7)", "note": PROC_NOTE,
        "technique": "Lean 4 proof over a process-evaluation state machine composed with the controller invariant + process-level differential runs with /proc scan",
    },
    "C14": {
        "text": "Theorems: C14_counts(_always) (report counts = numbers of accepted/rejected items, for every event list, also on failure), C14_items (every record belongs to a started evaluation with that id and seed), "
                "C14_file (after any record sequence the writer holds one row per record and the best-seen file holds a minimum-objective record), C14_meta_probs (adaptive probabilities in [0,1] under FL-mul-sign), C14_meta_scale (scale positive and finite, an obligation on the clamp extracted from meta_adapt.rs; fix b409d3c). The CSV, best_seen.json and summary "
                "of real runs are parsed and compared with the children's own log and with the writer model; probabilities and scale of every in-run record are checked."
                " C14_drained / C14_drained_step (Launch.lean): the report writer is drained before sync_launch returns a result, Ok or Err. K-run reads the files back after failed runs as well.",
        "design_ref": "7 (C14), 4 (L7)", "note": PROC_NOTE,
        "technique": "Lean 4 invariant proofs (controller items, fold over the item stream) + process-level and in-run differential checks",
    },
    "C15": {
        "text": "PARTIAL. Theorems: bounded number of processed completions under a budget, the loop is alive only while something is in flight, no pass of the select! loop can spin (stated over the guard extracted from controller.rs; negative witness for the "
                "unguarded loop), guards of modelled panic sites (probabilities, enum/variant switches, variant initial option). Tested: the real binary with children writing empty / huge / non-UTF-8 / partial output x stderr variants x verbose on/off (twin runs "
                "must agree), hang watchdogs in every correspondence, panics caught in every in-process correspondence, panic-site inventory lint.",
        "design_ref": "7 (C15), 3.4, 3.6, 9 (D2, D12)", "note": PROC_NOTE,
        "technique": "Lean 4 termination/measure proofs over controller and poll-level models with source-extracted guards + crash/hang watchdogs in all differential runs",
    },
    "C16": {
        "text": "PARTIAL (glue compared, not proved). Theorems over the child-result schema, argv construction and the CLI decision function: accepted iff exit 0 and a finite objFuncVal; null/absent = rejection; anything else fails; invalid options/inputs are "
                "rejected before launch; an existing output directory without --force is refused untouched; success = exit 0 + one stdout line (+ files); failing child = non-zero exit, no stdout, diagnostic files. The real binary is compared with "
                "these decisions on generated option combinations, hostile keys, user argument lists with spaces/quotes/non-UTF-8 bytes/leading dashes, and every child result encoding. C16_schema / C16_schema_value / C16_schema_array: the result schema over the JSON tree (a result or rejection is exactly a JSON object that is empty or has the one member objFuncVal holding a number or null; no array is a result - defect D16), over the extracted source fact that only objects are parsed; K-proc family outputs is judged through this model."
                " C16_criteria_conflict / C16_criteria_budget (termination::compile: conflicts are exactly repeated kinds; the budget in force is the one given), checked against sync_launch::launch on generated criteria lists (K-run).",
        "design_ref": "7 (C16), 4 (L8, L9)", "note": PROC_NOTE,
        "technique": "Lean 4 decision-table theorems + process-level differential runs of the real binary",
    },
    "C01": {
        "text": "Theorems C01_init / C01_guess / C01_cross / C01_mut (closure of the initial value, the guess reader and both operators' acceptors under conformance, for every spec, value, nesting and probability class) and "
                "C01_run / C01_report (controller + core model with V := VNode: every start action and the reported best-seen carry a conforming value, for every event list, sample size and concurrency, given that each offspring "
                "is one the operators can produce). The real operators are checked to stay inside the acceptors in direct operation sequences (K-ops) and on every in-run call of the real AlgoContext (K-algo, hook H3); "
                "conf is evaluated on every real output."
                " Also tied to the parser: C01_accepted_wf (every accepted document is well-formed) and, for every accepted rule-breaking document or attribute soup, a mutation walk from its initial value whose steps are checked for conformance (K-spec).",
        "design_ref": "7 (C01), 3.3, 4 (L4, L5), 9 (D4, D8, D9)", "note": OPS_NOTE,
        "technique": "Lean 4 mutual structural induction (operator closure) + invariant over all event sequences + differential correspondence of operators and in-run calls",
    },
    "C10": {
        "text": "Theorems over the parser model for every YAML tree: C10_total (total function), C10_wf (accepted implies well-formed: all rules of the property), C10_init_conf, C10_roundtrip (every well-formed space with writable names "
                "has a document read back as exactly it), C10_prefixes_agree (both passes of the sub parser use the same typeDef prefix - an obligation on the extracted constants), scope lemmas, C10_unknown_type. The real parser is "
                "compared with the model on generated YAML text and its result with the generator's intended parameter space.",
        "design_ref": "7 (C10), 4 (L3), 5.2, 9 (D5, D6)", "note": SPEC_NOTE,
        "technique": "Lean 4 mutual structural induction over the YAML tree (soundness w.r.t. wf, canonical round trip) + source-extracted constants + differential correspondence",
    },
    "C12": {
        "text": "Theorems C12_prov / C12_single / C12_same over the crossover acceptor, for every well-formed spec, every ordered list of conforming parents and every probability class: each accepted offspring satisfies the "
                "provenance relation prov (defined without reference to probabilities: every leaf, option, presence and map key comes from a parent at the same position, sub-structures are combined only among parents sharing it); "
                "one parent or identical parents give an identical offspring. The real crossover is checked to produce only accepted offspring, and prov is evaluated on every real offspring as well."
                " C12_keys_refine: the code-shaped algorithm model of select_anon_map_keys (shuffle, forced keys below minSize, per-key parent selection, cut at maxSize) refines the acceptor's keysOk for every shuffle and selection sequence - so the acceptor is not tighter than the code at the most intricate step.",
        "design_ref": "7 (C12), 3.3, 4 (L4)", "note": OPS_NOTE,
        "technique": "Lean 4 mutual structural induction over spec/value families (acceptor refinement) + differential correspondence of the operators",
    },
    "C13": {
        "text": "Theorems C13_id / C13_step / C13_init_* over the mutation acceptor, for every well-formed spec, conforming value and probability class: probability 0 is the identity; at every map position the size changes by at most one, "
                "a removed key was present, an added key is not a key of the input map and no key disappears (nothing overwritten), at probability 1 every map is resized; a switched variant / materialised optional is an accepted mutation of "
                "the declared initial value. The real mutation is checked to produce only accepted outputs in operation sequences on a shared PathContext; resizeLocal is evaluated on every real output.",
        "design_ref": "7 (C13), 9 (D1)", "note": OPS_NOTE,
        "technique": "Lean 4 mutual structural induction over spec/value families (acceptor refinement) + differential correspondence of the operators",
    },
    "C11": {
        "text": "Theorems over the codec model for every spec/value/document: C11_reject (whatever fromJson accepts conforms - so wrong type, unknown/missing key, out-of-bounds number, wrong array length, map size "
                "outside bounds, unknown option are rejected; fromJson is total), C11_rt_json (value -> JSON -> value -> same JSON), C11_rt_value / C11_same (exact value for unambiguous specs; the spec's own initial value read back "
                "as itself), C11_before (a rejected guess returns before any start). The model is compared with the real reader/writer on every run; the driver also evaluates conformance of everything the real reader accepts."
                " Twin runs: supplying the spec's own initial value as the guess gives bit-for-bit the same run as supplying none (maps whose initial and maximum sizes fall into different hash-table size classes included). A guess built from a conforming value by one defect must be rejected.",
        "design_ref": "7 (C11), 4 (L1, L2), 9 (D8, D9)", "note": CODEC_NOTE,
        "technique": "Lean 4 structural-induction proofs over mutual spec/value/JSON families + differential correspondence of the codec",
    },
    "C02": {
        "text": "Theorems C02_member / C02_min1 / C02_nonempty1 over the controller+algorithm-core model, for every event list: the reported best-seen was handed out as some individual, has exactly sample-size accepted results "
                "and its objective is their summary; at sample size 1 it is a minimum over all accepted evaluations (eviction at the population cap, rejections, completion order and termination cause included) and a run with an accepted "
                "evaluation never ends with NoIndividuals. Proof: invariant run_popInv (sorted population, ids, stored samples = accepted results, head = minimum of the history). The model is compared with the real controller/core on "
                "generated schedules incl. long histories beyond the cap of 100; the driver also checks the report against the minimum of the harness's own log."
                " K-pop drives the real AlgoContext directly and compares the whole ranked population (ids, ordering keys, states, stored samples) with the L5 model after every operation; raw predicates: best = minimum of accepted (sample size 1), best = mean of exactly sample-size results of one individual (sample size > 1).",
        "design_ref": "7 (C02), 4 (L5, L6)", "note": CTL_NOTE + " Float arithmetic: only FL-mean1 is assumed; the mean for sample size > 1 is an observed value.",
        "technique": "Lean 4 invariant proof (ranked population with eviction) over all event sequences + differential correspondence",
    },
    "C08": {
        "text": "Theorems C08_seeds / C08_same / C08_count / C08_ids / C08_first over the controller+core model, for every event list: seeds are exactly 0,1,2,..; one id always carries one parameter set; an id is handed out at most "
                "sample-size times; ids in the population and in flight are pairwise distinct; the first hand-out is (seed 0, id 0, initial value). The driver checks the same predicates on what the real controller did."
                " K-pop compares hand-outs (id, value, stored samples) and population ids after every operation of the real AlgoContext; K-ctl includes a root-optional spec whose valid explicit guess is null.",
        "design_ref": "7 (C08)", "note": CTL_NOTE,
        "technique": "Lean 4 invariant proof over all event sequences + differential correspondence",
    },
    "C04": {
        "text": "Theorems C04_*: in the controller model, for every event list: taking the abort request only latches the flag and broadcasts; once latched nothing is ever started and "
                "the broadcast is not repeated; after the return nothing happens; the step that reaches the target returns in that step with a best <= target and drops what is in flight; "
                "the run is over exactly when nothing is in flight; what is returned is the outcome of the final core state (results arriving while draining included). The model is compared with the real "
                "controller under Terminate at every position, evaluations that honour or ignore the abort, and a watchdog that turns a non-returning controller into a reported hang. "
                "Partial: the Terminate/time-limit/SIGINT plumbing of async_launch/sync_launch and wall-clock 'as soon as' are exercised, not proved."
                " L7 is now modelled too (Launch.lean): C04_one_abort_request / C04_terminate_first / C04_terminate_again (however many Terminate commands arrive the controller gets one abort request and a later command changes nothing) and C04_time_limit_once. Raw predicates on the implementation: told-to-abort, no start after a stop, target on sample means, a terminated run returns its best although an evaluation fails while draining.",
        "design_ref": "7 (C04), 3.4, 9 (D12, KF1)", "note": CTL_NOTE,
        "technique": "Lean 4 step lemmas and invariants over all event sequences of the controller state machine + differential correspondence with hang watchdog",
    },
    "C06": {
        "text": "Theorem C06_first: for every prefix schedule, a failure taken while no abort is latched is recorded for good, broadcasts the abort in that step, no evaluation is started in that step or after, "
                "and every return of every continuation is exactly Err(that failure); C06_after_abort_keeps_error covers the 'before any termination request' clause. C06_returns_once_ended: once nothing is in flight after the failure the run HAS returned, exactly once, with Err(that failure). C06_child_not_ok / C06_failure_iff / C06_failure_kind state outright which children fail an evaluation (exit status judged by success() first - an extracted source fact -, ill-shaped output, non-finite value) and that each kind is told apart. Compared with the real controller with failures and "
                "non-finite values at random positions, second failures, later results below the target. The mapping of child exit status / unparsable output to errors (process.rs) is tied to the real binary by K-proc."
                " Raw predicate: siblings in flight are told to abort. K-proc's failure family (non-zero exit with valid output, garbage, unknown fields, empty, out-of-range number) is part of this check.",
        "design_ref": "7 (C06)", "note": CTL_NOTE,
        "technique": "Lean 4 proof over all continuations of the controller state machine + differential correspondence",
    },
    "C03": {
        "text": "Theorems C03_le / C03_zero / C03_starts_eq_pushed: in the controller model, for every event list (all completion orders, outcomes, abort points), "
                "any concurrency, sample size and random decisions, the number of evaluations started never exceeds the budget. Proof by invariant over the event list; "
                "the model is checked against the real controller on generated schedules on every run."
                " C03_exact / C03_exact_report: if nothing else ends the run it starts exactly N evaluations and the report counts sum to N; the same is evaluated on the raw observations of K-ctl and of K-run (whole runs through sync_launch, threaded and current-thread launcher).",
        "design_ref": "7 (C03), 4 (L6), 5.1 (K-ctl)", "note": CTL_NOTE,
        "technique": "Lean 4 invariant proof over all event sequences of a controller state machine + differential correspondence against the real controller",
    },
    "C05": {
        "text": "Theorems C05_le / C05_inflight_seeds_nodup: in the controller model the number of evaluations in flight never exceeds num_concurrent, for every event list; "
                "the harness additionally measures the real overlap and duplicate in-flight individuals inside its objective function."
                " C05_unique (ids of population and in-flight individuals pairwise distinct), C05_exact (work conservation). Raw predicates: after every round exactly min(num_concurrent, remaining budget) evaluations are in progress (K-ctl); threaded launcher reaches min(num_concurrent, budget) evaluations in progress at once, also above the number of cores (K-run barrier family); at the instant a child starts, live processes of other unfinished evaluations + 1 <= num_concurrent, read from the process table by the child itself (K-proc).",
        "design_ref": "7 (C05), 4 (L6), 5.1 (K-ctl)", "note": CTL_NOTE,
        "technique": "Lean 4 invariant proof over all event sequences + differential correspondence against the real controller",
    },
}
NOT_YET = {}
