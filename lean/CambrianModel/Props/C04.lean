/-
C04  Target reached or termination requested: nothing new starts, best is returned.

Theorems about `Ctl.run`/`Ctl.step` (L6) for EVERY event list: every point at which the request or the target can
occur, every set of in-flight evaluations, every order in which they end afterwards, evaluations that honour the
abort (they end with a rejection), ignore it (they end with any result later) or fail.
"Delivered" is "taken by the controller loop" (event `abortReq`); Terminate, time limit and SIGINT all end in that one
signal (L7).  Float laws used: none.
-/
import CambrianModel.Lemmas.CtlStep
import CambrianModel.Lemmas.LaunchLemmas
namespace Cambrian.Props
open Cambrian Cambrian.Ctl

variable {V : Type}

/-- Taking the abort request latches the flag and broadcasts the abort to the in-flight evaluations; nothing else
    happens in that step (nothing is started, nothing returns, in-flight evaluations stay in flight). -/
theorem C04_abort_request (c : Cfg) (s : St V) (hd : s.done = false) (hab : s.aborted = false) :
    step c s .abortReq = ({ s with aborted := true }, [.broadcastAbort]) :=
  step_abort hd hab

/-- After the abort flag is latched - by a terminate command / time limit / interrupt, or by a failure - no new
    evaluation is ever started and the abort is not broadcast again, whatever happens afterwards. -/
theorem C04_no_start_after_abort (c : Cfg) (ss : Nat) (iv : Option V) (d : V) (chs : Nat → Algo.Choice V)
    (e1 e2 : List (Ev V)) (hab : (run c ss iv d chs e1).1.aborted = true) :
    ∃ acts2, (run c ss iv d chs (e1 ++ e2)).2 = (run c ss iv d chs e1).2 ++ acts2 ∧
      ∀ a ∈ acts2, a.isStart = false ∧ a.isBroadcast = false := by
  refine ⟨(stepsFrom c (run c ss iv d chs e1).1 e2).2, ?_, ?_⟩
  · rw [run_append]
  · exact (stepsFrom_aborted e2 _ hab).2.2

/-- After the run has returned (target reached, budget used up, drained) nothing happens any more. -/
theorem C04_nothing_after_return (c : Cfg) (ss : Nat) (iv : Option V) (d : V) (chs : Nat → Algo.Choice V)
    (e1 e2 : List (Ev V)) (hd : (run c ss iv d chs e1).1.done = true) :
    run c ss iv d chs (e1 ++ e2) = run c ss iv d chs e1 := by
  rw [run_append, stepsFrom_done e2 _ hd]; simp

/-- The abort is broadcast at most once in a run, and exactly when the flag is latched. -/
theorem C04_broadcast_once (c : Cfg) (ss : Nat) (iv : Option V) (d : V) (chs : Nat → Algo.Choice V) (evs : List (Ev V)) :
    nBroadcast (run c ss iv d chs evs).2 = (run c ss iv d chs evs).1.aborted.toNat :=
  (run_inv c ss iv d chs evs).bc

/-- Target: the step that processes a result bringing the best-seen objective to or below the target returns in
    that same step with that best-seen (objective `<= target`), starts nothing, and drops whatever is in flight
    without waiting for it. -/
theorem C04_target (c : Cfg) (s : St V) (seed : Nat) (ind : Algo.Ind V) (r : Option (Int × Int)) (ch : Algo.Choice V)
    (t : F64) (ht : c.target = some t) (he : s.err = none)
    (hh : targetHit c (Algo.proc s.core ind r) = true) :
    ∃ x v, (onResult c s seed ind r ch).1.done = true ∧
      (onResult c s seed ind r ch).2 =
        [.item ind.id seed (r.map (·.1)),
         .ret (.ok x v (resultState s seed ind r).accepted (resultState s seed ind r).rejected)
              ((eraseSeed seed s.inflight).map (·.1))] ∧
      F64.le (.fin x) t = true ∧ Algo.best (Algo.proc s.core ind r) = some (x, v) := by
  obtain ⟨h1, h2⟩ := step_target (c := c) (s := s) (seed := seed) r ch hh
  obtain ⟨x, v, o1, o2, o3⟩ := outcome_ok_le_target (c := c) (s := resultState s seed ind r) ht
    (by simpa using hh) (by simpa using he)
  exact ⟨x, v, h1, by rw [h2, o1], o2, by simpa using o3⟩

/-- Draining: the run is over exactly when nothing is in flight any more - while the loop runs something is in
    flight, and the step that ends the last in-flight evaluation returns (exactly one `ret` action, emitted when
    `done` is set). -/
theorem C04_drain (c : Cfg) (ss : Nat) (iv : Option V) (d : V) (chs : Nat → Algo.Choice V) (evs : List (Ev V)) :
    ((run c ss iv d chs evs).1.inflight = [] → (run c ss iv d chs evs).1.done = true) ∧
    nRet (run c ss iv d chs evs).2 = (run c ss iv d chs evs).1.done.toNat := by
  have h := run_inv c ss iv d chs evs
  refine ⟨fun he => ?_, h.rets⟩
  cases hd : (run c ss iv d chs evs).1.done with
  | true => rfl
  | false => exact absurd he (h.live hd)

/-- What a run returns is the outcome of its final state: the first recorded error if there is one; otherwise the
    best-ranked completed individual of the algorithm core *as it is after every processed result*, results that
    arrived while draining included; `NoIndividuals` only if the core holds no completed individual. -/
theorem C04_returns_best (c : Cfg) (hnc : 0 < c.nc) (ss : Nat) (v0 d : V) (chs : Nat → Algo.Choice V) (evs : List (Ev V))
    (o : Outcome V) (dr : List Nat) (hret : Act.ret o dr ∈ (run c ss (some v0) d chs evs).2) :
    o = match (run c ss (some v0) d chs evs).1.err with
        | some e => .err e
        | none => match Algo.best (run c ss (some v0) d chs evs).1.core with
          | some (x, v) => .ok x v (run c ss (some v0) d chs evs).1.accepted (run c ss (some v0) d chs evs).1.rejected
          | none => .noIndividuals :=
  ((run_inv2 c hnc ss v0 d chs evs).retOut o dr hret).2.1

/-! ### L7: terminate command, time limit and interrupt all end in ONE abort request -/

/-- `async_launch::launch`: however many Terminate commands arrive (a client sending it twice, the time limit
    followed by an interrupt, ...), the controller receives at most one abort request ... -/
theorem C04_one_abort_request (evs : List Launch.LEv) :
    Launch.nAbortReq (Launch.lrun {} evs).2 ≤ 1 := by
  simpa using (Launch.lrun_abort_le {} evs).1

/-- ... the first one is passed on at once, and a later one changes nothing: in particular it does not end the run,
    so the result returned is still the controller's (best seen so far, results arriving while draining included). -/
theorem C04_terminate_first (s : Launch.LSt) (hd : s.done = false) (hh : s.holder = true) :
    Launch.lstep s .terminate = ({ s with holder := false }, [.abortReq]) :=
  Launch.lstep_first_terminate s hd hh

theorem C04_terminate_again (s : Launch.LSt) (hh : s.holder = false) : Launch.lstep s .terminate = (s, []) :=
  Launch.lstep_later_terminate s hh

/-- `sync_launch`: the time limit sends exactly one Terminate command, whatever else happens -/
theorem C04_time_limit_once (wr : Bool) (evs : List Launch.SEv) : Launch.nTerm (Launch.srun wr {} evs).2 ≤ 1 := by
  have := Launch.srun_term_le wr {} evs
  simpa using this

example : (Launch.lrun {} [.terminate, .terminate, .ctlDone]).2 = [.abortReq, .retCtl] := by decide

/-- non-vacuity: a terminate request with two evaluations in flight; one honours it (rejection), the other ignores it
    and delivers a result while draining - that result is the best-seen that is returned -/
example :
    let c : Cfg := { nc := 2, maxEval := none, target := none }
    let evs : List (Ev Nat) := [.abortReq, .complete 0 .rej ⟨false, 7⟩, .complete 1 (.acc 3 3) ⟨false, 8⟩]
    (run c 1 (some 0) 0 (fun _ => ⟨false, 9⟩) evs).2 =
      [.start 0 0 0, .start 1 1 9, .broadcastAbort, .item 0 0 none, .item 1 1 (some 3), .ret (.ok 3 9 1 1) []] := by
  decide

/-- The stop conditions in force are exactly the ones given: the compiled target is the number that was written - not
    a neighbour of it - and the time limit the duration that was written (`termination::compile`; the budget is
    `C16_criteria_budget`).  Together with `C04_target` the run therefore stops on `best <= t` for the caller's own `t`. -/
theorem C04_criteria_kept (cs : List Launch.Crit) (c : Launch.Compiled) (h : Launch.compile cs = some c) :
    (∀ t, c.target = some t ↔ Launch.Crit.target t ∈ cs) ∧ (∀ d, c.after = some d ↔ Launch.Crit.after d ∈ cs) :=
  ⟨Launch.compile_target cs c h, Launch.compile_after cs c h⟩

example : Launch.compile [.target (.fin 7), .after 1500] = some { target := some (.fin 7), after := some 1500 } := by decide

end Cambrian.Props
