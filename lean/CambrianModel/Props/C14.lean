/-
C14  Counts, detailed report and best-seen file agree with what was evaluated.   

Theorems about the controller (L6: counts, report items), the report writer (L7: `Proc.writeAll`) and the adaptive
probabilities (L4c), for EVERY event list / item list.  "Positive finite mutation scale" holds since fix b409d3c clamps the scale (`C14_meta_scale`, an
obligation on the extracted source fact `Generated.scaleClamped`); it is also checked on every in-run record by K-algo,
long adaptive histories (60 000 evaluations) included.
Float laws used: FL-mul-sign (probabilities).
-/
import CambrianModel.Lemmas.PopInv
import CambrianModel.Model.Process
import CambrianModel.Model.MetaAdapt
import CambrianModel.Lemmas.LaunchLemmas
import CambrianModel.Lemmas.ReportLemmas
namespace Cambrian.Props
open Cambrian Cambrian.Ctl Cambrian.Proc

variable {V : Type}

/-- The final report's completed and rejected counts equal the numbers of evaluations whose results were accepted
    and rejected (= the numbers of report items with / without a value), whatever ended the run. -/
theorem C14_counts (c : Cfg) (hnc : 0 < c.nc) (ss : Nat) (v0 d : V) (chs : Nat → Algo.Choice V) (evs : List (Ev V))
    (b : Int) (v : V) (a rj : Nat) (dr : List Nat)
    (hret : Act.ret (.ok b v a rj) dr ∈ (run c ss (some v0) d chs evs).2) :
    a = nItemsAcc (run c ss (some v0) d chs evs).2 ∧ rj = nItemsRej (run c ss (some v0) d chs evs).2 := by
  have h := run_inv c ss (some v0) d chs evs
  have h2 := run_inv2 c hnc ss v0 d chs evs
  obtain ⟨_, ho, _⟩ := h2.retOut _ _ hret
  simp only [outcome] at ho
  split at ho
  · simp at ho
  · split at ho
    · injection ho with _ _ h3 h4
      rw [h.itemsA, h.itemsR]; exact ⟨h3, h4⟩
    · simp at ho

/-- The counters of the state always equal the numbers of items emitted (also when the run ends with a failure: the
    records written so far stay consistent). -/
theorem C14_counts_always (c : Cfg) (ss : Nat) (iv : Option V) (d : V) (chs : Nat → Algo.Choice V) (evs : List (Ev V)) :
    nItemsAcc (run c ss iv d chs evs).2 = (run c ss iv d chs evs).1.accepted ∧
    nItemsRej (run c ss iv d chs evs).2 = (run c ss iv d chs evs).1.rejected :=
  ⟨(run_inv c ss iv d chs evs).itemsA, (run_inv c ss iv d chs evs).itemsR⟩

/-! ### every record belongs to a started evaluation -/

theorem afterResult_only_adds_start_ret (c : Cfg) (s : Ctl.St V) (ch : Algo.Choice V) (acts : List (Act V)) :
    ∀ a ∈ (afterResult c s ch acts).2, a ∈ acts ∨ a.isStart = true ∨ a.isRet = true := by
  intro a ha
  simp only [afterResult] at ha
  split at ha
  · simp only [finish, List.mem_append, List.mem_singleton] at ha
    rcases ha with ha | ha
    · exact Or.inl ha
    · right; right; rw [ha]; rfl
  · split at ha
    · simp only [finish, List.mem_append, List.mem_singleton] at ha
      rcases ha with ha | ha
      · exact Or.inl ha
      · right; right; rw [ha]; rfl
    · split at ha
      · simp only [startOne, List.mem_append, List.mem_singleton] at ha
        rcases ha with ha | ha
        · exact Or.inl ha
        · right; left; rw [ha]; rfl
      · obtain ⟨_, _, _, _, f5, _⟩ := again_facts s acts
        rcases f5 a ha with h | h
        · exact Or.inl h
        · right; right; rw [h]; rfl

/-- the only report item a step can emit is the one of the in-flight evaluation whose result it processes -/
theorem step_item (c : Cfg) (s : Ctl.St V) (e : Ev V) (i sd : Nat) (r : Option Int)
    (h : Act.item i sd r ∈ (step c s e).2) : ∃ ind, (sd, ind) ∈ s.inflight ∧ ind.id = i := by
  cases e with
  | abortReq =>
    simp only [step, onAbort] at h
    split at h
    · simp at h
    · split at h <;> simp at h
  | complete seed res ch =>
    simp only [step] at h
    split at h
    · simp at h
    · split at h
      · simp at h
      · rename_i ind hl
        have hmem := lookupSeed_some hl
        cases res with
        | fail er =>
          simp only [onFail] at h
          split at h
          · obtain ⟨_, _, _, _, f5, _⟩ := again_facts (failState s seed) ([] : List (Act V))
            rcases f5 _ h with h' | h'
            · simp at h'
            · cases h'
          · obtain ⟨_, _, _, _, f5, _⟩ := again_facts ({ failState s seed with aborted := true, err := some er })
                ([.broadcastAbort] : List (Act V))
            rcases f5 _ h with h' | h'
            · simp at h'
            · cases h'
        | acc x m =>
          simp only [onResult] at h
          rcases afterResult_only_adds_start_ret c _ ch _ _ h with h' | h' | h'
          · simp only [List.mem_singleton, Act.item.injEq] at h'
            exact ⟨ind, by rw [h'.2.1]; exact hmem, h'.1.symm⟩
          · simp [Act.isStart] at h'
          · simp [Act.isRet] at h'
        | rej =>
          simp only [onResult] at h
          rcases afterResult_only_adds_start_ret c _ ch _ _ h with h' | h' | h'
          · simp only [List.mem_singleton, Act.item.injEq] at h'
            exact ⟨ind, by rw [h'.2.1]; exact hmem, h'.1.symm⟩
          · simp [Act.isStart] at h'
          · simp [Act.isRet] at h'

def ItemsStarted (acts : List (Act V)) : Prop :=
  ∀ i sd r, Act.item i sd r ∈ acts → ∃ v, Act.start sd i v ∈ acts

theorem runFrom_itemsStarted {ss : Nat} {c : Cfg} (hss : 0 < ss) :
    ∀ (evs : List (Ev V)) (s : Ctl.St V) (acts : List (Act V)), PopInv ss s acts → ItemsStarted acts →
      ItemsStarted (runFrom c s acts evs).2
  | [], _, _, _, h => h
  | e :: es, s, acts, hp, h => by
    simp only [runFrom]
    apply runFrom_itemsStarted hss es _ _ (step_popInv hss e hp)
    intro i sd r hmem
    simp only [List.mem_append] at hmem
    rcases hmem with hmem | hmem
    · obtain ⟨v, hv⟩ := h i sd r hmem
      exact ⟨v, List.mem_append_left _ hv⟩
    · obtain ⟨ind, hm, hid⟩ := step_item c s e i sd r hmem
      have := (hp.inflEntry _ hm).1
      exact ⟨ind.v, List.mem_append_left _ (by rw [← hid]; exact this)⟩

/-- The detailed report contains records only of evaluations that were really started, carrying that evaluation's
    individual id and seed (and hence - C08_same - its parameter set). -/
theorem C14_items (c : Cfg) (ss : Nat) (hss : 0 < ss) (v0 d : V) (chs : Nat → Algo.Choice V) (evs : List (Ev V))
    (i sd : Nat) (r : Option Int) (h : Act.item i sd r ∈ (run c ss (some v0) d chs evs).2) :
    ∃ v, Act.start sd i v ∈ (run c ss (some v0) d chs evs).2 := by
  have hinit : ItemsStarted (init c ss (some v0) d chs).2 := by
    intro i sd r hmem
    exfalso
    -- initialisation emits only starts and possibly the return
    have hinv := init_inv c ss (some v0) d chs
    have hA := hinv.itemsA
    have hR := hinv.itemsR
    have hfacts := startMany_facts chs (initialCount c) 0 ({ core := Algo.new v0 ss } : Ctl.St V) []
    have h0a : (init c ss (some v0) d chs).1.accepted = 0 := by
      simp only [init, again]; split <;> simp [finish, hfacts.2.1]
    have h0r : (init c ss (some v0) d chs).1.rejected = 0 := by
      simp only [init, again]; split <;> simp [finish, hfacts.2.2.1]
    cases r with
    | none =>
      have : 0 < nItemsRej (init c ss (some v0) d chs).2 := List.countP_pos_iff.2 ⟨_, hmem, rfl⟩
      omega
    | some x =>
      have : 0 < nItemsAcc (init c ss (some v0) d chs).2 := List.countP_pos_iff.2 ⟨_, hmem, rfl⟩
      omega
  exact runFrom_itemsStarted hss evs _ _ (init_popInv c ss hss v0 d chs) hinit i sd r h

/-! ### the best-seen file -/

theorem writeItem_rows (f : Files) (it : Item) : (writeItem f it).rows = f.rows ++ [it] := by
  simp only [writeItem]
  repeat' split
  all_goals rfl

/-- invariant of the writer: the best-seen file holds an accepted record that is a minimum of the accepted records
    written so far (the first one attaining it: a later record replaces it only when strictly smaller) -/
def FileInv (f : Files) : Prop :=
  (f.best = none → ∀ it ∈ f.rows, it.obj = none) ∧
  (∀ b, f.best = some b → b ∈ f.rows ∧ ∃ y, b.obj = some y ∧ ∀ it ∈ f.rows, ∀ x, it.obj = some x → y ≤ x)

theorem writeItem_inv (f : Files) (it : Item) (h : FileInv f) : FileInv (writeItem f it) := by
  obtain ⟨h1, h2⟩ := h
  cases ho : it.obj with
  | none =>
    have e : writeItem f it = { f with rows := f.rows ++ [it] } := by simp [writeItem, ho]
    rw [e]
    refine ⟨fun hb x hx => ?_, fun b hb => ?_⟩
    · simp only [List.mem_append, List.mem_singleton] at hx
      rcases hx with hx | hx
      · exact h1 hb x hx
      · rw [hx]; exact ho
    · obtain ⟨m1, y, hy, hmin⟩ := h2 b hb
      refine ⟨List.mem_append_left _ m1, y, hy, fun x hx z hz => ?_⟩
      simp only [List.mem_append, List.mem_singleton] at hx
      rcases hx with hx | hx
      · exact hmin x hx z hz
      · rw [hx, ho] at hz; cases hz
  | some x =>
    cases hb : f.best with
    | none =>
      have e : writeItem f it = { rows := f.rows ++ [it], best := some it } := by simp [writeItem, ho, hb]
      rw [e]
      refine ⟨fun h => by simp at h, fun b hb' => ?_⟩
      simp only [Option.some.injEq] at hb'
      subst hb'
      refine ⟨by simp, x, ho, fun z hz w hw => ?_⟩
      simp only [List.mem_append, List.mem_singleton] at hz
      rcases hz with hz | hz
      · have := h1 hb z hz; rw [this] at hw; cases hw
      · rw [hz, ho] at hw; injection hw with hw; omega
    | some b =>
      obtain ⟨m1, y, hy, hmin⟩ := h2 b hb
      by_cases hlt : x < y
      · have e : writeItem f it = { rows := f.rows ++ [it], best := some it } := by simp [writeItem, ho, hb, hy, hlt]
        rw [e]
        refine ⟨fun h => by simp at h, fun b' hb' => ?_⟩
        simp only [Option.some.injEq] at hb'
        subst hb'
        refine ⟨by simp, x, ho, fun z hz w hw => ?_⟩
        simp only [List.mem_append, List.mem_singleton] at hz
        rcases hz with hz | hz
        · have := hmin z hz w hw; omega
        · rw [hz, ho] at hw; injection hw with hw; omega
      · have e : writeItem f it = { f with rows := f.rows ++ [it] } := by simp [writeItem, ho, hb, hy, hlt]
        rw [e]
        refine ⟨fun h => by simp [hb] at h, fun b' hb' => ?_⟩
        simp only [hb, Option.some.injEq] at hb'
        subst hb'
        refine ⟨List.mem_append_left _ m1, y, hy, fun z hz w hw => ?_⟩
        simp only [List.mem_append, List.mem_singleton] at hz
        rcases hz with hz | hz
        · exact hmin z hz w hw
        · rw [hz, ho] at hw; injection hw with hw; omega

/-- After ANY sequence of records (any prefix of a run, any termination cause) the detailed report holds exactly
    one row per record, in order, and the best-seen file holds the parameter set of a minimum-objective record. -/
theorem C14_file (items : List Item) :
    (writeAll items).rows = items ∧ FileInv (writeAll items) := by
  have : ∀ (its : List Item) (f : Files), FileInv f → (its.foldl writeItem f).rows = f.rows ++ its ∧ FileInv (its.foldl writeItem f) := by
    intro its
    induction its with
    | nil => intro f h; simp [h]
    | cons it r ih =>
      intro f h
      simp only [List.foldl_cons]
      obtain ⟨e1, e2⟩ := ih (writeItem f it) (writeItem_inv f it h)
      refine ⟨by rw [e1, writeItem_rows]; simp, e2⟩
  have h0 : FileInv ({} : Files) := ⟨fun _ it hit => by simp at hit, fun b hb => by simp at hb⟩
  obtain ⟨e1, e2⟩ := this items {} h0
  exact ⟨by simpa [writeAll] using e1, e2⟩

/-- All adaptive probabilities handed to the operators are in [0,1], whatever the observed products (FL-mul-sign). -/
theorem C14_meta_probs (x : F64) (hx : Meta.MulSign x) : Meta.isProb (Meta.probOut x) = true := by
  unfold Meta.MulSign at hx
  cases x with
  | nan => simp [F64.le, F64.lt, F64.feq] at hx
  | ninf => simp [F64.le, F64.lt, F64.feq] at hx
  | pinf => simp [Meta.isProb, Meta.probOut, F64.min, F64.lt, F64.le, F64.feq, Meta.one]
  | fin k =>
    have hk : 0 ≤ k := by
      rw [F64.le_fin] at hx; simpa using hx
    simp only [Meta.isProb, Meta.probOut, F64.min, Meta.one, F64.lt_fin]
    by_cases h : (4607182418800017408 : Int) < k
    · simp [h, F64.le_fin]
    · simp only [h, decide_false, Bool.false_eq_true, ↓reduceIte, F64.le_fin, Bool.and_eq_true, decide_eq_true_eq]
      omega

/-- The adaptive mutation scale is positive and finite, whatever the observed product (a number `>= 0`, possibly 0
    by underflow or `+inf` by overflow: FL-mul-sign) - PROVIDED the source clamps it (`Generated.scaleClamped`,
    extracted from `meta_adapt.rs`; if the clamp is lost this theorem no longer checks).  Before fix b409d3c the scale
    reached `inf` after about 26 000 evaluations (negative witness below). -/
theorem C14_meta_scale (x : F64) (hx : Meta.MulSign x) : Meta.isScale (Meta.scaleOut Generated.scaleClamped x) = true := by
  have hg : Generated.scaleClamped = true := by decide
  rw [hg]
  unfold Meta.MulSign at hx
  cases x with
  | nan => simp [F64.le, F64.lt, F64.feq] at hx
  | ninf => simp [F64.le, F64.lt, F64.feq] at hx
  | pinf => simp [Meta.isScale, Meta.scaleOut, Meta.clampF, Meta.minPositive, Meta.maxFinite, F64.lt, F64.isFinite]
  | fin k =>
    have hk : 0 ≤ k := by rw [F64.le_fin] at hx; simpa using hx
    simp only [Meta.isScale, Meta.scaleOut, Meta.clampF, Meta.minPositive, Meta.maxFinite, F64.lt_fin, if_true]
    by_cases h1 : k < 4503599627370496
    · simp [h1, F64.isFinite, F64.lt_fin]
    · by_cases h2 : (9218868437227405311 : Int) < k
      · simp [h1, h2, F64.isFinite, F64.lt_fin]
      · simp only [h1, h2, decide_false, Bool.false_eq_true, ↓reduceIte, F64.isFinite, F64.lt_fin, Bool.true_and,
          decide_eq_true_eq]
        omega

/-- negative witness: without the clamp an overflowing product is handed on as it is (the defect D11) -/
example : Meta.MulSign .pinf ∧ Meta.isScale (Meta.scaleOut false .pinf) = false := by
  simp [Meta.MulSign, Meta.isScale, Meta.scaleOut, F64.le, F64.lt, F64.feq, F64.isFinite]

/-! ### the text of one record -/

/-- Every record can be read back exactly from its row - individual id, seed, result, adaptive parameters and the
    parameter set - whatever the parameter set contains (its JSON may contain the separator `;`): seven fields from
    the left, two from the right, the JSON in between. -/
theorem C14_row_roundtrip (r : Report.Row) (h : r.plainOk = true) : Report.parse (Report.format r) = some r :=
  Report.parse_format r h

/-- the order of the fields in the model's row is the order of the arguments of the `format!` call in
    `detailed_report.rs` (extracted on every run), and the header row names them in that order -/
theorem C14_row_order :
    Generated.csvFieldOrder = ["individual_id", "eval_time", "meta_params_source", "crossover_prob", "selection_pressure",
      "mutation_prob", "mutation_scale", "input_val", "seed", "obj_func_val"] ∧
    Generated.csvHeader = "individualId;evalTimeSeconds;metaParamsSource;crossoverProb;selectionPressure;mutationProb;mutationScale;inputVal;seed;objFuncVal\n" := by
  decide

example : Report.parse (Report.format ⟨"3".toList, "0.5".toList, [], [], [], [], [], "{\"a;b\":[1;2]}".toList, "7".toList, [] ⟩) =
    some ⟨"3".toList, "0.5".toList, [], [], [], [], [], "{\"a;b\":[1;2]}".toList, "7".toList, []⟩ := by decide

/-! ### L7: the report writer is drained before `launch` returns - also when the run failed -/

/-- `sync_launch::launch_with_async_obj_func`: in every reachable state, once the function has returned the writer
    future has completed (it ends only when the item channel is closed and every item has been written) - for a
    successful and for a failed run alike, whatever the order of time limit, controller result and writer. -/
theorem C14_drained (wr : Bool) (evs : List Launch.SEv) :
    (Launch.srun wr {} evs).1.done = true → (Launch.srun wr {} evs).1.writerFinished.isSome = true :=
  Launch.srun_ret_after_writer wr {} evs (by simp)

/-- ... and the step that returns the controller's result awaits the writer first -/
theorem C14_drained_step (wr : Bool) (s : Launch.SSt) (ok : Bool) (hd : s.done = false)
    (hw : s.writerFinished = none) :
    (Launch.sstep wr s (.launchDone ok)).2 = if wr then [.awaitWriter, .ret (some ok)] else [.awaitWriter, .ret none] := by
  rw [Launch.sstep_launchDone wr s ok hd, hw]

example : (Launch.srun true {} [.timeout, .launchDone false]).2 = [.sendTerminate, .awaitWriter, .ret (some false)] := by decide

end Cambrian.Props
