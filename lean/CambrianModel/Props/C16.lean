/-
C16  Command-line and child-process protocol.   (PARTIAL: the glue - clap, file system, process spawning - is compared, not proved)

Theorems about the child result schema `classifyChild`, the argument vector `argvOf` (L8) and the decision logic of
`main` (`cliM`, L9), for EVERY combination of inputs.  The real binary is run with scripted children on generated
option combinations, user argument lists (spaces, quotes, non-UTF-8 bytes, leading dashes), hostile keys and every
child result encoding, and compared with these decisions.
-/
import CambrianModel.Model.Process
import CambrianModel.Model.ChildSchema
import CambrianModel.Lemmas.LaunchLemmas
namespace Cambrian.Props
open Cambrian Cambrian.Proc

/-- The objective program is started as `<program> <user args...> <JSON parameters> <seed>`. -/
theorem C16_argv {α} (program : α) (userArgs : List α) (json seed : α) :
    argvOf program userArgs json seed = program :: userArgs ++ [json, seed] := rfl

theorem C16_argv_last_two {α} (program : α) (userArgs : List α) (json seed : α) :
    (argvOf program userArgs json seed).drop (1 + userArgs.length) = [json, seed] := by
  simp only [argvOf]
  rw [Nat.add_comm, List.drop_succ_cons, List.drop_left]

/-- A printed `{"objFuncVal": x}` with finite `x` (and exit status 0) is an accepted result, `null` or absent is a
    rejection, and anything else - unknown fields, non-JSON, a non-finite number, a non-zero exit - is a failure. -/
theorem C16_classify (r : ChildRes) :
    classifyChild r =
      if !r.exitOk then .failed .procFailed
      else match r.out with
        | .value x => if x.isFinite then .accepted x else .failed .nonFinite
        | .null => .rejected
        | .invalid => .failed .invalidOutput := by
  cases r with
  | mk e o => cases e <;> cases o <;> simp [classifyChild]

theorem C16_accept_iff (r : ChildRes) (x : F64) :
    classifyChild r = .accepted x ↔ (r.exitOk = true ∧ r.out = .value x ∧ x.isFinite = true) := by
  cases r with
  | mk e o =>
    cases e <;> cases o <;> simp [classifyChild]
    rename_i y
    cases h : y.isFinite
    · simp
      intro hh; subst hh; simp [h]
    · simp
      intro hh; subst hh; exact h

/-- Invalid options are rejected before the optimisation is launched (so before any evaluation is started), with a
    non-zero exit status and nothing on stdout. -/
theorem C16_invalid_before_start (i : CliIn)
    (h : i.algoConfOk = false ∨ i.termDurOk = false ∨ i.killDurOk = false ∨ i.guessJsonOk = false ∨ i.specOk = false) :
    (cliM i).launched = false ∧ (cliM i).exitOk = false ∧ (cliM i).stdoutLines = 0 := by
  simp only [cliM]
  rcases h with h | h | h | h | h <;> (repeat' split) <;> simp_all [failOut]

/-- An existing output directory is refused and left untouched unless `--force` is given. -/
theorem C16_outdir_refused (i : CliIn) (h : i.outDir = some (true, false)) :
    (cliM i).exitOk = false ∧ (cliM i).outDirRemoved = false ∧ (cliM i).outDirCreated = false ∧
    (cliM i).launched = false ∧ (cliM i).stdoutLines = 0 := by
  simp only [cliM, h]
  (repeat' split) <;> simp_all [failOut]

/-- On success: exit status 0, exactly one line on stdout, and with an output directory the summary report. -/
theorem C16_success (i : CliIn) (h : (cliM i).exitOk = true) :
    (cliM i).stdoutLines = 1 ∧ (cliM i).launched = true ∧ i.run = .ok ∧ (cliM i).summaryFile = i.outDir.isSome := by
  simp only [cliM] at h ⊢
  (repeat' split at h) <;> simp_all [failOut]

/-- A failing child (non-zero exit or unparsable output) ends the run with a non-zero exit status, nothing on
    stdout, and with an output directory the files holding the failing arguments and output. -/
theorem C16_child_failure (i : CliIn) (hl : (cliM i).launched = true) (hr : i.run = .procError) :
    (cliM i).exitOk = false ∧ (cliM i).stdoutLines = 0 ∧ (cliM i).diagFiles = i.outDir.isSome := by
  simp only [cliM] at hl ⊢
  (repeat' split at hl) <;> simp_all [failOut]

/-- non-vacuity -/
example : (cliM { algoConfOk := true, termDurOk := true, outDir := some (true, true), specOk := true, killDurOk := true,
                  guessJsonOk := true, run := .ok }) =
    { exitOk := true, stdoutLines := 1, launched := true, outDirRemoved := true, outDirCreated := true,
      diagFiles := false, summaryFile := true } := by decide

/-! ### termination criteria (`termination::compile`) -/

/-- a list of termination criteria is accepted exactly when no kind is given twice (conflicting options are
    rejected before anything is launched) ... -/
theorem C16_criteria_conflict (cs : List Launch.Crit) :
    (Launch.compile cs).isSome = true ↔ (cs.map Launch.Crit.kind).Nodup :=
  Launch.compile_isSome cs

/-- ... and the evaluation budget in force is the one that was given -/
theorem C16_criteria_budget (cs : List Launch.Crit) (c : Launch.Compiled) (h : Launch.compile cs = some c) (n : Nat) :
    c.maxEval = some n ↔ Launch.Crit.numEval n ∈ cs :=
  Launch.compile_maxEval cs c h n

example : Launch.compile [.numEval 5, .signal, .numEval 7] = none ∧
          Launch.compile [.signal, .numEval 5] = some { maxEval := some 5, onSignal := true } := by decide

/-! ### the child result schema over the JSON tree (`Proc.childOutOf`, over the extracted fact "objects only") -/

/-- the schema as the source has it now -/
def childOutNow (cast : Int → F64) (d : Option J) : ChildOut := childOutOf Generated.childResultObjectsOnly cast d

/-- A printed document is an accepted-or-rejected result exactly when it is a JSON OBJECT that is empty or has the one
    member `objFuncVal` holding a number or null; "anything else" - not JSON, an array (also `[1.5]`, which serde alone
    would read as the struct: defect D16), a scalar, an unknown or additional member, a member of another type - is
    invalid output.  Stops checking when the source loses the objects-only guard. -/
theorem C16_schema (cast : Int → F64) (d : Option J) :
    childOutNow cast d ≠ .invalid ↔
      (d = some (.obj .nil) ∨ ∃ v, d = some (.obj (.cons "objFuncVal" v .nil)) ∧ (v = .null ∨ (∃ i, v = .int i) ∨ ∃ f, v = .flt f)) := by
  have hg : Generated.childResultObjectsOnly = true := by decide
  unfold childOutNow
  rw [hg]
  constructor
  · intro h
    match d, h with
    | some (.obj .nil), _ => exact Or.inl rfl
    | some (.obj (.cons k v .nil)), h =>
      right
      simp only [childOutOf] at h
      by_cases hk : (k == "objFuncVal") = true
      · have hk' : k = "objFuncVal" := by simpa using hk
        subst hk'
        refine ⟨v, rfl, ?_⟩
        simp only [beq_self_eq_true, if_true] at h
        cases v <;> simp_all [memberOut]
      · simp [hk] at h
    | some (.obj (.cons _ _ (.cons _ _ _))), h => simp [childOutOf] at h
    | some (.arr .nil), h => simp [childOutOf] at h
    | some (.arr (.cons _ .nil)), h => simp [childOutOf] at h
    | some (.arr (.cons _ (.cons _ _))), h => simp [childOutOf] at h
    | some .null, h => simp [childOutOf] at h
    | some (.bool _), h => simp [childOutOf] at h
    | some (.int _), h => simp [childOutOf] at h
    | some (.flt _), h => simp [childOutOf] at h
    | some (.str _), h => simp [childOutOf] at h
    | none, h => simp [childOutOf] at h
  · rintro (rfl | ⟨v, rfl, hv⟩)
    · simp [childOutOf]
    · rcases hv with rfl | ⟨i, rfl⟩ | ⟨f, rfl⟩ <;> simp [childOutOf, memberOut]

/-- the value of an accepted result is the number written (an integer literal read as its `f64`) -/
theorem C16_schema_value (cast : Int → F64) (d : Option J) (x : F64) :
    childOutNow cast d = .value x ↔
      ((∃ i, d = some (.obj (.cons "objFuncVal" (.int i) .nil)) ∧ x = cast i) ∨ d = some (.obj (.cons "objFuncVal" (.flt x) .nil))) := by
  have hg : Generated.childResultObjectsOnly = true := by decide
  unfold childOutNow
  rw [hg]
  constructor
  · intro h
    match d, h with
    | some (.obj .nil), h => simp [childOutOf] at h
    | some (.obj (.cons k v .nil)), h =>
      simp only [childOutOf] at h
      by_cases hk : (k == "objFuncVal") = true
      · have hk' : k = "objFuncVal" := by simpa using hk
        subst hk'
        simp only [beq_self_eq_true, if_true] at h
        cases v <;> simp_all [memberOut]
        all_goals (first | exact h.symm | skip)
      · simp [hk] at h
    | some (.obj (.cons _ _ (.cons _ _ _))), h => simp [childOutOf] at h
    | some (.arr .nil), h => simp [childOutOf] at h
    | some (.arr (.cons _ .nil)), h => simp [childOutOf] at h
    | some (.arr (.cons _ (.cons _ _))), h => simp [childOutOf] at h
    | some .null, h => simp [childOutOf] at h
    | some (.bool _), h => simp [childOutOf] at h
    | some (.int _), h => simp [childOutOf] at h
    | some (.flt _), h => simp [childOutOf] at h
    | some (.str _), h => simp [childOutOf] at h
    | none, h => simp [childOutOf] at h
  · rintro (⟨i, rfl, rfl⟩ | rfl) <;> simp [childOutOf, memberOut]

/-- D16 stated outright: no array is a result - and without the guard `[1.5]` would be one -/
theorem C16_schema_array (cast : Int → F64) (l : JList) : childOutNow cast (some (.arr l)) = .invalid := by
  have hg : Generated.childResultObjectsOnly = true := by decide
  unfold childOutNow
  rw [hg]
  match l with
  | .nil => rfl
  | .cons _ .nil => rfl
  | .cons _ (.cons _ _) => rfl
example : childOutOf false (fun _ => .fin 0) (some (.arr (.cons (.flt (.fin 7)) .nil))) = .value (.fin 7) := by decide
example : childOutNow (fun _ => .fin 0) (some (.obj (.cons "objFuncVal" (.flt (.fin 7)) .nil))) = .value (.fin 7) ∧
          childOutNow (fun _ => .fin 0) (some (.obj (.cons "objFuncVal" (.flt (.fin 7)) (.cons "extra" .null .nil)))) = .invalid ∧
          childOutNow (fun _ => .fin 0) (some (.obj (.cons "objFuncVal" (.str "0.25") .nil))) = .invalid ∧
          childOutNow (fun _ => .fin 0) (some (.obj .nil)) = .null ∧ childOutNow (fun _ => .fin 0) none = .invalid := by decide

end Cambrian.Props
