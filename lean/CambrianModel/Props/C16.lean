/-
C16  Command-line and child-process protocol.   (PARTIAL: the glue - clap, file system, process spawning - is compared, not proved)

Theorems about the child result schema `classifyChild`, the argument vector `argvOf` (L8) and the decision logic of
`main` (`cliM`, L9), for EVERY combination of inputs.  The real binary is run with scripted children on generated
option combinations, user argument lists (spaces, quotes, non-UTF-8 bytes, leading dashes), hostile keys and every
child result encoding, and compared with these decisions.
-/
import CambrianModel.Model.Process
import CambrianModel.Lemmas.LaunchLemmas
namespace Cambrian.Props
open Cambrian Cambrian.Proc

/-- The objective program is started as `<program> <user args...> <JSON parameters> <seed>`. -/
theorem C16_argv {α} (program : α) (userArgs : List α) (json seed : α) :
    argvOf program userArgs json seed = program :: userArgs ++ [json, seed] := rfl

theorem C16_argv_last_two {α} (program : α) (userArgs : List α) (json seed : α) :
    (argvOf program userArgs json seed).drop (1 + userArgs.length) = [json, seed] := by
  simp only [argvOf]
  rw [Nat.add_comm, List.drop_succ_cons, List.drop_left]

/-- A printed `{"objFuncVal": x}` with finite `x` (and exit status 0) is an accepted result, `null` or absent is a
    rejection, and anything else - unknown fields, non-JSON, a non-finite number, a non-zero exit - is a failure. -/
theorem C16_classify (r : ChildRes) :
    classifyChild r =
      if !r.exitOk then .failed .procFailed
      else match r.out with
        | .value x => if x.isFinite then .accepted x else .failed .nonFinite
        | .null => .rejected
        | .invalid => .failed .invalidOutput := by
  cases r with
  | mk e o => cases e <;> cases o <;> simp [classifyChild]

theorem C16_accept_iff (r : ChildRes) (x : F64) :
    classifyChild r = .accepted x ↔ (r.exitOk = true ∧ r.out = .value x ∧ x.isFinite = true) := by
  cases r with
  | mk e o =>
    cases e <;> cases o <;> simp [classifyChild]
    rename_i y
    cases h : y.isFinite
    · simp
      intro hh; subst hh; simp [h]
    · simp
      intro hh; subst hh; exact h

/-- Invalid options are rejected before the optimisation is launched (so before any evaluation is started), with a
    non-zero exit status and nothing on stdout. -/
theorem C16_invalid_before_start (i : CliIn)
    (h : i.algoConfOk = false ∨ i.termDurOk = false ∨ i.killDurOk = false ∨ i.guessJsonOk = false ∨ i.specOk = false) :
    (cliM i).launched = false ∧ (cliM i).exitOk = false ∧ (cliM i).stdoutLines = 0 := by
  simp only [cliM]
  rcases h with h | h | h | h | h <;> (repeat' split) <;> simp_all [failOut]

/-- An existing output directory is refused and left untouched unless `--force` is given. -/
theorem C16_outdir_refused (i : CliIn) (h : i.outDir = some (true, false)) :
    (cliM i).exitOk = false ∧ (cliM i).outDirRemoved = false ∧ (cliM i).outDirCreated = false ∧
    (cliM i).launched = false ∧ (cliM i).stdoutLines = 0 := by
  simp only [cliM, h]
  (repeat' split) <;> simp_all [failOut]

/-- On success: exit status 0, exactly one line on stdout, and with an output directory the summary report. -/
theorem C16_success (i : CliIn) (h : (cliM i).exitOk = true) :
    (cliM i).stdoutLines = 1 ∧ (cliM i).launched = true ∧ i.run = .ok ∧ (cliM i).summaryFile = i.outDir.isSome := by
  simp only [cliM] at h ⊢
  (repeat' split at h) <;> simp_all [failOut]

/-- A failing child (non-zero exit or unparsable output) ends the run with a non-zero exit status, nothing on
    stdout, and with an output directory the files holding the failing arguments and output. -/
theorem C16_child_failure (i : CliIn) (hl : (cliM i).launched = true) (hr : i.run = .procError) :
    (cliM i).exitOk = false ∧ (cliM i).stdoutLines = 0 ∧ (cliM i).diagFiles = i.outDir.isSome := by
  simp only [cliM] at hl ⊢
  (repeat' split at hl) <;> simp_all [failOut]

/-- non-vacuity -/
example : (cliM { algoConfOk := true, termDurOk := true, outDir := some (true, true), specOk := true, killDurOk := true,
                  guessJsonOk := true, run := .ok }) =
    { exitOk := true, stdoutLines := 1, launched := true, outDirRemoved := true, outDirCreated := true,
      diagFiles := false, summaryFile := true } := by decide

/-! ### termination criteria (`termination::compile`) -/

/-- a list of termination criteria is accepted exactly when no kind is given twice (conflicting options are
    rejected before anything is launched) ... -/
theorem C16_criteria_conflict (cs : List Launch.Crit) :
    (Launch.compile cs).isSome = true ↔ (cs.map Launch.Crit.kind).Nodup :=
  Launch.compile_isSome cs

/-- ... and the evaluation budget in force is the one that was given -/
theorem C16_criteria_budget (cs : List Launch.Crit) (c : Launch.Compiled) (h : Launch.compile cs = some c) (n : Nat) :
    c.maxEval = some n ↔ Launch.Crit.numEval n ∈ cs :=
  Launch.compile_maxEval cs c h n

example : Launch.compile [.numEval 5, .signal, .numEval 7] = none ∧
          Launch.compile [.signal, .numEval 5] = some { maxEval := some 5, onSignal := true } := by decide

end Cambrian.Props
