/-
C15  No objective-function behaviour crashes or hangs the optimizer.   (PARTIAL)

What is proved: the controller terminates once its evaluations end (bounded number of effective completions under a
budget, after a termination request or after a failure; no pass of the `select!` loop can spin without yielding -
stated over the branch guard extracted from the source); the guards of the modelled panic sites follow from
well-formedness / conformance.  What is assumed: each evaluation ends by itself, by its time limit or on the abort
request; float laws FL-mean-fin, FL-mul-sign; memory, stack depth and third-party code are outside the model.
What is tested: the real binary with children writing empty / huge / non-UTF-8 / partial output, verbose on and
off; long adaptive histories; watchdogs everywhere.
-/
import CambrianModel.Model.MetaAdapt
import CambrianModel.Lemmas.CtlStep
import CambrianModel.Model.Spec
import CambrianModel.Lemmas.JsonableLemmas
import CambrianModel.Lemmas.AlgRun
namespace Cambrian.Props
open Cambrian Cambrian.Ctl Cambrian.Meta

variable {V : Type}

/-- With a budget of `N` evaluations at most `N` completions can ever be processed: the count of processed
    completions (accepted + rejected + failed) never exceeds `N`, for every schedule. -/
theorem C15_budget_bound (c : Cfg) (ss : Nat) (iv : Option V) (d : V) (chs : Nat → Algo.Choice V) (evs : List (Ev V))
    (N : Nat) (hN : c.maxEval = some N) :
    (run c ss iv d chs evs).1.accepted + (run c ss iv d chs evs).1.rejected + (run c ss iv d chs evs).1.failed ≤ N := by
  have h := run_inv c ss iv d chs evs
  have := h.bud N hN
  have := h.bal
  omega

/-- While the loop runs something is in flight, and when the last in-flight evaluation ends the run returns: so if
    every evaluation ends (by itself, by its time limit or on the abort request), the run ends - after at most `N`
    processed completions under a budget, after at most `|inflight|` further completions once the abort flag is
    latched (nothing is started any more, C04). -/
theorem C15_no_wait_on_nothing (c : Cfg) (ss : Nat) (iv : Option V) (d : V) (chs : Nat → Algo.Choice V) (evs : List (Ev V)) :
    (run c ss iv d chs evs).1.done = false → (run c ss iv d chs evs).1.inflight ≠ [] :=
  (run_inv c ss iv d chs evs).live

/-- every pass of the `select!` loop that does not yield strictly decreases the work left without yielding -
    PROVIDED the abort branch is disabled once the signal is latched -/
theorem nospin (p p' : Poll) (h : Pass true p p') : workLeft p' < workLeft p := by
  cases h with
  | completion h => simp only [workLeft]; omega
  | abort hs he =>
    have hl := he rfl
    simp [workLeft, hs, hl]

/-- No pass of the controller loop can spin: the guard extracted from `controller.rs` (`, if !abort_signal_received`
    on the abort-signal branch) is present.  (`decide` on the generated constant: if the source loses the guard this
    theorem no longer checks.)  Hence the task yields whenever no completed evaluation is ready. -/
theorem C15_nospin (p p' : Poll) (h : Pass Generated.abortBranchGuarded p p') : workLeft p' < workLeft p := by
  have hg : Generated.abortBranchGuarded = true := by decide
  rw [hg] at h
  exact nospin p p' h

/-- negative witness: without the guard a pass can leave the work unchanged forever (the defect fixed in 10a3687) -/
example : Pass false ⟨0, true, true⟩ ⟨0, true, true⟩ := Pass.abort ⟨0, true, true⟩ rfl (by intro h; cases h)

/-! ### guards of panic sites -/

/-- `rescale_prob`: whatever the observed product (a number `>= 0`, float law FL-mul-sign), the result is a
    probability `Bernoulli::new` accepts -/
theorem C15_prob_ok (x : F64) (hx : MulSign x) : isProb (probOut x) = true := by
  unfold MulSign at hx
  cases x with
  | nan => simp [F64.le, F64.lt, F64.feq] at hx
  | ninf => simp [F64.le, F64.lt, F64.feq] at hx
  | pinf => simp [isProb, probOut, F64.min, F64.lt, F64.le, F64.feq, one]
  | fin k =>
    have hk : 0 ≤ k := by
      rw [F64.le_fin] at hx; simpa using hx
    simp only [isProb, probOut, F64.min, one, F64.lt_fin]
    by_cases h : (4607182418800017408 : Int) < k
    · simp [h, F64.le_fin]
    · simp only [h, decide_false, Bool.false_eq_true, ↓reduceIte, F64.le_fin, Bool.and_eq_true, decide_eq_true_eq]
      omega

/-- `mutate_enum`: `.filter(|name| name != current).choose(rng).unwrap()` finds another value -/
theorem C15_enum_other (vs : List String) (i x : String) (h : wf (.enum vs i) = true) : ∃ y ∈ vs, y ≠ x := by
  simp only [wf, Bool.and_eq_true, decide_eq_true_eq] at h
  obtain ⟨⟨h2, hd⟩, _⟩ := h
  match vs, h2, hd with
  | a :: b :: r, _, hd =>
    simp only [allDistinct, Bool.and_eq_true, Bool.not_eq_true', List.contains_cons, Bool.or_eq_false_iff] at hd
    have hab : (a == b) = false := hd.1.1
    by_cases hx : a = x
    · refine ⟨b, by simp, ?_⟩
      intro hb; subst hx; subst hb; simp at hab
    · exact ⟨a, by simp, hx⟩

theorem lookup_of_keys_contains : ∀ (o : SFields) (i : String), o.keys.contains i = true → ∃ cs, o.lookup i = some cs
  | .nil, i, hc => by simp [SFields.keys] at hc
  | .cons k n r, i, hc => by
    simp only [SFields.keys, List.contains_cons, Bool.or_eq_true] at hc
    simp only [SFields.lookup]
    by_cases hk : (k == i) = true
    · exact ⟨n, by simp [hk]⟩
    · simp only [hk, Bool.false_eq_true, ↓reduceIte]
      apply lookup_of_keys_contains r i
      rcases hc with hc | hc
      · have : (k == i) = true := by
          have : i = k := by simpa using hc
          simp [this]
        exact absurd this hk
      · exact hc

/-- `initial_value` of a variant: `map.get(init).unwrap()` succeeds -/
theorem C15_variant_init (o : SFields) (i : String) (h : wf (.variant o i) = true) : ∃ cs, o.lookup i = some cs := by
  simp only [wf, Bool.and_eq_true] at h
  obtain ⟨⟨_, hc⟩, _⟩ := h
  exact lookup_of_keys_contains o i hc

/-! ### `Value::to_json` (the controller writes every new individual as JSON before it is evaluated) -/

/-- The only panic site of `Value::to_json` is `Number::from_f64(x).unwrap()` on a real that is not finite
    (`jsonable`: every real of the value is finite).  A value that conforms to its spec is written without a panic. -/
theorem C15_to_json_safe (s : SNode) (v : VNode) (h : conf s v = true) : jsonable v = true :=
  conf_jsonable s v h

/-- Hence no run crashes while handing a parameter set to the objective function: in the closed model (controller,
    algorithm core, code-shaped operators) every parameter set ever started can be written as JSON - for every random
    stream, schedule, sample size and concurrency. -/
theorem C15_run_jsonable (spec : SNode) (hs : wf spec = true) (c : Cfg) (ss : Nat) (v0 d : VNode)
    (hv0 : conf spec v0 = true) (chs : Nat → Algo.Choice VNode) (hchs : AlgInit spec v0 chs)
    (evs : List (Ev VNode)) (halg : AlgFrom spec c (init c ss (some v0) d chs).1 evs)
    (sd id : Nat) (v : VNode) (hstart : Act.start sd id v ∈ (run c ss (some v0) d chs evs).2) :
    jsonable v = true :=
  conf_jsonable spec v ((run_confInv_alg spec hs c ss v0 d hv0 chs hchs evs halg).startsOk sd id v hstart)

/-- negative witnesses: an infinite or NaN real anywhere in the value is what makes `to_json` panic -/
example : jsonable (.sub (.cons "x" (.real .pinf) .nil)) = false := by decide
example : jsonable (.amap (.cons 3 (.osome (.real .nan)) .nil)) = false := by decide
example : jsonable (.sub (.cons "x" (.real (.fin 0)) (.cons "y" (.int 3) .nil))) = true := by decide

end Cambrian.Props
