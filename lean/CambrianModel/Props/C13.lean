/-
C13  Mutation is local: identity at probability 0, resize by one, fresh keys.

Theorems about `mutAcc` (L4a: the set of results `mutation::mutate` may produce) for EVERY spec (maps nested in maps,
variants, optionals, any depth), every conforming value and every probability class, i.e. every random stream and
every key-manager history (the freshness of an added key is a local fact: it is not a key of the input map).
Float laws used: none.
-/
import CambrianModel.Lemmas.MutLemmas
import CambrianModel.Lemmas.MutGenLemmas
import CambrianModel.Lemmas.PathLemmas
namespace Cambrian.Props
open Cambrian

/-- Mutation with probability 0 returns its input unchanged. -/
theorem C13_id (s : SNode) (vi vo : VNode) (hi : conf s vi = true) (h : mutAcc .zero s vi vo = true) : vo = vi :=
  mutAcc_zero_id s vi vo hi h

/-- At every resizable map of the value (`resizeLocal` walks all of them, also inside switched variants,
    materialised optionals and surviving elements of outer maps): the size changes by at most one per mutation; a
    removed key was present and no other key changed; an added element gets a key that no element of the map uses and
    no existing key disappears, so nothing is overwritten; with probability 1 the size does change (a well-formed
    map is never pinned: `minSize < maxSize`). -/
theorem C13_step (pc : PClass) (s : SNode) (vi vo : VNode) (hs : wf s = true) (hi : conf s vi = true)
    (h : mutAcc pc s vi vo = true) : resizeLocal pc s vi vo = true :=
  mutAcc_resizeLocal pc s vi vo hs hi h

/-- Switching a variant or materialising an optional starts from that option's declared initial value: by
    definition of the acceptor the new part must be an accepted mutation of `initialValue` of that option. -/
theorem C13_init_variant (pc : PClass) (opts : SFields) (i n n' : String) (v v' : VNode) (hne : (n == n') = false)
    (h : mutAcc pc (.variant opts i) (.variant n v) (.variant n' v') = true) :
    ∃ cs, opts.lookup n' = some cs ∧ mutAcc pc cs (initialValue cs) v' = true := by
  simp only [mutAcc, hne] at h
  cases ho : opts.lookup n' with
  | none => simp [ho] at h
  | some cs =>
    simp only [ho, Bool.false_eq_true, ↓reduceIte, Bool.and_eq_true] at h
    exact ⟨cs, rfl, h.2⟩

theorem C13_init_optional (pc : PClass) (e : SNode) (p : Bool) (v' : VNode)
    (h : mutAcc pc (.opt e p) .onone (.osome v') = true) : mutAcc pc e (initialValue e) v' = true := by
  simp only [mutAcc, Bool.and_eq_true] at h
  exact h.2

/-! ### the code-shaped model of `mutation::mutate` (`mutGen`: every random decision an oracle field) -/

/-- The acceptor is not tighter than the code it describes: every result of the ALGORITHM `mutGen` - for every oracle
    the random generator can produce for that probability class, every spec, every conforming value - is accepted by
    `mutAcc`.  (So a disagreement reported by K-ops is never an artefact of the acceptor.) -/
theorem C13_refine (o : MutOracle) (pc : PClass) (hc : o.Consistent pc) (s : SNode) (p : Path) (vi : VNode)
    (hs : wf s = true) (hi : conf s vi = true) : mutAcc pc s vi (mutGen o s p vi) = true :=
  mutGen_mutAcc o pc hc s p vi hs hi

/-- Hence C13 holds of the algorithm itself: with probability 0 (every Bernoulli outcome "no") it returns its input ... -/
theorem C13_id_alg (o : MutOracle) (hc : o.Consistent .zero) (s : SNode) (p : Path) (vi : VNode)
    (hs : wf s = true) (hi : conf s vi = true) : mutGen o s p vi = vi :=
  mutAcc_zero_id s vi _ hi (mutGen_mutAcc o .zero hc s p vi hs hi)

/-- ... and for every probability class every resizable map of the value changes its size by at most one, an added key
    is fresh (nothing is overwritten), and at probability 1 every map is resized -/
theorem C13_step_alg (o : MutOracle) (pc : PClass) (hc : o.Consistent pc) (s : SNode) (p : Path) (vi : VNode)
    (hs : wf s = true) (hi : conf s vi = true) : resizeLocal pc s vi (mutGen o s p vi) = true :=
  mutAcc_resizeLocal pc s vi _ hs hi (mutGen_mutAcc o pc hc s p vi hs hi)

/-! ### the key manager (`path.rs::KeyManager`, add branch of `mutate_anon_map`) -/

/-- The key given to an added element is FRESH whatever the history of the key manager at that path - whatever was
    registered or handed out before, for whichever individual (the manager is shared by the whole population): it is
    larger than every key of the map being mutated, so nothing is overwritten.  An obligation on three source facts
    read on every run (`on_key_seen` raises the counter to `key + 1`, `next_key` hands out the counter, the existing
    keys are registered right before the allocation): the `decide`s stop checking when the source loses one. -/
theorem C13_key_fresh (k : KeyMgr) (m : VEntries) : (KeyMgr.allocNow k m.keys).1 ∉ m.keys := by
  have h1 : Generated.keyMgrSeenIsMax = true := by decide
  have h2 : Generated.keyMgrNextIsCounter = true := by decide
  have h3 : Generated.keysRegisteredBeforeAlloc = true := by decide
  simp only [KeyMgr.allocNow, h1, h2, h3]
  exact KeyMgr.alloc_fresh k m.keys

/-- ... it is never handed out again by the same manager (the counter moves past it) ... -/
theorem C13_key_once (k : KeyMgr) (m m' : VEntries) :
    (KeyMgr.allocNow (KeyMgr.allocNow k m.keys).2 m'.keys).1 ≠ (KeyMgr.allocNow k m.keys).1 := by
  have h1 : Generated.keyMgrSeenIsMax = true := by decide
  have h2 : Generated.keyMgrNextIsCounter = true := by decide
  have h3 : Generated.keysRegisteredBeforeAlloc = true := by decide
  simp only [KeyMgr.allocNow, h1, h2, h3]
  have hn := KeyMgr.alloc_next k m.keys
  have hg := KeyMgr.foldl_seen_ge (KeyMgr.alloc true true true k m.keys).2 m'.keys
  simp only [KeyMgr.alloc, KeyMgr.next, if_true] at hn hg ⊢
  omega

/-- ... and it has the form `mutGen` assumes (largest key + 1, or 0 for an empty map, plus a non-negative bump), so
    the algorithm model's oracle field `keyBump` is all that is left of the key manager's history. -/
theorem C13_key_form (k : KeyMgr) (m : VEntries) :
    ∃ bump, (KeyMgr.allocNow k m.keys).1 = (if m.keys.length == 0 then 0 else m.maxKey + 1) + bump := by
  have h1 : Generated.keyMgrSeenIsMax = true := by decide
  have h2 : Generated.keyMgrNextIsCounter = true := by decide
  have h3 : Generated.keysRegisteredBeforeAlloc = true := by decide
  simp only [KeyMgr.allocNow, h1, h2, h3]
  exact KeyMgr.alloc_form k m

/-- negative witnesses: without the registration loop (the code before fix D1) a manager that has not seen the map's
    keys hands out a key the map already uses; a manager that recycles is not the model -/
example : (KeyMgr.alloc true true false {} [0, 1]).1 ∈ [0, 1] := by decide
example : (KeyMgr.allocNow { nextKey := 1 } [0, 5, 2]).1 = 6 := by decide

/-- non-vacuity: a map grows by one fresh key at probability 1; overwriting an element is not accepted -/
example :
    let s : SNode := .amap (.bool true) 2 none none
    let vi : VNode := .amap (.cons 0 (.bool true) (.cons 1 (.bool true) .nil))
    let grown : VNode := .amap (.cons 0 (.bool false) (.cons 1 (.bool false) (.cons 2 (.bool false) .nil)))
    let overwritten : VNode := .amap (.cons 0 (.bool false) (.cons 1 (.bool false) .nil))
    mutAcc .one s vi grown = true ∧ resizeLocal .one s vi grown = true ∧ mutAcc .one s vi overwritten = false := by
  decide

end Cambrian.Props
