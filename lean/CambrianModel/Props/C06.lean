/-
C06  An evaluation failure stops the run and is the reported error.

Theorems about `Ctl.run` (L6): a failure (`Res.fail e`: the objective function reported an error, the child exited
non-zero or printed unparsable output - mapped to errors by L8 - or a non-finite value, `e = 0`) at ANY position of
ANY schedule, with any evaluations in flight, followed by ANY later events (further failures, results at or below
the target, any completion order).  Float laws used: none.
-/
import CambrianModel.Lemmas.CtlStep
import CambrianModel.Model.Process
namespace Cambrian.Props
open Cambrian Cambrian.Ctl

variable {V : Type}

/-- Let a failure `er` be taken while no abort is latched (i.e. before any termination request and before any other
    failure), after an arbitrary prefix `e1`.  Then, for every continuation `e2`:
    the abort is broadcast in that very step; no evaluation is started in that step or ever after; the recorded
    error is `er` for good (later failures do not replace it); and whenever the run returns - when the in-flight
    evaluations have ended, or earlier through the target/budget checks - it returns exactly `Err(er)`, never a
    success report. -/
theorem C06_first (c : Cfg) (hnc : 0 < c.nc) (ss : Nat) (v0 d : V) (chs : Nat → Algo.Choice V)
    (e1 e2 : List (Ev V)) (seed er : Nat) (ind : Algo.Ind V) (ch : Algo.Choice V)
    (hd : (run c ss (some v0) d chs e1).1.done = false)
    (hab : (run c ss (some v0) d chs e1).1.aborted = false)
    (hl : lookupSeed seed (run c ss (some v0) d chs e1).1.inflight = some ind) :
    let full := run c ss (some v0) d chs (e1 ++ (.complete seed (.fail er) ch :: e2))
    full.1.err = some er ∧
    (∃ acts2, full.2 = (run c ss (some v0) d chs e1).2 ++ acts2 ∧ Act.broadcastAbort ∈ acts2 ∧
        ∀ a ∈ acts2, a.isStart = false) ∧
    (∀ o dr, Act.ret o dr ∈ full.2 → o = .err er) := by
  intro full
  have hfull : full = run c ss (some v0) d chs (e1 ++ (.complete seed (.fail er) ch :: e2)) := rfl
  rw [run_append] at hfull
  simp only [stepsFrom] at hfull
  obtain ⟨f1, f2, f3, f4⟩ := step_fail_first (c := c) er ch hd hab hl
  obtain ⟨g1, g2, g3⟩ := stepsFrom_aborted (c := c) e2 _ f2
  have herr : full.1.err = some er := by rw [hfull]; simp only; rw [g2, f1]
  refine ⟨herr, ⟨_, by rw [hfull], ?_, ?_⟩, ?_⟩
  · exact List.mem_append_left _ f3
  · intro a ha
    simp only [List.mem_append] at ha
    rcases ha with ha | ha
    · exact f4 a ha
    · exact (g3 a ha).1
  · intro o dr hret
    have h2 := run_inv2 c hnc ss v0 d chs (e1 ++ (.complete seed (.fail er) ch :: e2))
    obtain ⟨_, ho, _⟩ := h2.retOut o dr hret
    rw [ho]
    simp only [outcome]
    have : (run c ss (some v0) d chs (e1 ++ (.complete seed (.fail er) ch :: e2))).1.err = some er := herr
    rw [this]

/-- A failure that arrives after the abort flag was latched by a *termination request* is not the run's error: the
    terminated run still returns its best-seen (C04).  (This is the "before any termination request" clause.) -/
theorem C06_after_abort_keeps_error (c : Cfg) (s : St V) (e : Ev V) (hab : s.aborted = true) :
    (step c s e).1.err = s.err :=
  (step_aborted e hab).2.1

/-- non-vacuity: failure with a sibling in flight whose later result is below the target: the error wins -/
example :
    let c : Cfg := { nc := 2, maxEval := none, target := some (.fin 100) }
    let evs : List (Ev Nat) := [.complete 0 (.fail 7) ⟨false, 1⟩, .complete 1 (.acc 3 3) ⟨false, 2⟩]
    (run c 1 (some 0) 0 (fun _ => ⟨false, 9⟩) evs).2 =
      [.start 0 0 0, .start 1 1 9, .broadcastAbort, .item 1 1 (some 3), .ret (.err 7) []] := by
  decide

/-! ### what counts as a failing child (`process.rs::get_child_result`) -/

/-- A child that does not exit with status 0 - a non-zero exit code, or a death by signal even after it has printed a
    perfectly valid result - is a failed evaluation whatever it wrote (the exit status is judged by
    `ExitStatus::success()` and before the output is looked at: source fact `childStatusBySuccessFirst`). -/
theorem C06_child_not_ok (st : Proc.ExitStatus) (out : Proc.ChildOut) (h : st ≠ .exited 0) :
    Proc.classifyChild { exitOk := Proc.exitOkOf Generated.childStatusBySuccessFirst st, out := out } = .failed .procFailed := by
  have hg : Generated.childStatusBySuccessFirst = true := by decide
  rw [hg]
  cases st with
  | exited c =>
    cases c with
    | zero => exact absurd rfl h
    | succ n => simp [Proc.classifyChild, Proc.exitOkOf, Proc.ExitStatus.success]
  | signaled sg => simp [Proc.classifyChild, Proc.exitOkOf, Proc.ExitStatus.success]

/-- "... and the run returns once they have ended": under the hypotheses of `C06_first`, as soon as nothing is in
    flight any more the run HAS returned - exactly one `ret` action has been emitted, and it carries `Err(er)`. -/
theorem C06_returns_once_ended (c : Cfg) (hnc : 0 < c.nc) (ss : Nat) (v0 d : V) (chs : Nat → Algo.Choice V)
    (e1 e2 : List (Ev V)) (seed er : Nat) (ind : Algo.Ind V) (ch : Algo.Choice V)
    (hd : (run c ss (some v0) d chs e1).1.done = false)
    (hab : (run c ss (some v0) d chs e1).1.aborted = false)
    (hl : lookupSeed seed (run c ss (some v0) d chs e1).1.inflight = some ind)
    (hempty : (run c ss (some v0) d chs (e1 ++ (.complete seed (.fail er) ch :: e2))).1.inflight = []) :
    nRet (run c ss (some v0) d chs (e1 ++ (.complete seed (.fail er) ch :: e2))).2 = 1 ∧
    ∃ dr, Act.ret (.err er) dr ∈ (run c ss (some v0) d chs (e1 ++ (.complete seed (.fail er) ch :: e2))).2 := by
  have hinv := run_inv c ss (some v0) d chs (e1 ++ (.complete seed (.fail er) ch :: e2))
  have hdone : (run c ss (some v0) d chs (e1 ++ (.complete seed (.fail er) ch :: e2))).1.done = true := by
    cases hdn : (run c ss (some v0) d chs (e1 ++ (.complete seed (.fail er) ch :: e2))).1.done with
    | true => rfl
    | false => exact absurd hempty (hinv.live hdn)
  have hn : nRet (run c ss (some v0) d chs (e1 ++ (.complete seed (.fail er) ch :: e2))).2 = 1 := by
    rw [hinv.rets, hdone]; rfl
  refine ⟨hn, ?_⟩
  have hpos : 0 < List.countP Act.isRet (run c ss (some v0) d chs (e1 ++ (.complete seed (.fail er) ch :: e2))).2 := by
    have : nRet (run c ss (some v0) d chs (e1 ++ (.complete seed (.fail er) ch :: e2))).2 = 1 := hn
    unfold nRet at this; omega
  obtain ⟨a, ha, hr⟩ := List.countP_pos_iff.mp hpos
  cases a with
  | ret o dr =>
    have h3 := (C06_first c hnc ss v0 d chs e1 e2 seed er ind ch hd hab hl).2.2 o dr ha
    exact ⟨dr, h3 ▸ ha⟩
  | _ => simp [Act.isRet] at hr

/-- non-vacuity of `C06_returns_once_ended`: its hypotheses hold for the run of the example above (`e1 = []`) -/
example :
    let c : Cfg := { nc := 2, maxEval := none, target := some (.fin 100) }
    let r0 := run c 1 (some 0) 0 (fun _ => (⟨false, 9⟩ : Algo.Choice Nat)) []
    r0.1.done = false ∧ r0.1.aborted = false ∧ (lookupSeed 0 r0.1.inflight).isSome = true ∧
    (run c 1 (some 0) 0 (fun _ => (⟨false, 9⟩ : Algo.Choice Nat))
      ([] ++ (.complete 0 (.fail 7) ⟨false, 1⟩ :: [.complete 1 (.acc 3 3) ⟨false, 2⟩]))).1.inflight = [] := by
  decide

/-- Which children fail an evaluation, stated outright: every way of ending other than "exit status 0 and a finite
    number or null on stdout" is a failure - a non-zero exit or signal death, unparsable / ill-shaped output, and a
    non-finite objective value. -/
theorem C06_failure_iff (r : Proc.ChildRes) :
    (∃ f, Proc.classifyChild r = .failed f) ↔
      (r.exitOk = false ∨ r.out = .invalid ∨ ∃ x, r.out = .value x ∧ x.isFinite = false) := by
  cases r with
  | mk e o =>
    cases e <;> cases o <;> simp [Proc.classifyChild]
    case true.value x => cases h : x.isFinite <;> simp

/-- ... and each kind of failure is told apart (the error the run reports names what went wrong) -/
theorem C06_failure_kind (r : Proc.ChildRes) (f : Proc.Fail) (h : Proc.classifyChild r = .failed f) :
    (f = .procFailed ∧ r.exitOk = false) ∨ (f = .invalidOutput ∧ r.exitOk = true ∧ r.out = .invalid) ∨
    (f = .nonFinite ∧ r.exitOk = true ∧ ∃ x, r.out = .value x ∧ x.isFinite = false) := by
  cases r with
  | mk e o =>
    cases e <;> cases o <;> simp [Proc.classifyChild] at h ⊢
    case false.value x => exact h.symm
    case false.null => exact h.symm
    case false.invalid => exact h.symm
    case true.value x =>
      cases hx : x.isFinite <;> simp [hx] at h ⊢
      exact h.symm
    case true.invalid => exact h.symm

/-- negative witness: judged by "exit code, 0 when there is none", a child killed by SIGSEGV after answering is accepted -/
example : Proc.classifyChild { exitOk := Proc.exitOkOf false (.signaled 11), out := .value (.fin 0) } = .accepted (.fin 0) := by decide
example : Proc.classifyChild { exitOk := Proc.exitOkOf true (.exited 0), out := .value (.fin 0) } = .accepted (.fin 0) := by decide

end Cambrian.Props
