/-
C02  Reported best-seen was really evaluated, is correctly valued and is the minimum.

Theorems about `Ctl.run` (L6 with the algorithm core L5 inside) for EVERY event list: all sequences of objective
values (ties, negative zero = zero under the order code, monotone, far more than the population cap), all rejection
patterns, all completion orders at any concurrency, all termination causes.
Float laws used: FL-mean1 (the mean of one value is that value), built into `Algo.summ`; for sample size > 1 the
mean is an observed value `m` of the event (`Res.acc x m`).
-/
import CambrianModel.Lemmas.PopInv
namespace Cambrian.Props
open Cambrian Cambrian.Ctl Cambrian.Algo

variable {V : Type}

theorem best_some {a : Algo.St V} {x : Int} {v : V} (h : Algo.best a = some (x, v)) :
    ∃ e ∈ a.pop, ∃ l, e.st = .final x l ∧ e.v = v := by
  simp only [Algo.best] at h
  obtain ⟨e, he, h2⟩ := List.exists_of_findSome?_eq_some h
  cases hst : e.st with
  | ready l => simp [hst] at h2
  | final y l =>
    simp only [hst, Option.some.injEq, Prod.mk.injEq] at h2
    exact ⟨e, he, l, by rw [← h2.1]; exact hst, h2.2⟩

/-- what a success report says, spelled out from the final state -/
theorem ret_ok_best (c : Cfg) (hnc : 0 < c.nc) (ss : Nat) (v0 d : V) (chs : Nat → Algo.Choice V) (evs : List (Ev V))
    (b : Int) (v : V) (a rj : Nat) (dr : List Nat)
    (hret : Act.ret (.ok b v a rj) dr ∈ (run c ss (some v0) d chs evs).2) :
    Algo.best (run c ss (some v0) d chs evs).1.core = some (b, v) := by
  have h2 := run_inv2 c hnc ss v0 d chs evs
  obtain ⟨_, ho, _⟩ := h2.retOut _ _ hret
  simp only [outcome] at ho
  split at ho
  · simp at ho
  · split at ho
    · rename_i x w hb
      injection ho with h1 h2 _ _
      rw [hb, h1, h2]
    · simp at ho

/-- The reported best-seen parameter set was actually handed to the objective function in this run, as the
    individual `id`; that individual has exactly sample-size accepted results, and the reported objective value is
    the summary (`summ`: the value itself at sample size 1, the observed mean otherwise) of exactly those results. -/
theorem C02_member (c : Cfg) (hnc : 0 < c.nc) (ss : Nat) (hss : 0 < ss) (v0 d : V) (chs : Nat → Algo.Choice V)
    (evs : List (Ev V)) (b : Int) (v : V) (a rj : Nat) (dr : List Nat)
    (hret : Act.ret (.ok b v a rj) dr ∈ (run c ss (some v0) d chs evs).2) :
    ∃ id, (∃ sd, Act.start sd id v ∈ (run c ss (some v0) d chs evs).2) ∧
      (itemVals id (run c ss (some v0) d chs evs).2).length = ss ∧
      ∃ m, b = Algo.summ (itemVals id (run c ss (some v0) d chs evs).2) m := by
  have hp := run_popInv c ss hss v0 d chs evs
  obtain ⟨e, he, l, hst, hv⟩ := best_some (ret_ok_best c hnc ss v0 d chs evs b v a rj dr hret)
  obtain ⟨⟨sd, hs⟩, hiv, _, hok, ⟨m, hm⟩⟩ := hp.popEntry e he
  simp only [stateOk, hst] at hok
  simp only [hst, samplesOf] at hiv hm
  refine ⟨e.id, ⟨sd, by rw [← hv]; exact hs⟩, by rw [hiv]; exact hok.1, m, ?_⟩
  rw [hiv, ← hm, hok.2]

/-- Sample size 1: the reported objective is a minimum over ALL accepted evaluations of the run - nothing better
    is lost to population eviction, rejections, completion order or the way the run ended - and it is the result of
    one of them, obtained for exactly the reported parameter set. -/
theorem C02_min1 (c : Cfg) (hnc : 0 < c.nc) (v0 d : V) (chs : Nat → Algo.Choice V)
    (evs : List (Ev V)) (b : Int) (v : V) (a rj : Nat) (dr : List Nat)
    (hret : Act.ret (.ok b v a rj) dr ∈ (run c 1 (some v0) d chs evs).2) :
    (∀ id sd x, Act.item id sd (some x) ∈ (run c 1 (some v0) d chs evs).2 → b ≤ x) ∧
    (∃ id, (∃ sd, Act.start sd id v ∈ (run c 1 (some v0) d chs evs).2) ∧
           itemVals id (run c 1 (some v0) d chs evs).2 = [b]) := by
  have hp := run_popInv c 1 (by decide) v0 d chs evs
  have hb := ret_ok_best c hnc 1 v0 d chs evs b v a rj dr hret
  constructor
  · intro id sd x hx
    obtain ⟨h, hh, hle⟩ := hp.headMin rfl id sd x hx
    -- at sample size 1 every entry is final, so the best is the head
    obtain ⟨e, he, l, hst, hv⟩ := best_some hb
    cases hpop : (run c 1 (some v0) d chs evs).1.core.pop with
    | nil => rw [hpop] at hh; simp at hh
    | cons p ps =>
      rw [hpop] at hh
      simp only [List.head?_cons, Option.some.injEq] at hh
      subst hh
      obtain ⟨_, _, _, hok, _⟩ := hp.popEntry p (by rw [hpop]; simp)
      cases hps : p.st with
      | ready l' => simp only [stateOk, hps] at hok; omega
      | final y l' =>
        simp only [stateOk, hps] at hok
        have : Algo.best (run c 1 (some v0) d chs evs).1.core = some (y, p.v) := by
          simp [Algo.best, hpop, hps]
        rw [this] at hb
        injection hb with hb
        injection hb with hb1 _
        rw [← hb1, hok.2]
        rcases hle with h | h <;> omega
  · obtain ⟨id, hs, hlen, m, hm⟩ := C02_member c hnc 1 (by decide) v0 d chs evs b v a rj dr hret
    refine ⟨id, hs, ?_⟩
    match hiv : itemVals id (run c 1 (some v0) d chs evs).2, hlen with
    | [y], _ => rw [hiv] at hm; simp only [Algo.summ] at hm; rw [hm]

/-- Sample size 1: a run in which at least one evaluation was accepted never ends with "no individuals". -/
theorem C02_nonempty1 (c : Cfg) (hnc : 0 < c.nc) (v0 d : V) (chs : Nat → Algo.Choice V) (evs : List (Ev V))
    (dr : List Nat) (hret : Act.ret .noIndividuals dr ∈ (run c 1 (some v0) d chs evs).2) :
    ∀ id sd x, Act.item id sd (some x) ∉ (run c 1 (some v0) d chs evs).2 := by
  intro id sd x hx
  have hp := run_popInv c 1 (by decide) v0 d chs evs
  have h2 := run_inv2 c hnc 1 v0 d chs evs
  obtain ⟨_, ho, _⟩ := h2.retOut _ _ hret
  obtain ⟨h, hh, _⟩ := hp.headMin rfl id sd x hx
  cases hpop : (run c 1 (some v0) d chs evs).1.core.pop with
  | nil => rw [hpop] at hh; simp at hh
  | cons p ps =>
    obtain ⟨_, _, _, hok, _⟩ := hp.popEntry p (by rw [hpop]; simp)
    cases hps : p.st with
    | ready l' => simp only [stateOk, hps] at hok; omega
    | final y l' =>
      have : Algo.best (run c 1 (some v0) d chs evs).1.core = some (y, p.v) := by
        simp [Algo.best, hpop, hps]
      simp only [outcome, this] at ho
      split at ho <;> simp at ho

/-- non-vacuity: ties and eviction-free minimum; the later, equal result does not displace the earlier one -/
example :
    let c : Cfg := { nc := 2, maxEval := some 3, target := none }
    let evs : List (Ev Nat) := [.complete 1 (.acc 5 5) ⟨false, 7⟩, .complete 0 (.acc 5 5) ⟨false, 8⟩, .complete 2 (.acc 9 9) ⟨false, 8⟩]
    (run c 1 (some 0) 0 (fun _ => ⟨false, 4⟩) evs).2.getLast? = some (.ret (.ok 5 0 3 0) []) := by decide

end Cambrian.Props
