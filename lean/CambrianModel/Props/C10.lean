/-
C10  Spec parsing: total, faithful, and accepts only well-formed parameter spaces.

Theorems about `build` / `parseSpec` (L3) for EVERY YAML tree (any nesting, any attribute soup, any type
definitions).  The attribute whitelists, built-in type names and the two `typeDef` prefixes are regenerated from
`spec_util.rs` on every run (`Generated.lean`).  Float laws used: none (numbers are compared, never computed).
-/
import CambrianModel.Lemmas.ParseLemmas
namespace Cambrian.Props
open Cambrian

/-- Parsing never crashes: `build` is a total function (accepted by Lean as structurally terminating); every document
    is either accepted or rejected with an error. -/
theorem C10_total (y : Y) : (∃ s, parseSpec y = .ok s) ∨ (∃ e, parseSpec y = .error e) := by
  cases h : parseSpec y with
  | ok s => exact Or.inl ⟨s, rfl⟩
  | error e => exact Or.inr ⟨e, rfl⟩

/-- If a document is accepted, the parameter space is well-formed: min < max, initial value within bounds, finite
    numbers, strictly positive scale, at least two distinct enum values and two variant options with a declared
    initial option, array size >= 2, consistent map size bounds, non-empty subs.  Equivalently: a document breaking
    one of these rules is rejected. -/
theorem C10_wf (y : Y) (s : SNode) (hy : yvalid y = true) (h : parseSpec y = .ok s) : wf s = true :=
  parseSpec_wf y s hy h

/-- ... hence its initial value conforms to it. -/
theorem C10_init_conf (y : Y) (s : SNode) (hy : yvalid y = true) (h : parseSpec y = .ok s) :
    conf s (initialValue s) = true :=
  initialValue_conf s (parseSpec_wf y s hy h)

/-- Faithful: every well-formed parameter space (whose member names can be written as plain keys) has a document -
    the canonical one - that is read back as exactly that parameter space, every declared parameter present, in any
    scope of type definitions. -/
theorem C10_roundtrip (cast : Int → F64) (hcast : ∀ i, (cast i).isFinite = true) (env : Env) (s : SNode)
    (hs : wf s = true) (hk : keysWritable s = true) : build env (render cast s) = .ok s :=
  build_render cast hcast env s hs hk

/-- The two passes of the sub parser agree on what a type definition is: a key is skipped as a type definition by
    the member pass exactly when the definition pass treats it as one (so no parameter is silently dropped).  This
    is an obligation on the constants extracted from the source. -/
theorem C10_prefixes_agree : Generated.typeDefPrefixMembers = Generated.typeDefPrefixDefs := by decide

/-- Type references: a reference `type: X` to a user-defined name denotes the innermost definition of `X` in scope -
    `Env.find` returns the most recently added binding, and a sub adds its definitions in document order on top of
    the enclosing scope (shadowing), without changing the enclosing scope. -/
theorem C10_scope_shadow (env : Env) (n : String) (s : SNode) : Env.find ((n, s) :: env) n = some s := by
  simp [Env.find]

theorem C10_scope_outer (env : Env) (n m : String) (s : SNode) (h : (n == m) = false) :
    Env.find ((n, s) :: env) m = Env.find env m := by
  simp [Env.find, h]

/-- unknown type names are rejected -/
theorem C10_unknown_type (env : Env) (m : YPairs) (tn : String) (ht : exStr m "type" false = .ok (some tn))
    (hb : Generated.builtInTypeNames.contains tn = false) (hf : Env.find env tn = none) :
    build env (.map m) = .error .unknownTypeName := by
  have hne : ∀ b, b ∈ Generated.builtInTypeNames → (tn == b) = false := by
    intro b hb'
    cases hbb : (tn == b)
    · rfl
    · have : tn = b := by simpa using hbb
      subst this
      have : Generated.builtInTypeNames.contains tn = true := by simpa using hb'
      rw [this] at hb; cases hb
  simp only [build, ht, Option.getD]
  have h1 := hne "real" (by decide); have h2 := hne "int" (by decide); have h3 := hne "bool" (by decide)
  have h4 := hne "sub" (by decide); have h5 := hne "array" (by decide); have h6 := hne "anon map" (by decide)
  have h7 := hne "variant" (by decide); have h8 := hne "enum" (by decide); have h9 := hne "optional" (by decide)
  have h10 := hne "const" (by decide)
  simp [h1, h2, h3, h4, h5, h6, h7, h8, h9, h10, hf]

/-! ### non-vacuity: a concrete, non-trivial parameter space and value meet the hypotheses used above -/

/-- an integer with bounds, a resizable map of booleans with size bounds, an optional enum -/
def exSpec10 : SNode :=
  .sub (.cons "a" (.int 3 (.fin 4607182418800017408) (some 0) (some 10))
       (.cons "m" (.amap (.bool false) 2 (some 1) (some 3))
       (.cons "o" (.opt (.enum ["x", "y"] "x") false) .nil)))


example : wf exSpec10 = true ∧ keysWritable exSpec10 = true := by decide

/-- the canonical document of that space is a valid tree and is read back as exactly that space -/
example : yvalid (render (fun _ => .fin 0) exSpec10) = true ∧
    (match parseSpec (render (fun _ => .fin 0) exSpec10) with | .ok s => s == exSpec10 | .error _ => false) = true := by
  decide

end Cambrian.Props
