/-
C01  Every candidate handed to the objective function conforms to the spec.

Operator level: theorems about the initial value, the guess reader and the acceptors `crossAcc` / `mutAcc` (every
result the real operators may produce), for EVERY spec of the 10 node kinds at any nesting, every value, every
probability class (every random stream).
Run level: `C01_run` over the controller + algorithm core (L6 + L5 with `V := VNode`), for EVERY event list: any
objective values, rejections, failures, completion order, sample size and concurrency.
Float laws used: FL-cast (guess reader only).  Assumption: map keys are machine `usize`s (`keysBounded`).
-/
import CambrianModel.Lemmas.ConfInv
import CambrianModel.Lemmas.JsonLemmas
import CambrianModel.Lemmas.ParseLemmas
import CambrianModel.Lemmas.MutGenLemmas
import CambrianModel.Lemmas.CrossGenLemmas
import CambrianModel.Lemmas.AlgRun
namespace Cambrian.Props
open Cambrian Cambrian.Ctl

/-- the spec's initial value conforms -/
theorem C01_init (s : SNode) (hs : wf s = true) : conf s (initialValue s) = true :=
  initialValue_conf s hs

/-- an accepted initial guess conforms -/
theorem C01_guess (cast : Int → F64) (hcast : ∀ i, (cast i).isFinite = true) (s : SNode) (j : J) (v : VNode)
    (hs : wf s = true) (hj : jvalid j = true) (hz : jsized j = true) (h : fromJson cast s j = .ok v) :
    conf s v = true :=
  fromJson_conf cast hcast s j v hs hj hz h

/-- "for every accepted spec": what the closure theorems below assume of a spec (`wf`) is what the parser
    guarantees of every document it accepts (C10) -/
theorem C01_accepted_wf (y : Y) (s : SNode) (hy : yvalid y = true) (h : parseSpec y = .ok s) : wf s = true :=
  parseSpec_wf y s hy h

/-- crossover of conforming parents gives a conforming offspring -/
theorem C01_cross (cp sp : PClass) (s : SNode) (ps : List VNode) (out : VNode) (hs : wf s = true)
    (hne : ps ≠ []) (hp : ∀ p ∈ ps, conf s p = true) (h : crossAcc cp sp s ps out = true) : conf s out = true :=
  crossAcc_conf cp sp s ps out hs hne hp h

/-- mutation of a conforming value gives a conforming value: arrays keep their length, maps stay within their size
    bounds with unique keys, variants and enums name a declared option, integers and reals stay finite and inside
    their declared bounds - for every sample the random generator could deliver (a non-finite sample keeps the old
    value) -/
theorem C01_mut (pc : PClass) (s : SNode) (vi vo : VNode) (hs : wf s = true) (hi : conf s vi = true)
    (hk : keysBounded vo = true) (h : mutAcc pc s vi vo = true) : conf s vo = true :=
  mutAcc_conf pc s vi vo hs hi hk h

/-- Closure stated for the ALGORITHMS themselves (the code-shaped models `crossGen` / `mutGen`, every random decision an
    oracle field): recombination of conforming parents followed by mutation yields a conforming candidate - for every
    spec, any number of parents, every consistent oracle, every sample the generator could deliver. -/
theorem C01_offspring_alg (oc : CrossOracle) (om : MutOracle) (cp sp pc : PClass) (hcc : oc.Consistent cp sp)
    (hmc : om.Consistent pc) (s : SNode) (p : Path) (ps : List VNode) (hs : wf s = true) (hne : ps ≠ [])
    (hp : ∀ q ∈ ps, conf s q = true)
    (hk : keysBounded (mutGen om s p (crossGen oc s p ps)) = true) :
    conf s (mutGen om s p (crossGen oc s p ps)) = true := by
  have hc := crossAcc_conf cp sp s ps _ hs hne hp (crossGen_crossAcc oc cp sp hcc s p ps hs hne hp)
  exact mutAcc_conf pc s _ _ hs hc hk (mutGen_mutAcc om pc hmc s p _ hs hc)

/-- Run level: in every generation of every run, whatever the objective values, rejections, failures, completion
    order, sample size and concurrency, each parameter set passed to the objective function conforms to the spec
    (provided every offspring the random decisions supply is one the operators can produce: `LegalFrom`). -/
theorem C01_run (spec : SNode) (hs : wf spec = true) (c : Cfg) (ss : Nat) (v0 d : VNode)
    (hv0 : conf spec v0 = true) (chs : Nat → Algo.Choice VNode) (hchs : LegalInit spec v0 chs)
    (evs : List (Ev VNode)) (hlegal : LegalFrom spec c (init c ss (some v0) d chs).1 evs)
    (sd id : Nat) (v : VNode) (hstart : Act.start sd id v ∈ (run c ss (some v0) d chs evs).2) :
    conf spec v = true :=
  (run_confInv spec hs c ss v0 d hv0 chs hchs evs hlegal).startsOk sd id v hstart

/-- The CLOSED model - controller, algorithm core and the code-shaped operators `crossGen` / `mutGen` - needs no
    assumption about the acceptors: if every offspring is what the algorithms compute from the ranked population
    (`AlgFrom`: for some consistent oracles, i.e. for every random stream), each parameter set passed to the objective
    function conforms to the spec, in every generation, for every schedule, sample size and concurrency. -/
theorem C01_run_alg (spec : SNode) (hs : wf spec = true) (c : Cfg) (ss : Nat) (v0 d : VNode)
    (hv0 : conf spec v0 = true) (chs : Nat → Algo.Choice VNode) (hchs : AlgInit spec v0 chs)
    (evs : List (Ev VNode)) (halg : AlgFrom spec c (init c ss (some v0) d chs).1 evs)
    (sd id : Nat) (v : VNode) (hstart : Act.start sd id v ∈ (run c ss (some v0) d chs evs).2) :
    conf spec v = true :=
  (run_confInv_alg spec hs c ss v0 d hv0 chs hchs evs halg).startsOk sd id v hstart

/-- ... and so does the best-seen value finally reported (it is a member of the population). -/
theorem C01_report (spec : SNode) (hs : wf spec = true) (c : Cfg) (hnc : 0 < c.nc) (ss : Nat) (v0 d : VNode)
    (hv0 : conf spec v0 = true) (chs : Nat → Algo.Choice VNode) (hchs : LegalInit spec v0 chs)
    (evs : List (Ev VNode)) (hlegal : LegalFrom spec c (init c ss (some v0) d chs).1 evs)
    (b : Int) (v : VNode) (a rj : Nat) (dr : List Nat)
    (hret : Act.ret (.ok b v a rj) dr ∈ (run c ss (some v0) d chs evs).2) : conf spec v = true := by
  have hci := run_confInv spec hs c ss v0 d hv0 chs hchs evs hlegal
  have h2 := run_inv2 c hnc ss v0 d chs evs
  obtain ⟨_, ho, _⟩ := h2.retOut _ _ hret
  simp only [outcome] at ho
  split at ho
  · simp at ho
  · split at ho
    · rename_i x w hb
      injection ho with _ h2' _ _
      simp only [Algo.best] at hb
      obtain ⟨e, he, h3⟩ := List.exists_of_findSome?_eq_some hb
      cases hst : e.st with
      | ready l => simp [hst] at h3
      | final y l =>
        simp only [hst, Option.some.injEq, Prod.mk.injEq] at h3
        rw [h2', ← h3.2]
        exact hci.popOk e he
    · simp at ho

/-! ### non-vacuity: a concrete, non-trivial parameter space, values and operator results meet the hypotheses above -/

/-- an integer with bounds, a resizable map of booleans with size bounds, an optional enum -/
def exSpec01 : SNode :=
  .sub (.cons "a" (.int 3 (.fin 4607182418800017408) (some 0) (some 10))
       (.cons "m" (.amap (.bool false) 2 (some 1) (some 3))
       (.cons "o" (.opt (.enum ["x", "y"] "x") false) .nil)))
def exVal01 : VNode :=
  .sub (.cons "a" (.int 7)
       (.cons "m" (.amap (.cons 0 (.bool true) (.cons 5 (.bool false) .nil)))
       (.cons "o" (.osome (.enum "y")) .nil)))
/-- one mutation later: the integer moved to its upper bound, the map grew by the fresh key 6 up to its maximum size,
    an element flipped, the optional was dropped -/
def exMut01 : VNode :=
  .sub (.cons "a" (.int 10)
       (.cons "m" (.amap (.cons 0 (.bool true) (.cons 5 (.bool true) (.cons 6 (.bool false) .nil))))
       (.cons "o" .onone .nil)))
/-- a recombination of the two: the integer of the second parent, map and optional of the first -/
def exMix01 : VNode :=
  .sub (.cons "a" (.int 10)
       (.cons "m" (.amap (.cons 0 (.bool true) (.cons 5 (.bool false) .nil)))
       (.cons "o" (.osome (.enum "y")) .nil)))

example : wf exSpec01 = true ∧ conf exSpec01 exVal01 = true ∧ keysBounded exMut01 = true ∧
    mutAcc .mid exSpec01 exVal01 exMut01 = true := by decide
example : crossAcc .mid .mid exSpec01 [exVal01, exMut01] exMix01 = true ∧ exMix01 ≠ exVal01 ∧ exMix01 ≠ exMut01 := by decide
/-- ... so `C01_mut` and `C01_cross` apply to them -/
example : conf exSpec01 exMut01 = true :=
  C01_mut .mid exSpec01 exVal01 exMut01 (by decide) (by decide) (by decide) (by decide)
example : conf exSpec01 exMix01 = true :=
  C01_cross .mid .mid exSpec01 [exVal01, exMut01] exMix01 (by decide) (by decide)
    (by intro p hp; simp only [List.mem_cons, List.not_mem_nil, or_false] at hp; rcases hp with rfl | rfl <;> decide) (by decide)

end Cambrian.Props
