/-
C17  The search is directed.   (PARTIAL: the benchmark clause and the frequency clauses are experiments)

What is proved:
  * selection (`selection.rs::select_ref`, modelled exactly over `Rat` as the loop `selDist`): the loop's
    distribution is the closed form `p (1-p)^i + (1-p)^n / n`, it sums to 1, and for every pressure in [0,1] the
    probability of picking rank `i` never increases with `i` - for EVERY list length;
  * operator liveness: every result `mutation::mutate` may produce at probability 1 (`mutAcc .one`) has every
    boolean flipped, every enum changed, every variant switched, every optional's presence flipped and every
    resizable map resized (a well-formed map is never pinned) - for EVERY spec, value and nesting.
What is tested (labelled so in the evidence): `select_ref` frequencies against `selPmf` (K-sel, 6-sigma band);
reals / integers with scale >= 1 change within 64 attempts (K-live); recombination at crossover probability 1 of
parents differing everywhere yields a mixed offspring within 64 attempts (K-mix; that the acceptor admits a mixed
offspring is the `example` below, but existence in the acceptor says nothing about the code); the benchmark battery
with the thresholds of `Sel.goals` (deterministic runs: the RNG seed is fixed in the code).
Float laws used: none (probabilities are exact rationals `k/16` in K-sel).
-/
import CambrianModel.Lemmas.SelLemmas
import Mathlib.Tactic.NormNum
import CambrianModel.Lemmas.LiveLemmas
import CambrianModel.Model.Crossover
import CambrianModel.Model.CrossGen
namespace Cambrian.Props
open Cambrian Cambrian.Sel

/-- the loop-then-uniform code of `select_ref` has the closed-form distribution -/
theorem C17_sel_dist (p : Rat) (n i : Nat) (h : i < n) :
    (selDist p n)[i]'(by rw [selDist_length]; exact h) = p * (1 - p) ^ i + (1 - p) ^ n / n :=
  selDist_get p n i h

/-- it is a probability distribution over the `n` ranks -/
theorem C17_sel_sum (p : Rat) (n : Nat) (hn : 0 < n) : (selDist p n).sum = 1 := selDist_sum p n hn

theorem C17_sel_nonneg (p : Rat) (hp0 : 0 ≤ p) (hp1 : p ≤ 1) (n i : Nat) : 0 ≤ selPmf p n i :=
  selPmf_nonneg p hp0 hp1 n i

/-- Selection favours better-ranked individuals: for every pressure in [0,1] and every list length the probability
    of picking rank `j` is at most that of picking a better rank `i <= j`. -/
theorem C17_sel_mono (p : Rat) (hp0 : 0 ≤ p) (hp1 : p ≤ 1) (n i j : Nat) (hij : i ≤ j) (hj : j < n) :
    (selDist p n)[j]'(by rw [selDist_length]; exact hj) ≤ (selDist p n)[i]'(by rw [selDist_length]; omega) := by
  rw [selDist_get p n j hj, selDist_get p n i (by omega)]
  exact selPmf_mono p hp0 hp1 n i j hij

/-- Mutation with probability 1 changes booleans, enums, variants, optionals and map sizes every time, at every
    nesting position (`liveOne` walks the whole value). -/
theorem C17_live_mut (s : SNode) (vi vo : VNode) (hs : wf s = true) (hi : conf s vi = true)
    (h : mutAcc .one s vi vo = true) : liveOne s vi vo = true :=
  mutAcc_one_live s vi vo hs hi h

/-- in particular the result differs from the input wherever such a parameter exists: a boolean -/
theorem C17_live_bool (b x y : Bool) (h : mutAcc .one (.bool b) (.bool x) (.bool y) = true) : x ≠ y := by
  simp [mutAcc] at h; exact h

/-- non-vacuity of selection: pressure 1/2 over three ranks -/
example : selPmf (1/2) 3 0 = 13/24 ∧ selPmf (1/2) 3 1 = 7/24 ∧ selPmf (1/2) 3 2 = 4/24 := by
  simp only [selPmf]; norm_num

/-- the acceptor admits a mixed offspring at crossover probability 1 and no whole copy of a parent for a non-leaf
    root (what K-mix looks for in the real code) -/
example :
    let s : SNode := .sub (.cons "a" (.bool true) (.cons "b" (.bool true) .nil))
    let p1 : VNode := .sub (.cons "a" (.bool true) (.cons "b" (.bool true) .nil))
    let p2 : VNode := .sub (.cons "a" (.bool false) (.cons "b" (.bool false) .nil))
    let mixed : VNode := .sub (.cons "a" (.bool true) (.cons "b" (.bool false) .nil))
    crossAcc .one .mid s [p1, p2] mixed = true := by decide

/-- the ALGORITHM `crossGen` produces that mixed offspring for a suitable random stream (crossover decided at the root,
    the first parent selected for field `a`, the second for field `b`) - so mixed offspring are reachable by the code-shaped
    model, not only admitted by the acceptor -/
example :
    let s : SNode := .sub (.cons "a" (.bool true) (.cons "b" (.bool true) .nil))
    let p1 : VNode := .sub (.cons "a" (.bool true) (.cons "b" (.bool true) .nil))
    let p2 : VNode := .sub (.cons "a" (.bool false) (.cons "b" (.bool false) .nil))
    let o : CrossOracle := { decide := fun _ => true, sel := fun p _ => if p == ["b"] then 1 else 0, shuffle := fun _ l => l }
    crossGen o s [] [p1, p2] = .sub (.cons "a" (.bool true) (.cons "b" (.bool false) .nil)) := by decide

/-- non-vacuity of liveness: a value in which every discrete kind occurs, and an accepted mutation of it -/
example :
    let s : SNode := .sub (.cons "b" (.bool true) (.cons "e" (.enum ["x", "y"] "x") (.cons "o" (.opt (.bool true) false) .nil)))
    let vi : VNode := .sub (.cons "b" (.bool true) (.cons "e" (.enum "x") (.cons "o" .onone .nil)))
    let vo : VNode := .sub (.cons "b" (.bool false) (.cons "e" (.enum "y") (.cons "o" (.osome (.bool false)) .nil)))
    wf s = true ∧ conf s vi = true ∧ mutAcc .one s vi vo = true ∧ liveOne s vi vo = true := by decide

end Cambrian.Props
