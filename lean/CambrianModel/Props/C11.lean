/-
C11  Value/JSON codec round-trips and the initial guess is fully validated.

Theorems about `toJson` / `fromJson` (L2) for EVERY spec, value and JSON document (any nesting, any size).
`cast` is the `i64 -> f64` view of integer JSON numbers (float law FL-cast: it is total and finite); the theorems
hold for every such function.  Float laws used: FL-cast.
-/
import CambrianModel.Lemmas.JsonLemmas
import CambrianModel.Lemmas.CtlStep
namespace Cambrian.Props
open Cambrian

/-- Reading a guess is a total function (Lean accepts `fromJson` as terminating: no crash, no loop), and whatever it
    accepts conforms to the spec: wrong type, unknown or missing key, out-of-bounds number, wrong array length, map
    size outside its bounds, unknown option are all rejected.
    `jsized j`: no JSON array of the document has more than `usize::MAX` elements (true of every `Vec`; needed because
    the array form of a map without `max_size` numbers its keys by position and `conf` wants keys `<= usize::MAX`). -/
theorem C11_reject (cast : Int → F64) (hcast : ∀ i, (cast i).isFinite = true) (s : SNode) (j : J) (v : VNode)
    (hs : wf s = true) (hj : jvalid j = true) (hz : jsized j = true) (h : fromJson cast s j = .ok v) :
    conf s v = true :=
  fromJson_conf cast hcast s j v hs hj hz h

/-- For every spec and every conforming value: serialising and reading back succeeds and serialises to the same
    JSON again (so a reported best-seen can seed the next run). -/
theorem C11_rt_json (cast : Int → F64) (s : SNode) (v : VNode) (hs : wf s = true) (hv : conf s v = true) :
    ∃ v', fromJson cast s (toJson v) = .ok v' ∧ toJson v' = toJson v :=
  roundtrip_json cast s v hs hv

/-- When the spec's encoding is unambiguous, reading back yields the very same value - in particular the spec's own
    initial value given as the guess is read back as the initial value, hence starts the same run. -/
theorem C11_rt_value (cast : Int → F64) (s : SNode) (v : VNode) (hs : wf s = true) (hu : unambiguous s = true)
    (hv : conf s v = true) : fromJson cast s (toJson v) = .ok v :=
  roundtrip_value cast s v hs hu hv

/-- The initial value of a well-formed spec conforms to it (so the clauses above apply to it). -/
theorem C11_init_conf (s : SNode) (hs : wf s = true) : conf s (initialValue s) = true :=
  initialValue_conf s hs

/-- Supplying the spec's own initial value as the guess: it is read back as exactly the initial value (unambiguous
    specs), so the controller is started with the same initial individual as without a guess - and the run, being a
    function of that individual, the configuration, the random decisions and the schedule, is the same run. -/
theorem C11_same (cast : Int → F64) (s : SNode) (hs : wf s = true) (hu : unambiguous s = true) :
    fromJson cast s (toJson (initialValue s)) = .ok (initialValue s) :=
  roundtrip_value cast s (initialValue s) hs hu (initialValue_conf s hs)

/-- A rejected guess ends the run before any evaluation is started: the only action ever is the return. -/
theorem C11_before {V : Type} (c : Ctl.Cfg) (ss : Nat) (d : V) (chs : Nat → Algo.Choice V) (evs : List (Ctl.Ev V)) :
    (Ctl.run c ss none d chs evs).2 = [.ret .badGuess []] := by
  have h : (Ctl.init c ss (none : Option V) d chs).1.done = true := rfl
  have e : Ctl.run c ss none d chs evs = Ctl.run c ss none d chs ([] ++ evs) := rfl
  rw [e, Ctl.run_append, Ctl.stepsFrom_done evs _ (by exact h)]
  rfl

/-! ### non-vacuity: a concrete, non-trivial parameter space and value meet the hypotheses used above -/

/-- an integer with bounds, a resizable map of booleans with size bounds, an optional enum -/
def exSpec11 : SNode :=
  .sub (.cons "a" (.int 3 (.fin 4607182418800017408) (some 0) (some 10))
       (.cons "m" (.amap (.bool false) 2 (some 1) (some 3))
       (.cons "o" (.opt (.enum ["x", "y"] "x") false) .nil)))

/-- a conforming value that is not the initial one -/
def exVal11 : VNode :=
  .sub (.cons "a" (.int 7)
       (.cons "m" (.amap (.cons 0 (.bool true) (.cons 5 (.bool false) .nil)))
       (.cons "o" (.osome (.enum "y")) .nil)))

example : wf exSpec11 = true ∧ unambiguous exSpec11 = true ∧ conf exSpec11 exVal11 = true ∧
    exVal11 ≠ initialValue exSpec11 := by decide

/-- ... so the theorems apply to it: its JSON is read back as the very same value -/
example (cast : Int → F64) : fromJson cast exSpec11 (toJson exVal11) = .ok exVal11 :=
  C11_rt_value cast exSpec11 exVal11 (by decide) (by decide) (by decide)

end Cambrian.Props
