/-
C07  No objective-function process outlives the run; timeouts kill the whole group.   (PARTIAL: OS semantics assumed)

Theorems about the per-evaluation machine `Proc.evalProc` (L8) and its composition with the controller (L6).
What a theorem cannot exhibit - kernel signal delivery and reaping, /proc visibility - is checked by running the
real binary with scripted children and scanning /proc (a test, labelled so in the evidence).
OS assumptions: a spawned child leads a fresh process group; `killpg(SIGKILL)` ends every member of the group;
a member stays in the group unless it calls setsid/setpgid; dropping a tokio `Child` does not kill it.
Known finding (not proved, not true): a child that exits normally may leave a background process of its group
alive (`childDone` performs no `killpg`).
-/
import CambrianModel.Model.Process
import CambrianModel.Lemmas.CtlInv2
namespace Cambrian.Props
open Cambrian Cambrian.Proc Cambrian.Ctl

/-- An evaluation that finishes in time is never killed. -/
theorem C07_finished_not_killed (r : ChildRes) :
    evalProc true (.childDone r) = (some (classifyChild r), [.spawn]) := rfl

/-- An evaluation exceeding the per-evaluation time limit: the whole process group is killed, the leader reaped,
    and the evaluation counts as rejected (so the run continues). -/
theorem C07_timeout : evalProc true .timeout = (some .rejected, [.spawn, .killpg, .waitpid]) := rfl

/-- ... also when the leader has already been reaped by the pending wait on the child (a child that closed its pipes
    and kept running): whoever reaps it, the evaluation counts as rejected, not as a failure - an obligation on the
    source fact `Generated.reapEchildOk` (fix fa38961; the negative witness is the behaviour before it). -/
theorem C07_timeout_reaped (w : WaitRes) (hw : w ≠ .otherError) : endedResult Generated.reapEchildOk w = .rejected := by
  have hg : Generated.reapEchildOk = true := by decide
  rw [hg]
  cases w <;> simp_all [endedResult, reapResult]

example : endedResult false .alreadyReaped = .failed .killFailed := rfl

/-- Every way an evaluation ends other than the child finishing by itself - time limit, abort broadcast
    (termination request, failure of a sibling), being dropped by the controller (target reached) - kills the
    child's process group. -/
theorem C07_paths (e : PEv) : PAct.killpg ∈ (evalProc true e).2 ∨ ∃ r, e = .childDone r := by
  cases e with
  | childDone r => exact Or.inr ⟨r, rfl⟩
  | timeout => left; decide
  | abort => left; decide
  | dropped => left; decide

/-- Every evaluation the controller ever started is accounted for when it returns: its result was processed
    (it ended through one of the paths above), or it failed, or it is in the list of futures dropped at the return -
    and a dropped future kills its group (`C07_paths`).  Counting form, for every schedule. -/
theorem C07_accounted {V : Type} (c : Cfg) (ss : Nat) (iv : Option V) (d : V) (chs : Nat → Algo.Choice V) (evs : List (Ev V)) :
    nStarts (run c ss iv d chs evs).2 =
      nItemsAcc (run c ss iv d chs evs).2 + nItemsRej (run c ss iv d chs evs).2 +
      (run c ss iv d chs evs).1.failed + (run c ss iv d chs evs).1.inflight.length := by
  have h := run_inv c ss iv d chs evs
  rw [nStarts_eq_length_startSeeds, h.seeds, List.length_range, h.itemsA, h.itemsR]
  exact h.bal

/-- ... and the list of dropped futures reported at the return is exactly what is still in flight then. -/
theorem C07_dropped {V : Type} (c : Cfg) (hnc : 0 < c.nc) (ss : Nat) (v0 d : V) (chs : Nat → Algo.Choice V)
    (evs : List (Ev V)) (o : Outcome V) (dr : List Nat) (hret : Act.ret o dr ∈ (run c ss (some v0) d chs evs).2) :
    dr = (run c ss (some v0) d chs evs).1.inflight.map (·.1) :=
  ((run_inv2 c hnc ss v0 d chs evs).retOut o dr hret).2.2

/-- After a termination request or a failure the controller only returns when nothing is in flight (C04_drain), so
    then nothing is dropped: everything ended through abort / child result. -/
theorem C07_nothing_dropped_after_abort {V : Type} (c : Cfg) (ss : Nat) (iv : Option V) (d : V)
    (chs : Nat → Algo.Choice V) (evs : List (Ev V))
    (hd : (run c ss iv d chs evs).1.done = false) : (run c ss iv d chs evs).1.inflight ≠ [] :=
  (run_inv c ss iv d chs evs).live hd

end Cambrian.Props
