/-
C08  Unique seeds, stable individual identity, bounded sampling, initial value first.

Theorems about `Ctl.run` (L6 + L5) for EVERY event list: any length, any sample size >= 1, any concurrency and
completion order, any rejection pattern, any random decisions (re-evaluation coin, offspring values).
Float laws used: none.
-/
import CambrianModel.Lemmas.PopInv
import CambrianModel.Model.Launch
namespace Cambrian.Props
open Cambrian Cambrian.Ctl Cambrian.Algo

variable {V : Type}

/-- Every evaluation receives a seed distinct from that of every other evaluation of the run: the seeds handed out
    are exactly 0, 1, 2, ... in order. -/
theorem C08_seeds (c : Cfg) (ss : Nat) (iv : Option V) (d : V) (chs : Nat → Algo.Choice V) (evs : List (Ev V)) :
    startSeeds (run c ss iv d chs evs).2 = List.range (run c ss iv d chs evs).1.pushed ∧
    (startSeeds (run c ss iv d chs evs).2).Nodup := by
  have h := run_inv c ss iv d chs evs
  exact ⟨h.seeds, by rw [h.seeds]; exact List.nodup_range⟩

/-- All evaluations of one individual see the identical parameter set. -/
theorem C08_same (c : Cfg) (ss : Nat) (hss : 0 < ss) (v0 d : V) (chs : Nat → Algo.Choice V) (evs : List (Ev V))
    (sd sd' id : Nat) (v v' : V)
    (h1 : Act.start sd id v ∈ (run c ss (some v0) d chs evs).2)
    (h2 : Act.start sd' id v' ∈ (run c ss (some v0) d chs evs).2) : v' = v :=
  (run_popInv c ss hss v0 d chs evs).startsSame sd id v sd' v' h1 h2

/-- An individual is evaluated at most sample-size times. -/
theorem C08_count (c : Cfg) (ss : Nat) (hss : 0 < ss) (v0 d : V) (chs : Nat → Algo.Choice V) (evs : List (Ev V))
    (id : Nat) : nHandouts id (run c ss (some v0) d chs evs).2 ≤ ss :=
  (run_popInv c ss hss v0 d chs evs).handoutBound id

/-- Distinct individuals have distinct ids: an id is never in the population and in flight at the same time, nor
    twice in either (so one individual is never being evaluated twice at the same time - C05), and every id ever
    handed out is below the next fresh id. -/
theorem C08_ids (c : Cfg) (ss : Nat) (hss : 0 < ss) (v0 d : V) (chs : Nat → Algo.Choice V) (evs : List (Ev V)) :
    ((run c ss (some v0) d chs evs).1.core.pop.map (·.id) ++
      (run c ss (some v0) d chs evs).1.inflight.map (·.2.id)).Nodup ∧
    (∀ sd id v, Act.start sd id v ∈ (run c ss (some v0) d chs evs).2 → id < (run c ss (some v0) d chs evs).1.core.nextId) :=
  ⟨(run_popInv c ss hss v0 d chs evs).idsNodup, (run_popInv c ss hss v0 d chs evs).startsLt⟩

/-- The first individual of a run is exactly the initial value (the spec's initial value, or the validated explicit
    guess - `v0` is whichever of the two the run was started with), with seed 0 and id 0. -/
theorem C08_first (c : Cfg) (ss : Nat) (hss : 0 < ss) (v0 d : V) (chs : Nat → Algo.Choice V) (evs : List (Ev V))
    (x : Nat × Nat × V) (xs : List (Nat × Nat × V)) (h : startsOf (run c ss (some v0) d chs evs).2 = x :: xs) :
    x = (0, 0, v0) := by
  have hp := run_popInv c ss hss v0 d chs evs
  have := hp.first.2 x xs h
  have hinit : (run c ss (some v0) d chs evs).1.core.init = v0 := by
    -- `init` of the core never changes
    have : ∀ (evs : List (Ev V)) (s : Ctl.St V), (stepsFrom c s evs).1.core.init = s.core.init := by
      intro evs
      induction evs with
      | nil => intro s; rfl
      | cons e es ih =>
        intro s
        simp only [stepsFrom]
        rw [ih]
        cases e with
        | abortReq => simp only [step, onAbort]; split <;> (try split) <;> rfl
        | complete seed r ch =>
          simp only [step]
          split
          · rfl
          · split
            · rfl
            · rename_i ind _
              have hproc : ∀ r', (Algo.proc s.core ind r').init = s.core.init := by
                intro r'; cases r' <;> simp [Algo.proc]
              have hnext : ∀ (a : Algo.St V) ch, (Algo.next a ch).1.init = a.init := by
                intro a ch
                simp only [Algo.next, Algo.fresh]
                split
                · split <;> rfl
                · rfl
              have hafter : ∀ (s1 : Ctl.St V) acts, (afterResult c s1 ch acts).1.core.init = s1.core.init := by
                intro s1 acts
                simp only [afterResult, finish, again, startOne]
                split
                · rfl
                · split
                  · rfl
                  · split
                    · exact hnext _ _
                    · split <;> rfl
              cases r with
              | fail er => simp only [onFail, again, finish]; split <;> split <;> rfl
              | acc x m => simp only [onResult]; rw [hafter]; exact hproc _
              | rej => simp only [onResult]; rw [hafter]; exact hproc _
    have hrun : run c ss (some v0) d chs evs = runFrom c (init c ss (some v0) d chs).1 (init c ss (some v0) d chs).2 evs := rfl
    rw [hrun, runFrom_eq_stepsFrom]
    simp only
    rw [this]
    -- initialisation
    have hsm : ∀ (n i : Nat) (s : Ctl.St V) acts, (startMany chs n i s acts).1.core.init = s.core.init := by
      intro n
      induction n with
      | zero => intro i s acts; rfl
      | succ n ih =>
        intro i s acts
        simp only [startMany]
        rw [ih]
        simp only [startOne, Algo.next, Algo.fresh]
        split
        · split <;> rfl
        · rfl
    simp only [init, again, finish]
    split <;> rw [hsm] <;> rfl
  rw [this, hinit]

/-- The hypotheses `0 < ss` (and `0 < nc` of C05 / C02) of the theorems above hold for every run that starts: a
    configuration accepted by `AlgoConfigBuilder::build` has sample size >= 1 and concurrency >= 1 (an obligation on
    the source facts `zeroSampleSizeRejected`, `zeroNumConcurrentRejected` and the two defaults, read on every run). -/
theorem C08_config_pos (ss nc : Option Nat) (c : Launch.AlgoCfg) (h : Launch.buildConfig ss nc = .ok c) :
    0 < c.sampleSize ∧ 0 < c.numConcurrent := by
  have h1 : Generated.zeroSampleSizeRejected = true := by decide
  have h2 : Generated.zeroNumConcurrentRejected = true := by decide
  simp only [Launch.buildConfig, h1, h2, Bool.true_and] at h
  split at h
  · cases h
  · split at h
    · cases h
    · injection h with h
      subst h
      simp only [beq_iff_eq] at *
      omega

/-- the defaults themselves are accepted, and an explicit zero is rejected (non-vacuity / error branches) -/
example : Launch.buildConfig none none = .ok { sampleSize := 1, numConcurrent := 1 } := rfl
example : Launch.buildConfig (some 0) (some 3) = .error .zeroSampleSize := rfl
example : Launch.buildConfig (some 2) (some 0) = .error .zeroNumConcurrent := rfl

end Cambrian.Props
