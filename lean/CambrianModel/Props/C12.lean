/-
C12  Recombination invents nothing.

Theorems about `crossAcc` (L4b: the set of offspring `Crossover::crossover` may produce) for EVERY spec, every
ordered parent list (any length), every class of crossover probability and selection pressure, i.e. every random
stream.  `prov` is the property's own predicate and mentions no probability.  Float laws used: none.
-/
import CambrianModel.Lemmas.CrossLemmas
import CambrianModel.Lemmas.KeySelectLemmas
import CambrianModel.Lemmas.CrossGenLemmas
namespace Cambrian.Props
open Cambrian

/-- In the offspring every leaf value, chosen variant or enum option, presence/absence of an optional part and key
    of a resizable map is taken from at least one parent at the same position, and sub-structures are combined only
    among the parents that share that position. -/
theorem C12_prov (cp sp : PClass) (s : SNode) (ps : List VNode) (out : VNode) (hs : wf s = true)
    (hp : ∀ p ∈ ps, conf s p = true) (h : crossAcc cp sp s ps out = true) : prov s ps out = true :=
  crossAcc_prov cp sp s ps out hs hp h

/-- With a single parent the offspring is identical to it. -/
theorem C12_single (cp sp : PClass) (s : SNode) (p out : VNode) (hp : conf s p = true)
    (h : crossAcc cp sp s [p] out = true) : out = p :=
  crossAcc_single cp sp s p out hp h

/-- With parents that are all identical the offspring is identical to them. -/
theorem C12_same (cp sp : PClass) (s : SNode) (ps : List VNode) (p out : VNode) (hs : wf s = true)
    (hne : ps ≠ []) (hall : ∀ q ∈ ps, q = p) (hp : conf s p = true)
    (h : crossAcc cp sp s ps out = true) : out = p :=
  crossAcc_same cp sp s ps p out hs hne hall hp h

/-- The acceptor is not tighter than the code it describes, for the most intricate step of recombination: every key
    set the ALGORITHM `select_anon_map_keys` can return (`selectKeys`: the loop over the shuffled key union with
    forced keys below the minimum size, a parent selected per key, the cut at the maximum size) - for every shuffle,
    every sequence of selected parents, any number of parents and any bounds of a well-formed map - is accepted by
    the relational description `keysOk` that `crossAcc` uses.  (So a disagreement reported by K-ops at a map is never
    an artefact of `keysOk`.) -/
theorem C12_keys_refine (sp : PClass) (mn mx : Option Nat) (ps : List VNode) (order : List Nat) (sel : Nat → Nat)
    (S : List Nat) (hsp : sp ≠ .invalid) (hne : ps ≠ [])
    (hshuffle : order.Perm (unionKeys ps))
    (hsel : ∀ i, sel i < ps.length) (hsel1 : sp = .one → ∀ i, sel i = 0)
    (hmx : mx ≠ some 0) (hb : ∀ a b, mn = some a → mx = some b → a < b)
    (hS : S.Perm (selectKeys mn mx ps order sel)) (hsorted : sortedNat S = true) :
    keysOk sp mn mx ps S = true :=
  selectKeys_keysOk sp mn mx ps order sel S hsp hne hshuffle hsel hsel1 hmx hb hS hsorted

/-- The whole operator: every result of the ALGORITHM `crossGen` (the code-shaped model of `Crossover::crossover`: the
    crossover decision, rank selection, per-key / per-option / per-presence recombination among the parents that share
    the position, `select_anon_map_keys`) is accepted by `crossAcc`, for every consistent oracle. -/
theorem C12_refine (o : CrossOracle) (cp sp : PClass) (hc : o.Consistent cp sp) (s : SNode) (p : Path)
    (ps : List VNode) (hs : wf s = true) (hne : ps ≠ []) (hp : ∀ q ∈ ps, conf s q = true) :
    crossAcc cp sp s ps (crossGen o s p ps) = true :=
  crossGen_crossAcc o cp sp hc s p ps hs hne hp

/-- Hence C12 holds of the algorithm itself: it invents nothing ... -/
theorem C12_prov_alg (o : CrossOracle) (cp sp : PClass) (hc : o.Consistent cp sp) (s : SNode) (p : Path)
    (ps : List VNode) (hs : wf s = true) (hne : ps ≠ []) (hp : ∀ q ∈ ps, conf s q = true) :
    prov s ps (crossGen o s p ps) = true :=
  crossAcc_prov cp sp s ps _ hs hp (crossGen_crossAcc o cp sp hc s p ps hs hne hp)

/-- ... and identical parents give an identical offspring -/
theorem C12_same_alg (o : CrossOracle) (cp sp : PClass) (hc : o.Consistent cp sp) (s : SNode) (p : Path)
    (ps : List VNode) (q : VNode) (hs : wf s = true) (hne : ps ≠ []) (hall : ∀ x ∈ ps, x = q) (hq : conf s q = true) :
    crossGen o s p ps = q :=
  crossAcc_same cp sp s ps q _ hs hne hall hq
    (crossGen_crossAcc o cp sp hc s p ps hs hne (fun x hx => by rw [hall x hx]; exact hq))

/-- the algorithm on an example: minimum size 1 forces the first shuffled key although the selected (first) parent
    lacks it; key 9 is then dropped because the selected parent lacks it -/
example :
    let p1 : VNode := .amap (.cons 1 (.bool true) (.cons 2 (.bool true) .nil))
    let p2 : VNode := .amap (.cons 7 (.bool true) (.cons 9 (.bool true) .nil))
    selectKeys (some 1) none [p1, p2] [7, 1, 9, 2] (fun _ => 0) = [7, 1, 2] := by decide

/-- non-vacuity: two parents differing in both fields, crossover decided: a mixed offspring is accepted and has
    provenance; an offspring with an invented leaf is not accepted -/
example :
    let s : SNode := .sub (.cons "a" (.bool true) (.cons "b" (.bool true) .nil))
    let p1 : VNode := .sub (.cons "a" (.bool true) (.cons "b" (.bool true) .nil))
    let p2 : VNode := .sub (.cons "a" (.bool false) (.cons "b" (.bool false) .nil))
    let mixed : VNode := .sub (.cons "a" (.bool true) (.cons "b" (.bool false) .nil))
    crossAcc .one .mid s [p1, p2] mixed = true ∧ prov s [p1, p2] mixed = true ∧
    crossAcc .one .mid s [p1, p1] mixed = false := by decide

end Cambrian.Props
