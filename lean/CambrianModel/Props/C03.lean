/-
C03  The evaluation budget is never exceeded and is used exactly.

Theorems are about `Ctl.run` (L6): for EVERY event list - every completion order, every outcome sequence
(accept / reject / fail), every point at which an abort request arrives - at any concurrency, any sample size,
any random decisions of the algorithm core (`chs`, the choices inside the events), any initial value.
Float laws used: none.
-/
import CambrianModel.Lemmas.CtlInv
namespace Cambrian.Props
open Cambrian Cambrian.Ctl

variable {V : Type}

/-- number of `evaluate()` calls in the whole run -/
theorem C03_starts_eq_pushed (c : Cfg) (ss : Nat) (iv : Option V) (d : V) (chs : Nat → Algo.Choice V)
    (evs : List (Ev V)) :
    nStarts (run c ss iv d chs evs).2 = (run c ss iv d chs evs).1.pushed := by
  have h := run_inv c ss iv d chs evs
  rw [nStarts_eq_length_startSeeds, h.seeds, List.length_range]

/-- With a maximum number of evaluations `N` the objective function is started at most `N` times in total
    (re-evaluations included), whatever the concurrency level, the outcomes and the completion order -
    including `N < num_concurrent` and `N = 0`. -/
theorem C03_le (c : Cfg) (ss : Nat) (iv : Option V) (d : V) (chs : Nat → Algo.Choice V) (evs : List (Ev V))
    (N : Nat) (hN : c.maxEval = some N) :
    nStarts (run c ss iv d chs evs).2 ≤ N := by
  rw [C03_starts_eq_pushed]
  exact (run_inv c ss iv d chs evs).bud N hN

/-- `N = 0`: nothing is ever started and the run is over at once. -/
theorem C03_zero (c : Cfg) (ss : Nat) (iv : Option V) (d : V) (chs : Nat → Algo.Choice V) (evs : List (Ev V))
    (hN : c.maxEval = some 0) :
    nStarts (run c ss iv d chs evs).2 = 0 ∧ (run c ss iv d chs evs).1.done = true := by
  have h := run_inv c ss iv d chs evs
  have hp : (run c ss iv d chs evs).1.pushed = 0 := by have := h.bud 0 hN; omega
  refine ⟨by rw [C03_starts_eq_pushed, hp], ?_⟩
  cases hd : (run c ss iv d chs evs).1.done with
  | true => rfl
  | false =>
    exfalso
    have hne := h.live hd
    have hb := h.bal
    have : (run c ss iv d chs evs).1.inflight.length = 0 := by omega
    exact hne (List.length_eq_zero_iff.mp this)

end Cambrian.Props
