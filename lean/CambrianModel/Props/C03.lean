/-
C03  The evaluation budget is never exceeded and is used exactly.

Theorems are about `Ctl.run` (L6): for EVERY event list - every completion order, every outcome sequence
(accept / reject / fail), every point at which an abort request arrives - at any concurrency, any sample size,
any random decisions of the algorithm core (`chs`, the choices inside the events), any initial value.
Float laws used: none.
-/
import CambrianModel.Lemmas.CtlStep
namespace Cambrian.Props
open Cambrian Cambrian.Ctl

variable {V : Type}

/-- number of `evaluate()` calls in the whole run -/
theorem C03_starts_eq_pushed (c : Cfg) (ss : Nat) (iv : Option V) (d : V) (chs : Nat → Algo.Choice V)
    (evs : List (Ev V)) :
    nStarts (run c ss iv d chs evs).2 = (run c ss iv d chs evs).1.pushed := by
  have h := run_inv c ss iv d chs evs
  rw [nStarts_eq_length_startSeeds, h.seeds, List.length_range]

/-- With a maximum number of evaluations `N` the objective function is started at most `N` times in total
    (re-evaluations included), whatever the concurrency level, the outcomes and the completion order -
    including `N < num_concurrent` and `N = 0`. -/
theorem C03_le (c : Cfg) (ss : Nat) (iv : Option V) (d : V) (chs : Nat → Algo.Choice V) (evs : List (Ev V))
    (N : Nat) (hN : c.maxEval = some N) :
    nStarts (run c ss iv d chs evs).2 ≤ N := by
  rw [C03_starts_eq_pushed]
  exact (run_inv c ss iv d chs evs).bud N hN

/-- `N = 0`: nothing is ever started and the run is over at once. -/
theorem C03_zero (c : Cfg) (ss : Nat) (iv : Option V) (d : V) (chs : Nat → Algo.Choice V) (evs : List (Ev V))
    (hN : c.maxEval = some 0) :
    nStarts (run c ss iv d chs evs).2 = 0 ∧ (run c ss iv d chs evs).1.done = true := by
  have h := run_inv c ss iv d chs evs
  have hp : (run c ss iv d chs evs).1.pushed = 0 := by have := h.bud 0 hN; omega
  refine ⟨by rw [C03_starts_eq_pushed, hp], ?_⟩
  cases hd : (run c ss iv d chs evs).1.done with
  | true => rfl
  | false =>
    exfalso
    have hne := h.live hd
    have hb := h.bal
    have : (run c ss iv d chs evs).1.inflight.length = 0 := by omega
    exact hne (List.length_eq_zero_iff.mp this)

/-- If no other criterion, failure or termination request ends the run first (the run is over, no abort was ever
    latched - which covers failures and termination requests - and the target was not reached), the objective
    function was started exactly `N` times and the accepted and rejected counts sum to `N`. -/
theorem C03_exact (c : Cfg) (hnc : 0 < c.nc) (ss : Nat) (v0 d : V) (chs : Nat → Algo.Choice V) (evs : List (Ev V))
    (N : Nat) (hN : c.maxEval = some N)
    (hdone : (run c ss (some v0) d chs evs).1.done = true)
    (hab : (run c ss (some v0) d chs evs).1.aborted = false)
    (ht : targetHit c (run c ss (some v0) d chs evs).1.core = false) :
    nStarts (run c ss (some v0) d chs evs).2 = N ∧
    nItemsAcc (run c ss (some v0) d chs evs).2 + nItemsRej (run c ss (some v0) d chs evs).2 = N := by
  have h := run_inv c ss (some v0) d chs evs
  have h2 := run_inv2 c hnc ss v0 d chs evs
  obtain ⟨e1, e2⟩ := h2.exact hab hdone ht N hN
  rw [C03_starts_eq_pushed, h.itemsA, h.itemsR]
  exact ⟨e2, e1⟩

/-- ... and the counts in the final report sum to `N`. -/
theorem C03_exact_report (c : Cfg) (hnc : 0 < c.nc) (ss : Nat) (v0 d : V) (chs : Nat → Algo.Choice V)
    (evs : List (Ev V)) (N : Nat) (hN : c.maxEval = some N)
    (hab : (run c ss (some v0) d chs evs).1.aborted = false)
    (ht : targetHit c (run c ss (some v0) d chs evs).1.core = false)
    (b : Int) (v : V) (a rj : Nat) (dr : List Nat)
    (hret : Act.ret (.ok b v a rj) dr ∈ (run c ss (some v0) d chs evs).2) : a + rj = N := by
  have h2 := run_inv2 c hnc ss v0 d chs evs
  obtain ⟨hd, ho, _⟩ := h2.retOut _ _ hret
  obtain ⟨e1, _⟩ := h2.exact hab hd ht N hN
  simp only [outcome] at ho
  split at ho
  · simp at ho
  · split at ho
    · injection ho with _ _ h3 h4; omega
    · simp at ho

/-- non-vacuity: a schedule satisfying the premises of `C03_exact` (budget 2, concurrency 1, both results accepted) -/
example :
    let c : Cfg := { nc := 1, maxEval := some 2, target := none }
    let evs : List (Ev Nat) := [.complete 0 (.acc 5 5) ⟨false, 7⟩, .complete 1 (.acc 3 3) ⟨false, 8⟩]
    (run c 1 (some 0) 0 (fun _ => ⟨false, 0⟩) evs).1.done = true ∧
    (run c 1 (some 0) 0 (fun _ => ⟨false, 0⟩) evs).1.aborted = false ∧
    targetHit c (run c 1 (some 0) 0 (fun _ => ⟨false, 0⟩) evs).1.core = false ∧
    nStarts (run c 1 (some 0) 0 (fun _ => ⟨false, 0⟩) evs).2 = 2 := by decide

end Cambrian.Props
