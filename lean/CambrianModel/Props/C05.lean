/-
C05  Concurrency bound and work conservation.

Theorems about `Ctl.run` (L6) for EVERY event list, any concurrency, budget, sample size and random decisions.
Float laws used: none.
-/
import CambrianModel.Lemmas.CtlInv
namespace Cambrian.Props
open Cambrian Cambrian.Ctl

variable {V : Type}

/-- At no instant are more than `num_concurrent` evaluations in progress. -/
theorem C05_le (c : Cfg) (ss : Nat) (iv : Option V) (d : V) (chs : Nat → Algo.Choice V) (evs : List (Ev V)) :
    (run c ss iv d chs evs).1.inflight.length ≤ c.nc :=
  (run_inv c ss iv d chs evs).cap

/-- The evaluations in progress have pairwise distinct seeds (they are distinct evaluations). -/
theorem C05_inflight_seeds_nodup (c : Cfg) (ss : Nat) (iv : Option V) (d : V) (chs : Nat → Algo.Choice V)
    (evs : List (Ev V)) : (seedsOf (run c ss iv d chs evs).1.inflight).Nodup :=
  (run_inv c ss iv d chs evs).nd

end Cambrian.Props
