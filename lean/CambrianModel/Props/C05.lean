/-
C05  Concurrency bound and work conservation.

Theorems about `Ctl.run` (L6) for EVERY event list, any concurrency, budget, sample size and random decisions.
Float laws used: none.
-/
import CambrianModel.Lemmas.CtlStep
import CambrianModel.Lemmas.PopInv
import CambrianModel.Model.Launch
namespace Cambrian.Props
open Cambrian Cambrian.Ctl

variable {V : Type}

/-- At no instant are more than `num_concurrent` evaluations in progress. -/
theorem C05_le (c : Cfg) (ss : Nat) (iv : Option V) (d : V) (chs : Nat → Algo.Choice V) (evs : List (Ev V)) :
    (run c ss iv d chs evs).1.inflight.length ≤ c.nc :=
  (run_inv c ss iv d chs evs).cap

/-- The evaluations in progress have pairwise distinct seeds (they are distinct evaluations). -/
theorem C05_inflight_seeds_nodup (c : Cfg) (ss : Nat) (iv : Option V) (d : V) (chs : Nat → Algo.Choice V)
    (evs : List (Ev V)) : (seedsOf (run c ss iv d chs evs).1.inflight).Nodup :=
  (run_inv c ss iv d chs evs).nd

/-- One individual is never being evaluated twice at the same time, and an individual that is being evaluated is
    not in the population (re-evaluation takes it out; new ids are fresh): the ids of the population entries and of
    the evaluations in progress are pairwise distinct - for every schedule, sample size and random decisions. -/
theorem C05_unique (c : Cfg) (ss : Nat) (hss : 0 < ss) (v0 d : V) (chs : Nat → Algo.Choice V) (evs : List (Ev V)) :
    ((run c ss (some v0) d chs evs).1.core.pop.map (·.id) ++
     (run c ss (some v0) d chs evs).1.inflight.map (·.2.id)).Nodup :=
  (run_popInv c ss hss v0 d chs evs).idsNodup

/-- Work conservation: while the run is neither stopping (no abort latched: no termination request, no failure)
    nor over, exactly `min(num_concurrent, remaining budget)` evaluations are in progress - a finished evaluation
    is replaced in the very step in which its result is processed. -/
theorem C05_exact (c : Cfg) (hnc : 0 < c.nc) (ss : Nat) (v0 d : V) (chs : Nat → Algo.Choice V) (evs : List (Ev V))
    (hdone : (run c ss (some v0) d chs evs).1.done = false)
    (hab : (run c ss (some v0) d chs evs).1.aborted = false) :
    (run c ss (some v0) d chs evs).1.inflight.length =
      match c.maxEval with
      | some N => Nat.min c.nc (N - ((run c ss (some v0) d chs evs).1.accepted + (run c ss (some v0) d chs evs).1.rejected))
      | none => c.nc := by
  have h2 := run_inv2 c hnc ss v0 d chs evs
  cases hN : c.maxEval with
  | none => exact h2.wcNone hab hdone hN
  | some N => exact h2.wcSome hab hdone N hN

/-- non-vacuity: three in flight at concurrency 3 after one of them was replaced -/
example :
    let c : Cfg := { nc := 3, maxEval := some 10, target := none }
    let evs : List (Ev Nat) := [.complete 1 (.acc 5 5) ⟨false, 7⟩]
    (run c 1 (some 0) 0 (fun _ => ⟨false, 0⟩) evs).1.done = false ∧
    (run c 1 (some 0) 0 (fun _ => ⟨false, 0⟩) evs).1.aborted = false ∧
    (run c 1 (some 0) 0 (fun _ => ⟨false, 0⟩) evs).1.inflight.length = 3 := by decide

/-- The concurrency (and the sample size) in force are the ones asked for: `AlgoConfigBuilder::build` hands positive
    settings through unchanged and in their places (an obligation on the source facts behind `Launch.buildConfig`). -/
theorem C05_config_kept (ss nc : Nat) (hs : 0 < ss) (hn : 0 < nc) :
    Launch.buildConfig (some ss) (some nc) = .ok { sampleSize := ss, numConcurrent := nc } := by
  have h1 : Generated.zeroSampleSizeRejected = true := by decide
  have h2 : Generated.zeroNumConcurrentRejected = true := by decide
  have e1 : (ss == 0) = false := by simp; omega
  have e2 : (nc == 0) = false := by simp; omega
  simp [Launch.buildConfig, h1, h2, e1, e2]

/-- ... and an omitted setting is the default read from the source -/
theorem C05_config_default (nc : Nat) (hn : 0 < nc) :
    Launch.buildConfig none (some nc) = .ok { sampleSize := Generated.defaultSampleSize, numConcurrent := nc } := by
  have h1 : Generated.zeroSampleSizeRejected = true := by decide
  have h2 : Generated.zeroNumConcurrentRejected = true := by decide
  have hd : Generated.defaultSampleSize = 1 := by decide
  have e2 : (nc == 0) = false := by simp; omega
  simp [Launch.buildConfig, h1, h2, hd, e2]

end Cambrian.Props
