/-
C09  Runs are reproducible.   (PARTIAL)

What is proved, over `Ctl.run` (L6 with the algorithm core L5 inside), for EVERY spec / guess / configuration /
event list / stream of random decisions:
  * `C09_fun`      the complete observable trace (every `evaluate()` call with seed, id and parameter set, every
                   report item, the abort broadcast, the final report) is a function of exactly the declared
                   inputs: configuration, sample size, validated initial value, the objective results in their
                   completion order, and the stream of random decisions - nothing else enters (no clock, no
                   address, no iteration order: the model has no such input);
  * `C09_causal`   what has been done after a prefix of the completions is never revised by later completions:
                   the trace of `evs ++ more` extends the trace of `evs`;
  * `C09_noop`     completions that cannot happen (a seed that is not in flight, anything after the return) leave
                   state and trace unchanged, so the trace depends on the effective completion order only;
  * `C09_seeds_ids` seeds are `0,1,2,...` in start order whatever the schedule.
What is NOT expressible in the model: that the real stream of random decisions is itself a function of the
inputs (`StdRng::seed_from_u64(0)`, threaded through crossover / mutation / meta adaptation) and that `FxHashMap`
iteration has no per-process seed.  That part is decided by the twin-run correspondence (the same scripted run
twice in one process and once in a fresh process, traces compared bit for bit, at concurrency 1 and > 1 with the
harness fixing the completion order) and by source lint L2 (no `thread_rng`, `from_entropy`, `RandomState`,
`SystemTime`/`Instant` in decision paths); K-ctl ties the rest of the trace to the model.
Float laws used: none.
-/
import CambrianModel.Lemmas.CtlStep
namespace Cambrian.Props
open Cambrian Cambrian.Ctl

variable {V : Type}

/-- the trace is a function of the declared inputs (stated with the list of inputs explicit) -/
theorem C09_fun (c c' : Cfg) (ss ss' : Nat) (iv iv' : Option V) (d d' : V) (chs chs' : Nat → Algo.Choice V)
    (evs evs' : List (Ev V)) (hc : c = c') (hss : ss = ss') (hiv : iv = iv') (hd : d = d')
    (hch : ∀ i, chs i = chs' i) (hev : evs = evs') :
    run c ss iv d chs evs = run c' ss' iv' d' chs' evs' := by
  have : chs = chs' := funext hch
  subst hc hss hiv hd this hev
  rfl

/-- later completions never revise what was done before them -/
theorem C09_causal (c : Cfg) (ss : Nat) (iv : Option V) (d : V) (chs : Nat → Algo.Choice V) (evs more : List (Ev V)) :
    ∃ rest, (run c ss iv d chs (evs ++ more)).2 = (run c ss iv d chs evs).2 ++ rest := by
  rw [run_append]
  exact ⟨_, rfl⟩

/-- a completion for a seed that is not in flight changes nothing -/
theorem C09_noop (c : Cfg) (s : St V) (seed : Nat) (r : Res) (ch : Algo.Choice V)
    (h : lookupSeed seed s.inflight = none) : step c s (.complete seed r ch) = (s, []) := by
  simp only [step, h]
  split <;> rfl

/-- nothing happens after the return -/
theorem C09_noop_done (c : Cfg) (s : St V) (e : Ev V) (h : s.done = true) : step c s e = (s, []) :=
  step_done e h

/-- seeds are handed out as 0, 1, 2, ... in start order, for every schedule -/
theorem C09_seeds_ids (c : Cfg) (ss : Nat) (iv : Option V) (d : V) (chs : Nat → Algo.Choice V) (evs : List (Ev V)) :
    startSeeds (run c ss iv d chs evs).2 = List.range (run c ss iv d chs evs).1.pushed :=
  (run_inv c ss iv d chs evs).seeds

/-- non-vacuity: two different completion orders of the same results give different traces (so the completion
    order is a genuine input), while the same order gives the same trace -/
example :
    let c : Cfg := { nc := 2, maxEval := some 4, target := none }
    let e0 : Ev Nat := .complete 0 (.acc 5 5) ⟨false, 7⟩
    let e1 : Ev Nat := .complete 1 (.acc 3 3) ⟨false, 8⟩
    (run c 1 (some 0) 0 (fun _ => ⟨false, 4⟩) [e0, e1]).2 ≠ (run c 1 (some 0) 0 (fun _ => ⟨false, 4⟩) [e1, e0]).2 := by
  decide

end Cambrian.Props
