/-
L4b.  `crossover.rs::Crossover::crossover` as the set of offspring it may produce (DESIGN 3.3), and the provenance
relation `prov` of C12, which is defined independently of any probability.

`cp` / `sp` are the classes of `crossover_prob` / `selection_pressure`.  `select_ref` with pressure `one` always
returns the first (best-ranked) parent; with `zero` or `mid` it may return any parent.
Both definitions recurse structurally on the OFFSPRING; the parents' sub-structures at a position are computed on
the fly (`filterMap`), i.e. sub-structures are combined among exactly the parents that have that position.
-/
import CambrianModel.Model.Spec
namespace Cambrian

def subChild (k : String) : VNode → Option VNode | .sub f => f.lookup k | _ => none
def arrChild (i : Nat) : VNode → Option VNode | .array l => l.get? i | _ => none
def mapChild (k : Nat) : VNode → Option VNode | .amap m => m.lookup k | _ => none
def varChild (n : String) : VNode → Option VNode | .variant n' v => if n == n' then some v else none | _ => none
def optChild : VNode → Option VNode | .osome v => some v | _ => none
def mapKeys : VNode → List Nat | .amap m => m.keys | _ => []
def varName : VNode → Option String | .variant n _ => some n | _ => none
def isAbsent : VNode → Bool | .onone => true | _ => false

/-- `selection.select_ref(parents, pressure)` may return `x` -/
def selOk {α} [BEq α] (sp : PClass) (ps : List α) (x : α) : Bool :=
  match sp with
  | .one => ps.head? == some x
  | .zero | .mid => ps.contains x
  | .invalid => false

/-- union of the parents' key sets, duplicate-free, in first-occurrence order (`flat_map(keys).unique()`) -/
def unionKeys (ps : List VNode) : List Nat := (ps.flatMap mapKeys).eraseDups

/-- what `select_anon_map_keys` can return as the key set `S` of the offspring, independent of the shuffle:
    `S` is drawn from the union `U` of the parents' keys; size between `min(minSize, |U|)` and `maxSize` (default
    `|U|`); a key of `U` is missing only because
    the maximum was hit or because the parent selected for it lacks it; at pressure `one` only the forced keys (at
    most `minSize`) can be foreign to the first parent. -/
def keysOk (sp : PClass) (mn mx : Option Nat) (ps : List VNode) (S : List Nat) : Bool :=
  let U := unionKeys ps
  let first := match ps with | p :: _ => mapKeys p | [] => []
  let minS := mn.getD 0
  let maxS := mx.getD U.length
  sp != .invalid && sortedNat S && S.all (fun k => U.contains k) &&
  decide (S.length ≤ maxS) && decide (Nat.min minS U.length ≤ S.length) &&
  U.all (fun k => S.contains k || S.length == maxS ||
                  (if sp == .one then !(first.contains k) else ps.any (fun p => !((mapKeys p).contains k)))) &&
  (sp != .one || decide ((S.filter (fun k => !(first.contains k))).length ≤ minS))

mutual
def crossAcc (cp sp : PClass) : SNode → List VNode → VNode → Bool
  | .const, _, out => out == .const
  | s, ps, out =>
    match ps with
    | [] => false
    | [p] => out == p
    | _ =>
      -- clone of a selected parent: always for a leaf, for an inner node when crossover is not decided
      ((isLeaf s || cp == .zero || cp == .mid) && selOk sp ps out) ||
      -- structural crossover of an inner node
      ((cp == .one || cp == .mid) &&
        (match s, out with
         | .sub sf, .sub fo => crossAccFields cp sp sf ps fo
         | .array e n, .array lo => lo.length == n && crossAccList cp sp e ps 0 lo
         | .amap e _ mn mx, .amap mo => keysOk sp mn mx ps mo.keys && crossAccEntries cp sp e ps mo
         | .variant opts _, .variant n v =>
             (match (ps.filterMap varName).eraseDups with
              | [only] => n == only
              | names => selOk sp (ps.filterMap varName) n && names.contains n) &&
             (match opts.lookup n with
              | some cs => crossAcc cp sp cs (ps.filterMap (varChild n)) v
              | none => false)
         | .opt _ _, .onone =>
             (match (ps.map isAbsent).eraseDups with
              | [only] => only
              | _ => selOk sp (ps.map isAbsent) true)
         | .opt e _, .osome v =>
             (match (ps.map isAbsent).eraseDups with
              | [only] => !only
              | _ => selOk sp (ps.map isAbsent) false) &&
             crossAcc cp sp e (ps.filterMap optChild) v
         | _, _ => false))
termination_by structural _ _ out => out
def crossAccFields (cp sp : PClass) : SFields → List VNode → VFields → Bool
  | .nil, _, .nil => true
  | .cons k s sr, ps, .cons k' v r => k == k' && crossAcc cp sp s (ps.filterMap (subChild k)) v && crossAccFields cp sp sr ps r
  | _, _, _ => false
termination_by structural _ _ fo => fo
def crossAccList (cp sp : PClass) (e : SNode) (ps : List VNode) : Nat → VList → Bool
  | _, .nil => true
  | i, .cons v r => crossAcc cp sp e (ps.filterMap (arrChild i)) v && crossAccList cp sp e ps (i+1) r
termination_by structural _ lo => lo
def crossAccEntries (cp sp : PClass) (e : SNode) (ps : List VNode) : VEntries → Bool
  | .nil => true
  | .cons k v r => crossAcc cp sp e (ps.filterMap (mapChild k)) v && crossAccEntries cp sp e ps r
termination_by structural mo => mo
end

/-! ### provenance (C12): the offspring invents nothing -/

mutual
/-- every leaf, option, presence and map key of `out` is taken from at least one of the parents `ps` at the same
    position, and sub-structures are combined only among the parents that share that position -/
def prov : SNode → List VNode → VNode → Bool
  | .const, _, .const => true
  | s, ps, out =>
    ps.contains out ||
    (match s, out with
     | .sub sf, .sub fo => provFields sf ps fo
     | .array e _, .array lo => provList e ps 0 lo
     | .amap e _ _ _, .amap mo => provEntries e ps mo
     | .variant opts _, .variant n v => (ps.any fun p => (varChild n p).isSome) &&
         (match opts.lookup n with | some cs => prov cs (ps.filterMap (varChild n)) v | none => false)
     | .opt e _, .osome v => (ps.any fun p => (optChild p).isSome) && prov e (ps.filterMap optChild) v
     | .opt _ _, .onone => ps.any isAbsent
     | _, _ => false)
termination_by structural _ _ out => out
def provFields : SFields → List VNode → VFields → Bool
  | .nil, _, .nil => true
  | .cons k s sr, ps, .cons k' v r => k == k' && prov s (ps.filterMap (subChild k)) v && provFields sr ps r
  | _, _, _ => false
termination_by structural _ _ fo => fo
def provList (e : SNode) (ps : List VNode) : Nat → VList → Bool
  | _, .nil => true
  | i, .cons v r => prov e (ps.filterMap (arrChild i)) v && provList e ps (i+1) r
termination_by structural _ lo => lo
def provEntries (e : SNode) (ps : List VNode) : VEntries → Bool
  | .nil => true
  | .cons k v r => (ps.any fun p => (mapChild k p).isSome) && prov e (ps.filterMap (mapChild k)) v && provEntries e ps r
termination_by structural mo => mo
end

end Cambrian
