/-
L4a.  `mutation.rs::mutate` as the set of results it may produce (DESIGN 3.3): `mutAcc pc s vin vout` accepts `vout`
as a possible mutation of `vin` under spec `s`, where `pc` is the class of `mutation_prob` (the only thing
`Bernoulli::new(p)` contributes: at `zero` every decision is "no", at `one` every decision is "yes", at `mid` both
may happen, `invalid` panics).  Rescaling factors are the constant 1.0 outside `cfg(test)` (lint L3), so the same
class applies at every node.  Structural recursion on the OUTPUT value, so the cases that replace the input by a
spec's initial value (variant switch, optional materialisation, element added to an empty map) are structural too.
-/
import CambrianModel.Model.Spec
namespace Cambrian

/-- `value.max(min)` then `.min(max)` with Rust's NaN-ignoring `f64::max/min` (`mutate_real`) -/
def clampR (x : F64) (mn mx : Option F64) : F64 :=
  let a := match mn with | some m => F64.max x m | none => x
  match mx with | some m => F64.min a m | none => a

/-- `value.max(min).min(max)` on `i64` (`mutate_int`) -/
def clampI (x : Int) (mn mx : Option Int) : Int :=
  let a := match mn with | some m => if x < m then m else x | none => x
  match mx with | some m => if m < a then m else a | none => a

/-- a mutated real: a finite sample clamped into the declared bounds (a non-finite sample keeps the old value:
    fix of D4), i.e. a finite fixed point of the clamp -/
def realOut (y : F64) (mn mx : Option F64) : Bool := y.isFinite && clampR y mn mx == y
def intOut (y : Int) (mn mx : Option Int) : Bool := inI64 y && clampI y mn mx == y

def atMin (n : Nat) (mn : Option Nat) : Bool := n == 0 || mn == some n
def atMax (n : Nat) (mx : Option Nat) : Bool := mx == some n

mutual
def mutAcc (pc : PClass) : SNode → VNode → VNode → Bool
  | .real _ _ mn mx, .real x, .real y =>
      (match pc with | .zero => x == y | .mid => x == y || realOut y mn mx | .one => x == y || realOut y mn mx | .invalid => false)
  | .int _ _ mn mx, .int x, .int y =>
      (match pc with | .zero => x == y | .mid => x == y || intOut y mn mx | .one => x == y || intOut y mn mx | .invalid => false)
  | .bool _, .bool x, .bool y =>
      (match pc with | .zero => x == y | .one => x != y | .mid => true | .invalid => false)
  | .enum vs _, .enum x, .enum y =>
      (match pc with
       | .zero => x == y
       | .one => x != y && vs.contains y
       | .mid => x == y || vs.contains y
       | .invalid => false)
  | .sub sf, .sub fi, .sub fo => pc != .invalid && mutAccFields pc sf fi fo
  | .array e _, .array li, .array lo => pc != .invalid && mutAccList pc e li lo
  | .variant opts _, .variant n v, .variant n' v' =>
      if n == n' then
        (pc == .zero || pc == .mid) && (match opts.lookup n with | some cs => mutAcc pc cs v v' | none => false)
      else
        (pc == .one || pc == .mid) &&
          (match opts.lookup n' with | some cs => mutAcc pc cs (initialValue cs) v' | none => false)
  | .opt e _, .osome v, .osome v' => (pc == .zero || pc == .mid) && mutAcc pc e v v'
  | .opt e _, .onone, .osome v' => (pc == .one || pc == .mid) && mutAcc pc e (initialValue e) v'
  | .opt _ _, .osome _, .onone => pc == .one || pc == .mid
  | .opt _ _, .onone, .onone => pc == .zero || pc == .mid
  | .const, _, .const => true
  | .amap e _ mn mx, .amap mi, .amap mo =>
      let n := mi.length
      let n' := mo.length
      if n' == n then
        -- no resize: the same keys, every element mutated in place
        (pc == .zero || pc == .mid) && mutAccSame pc e mi mo
      else if n' + 1 == n then
        -- one key removed (never below the minimum size), the others keep their keys
        (pc == .one || pc == .mid) && !(atMin n mn) && sortedNat mo.keys && mo.keys.all (mi.keys.contains ·) &&
          mutAccEntries pc e mi none mo
      else if n' == n + 1 then
        -- one element added under a key no element of the map uses (never above the maximum size)
        (match mo.keys.filter (fun k => !(mi.keys.contains k)) with
         | [k] => (pc == .one || pc == .mid) && (atMin n mn || !(atMax n mx)) && sortedNat mo.keys &&
                  mutAccEntries pc e mi (some k) mo
         | _ => false)
      else false
  | _, _, _ => false
termination_by structural _ _ vout => vout
def mutAccFields (pc : PClass) : SFields → VFields → VFields → Bool
  | .nil, .nil, .nil => true
  | .cons k s sr, .cons k1 v vr, .cons k2 v' vr' => k == k1 && k == k2 && mutAcc pc s v v' && mutAccFields pc sr vr vr'
  | _, _, _ => false
termination_by structural _ _ fo => fo
def mutAccList (pc : PClass) (e : SNode) : VList → VList → Bool
  | .nil, .nil => true
  | .cons v r, .cons v' r' => mutAcc pc e v v' && mutAccList pc e r r'
  | _, _ => false
termination_by structural _ lo => lo
def mutAccSame (pc : PClass) (e : SNode) : VEntries → VEntries → Bool
  | .nil, .nil => true
  | .cons k v r, .cons k' v' r' => k == k' && mutAcc pc e v v' && mutAccSame pc e r r'
  | _, _ => false
termination_by structural _ mo => mo
/-- every output entry is the mutation of the input entry with the same key; the entry at `added` is the
    mutation of a clone of some input entry (of the element type's initial value when the input map is empty) -/
def mutAccEntries (pc : PClass) (e : SNode) (mi : VEntries) (added : Option Nat) : VEntries → Bool
  | .nil => true
  | .cons k v' r =>
      (if added == some k then
         (match mi with
          | .nil => mutAcc pc e (initialValue e) v'
          | _ => mi.any (fun src => mutAcc pc e src v'))
       else match mi.lookup k with
         | some v => mutAcc pc e v v'
         | none => false)
      && mutAccEntries pc e mi added r
termination_by structural mo => mo
end

/-! ### C13's own predicate: what "local" means for the resizable maps of a value -/

/-- one map before / after one mutation: the size changes by at most one; a removed key was present and nothing
    else changed keys; an added key is new and no existing key disappeared (nothing is overwritten); with
    probability 1 the size does change -/
def mapStepOk (pc : PClass) (mi mo : VEntries) : Bool :=
  let n := mi.length
  let n' := mo.length
  if n' == n then pc != .one && mo.keys == mi.keys
  else if n' + 1 == n then pc != .zero && mo.keys.all (mi.keys.contains ·)
  else if n' == n + 1 then pc != .zero && mi.keys.all (mo.keys.contains ·)
  else false

mutual
def resizeLocal (pc : PClass) : SNode → VNode → VNode → Bool
  | .sub sf, .sub fi, .sub fo => resizeLocalFields pc sf fi fo
  | .array e _, .array li, .array lo => resizeLocalList pc e li lo
  | .amap e _ _ _, .amap mi, .amap mo => mapStepOk pc mi mo && resizeLocalEntries pc e mi mo
  | .variant opts _, .variant n v, .variant n' v' =>
      (match opts.lookup n' with
       | some cs => resizeLocal pc cs (if n == n' then v else initialValue cs) v'
       | none => true)
  | .opt e _, .osome v, .osome v' => resizeLocal pc e v v'
  | .opt e _, .onone, .osome v' => resizeLocal pc e (initialValue e) v'
  | _, _, _ => true
termination_by structural _ _ vout => vout
def resizeLocalFields (pc : PClass) : SFields → VFields → VFields → Bool
  | .cons _ s sr, .cons _ v vr, .cons _ v' vr' => resizeLocal pc s v v' && resizeLocalFields pc sr vr vr'
  | _, _, _ => true
termination_by structural _ _ fo => fo
def resizeLocalList (pc : PClass) (e : SNode) : VList → VList → Bool
  | .cons v r, .cons v' r' => resizeLocal pc e v v' && resizeLocalList pc e r r'
  | _, _ => true
termination_by structural _ lo => lo
/-- elements that keep their key are compared with their former selves (an added element has no former self) -/
def resizeLocalEntries (pc : PClass) (e : SNode) (mi : VEntries) : VEntries → Bool
  | .nil => true
  | .cons k v' r => (match mi.lookup k with | some v => resizeLocal pc e v v' | none => true) && resizeLocalEntries pc e mi r
termination_by structural mo => mo
end

/-! ### C17's liveness predicate: with probability 1 every discrete kind of parameter is really varied -/

mutual
/-- comparing a value with its mutation at probability 1: every boolean is flipped, every enum changed, every
    variant switched (and the new option, started from its initial value, is itself varied), every optional part
    flips its presence, every resizable map changes its size; elements that keep their key are varied too.
    Reals and integers are distributional (a sample may be clamped onto the old value) and are not constrained. -/
def liveOne : SNode → VNode → VNode → Bool
  | .bool _, .bool x, .bool y => x != y
  | .enum _ _, .enum x, .enum y => x != y
  | .sub sf, .sub fi, .sub fo => liveOneFields sf fi fo
  | .array e _, .array li, .array lo => liveOneList e li lo
  | .amap e _ _ _, .amap mi, .amap mo => mo.length != mi.length && liveOneEntries e mi mo
  | .variant opts _, .variant n _, .variant n' v' =>
      n != n' && (match opts.lookup n' with | some cs => liveOne cs (initialValue cs) v' | none => true)
  | .opt e _, .onone, .osome v' => liveOne e (initialValue e) v'
  | .opt _ _, .osome _, .onone => true
  | .opt _ _, .osome _, .osome _ => false
  | .opt _ _, .onone, .onone => false
  | _, _, _ => true
termination_by structural _ _ vout => vout
def liveOneFields : SFields → VFields → VFields → Bool
  | .cons _ s sr, .cons _ v vr, .cons _ v' vr' => liveOne s v v' && liveOneFields sr vr vr'
  | _, _, _ => true
termination_by structural _ _ fo => fo
def liveOneList (e : SNode) : VList → VList → Bool
  | .cons v r, .cons v' r' => liveOne e v v' && liveOneList e r r'
  | _, _ => true
termination_by structural _ lo => lo
def liveOneEntries (e : SNode) (mi : VEntries) : VEntries → Bool
  | .nil => true
  | .cons k v' r => (match mi.lookup k with | some v => liveOne e v v' | none => true) && liveOneEntries e mi r
termination_by structural mo => mo
end

/-! ### numeric leaves that one mutation left unchanged (C17: "within a few attempts", a frequency clause) -/

/-- order code of `1.0` -/
def f64One : F64 := .fin 4607182418800017408

mutual
/-- paths of the real / integer leaves with scale >= 1 that have the same value before and after; positions below
    a variant, an optional or a map element that did not survive are not comparable and are skipped -/
def stuckNum : SNode → VNode → VNode → List String → List (List String)
  | .real _ sc _ _, .real x, .real y, p => if F64.le f64One sc && x == y then [p] else []
  | .int _ sc _ _, .int x, .int y, p => if F64.le f64One sc && x == y then [p] else []
  | .sub sf, .sub fi, .sub fo, p => stuckNumFields sf fi fo p
  | .array e _, .array li, .array lo, p => stuckNumList e li lo p 0
  | .amap e _ _ _, .amap mi, .amap mo, p => stuckNumEntries e mi mo p
  | _, _, _, _ => []
termination_by structural _ _ vout => vout
def stuckNumFields : SFields → VFields → VFields → List String → List (List String)
  | .cons k s sr, .cons _ v vr, .cons _ v' vr', p => stuckNum s v v' (k :: p) ++ stuckNumFields sr vr vr' p
  | _, _, _, _ => []
termination_by structural _ _ fo => fo
def stuckNumList (e : SNode) : VList → VList → List String → Nat → List (List String)
  | .cons v r, .cons v' r', p, i => stuckNum e v v' (toString i :: p) ++ stuckNumList e r r' p (i+1)
  | _, _, _, _ => []
termination_by structural _ lo => lo
def stuckNumEntries (e : SNode) (mi : VEntries) : VEntries → List String → List (List String)
  | .nil, _ => []
  | .cons k v' r, p =>
      (match mi.lookup k with | some v => stuckNum e v v' (toString k :: p) | none => []) ++ stuckNumEntries e mi r p
termination_by structural mo => mo
end

end Cambrian
