/-
L4c.  Adaptive meta-parameters (`meta_adapt.rs`, `algorithm.rs::next_meta_params`) and rank-based selection
(`selection.rs`).  Float arithmetic is not modelled: a product is an observed value constrained by a float law.
-/
import CambrianModel.Model.F64
namespace Cambrian.Meta
open Cambrian

/-- order code of `1.0` -/
def one : F64 := .fin 4607182418800017408

/-- `rescale_prob(p) = rescale(p).min(1.0)`, with `x` the observed value of `rescale(p)` -/
def probOut (x : F64) : F64 := F64.min x one

/-- a probability as the operators need it (`Bernoulli::new` succeeds): `0 <= p <= 1` -/
def isProb (p : F64) : Bool := F64.le (.fin 0) p && F64.le p one

/-- order codes of `f64::MIN_POSITIVE` (smallest positive normal number) and `f64::MAX` -/
def minPositive : F64 := .fin 4503599627370496
def maxFinite : F64 := .fin 9218868437227405311

/-- Rust's `f64::clamp(min, max)`: NaN stays NaN, values below `min` become `min`, above `max` become `max` -/
def clampF (x lo hi : F64) : F64 := if F64.lt x lo then lo else if F64.lt hi x then hi else x

/-- `rescale_scale(s) = rescale(s).clamp(f64::MIN_POSITIVE, f64::MAX)` (fix of D11), `x` the observed product;
    `clamped`: is the clamp present in the source (extracted) -/
def scaleOut (clamped : Bool) (x : F64) : F64 := if clamped then clampF x minPositive maxFinite else x

/-- a mutation scale as the report promises it: positive and finite -/
def isScale (x : F64) : Bool := x.isFinite && F64.lt (.fin 0) x

/-- float law FL-mul-sign: the product of a non-negative number and a positive finite factor is a number `>= 0`
    (`rescale` multiplies by `10^e` clamped into `[1e-12, 1e12]`) -/
def MulSign (x : F64) : Prop := F64.le (.fin 0) x = true

/-! ### the `tokio::select!` loop of the controller at poll level -/

/-- what one pass of the loop can see: how many completed evaluations are ready to be taken, whether the external
    abort signal has been sent (the oneshot stays ready forever once completed), whether the abort flag is latched -/
structure Poll where
  ready : Nat
  abortSent : Bool
  latched : Bool
  deriving DecidableEq, Repr

/-- one pass of the loop takes one ready branch (`p'`), or - when no enabled branch is ready - the task yields.
    `guarded`: the abort branch carries the precondition `if !abort_signal_received` (extracted from the source). -/
inductive Pass (guarded : Bool) : Poll → Poll → Prop where
  | completion (p : Poll) (h : 0 < p.ready) : Pass guarded p { p with ready := p.ready - 1 }
  | abort (p : Poll) (hs : p.abortSent = true) (he : guarded = true → p.latched = false) :
      Pass guarded p { p with latched := true }

/-- work the loop can still do without yielding -/
def workLeft (p : Poll) : Nat := p.ready + (if p.abortSent && !p.latched then 1 else 0)

end Cambrian.Meta
