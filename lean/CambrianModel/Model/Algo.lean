/-
L5.  The algorithm core (`algorithm.rs`): ranked population, sampling states, ids.

Values of individuals are an opaque type `V` here (instantiated with `VNode` for C01 and with the canonical JSON
text in the driver).  Objective values are order codes of *finite* `f64`s (`FiniteF64`), hence `Int`.
The random decisions of `next_individual` (re-evaluate or not; the offspring) are an explicit `Choice`.
-/
import CambrianModel.Model.Generated
namespace Cambrian.Algo

/-- state of an individual while it sits in the population -/
inductive IState where
  | ready (samples : List Int)              -- `IndState::Ready`: fewer than sample-size results so far
  | final (x : Int) (samples : List Int)    -- `IndState::Final`; `samples` is ghost (what `x` summarises)
  deriving DecidableEq, Repr

structure Entry (V : Type) where
  obj : Int            -- `OrderingKey.obj_func_val`
  id  : Nat            -- `OrderingKey.id` = `IndContext.id`
  v   : V
  st  : IState
  deriving Repr

/-- an individual handed out for evaluation (`IndContext` in state `PendingEval`) -/
structure Ind (V : Type) where
  id : Nat
  v  : V
  samples : List Int
  deriving Repr

structure St (V : Type) where
  pop : List (Entry V) := []       -- `individuals: BTreeMap<OrderingKey, IndContext>`, ascending
  initUsed : Bool := false
  nextId : Nat := 0
  init : V
  sampleSize : Nat
  maxPop : Nat := Generated.maxPopSize
  minReeval : Nat := Generated.minPopSizeForReeval
  deriving Repr

/-- what the random generator decided: the outcome of the `prob_reeval` coin and the offspring value
    (`create_offspring`) that is used if a new individual is created after the initial one -/
structure Choice (V : Type) where
  wantReeval : Bool
  v : V

def keyLt (o1 : Int) (i1 : Nat) (o2 : Int) (i2 : Nat) : Bool :=
  decide (o1 < o2) || (o1 == o2 && decide (i1 < i2))

/-- `BTreeMap::insert` (an equal key replaces the stored value) -/
def ins {V} (e : Entry V) : List (Entry V) → List (Entry V)
  | [] => [e]
  | x :: xs =>
    if keyLt e.obj e.id x.obj x.id then e :: x :: xs
    else if keyLt x.obj x.id e.obj e.id then x :: ins e xs
    else e :: xs

def isReady {V} (e : Entry V) : Bool := match e.st with | .ready _ => true | .final _ _ => false

/-- `extract_best_ready`: remove the first `Ready` entry -/
def extractBestReady {V} : List (Entry V) → Option (Entry V × List (Entry V))
  | [] => none
  | x :: xs =>
    if isReady x then some (x, xs)
    else match extractBestReady xs with
      | some (e, r) => some (e, x :: r)
      | none => none

def samplesOf : IState → List Int
  | .ready l => l
  | .final _ l => l

def fresh {V} (a : St V) (c : Choice V) : St V × Ind V :=
  let v := if a.initUsed then c.v else a.init
  ({ a with initUsed := true, nextId := a.nextId + 1 }, { id := a.nextId, v := v, samples := [] })

/-- `next_individual` -/
def next {V} (a : St V) (c : Choice V) : St V × Ind V :=
  if c.wantReeval && decide (1 < a.sampleSize) && decide (a.minReeval ≤ a.pop.length) then
    match extractBestReady a.pop with
    | some (e, rest) => ({ a with pop := rest }, { id := e.id, v := e.v, samples := samplesOf e.st })
    | none => fresh a c
  else fresh a c

/-- `summary_obj_func_val`: the mean of the sample list.  `m` is the value the implementation computed
    (an observed value); float law FL-mean1 - the mean of a single value is that value - is built in. -/
def summ (samples : List Int) (m : Int) : Int :=
  match samples with
  | [x] => x
  | _ => m

/-- `process_individual_eval`; `r = none` is a rejection, `some (x, m)` an accepted result `x` with `m` the
    observed summary of the extended sample list -/
def proc {V} (a : St V) (ind : Ind V) (r : Option (Int × Int)) : St V :=
  match r with
  | none => a
  | some (x, m) =>
    let samples := ind.samples ++ [x]
    let s := summ samples m
    let st := if samples.length == a.sampleSize then IState.final s samples else IState.ready samples
    { a with pop := (ins { obj := s, id := ind.id, v := ind.v, st := st } a.pop).take a.maxPop }

/-- `best_seen_final`: the best-ranked entry in state `Final` -/
def best {V} (a : St V) : Option (Int × V) :=
  a.pop.findSome? fun e => match e.st with | .final x _ => some (x, e.v) | .ready _ => none

def new {V} (init : V) (sampleSize : Nat) : St V := { init := init, sampleSize := sampleSize }

end Cambrian.Algo
