/-
L4a'.  `mutation.rs::mutate` as an ALGORITHM: a code-shaped, oracle-driven model, next to the acceptor `mutAcc` of
`Model/Mutation.lean` (the set of results the correspondence check accepts).

Every random decision of the code is a field of `MutOracle`, indexed by the path of the node at which it is taken
(the same path the code's `PathContext` uses: sub key / array index / map key / variant name / "optional"):
the `Bernoulli(mutation_prob)` outcome, the index drawn by `choose`, the Cauchy sample of a real (as the `f64` it
produced) or of an integer (after `.round().to_i64()`), the add-or-remove coin of a resizable map, and how far the
key manager's counter is ahead of the largest key of the map (after fix D1 the counter is at least that).
`MutGenLemmas.mutGen_mutAcc` proves that every result of the algorithm is accepted by `mutAcc` - the acceptor is
not tighter than the code it describes.
-/
import CambrianModel.Model.Mutation
namespace Cambrian

abbrev Path := List String

structure MutOracle where
  flip : Path → Bool
  pick : Path → Nat
  sampleR : Path → F64
  sampleI : Path → Option Int
  coin : Path → Bool
  keyBump : Path → Nat

/-! ### small helpers -/

def VList.mapIdxV (f : Nat → VNode → VNode) : VList → Nat → VList
  | .nil, _ => .nil
  | .cons v r, i => .cons (f i v) (VList.mapIdxV f r (i + 1))

def VEntries.mapKV (f : Nat → VNode → VNode) : VEntries → VEntries
  | .nil => .nil
  | .cons k v r => .cons k (f k v) (VEntries.mapKV f r)

def VEntries.values : VEntries → List VNode
  | .nil => [] | .cons _ v r => v :: r.values

def VEntries.maxKey : VEntries → Nat
  | .nil => 0 | .cons k _ r => Nat.max k r.maxKey

/-- `choose` among the candidates `l` with the drawn index -/
def chooseD {α} (l : List α) (i : Nat) (d : α) : α := l.getD (i % l.length) d

mutual
/-- `do_mutate` -/
def mutGen (o : MutOracle) : SNode → Path → VNode → VNode
  | .real _ _ mn mx, p, .real x =>
      if o.flip p then (let y := o.sampleR p; if y.isFinite then .real (clampR y mn mx) else .real x) else .real x
  | .int _ _ mn mx, p, .int x =>
      if o.flip p then (match o.sampleI p with | some z => .int (clampI z mn mx) | none => .int x) else .int x
  | .bool _, p, .bool x => .bool (x != o.flip p)
  | .enum vs _, p, .enum cur =>
      if o.flip p then .enum (chooseD (vs.filter (· != cur)) (o.pick p) cur) else .enum cur
  | .sub sf, p, .sub vf => .sub (mutGenFields o sf p vf)
  | .array e _, p, .array l => .array (l.mapIdxV (fun i v => mutGen o e (toString i :: p) v) 0)
  | .variant opts _, p, .variant n v =>
      if o.flip p then
        let n' := chooseD (opts.keys.filter (· != n)) (o.pick p) n
        match mutGenOpt o opts n' p none with
        | some v' => .variant n' v'
        | none => .variant n v
      else
        match mutGenOpt o opts n p (some v) with
        | some v' => .variant n v'
        | none => .variant n v
  | .opt e _, p, .osome v => if o.flip p then .onone else .osome (mutGen o e ("optional" :: p) v)
  | .opt e _, p, .onone => if o.flip p then .osome (mutGen o e ("optional" :: p) (initialValue e)) else .onone
  | .const, _, _ => .const
  | .amap e _ mn mx, p, .amap mi =>
      let n := mi.length
      let mutated := mi.mapKV (fun k v => mutGen o e (toString k :: p) v)
      if o.flip p then
        let removeOne := !(atMin n mn) && (atMax n mx || o.coin p)
        if removeOne then .amap (mutated.erase (chooseD mi.keys (o.pick p) 0))
        else
          let src := chooseD mi.values (o.pick p) (initialValue e)
          let key := (if n == 0 then 0 else mi.maxKey + 1) + o.keyBump p
          .amap (mutated.insert key (mutGen o e (toString key :: p) src))
      else .amap mutated
  | _, _, v => v          -- `unreachable!()`: the value does not have the shape of the spec
/-- `mutate_sub`: every declared key, in order -/
def mutGenFields (o : MutOracle) : SFields → Path → VFields → VFields
  | .cons k s sr, p, .cons k' v vr => .cons k' (mutGen o s (k :: p) v) (mutGenFields o sr p vr)
  | _, _, vf => vf
/-- the option `name` of a variant mutated: from the current value, or (after a switch) from its initial value -/
def mutGenOpt (o : MutOracle) : SFields → String → Path → Option VNode → Option VNode
  | .nil, _, _, _ => none
  | .cons k s r, name, p, cur =>
      if k == name then some (mutGen o s (name :: p) (cur.getD (initialValue s))) else mutGenOpt o r name p cur
end

/-- the oracle is one the random generator can produce when `mutation_prob` has class `pc`; integer samples are
    what `to_i64` can return -/
def MutOracle.Consistent (o : MutOracle) (pc : PClass) : Prop :=
  (pc = .zero → ∀ p, o.flip p = false) ∧ (pc = .one → ∀ p, o.flip p = true) ∧ pc ≠ .invalid ∧
  (∀ p z, o.sampleI p = some z → inI64 z = true)

end Cambrian
