/-
L3.  The spec parser (`spec_util.rs::build_node` and friends) over a `serde_yaml::Value` tree.

`Y` is the tree serde_yaml produces: mappings keep document order (keys unique: serde_yaml rejects duplicate keys),
numbers carry the three views the parser asks for (`as_f64`, `as_i64`, `as_u64`), tagged values are kept
(`as_*` accessors look through tags, direct pattern matches do not - exactly as in the code).
The attribute whitelists and built-in type names come from `Generated.lean` (extracted from the source on every run).
-/
import CambrianModel.Model.Spec
import CambrianModel.Model.Generated
namespace Cambrian

mutual
inductive Y where
  | null
  | bool (b : Bool)
  | num (f : F64) (i : Option Int) (u : Option Nat)   -- `as_f64`, `as_i64`, `as_u64`
  | str (s : String)
  | seq (l : YList)
  | map (m : YPairs)
  | tagged (tag : String) (v : Y)
inductive YList where
  | nil | cons (y : Y) (rest : YList)
inductive YPairs where
  | nil | cons (k : Y) (v : Y) (rest : YPairs)
end

deriving instance DecidableEq for Y, YList, YPairs
deriving instance Repr for Y, YList, YPairs
instance : Inhabited Y := ⟨.null⟩

/-- `Value::untag_ref` -/
def Y.untag : Y → Y
  | .tagged _ v => v.untag
  | y => y

def Y.asStr (y : Y) : Option String := match y.untag with | .str s => some s | _ => none
def Y.asBool (y : Y) : Option Bool := match y.untag with | .bool b => some b | _ => none
def Y.asF64 (y : Y) : Option F64 := match y.untag with | .num f _ _ => some f | _ => none
def Y.asI64 (y : Y) : Option Int := match y.untag with | .num _ i _ => i | _ => none
def Y.asU64 (y : Y) : Option Nat := match y.untag with | .num _ _ u => u | _ => none

/-- `mapping.get("name")`: the value stored under the plain string key `name` -/
def YPairs.get : YPairs → String → Option Y
  | .nil, _ => none
  | .cons k v r, n => if k == .str n then some v else r.get n

def YList.length : YList → Nat
  | .nil => 0 | .cons _ r => r.length + 1

/-- why a spec document is rejected (informational: kinds and their precedence are not part of any property) -/
inductive RejY where
  | valueMustBeMap | invalidAttributeValueType | invalidAttributeKeyType | unknownTypeName
  | initNotWithinBounds | initSizeNotWithinBounds | invalidBounds | invalidSizeBounds | arraySize | zeroMaxSize
  | mandatoryAttributeMissing | unexpectedAttribute | emptySub | notEnoughVariantValues | notEnoughEnumValues
  | enumItemsMustBeString | nonFiniteNumber | scaleMustBeStrictlyPositive | illegalTypeDefName | initNotAKnownValue
  | unsignedIntConversionFailed
  | duplicateEnumValue        -- added by the fix of D6
  deriving DecidableEq, Repr

abbrev PR := Except RejY

/-- the type definitions in scope: most recent first (`HashMap::insert` of an existing name replaces it, which is
    what looking up the most recent binding gives) -/
abbrev Env := List (String × SNode)

def Env.find (env : Env) (n : String) : Option SNode :=
  match env with
  | [] => none
  | (k, s) :: r => if k == n then some s else Env.find r n

/-! ### attribute extraction (`extract_attribute_value` and its instances) -/

def exAttr {α} (m : YPairs) (name : String) (f : Y → Option α) (mandatory : Bool) : PR (Option α) :=
  match m.get name with
  | some v => (match f v with | some a => .ok (some a) | none => .error .invalidAttributeValueType)
  | none => if mandatory then .error .mandatoryAttributeMissing else .ok none

def exStr (m : YPairs) (name : String) (mandatory : Bool) : PR (Option String) := exAttr m name Y.asStr mandatory
def exBool (m : YPairs) (name : String) (mandatory : Bool) : PR (Option Bool) := exAttr m name Y.asBool mandatory
def exInt (m : YPairs) (name : String) (mandatory : Bool) : PR (Option Int) := exAttr m name Y.asI64 mandatory
/-- `extract_real`: the number must be finite -/
def exReal (m : YPairs) (name : String) (mandatory : Bool) : PR (Option F64) :=
  match exAttr m name Y.asF64 mandatory with
  | .ok (some x) => if x.isFinite then .ok (some x) else .error .nonFiniteNumber
  | r => r
/-- `extract_usize_attribute_value` (on a 64-bit target `usize::try_from(u64)` cannot fail) -/
def exUsize (m : YPairs) (name : String) (mandatory : Bool) : PR (Option Nat) :=
  match exAttr m name Y.asU64 mandatory with
  | .ok (some x) => if x ≤ usizeMax then .ok (some x) else .error .unsignedIntConversionFailed
  | r => r

/-- `check_for_unexpected_attributes`: every key is a plain string (no tag) from the whitelist -/
def checkUnexpected (allowed : List String) : YPairs → PR Unit
  | .nil => .ok ()
  | .cons k _ r =>
    match k with
    | .str n => if allowed.contains n then checkUnexpected allowed r else .error .unexpectedAttribute
    | _ => .error .invalidAttributeKeyType

/-- `do_check_bounds_sanity`: `min >= max` is an error -/
def boundsSaneF (mn mx : Option F64) : Bool :=
  match mn, mx with | some a, some b => !(F64.ge a b) | _, _ => true
def boundsSaneI (mn mx : Option Int) : Bool :=
  match mn, mx with | some a, some b => !(decide (a ≥ b)) | _, _ => true
def boundsSaneN (mn mx : Option Nat) : Bool :=
  match mn, mx with | some a, some b => !(decide (a ≥ b)) | _, _ => true

def buildReal (m : YPairs) : PR SNode :=
  match checkUnexpected Generated.realAttrs m with
  | .error e => .error e
  | .ok _ =>
  match exReal m "min" false with
  | .error e => .error e
  | .ok mn =>
  match exReal m "max" false with
  | .error e => .error e
  | .ok mx =>
  if !boundsSaneF mn mx then .error .invalidBounds else
  match exReal m "init" true with
  | .error e => .error e
  | .ok none => .error .mandatoryAttributeMissing
  | .ok (some init) =>
  -- `init < min.unwrap_or(init) || init > max.unwrap_or(init)`
  if (match mn with | some a => F64.lt init a | none => false) || (match mx with | some b => F64.gt init b | none => false)
  then .error .initNotWithinBounds else
  match exReal m "scale" true with
  | .error e => .error e
  | .ok none => .error .mandatoryAttributeMissing
  | .ok (some scale) =>
  if F64.le scale (.fin 0) then .error .scaleMustBeStrictlyPositive
  else .ok (.real init scale mn mx)

def buildInt (m : YPairs) : PR SNode :=
  match checkUnexpected Generated.intAttrs m with
  | .error e => .error e
  | .ok _ =>
  match exInt m "min" false with
  | .error e => .error e
  | .ok mn =>
  match exInt m "max" false with
  | .error e => .error e
  | .ok mx =>
  if !boundsSaneI mn mx then .error .invalidBounds else
  match exInt m "init" true with
  | .error e => .error e
  | .ok none => .error .mandatoryAttributeMissing
  | .ok (some init) =>
  if (match mn with | some a => decide (init < a) | none => false) || (match mx with | some b => decide (init > b) | none => false)
  then .error .initNotWithinBounds else
  match exReal m "scale" true with
  | .error e => .error e
  | .ok none => .error .mandatoryAttributeMissing
  | .ok (some scale) =>
  if F64.le scale (.fin 0) then .error .scaleMustBeStrictlyPositive
  else .ok (.int init scale mn mx)

def buildBool (m : YPairs) : PR SNode :=
  match checkUnexpected Generated.boolAttrs m with
  | .error e => .error e
  | .ok _ =>
  match exBool m "init" true with
  | .error e => .error e
  | .ok none => .error .mandatoryAttributeMissing
  | .ok (some b) => .ok (.bool b)

/-- the `values` of an enum: a sequence (not looked at through a tag) of at least two plain strings -/
def enumValues : YList → PR (List String)
  | .nil => .ok []
  | .cons (.str s) r => (match enumValues r with | .ok l => .ok (s :: l) | .error e => .error e)
  | .cons _ _ => .error .enumItemsMustBeString

def buildEnum (m : YPairs) : PR SNode :=
  match checkUnexpected Generated.enumAttrs m with
  | .error e => .error e
  | .ok _ =>
  match exStr m "init" true with
  | .error e => .error e
  | .ok none => .error .mandatoryAttributeMissing
  | .ok (some init) =>
  match m.get "values" with
  | none => .error .mandatoryAttributeMissing
  | some (.seq l) =>
    if l.length < 2 then .error .notEnoughEnumValues else
    (match enumValues l with
     | .error e => .error e
     | .ok vs =>
       if !allDistinct vs then .error .duplicateEnumValue
       else if !vs.contains init then .error .initNotAKnownValue
       else .ok (.enum vs init))
  | some _ => .error .invalidAttributeValueType

/-- insert a member / option into the key-sorted field list (`HashMap::insert`) -/
def SFields.insert (k : String) (n : SNode) : SFields → SFields
  | .nil => .cons k n .nil
  | .cons k' n' r =>
    if k < k' then .cons k n (.cons k' n' r)
    else if k == k' then .cons k n r
    else .cons k' n' (SFields.insert k n r)


mutual
/-- `build_node` -/
def build (env : Env) : Y → PR SNode
  | .map m =>
    (match exStr m "type" false with
     | .error e => .error e
     | .ok t =>
       let tn := t.getD "sub"
       if tn == "real" then buildReal m
       else if tn == "int" then buildInt m
       else if tn == "bool" then buildBool m
       else if tn == "sub" then
         -- two passes: all type definitions of this sub first (each sees the earlier ones and the enclosing
         -- scope), then the members (which see all of them)
         (match subDefs env m with
          | .error e => .error e
          | .ok env' =>
            (match subMembers env' m with
             | .error e => .error e
             | .ok f => if f.length == 0 then .error .emptySub else .ok (.sub f)))
       else if tn == "array" then
         (match checkUnexpected Generated.arrayAttrs m with
          | .error e => .error e
          | .ok _ =>
          match valueTypeOf env m with
          | .error e => .error e
          | .ok none => .error .mandatoryAttributeMissing
          | .ok (some e) =>
          match exUsize m "size" true with
          | .error err => .error err
          | .ok none => .error .mandatoryAttributeMissing
          | .ok (some n) => if n < 2 then .error .arraySize else .ok (.array e n))
       else if tn == "anon map" then
         (match checkUnexpected Generated.anonMapAttrs m with
          | .error e => .error e
          | .ok _ =>
          match valueTypeOf env m with
          | .error e => .error e
          | .ok none => .error .mandatoryAttributeMissing
          | .ok (some e) =>
          match exUsize m "minSize" false with
          | .error err => .error err
          | .ok mn =>
          match exUsize m "maxSize" false with
          | .error err => .error err
          | .ok mx =>
          if !boundsSaneN mn mx then .error .invalidSizeBounds
          else if mx == some 0 then .error .zeroMaxSize else
          match exUsize m "initSize" true with
          | .error err => .error err
          | .ok none => .error .mandatoryAttributeMissing
          | .ok (some n) =>
            if (match mn with | some a => decide (n < a) | none => false) || (match mx with | some b => decide (n > b) | none => false)
            then .error .initSizeNotWithinBounds
            else .ok (.amap e n mn mx))
       else if tn == "variant" then
         (match exStr m "init" true with
          | .error e => .error e
          | .ok none => .error .mandatoryAttributeMissing
          | .ok (some init) =>
          match variantOpts env m with
          | .error e => .error e
          | .ok o =>
            if o.length < 2 then .error .notEnoughVariantValues
            else if !o.keys.contains init then .error .initNotAKnownValue
            else .ok (.variant o init))
       else if tn == "enum" then buildEnum m
       else if tn == "optional" then
         (match checkUnexpected Generated.optionalAttrs m with
          | .error e => .error e
          | .ok _ =>
          match valueTypeOf env m with
          | .error e => .error e
          | .ok none => .error .mandatoryAttributeMissing
          | .ok (some e) =>
          match exBool m "initPresent" true with
          | .error err => .error err
          | .ok none => .error .mandatoryAttributeMissing
          | .ok (some p) => .ok (.opt e p))
       else if tn == "const" then
         (match checkUnexpected Generated.constAttrs m with
          | .error e => .error e
          | .ok _ => .ok .const)
       else
         (match Env.find env tn with
          | some n => (match checkUnexpected ["type"] m with | .error e => .error e | .ok _ => .ok n)
          | none => .error .unknownTypeName))
  | _ => .error .valueMustBeMap
/-- first pass of `build_sub`: collect the `typeDef <name>` entries in document order -/
def subDefs (env : Env) : YPairs → PR Env
  | .nil => .ok env
  | .cons k v r =>
    match k.asStr with
    | none => .error .invalidAttributeKeyType
    | some ks =>
      if ks.startsWith Generated.typeDefPrefixDefs then
        let name := (ks.drop Generated.typeDefPrefixDefs.length).toString
        if Generated.builtInTypeNames.contains name then .error .illegalTypeDefName
        else match build env v with
          | .error e => .error e
          | .ok n => subDefs ((name, n) :: env) r
      else subDefs env r
/-- second pass of `build_sub`: every key that is neither `type` nor a type definition is a member -/
def subMembers (env : Env) : YPairs → PR SFields
  | .nil => .ok .nil
  | .cons k v r =>
    match k.asStr with
    | none => subMembers env r
    | some ks =>
      if ks != "type" && !ks.startsWith Generated.typeDefPrefixMembers then
        match build env v with
        | .error e => .error e
        | .ok n => (match subMembers env r with | .error e => .error e | .ok f => .ok (SFields.insert ks n f))
      else subMembers env r
/-- the options of a variant: every key other than `type` and `init` -/
def variantOpts (env : Env) : YPairs → PR SFields
  | .nil => .ok .nil
  | .cons k v r =>
    match k.asStr with
    | none => .error .invalidAttributeKeyType
    | some ks =>
      if ks != "type" && ks != "init" then
        match build env v with
        | .error e => .error e
        | .ok n => (match variantOpts env r with | .error e => .error e | .ok f => .ok (SFields.insert ks n f))
      else variantOpts env r
/-- `extract_value_type_attr_value`: build the node stored under `valueType` -/
def valueTypeOf (env : Env) : YPairs → PR (Option SNode)
  | .nil => .ok none
  | .cons k v r =>
    if k == .str "valueType" then (match build env v with | .error e => .error e | .ok n => .ok (some n))
    else valueTypeOf env r
end

/-- `spec_util::from_yaml_str` after serde_yaml: build with no type definitions in scope -/
def parseSpec (y : Y) : PR SNode := build [] y

end Cambrian
