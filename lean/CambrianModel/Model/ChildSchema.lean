/-
L8b.  The child result schema of `process.rs` over the JSON tree: what `serde_json::from_slice::<ObjFuncChildResult>`
(`deny_unknown_fields`, one optional member `objFuncVal`) makes of the document a child printed - after fix b0d082e,
which admits JSON *objects* only (serde itself would also read the struct from an array: `[1.5]`).

`none` stands for "stdout is not one JSON document" (not JSON at all, trailing data, a number out of the f64 range).
Duplicate members are outside the model (the tree has at most one member per name as far as this function looks).
-/
import CambrianModel.Model.Json
import CambrianModel.Model.Process
namespace Cambrian.Proc
open Cambrian

/-- the value of the one admitted member -/
def memberOut (cast : Int → F64) : J → ChildOut
  | .null => .null
  | .int i => .value (cast i)      -- serde reads an integer literal as the nearest f64
  | .flt f => .value f
  | _ => .invalid                  -- strings, booleans, arrays, objects: wrong type

/-- `objectsOnly`: is the "first byte is `{`" guard present (it is, since b0d082e); without it serde's
    struct-from-sequence reading is modelled: the first element is the member, any further element is an error -/
def childOutOf (objectsOnly : Bool) (cast : Int → F64) : Option J → ChildOut
  | some (.obj .nil) => .null                                                       -- member absent
  | some (.obj (.cons k v .nil)) => if k == "objFuncVal" then memberOut cast v else .invalid   -- unknown member
  | some (.arr (.cons v .nil)) => if objectsOnly then .invalid else memberOut cast v
  | _ => .invalid

end Cambrian.Proc
