/-
L7.  The launch layer: `termination.rs::compile`, the command loop of `async_launch.rs::launch` and the outer
`select!` loop of `sync_launch.rs::launch_with_async_obj_func` (time limit, controller result, report writer).

Durations are milliseconds (`Nat`); the time limit is an event (`timeout` fires at most once: the future is fused).
-/
import CambrianModel.Model.F64
import CambrianModel.Model.Generated
namespace Cambrian.Launch
open Cambrian

/-! ### `meta.rs::AlgoConfigBuilder::build` (defaults and rejections are read from the source on every run) -/

structure AlgoCfg where
  sampleSize : Nat
  numConcurrent : Nat
  deriving DecidableEq, Repr

inductive CfgErr where | zeroSampleSize | zeroNumConcurrent
  deriving DecidableEq, Repr

def buildConfig (ss nc : Option Nat) : Except CfgErr AlgoCfg :=
  let c : AlgoCfg := { sampleSize := ss.getD Generated.defaultSampleSize, numConcurrent := nc.getD Generated.defaultNumConcurrent }
  if Generated.zeroSampleSizeRejected && c.sampleSize == 0 then .error .zeroSampleSize
  else if Generated.zeroNumConcurrentRejected && c.numConcurrent == 0 then .error .zeroNumConcurrent
  else .ok c

/-! ### `termination::compile` -/

inductive Crit where
  | numEval (n : Nat) | target (t : F64) | after (ms : Nat) | signal
  deriving DecidableEq, Repr

structure Compiled where
  maxEval : Option Nat := none
  target : Option F64 := none
  after : Option Nat := none
  onSignal : Bool := false
  deriving DecidableEq, Repr

/-- one iteration of the `for criterion in termination_criteria` loop; `none` = `ConflictingTerminationCriteria` -/
def compileStep (c : Compiled) : Crit → Option Compiled
  | .numEval n => if c.maxEval.isNone then some { c with maxEval := some n } else none
  | .target t => if c.target.isNone then some { c with target := some t } else none
  | .after d => if c.after.isNone then some { c with after := some d } else none
  | .signal => if !c.onSignal then some { c with onSignal := true } else none

def compileFrom : Compiled → List Crit → Option Compiled
  | c, [] => some c
  | c, x :: xs => match compileStep c x with | some c' => compileFrom c' xs | none => none

def compile (cs : List Crit) : Option Compiled := compileFrom {} cs

/-- the kind of a criterion (what may not be given twice) -/
def Crit.kind : Crit → Nat
  | .numEval _ => 0 | .target _ => 1 | .after _ => 2 | .signal => 3

/-! ### the command loop of `async_launch::launch` -/

inductive LEv where
  | terminate        -- `cmd_recv.next()` yields `Some(Command::Terminate)`
  | closed           -- `cmd_recv.next()` yields `None` (every sender dropped)
  | ctlDone          -- the controller future completes
  deriving DecidableEq, Repr

inductive LAct where
  | abortReq         -- the oneshot towards the controller is completed (the controller's `abortReq` event)
  | retCtl           -- `return res` (the controller's own result)
  | retHungUp        -- `return Err(ClientHungUp)`; the controller future is dropped unfinished
  deriving DecidableEq, Repr

structure LSt where
  holder : Bool := true     -- `abort_sig_sender_holder.is_some()`
  done : Bool := false
  deriving DecidableEq, Repr

def lstep (s : LSt) : LEv → LSt × List LAct
  | e =>
    if s.done then (s, []) else
    match e with
    | .terminate => if s.holder then ({ s with holder := false }, [.abortReq]) else (s, [])
    | .closed => ({ s with done := true }, [.retHungUp])
    | .ctlDone => ({ s with done := true }, [.retCtl])

def lrun : LSt → List LEv → LSt × List LAct
  | s, [] => (s, [])
  | s, e :: es => let (s', a) := lstep s e; let (s'', b) := lrun s' es; (s'', a ++ b)

/-! ### the outer loop of `sync_launch::launch_with_async_obj_func` -/

inductive SEv where
  | timeout                      -- the `Delay` fires (fused: at most once is effective)
  | launchDone (ok : Bool)       -- `launch_fut` completes with `Ok` / `Err`
  | writerDone (ok : Bool)       -- `detailed_reporting_fut` completes (all items written) with `Ok` / `Err`
  deriving DecidableEq, Repr

inductive SAct where
  | sendTerminate                -- `cmd_sender.send(Command::Terminate)`
  | awaitWriter                  -- `detailed_reporting_fut.await?` inside the `launch_fut` arm
  | ret (launchRes : Option Bool) -- the function returns: `some ok` the controller's result, `none` the writer's error
  deriving DecidableEq, Repr

structure SSt where
  timeoutFired : Bool := false
  writerFinished : Option Bool := none    -- `some ok`: the writer future has completed
  done : Bool := false
  deriving DecidableEq, Repr

/-- `wr`: how the writer ends if it has to be awaited in the `launch_fut` arm -/
def sstep (wr : Bool) (s : SSt) : SEv → SSt × List SAct
  | e =>
    if s.done then (s, []) else
    match e with
    | .timeout => if s.timeoutFired then (s, []) else ({ s with timeoutFired := true }, [.sendTerminate])
    | .writerDone ok =>
        if s.writerFinished.isSome then (s, []) else
        if ok then ({ s with writerFinished := some true }, [])
        else ({ s with writerFinished := some false, done := true }, [.ret none])
    | .launchDone ok =>
        match s.writerFinished with
        | some _ => ({ s with done := true }, [.ret (some ok)])          -- fused: awaiting a finished writer is immediate
        | none =>
          if wr then ({ s with writerFinished := some true, done := true }, [.awaitWriter, .ret (some ok)])
          else ({ s with writerFinished := some false, done := true }, [.awaitWriter, .ret none])

def srun (wr : Bool) : SSt → List SEv → SSt × List SAct
  | s, [] => (s, [])
  | s, e :: es => let (s', a) := sstep wr s e; let (s'', b) := srun wr s' es; (s'', a ++ b)

end Cambrian.Launch
