/-
L2.  The value <-> JSON codec (`value.rs::to_json`, `value_util.rs::build_*`).

`J` is a `serde_json::Value` tree: numbers carry what `as_i64()` answers (`int i`: `Some(i)`; `flt f`: `None`, with
`as_f64() = f`); objects are key-sorted with unique keys (serde_json's default `BTreeMap`).  `cast : Int -> F64`
is the `i64 -> f64` view serde_json gives for an integer number (`as_f64` of `PosInt/NegInt`) - an observed
function (float law FL-cast: it is total); the theorems hold for every `cast`.
-/
import CambrianModel.Model.Spec
namespace Cambrian

mutual
inductive J where
  | null
  | bool (b : Bool)
  | int (i : Int)        -- a number for which `as_i64()` is `Some(i)`
  | flt (f : F64)        -- any other number; `as_f64()` is `f`
  | str (s : String)
  | arr (l : JList)
  | obj (f : JFields)
inductive JList where
  | nil | cons (j : J) (rest : JList)
inductive JFields where
  | nil | cons (k : String) (j : J) (rest : JFields)
end

deriving instance DecidableEq for J, JList, JFields
deriving instance Repr for J, JList, JFields
instance : Inhabited J := ⟨.null⟩

def JFields.length : JFields → Nat
  | .nil => 0 | .cons _ _ r => r.length + 1
def JFields.keys : JFields → List String
  | .nil => [] | .cons k _ r => k :: r.keys

/-! ### `to_json` -/

mutual
def toJson : VNode → J
  | .real x => .flt x                       -- `Number::from_f64(x).unwrap()`: panics unless x is finite
  | .int i => .int i
  | .bool b => .bool b
  | .sub f => .obj (toJsonFields f)
  | .array l => .arr (toJsonList l)
  | .amap m => .obj (toJsonEntries m)       -- keys are `usize::to_string`; the driver re-sorts them as strings
  | .variant n v => .obj (.cons n (toJson v) .nil)
  | .enum s => .str s
  | .onone => .null
  | .osome v => toJson v
  | .const => .null
def toJsonFields : VFields → JFields
  | .nil => .nil
  | .cons k v r => .cons k (toJson v) (toJsonFields r)
def toJsonList : VList → JList
  | .nil => .nil
  | .cons v r => .cons (toJson v) (toJsonList r)
def toJsonEntries : VEntries → JFields
  | .nil => .nil
  | .cons k v r => .cons (toString k) (toJson v) (toJsonEntries r)
end

-- where `Number::from_f64(..).unwrap()` in `to_json` does not panic: every real is finite
mutual
def jsonable : VNode → Bool
  | .real x => x.isFinite
  | .sub f => jsonableFields f
  | .array l => jsonableList l
  | .amap m => jsonableEntries m
  | .variant _ v => jsonable v
  | .osome v => jsonable v
  | _ => true
def jsonableFields : VFields → Bool
  | .nil => true | .cons _ v r => jsonable v && jsonableFields r
def jsonableList : VList → Bool
  | .nil => true | .cons v r => jsonable v && jsonableList r
def jsonableEntries : VEntries → Bool
  | .nil => true | .cons _ v r => jsonable v && jsonableEntries r
end

/-! ### reading a value (`value_util::from_json_value`) -/

/-- why a JSON document is rejected (informational; the kinds and their precedence are not part of any property) -/
inductive Rej where
  | wrongType | numberConversion | notWithinBounds | unexpectedKey | missingValue | invalidMapKey
  | unknownVariant | exactlyOneVariant | unknownEnumValue
  | wrongLength | sizeNotWithinBounds          -- added by the fixes of D8 / D9
  deriving DecidableEq, Repr

/-- `str::parse::<usize>`: an optional `+`, then one or more ASCII digits, value at most `usize::MAX` -/
def parseUsize (s : String) : Option Nat :=
  let cs := s.toList
  let ds := match cs with | '+' :: r => r | _ => cs
  if ds.isEmpty || !ds.all Char.isDigit then none
  else
    let n := Nat.ofDigitChars 10 ds 0
    if n ≤ usizeMax then some n else none

/-- `build_real` / `build_int` bounds test, exactly as coded: `x < min` or `x > max` rejects (so NaN passes it) -/
def outOfBoundsF (x : F64) (mn mx : Option F64) : Bool :=
  match mn, mx with
  | some a, _ => if F64.lt x a then true else (match mx with | some b => F64.lt b x | none => false)
  | none, some b => F64.lt b x
  | none, none => false
def outOfBoundsI (x : Int) (mn mx : Option Int) : Bool :=
  match mn, mx with
  | some a, _ => if x < a then true else (match mx with | some b => decide (b < x) | none => false)
  | none, some b => decide (b < x)
  | none, none => false

mutual
def fromJson (cast : Int → F64) : SNode → J → Except Rej VNode
  | .real _ _ mn mx, j =>
      (match j with
       | .flt x => if outOfBoundsF x mn mx then .error .notWithinBounds else .ok (.real x)
       | .int i => if outOfBoundsF (cast i) mn mx then .error .notWithinBounds else .ok (.real (cast i))
       | _ => .error .wrongType)
  | .int _ _ mn mx, j =>
      (match j with
       | .int i => if outOfBoundsI i mn mx then .error .notWithinBounds else .ok (.int i)
       | .flt _ => .error .numberConversion
       | _ => .error .wrongType)
  | .bool _, j => (match j with | .bool b => .ok (.bool b) | _ => .error .wrongType)
  | .sub sf, j =>
      (match j with
       | .obj jf => (match fromJsonSub cast sf jf with | .ok f => .ok (.sub f) | .error e => .error e)
       | _ => .error .wrongType)
  | .array e n, j =>
      (match j with
       | .arr l => (match fromJsonList cast e l with
                    | .ok vl => if vl.length == n then .ok (.array vl) else .error .wrongLength
                    | .error e => .error e)
       | _ => .error .wrongType)
  | .amap e _ mn mx, j =>
      (match j with
       | .arr l => (match fromJsonIdx cast e 0 l with
                    | .ok m => if sizeOk m.length mn mx then .ok (.amap m) else .error .sizeNotWithinBounds
                    | .error e => .error e)
       | .obj jf => (match fromJsonMap cast e jf with
                     | .ok m => if sizeOk m.length mn mx then .ok (.amap m) else .error .sizeNotWithinBounds
                     | .error e => .error e)
       | _ => .error .wrongType)
  | .variant o _, j =>
      (match j with
       | .obj (.cons k cj .nil) =>
           (match o.lookup k with
            | some cs => (match fromJson cast cs cj with | .ok v => .ok (.variant k v) | .error e => .error e)
            | none => .error .unknownVariant)
       | .obj _ => .error .exactlyOneVariant
       | _ => .error .wrongType)
  | .enum vs _, j =>
      (match j with
       | .str s => if vs.contains s then .ok (.enum s) else .error .unknownEnumValue
       | _ => .error .wrongType)
  | .opt e _, j =>
      (match j with
       | .null => .ok .onone
       | j => (match fromJson cast e j with | .ok v => .ok (.osome v) | .error err => .error err))
  | .const, j => (match j with | .null => .ok .const | _ => .error .wrongType)
termination_by s j => (sizeOf j, sizeOf s)
/-- `build_sub`: every JSON key must be a declared key, every declared key must be present.  Both lists are
    key-sorted with unique keys, so this is a lock-step walk. -/
def fromJsonSub (cast : Int → F64) : SFields → JFields → Except Rej VFields
  | .nil, .nil => .ok .nil
  | .nil, .cons _ _ _ => .error .unexpectedKey
  | .cons _ _ _, .nil => .error .missingValue
  | .cons k s sr, .cons k' j jr =>
      if k == k' then
        (match fromJson cast s j with
         | .ok v => (match fromJsonSub cast sr jr with | .ok r => .ok (.cons k v r) | .error e => .error e)
         | .error e => .error e)
      else if k' < k then .error .unexpectedKey else .error .missingValue
termination_by sf jf => (sizeOf jf, sizeOf sf)
def fromJsonList (cast : Int → F64) (e : SNode) : JList → Except Rej VList
  | .nil => .ok .nil
  | .cons j r =>
      (match fromJson cast e j with
       | .ok v => (match fromJsonList cast e r with | .ok vr => .ok (.cons v vr) | .error err => .error err)
       | .error err => .error err)
termination_by l => (sizeOf l, sizeOf e)
/-- `build_anon_map`, array form: keys are the positions -/
def fromJsonIdx (cast : Int → F64) (e : SNode) : Nat → JList → Except Rej VEntries
  | _, .nil => .ok .nil
  | i, .cons j r =>
      (match fromJson cast e j with
       | .ok v => (match fromJsonIdx cast e (i+1) r with | .ok vr => .ok (.cons i v vr) | .error err => .error err)
       | .error err => .error err)
termination_by _ l => (sizeOf l, sizeOf e)
/-- `build_anon_map`, object form: keys parsed as `usize`; a later equal key overwrites an earlier one -/
def fromJsonMap (cast : Int → F64) (e : SNode) : JFields → Except Rej VEntries
  | .nil => .ok .nil
  | .cons k j r =>
      (match parseUsize k with
       | none => .error .invalidMapKey
       | some n =>
         (match fromJson cast e j with
          | .ok v => (match fromJsonMap cast e r with
                      | .ok vr => .ok (if vr.keys.contains n then vr else vr.insert n v)
                      | .error err => .error err)
          | .error err => .error err))
termination_by jf => (sizeOf jf, sizeOf e)
end

/- what a parsed JSON document is: integers that `as_i64` can answer lie in the `i64` range, floats are finite
   (JSON has no literal for NaN or infinity and `serde_json::Number` cannot hold one) -/
mutual
def jvalid : J → Bool
  | .int i => inI64 i
  | .flt f => f.isFinite
  | .arr l => jvalidList l
  | .obj f => jvalidFields f
  | _ => true
def jvalidList : JList → Bool
  | .nil => true | .cons j r => jvalid j && jvalidList r
def jvalidFields : JFields → Bool
  | .nil => true | .cons _ j r => jvalid j && jvalidFields r
end

/- a spec whose JSON encoding is unambiguous: no optional directly wraps an optional or a const
   (whose encodings, `null`, cannot be told from "absent") -/
mutual
def unambiguous : SNode → Bool
  | .opt e _ => (match e with | .opt _ _ => false | .const => false | _ => true) && unambiguous e
  | .sub f => unambiguousFields f
  | .array e _ => unambiguous e
  | .amap e _ _ _ => unambiguous e
  | .variant o _ => unambiguousFields o
  | _ => true
def unambiguousFields : SFields → Bool
  | .nil => true | .cons _ n r => unambiguous n && unambiguousFields r
end

end Cambrian
