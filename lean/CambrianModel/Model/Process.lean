/-
L8.  Process-based evaluation (`process.rs`): the per-evaluation machine and the child result schema.
L9.  The command line tool's decision logic (`bin/cambrian.rs::main`).
L7.  The detailed-report writer (`sync_launch.rs::handle_detailed_report_items`).

Only what is logic is modelled; the OS facts relied upon are listed in DESIGN 3.5 / 10 (a spawned child leads a fresh
process group; `killpg(SIGKILL)` ends every member of the group; members stay in the group unless they call
setsid/setpgid; dropping a tokio `Child` does not kill it).
-/
import CambrianModel.Model.F64
import CambrianModel.Model.Generated
namespace Cambrian.Proc
open Cambrian

/-- what the child printed, as `serde_json::from_slice::<ObjFuncChildResult>` (`deny_unknown_fields`) sees it -/
inductive ChildOut where
  | value (x : F64)     -- `{"objFuncVal": x}`
  | null                -- `{"objFuncVal": null}` or `{}`
  | invalid             -- anything else: not JSON, not an object, unknown fields, number out of range
  deriving DecidableEq, Repr

structure ChildRes where
  exitOk : Bool         -- `output.status.success()`
  out : ChildOut
  deriving DecidableEq, Repr

/-- how the child ended, as `std::process::ExitStatus` tells it -/
inductive ExitStatus where
  | exited (code : Nat)
  | signaled (sig : Nat)
  deriving DecidableEq, Repr

/-- `ExitStatus::success()` -/
def ExitStatus.success : ExitStatus → Bool
  | .exited 0 => true
  | _ => false

/-- the `exitOk` field of `ChildRes` as the source computes it (`bySuccess`: read from the source on every run;
    without the fact the model falls back to "exit code, 0 when there is none" - the slip that accepts a death by signal) -/
def exitOkOf (bySuccess : Bool) (st : ExitStatus) : Bool :=
  if bySuccess then st.success else (match st with | .exited c => c == 0 | .signaled _ => true)

inductive Fail where
  | unableToLaunch | procFailed | invalidOutput | nonFinite | killFailed
  deriving DecidableEq, Repr

inductive EvalRes where
  | accepted (x : F64) | rejected | failed (f : Fail)
  deriving DecidableEq, Repr

/-- `get_child_result`: exit status first, then the output schema; then `evaluate_individual`'s finiteness test -/
def classifyChild (r : ChildRes) : EvalRes :=
  if r.exitOk then
    match r.out with
    | .value x => if x.isFinite then .accepted x else .failed .nonFinite
    | .null => .rejected
    | .invalid => .failed .invalidOutput
  else .failed .procFailed

/-- how one evaluation future ends -/
inductive PEv where
  | childDone (r : ChildRes)    -- `child_result` is ready first: the child has exited and its pipes are at EOF
  | timeout                     -- the per-evaluation time limit fires first
  | abort                       -- the abort broadcast is received first
  | dropped                     -- the future is dropped unfinished by the controller (target reached, early return)
  deriving DecidableEq, Repr

inductive PAct where
  | spawn | killpg | waitpid
  deriving DecidableEq, Repr

/-- `ObjFuncProcessDef::evaluate`; `none` as result: the future never completed (it was dropped) -/
def evalProc (launchOk : Bool) (e : PEv) : Option EvalRes × List PAct :=
  if !launchOk then (some (.failed .unableToLaunch), []) else
  match e with
  | .childDone r => (some (classifyChild r), [.spawn])
  | .timeout => (some .rejected, [.spawn, .killpg, .waitpid])
  | .abort => (some .rejected, [.spawn, .killpg, .waitpid])
  | .dropped => (none, [.spawn, .killpg, .waitpid])        -- `ProcGroupGuard::drop`

/-- what `waitpid(leader)` answers after the group has been killed -/
inductive WaitRes where
  | reaped            -- `Ok(_)`
  | alreadyReaped     -- `Err(ECHILD)`: the pending wait on the child (it may have closed its pipes long before) was first
  | otherError
  deriving DecidableEq, Repr

/-- `kill_and_reap_child_proc_group` after a successful `killpg` (`echildOk`: the source treats ECHILD as reaped -
    extracted; before fix fa38961 it did not, and a timed-out evaluation could fail the run) -/
def reapResult (echildOk : Bool) : WaitRes → Option Fail
  | .reaped => none
  | .alreadyReaped => if echildOk then none else some .killFailed
  | .otherError => some .killFailed

/-- the result of an evaluation that is ended by its time limit or by the abort broadcast -/
def endedResult (echildOk : Bool) (w : WaitRes) : EvalRes :=
  match reapResult echildOk w with
  | none => .rejected
  | some f => .failed f

/-- the argument vector of the child: `<program> <user args...> <JSON parameters> <seed>` -/
def argvOf {α} (program : α) (userArgs : List α) (json seed : α) : List α :=
  program :: (userArgs ++ [json, seed])

/-! ### L9: the command line tool -/

inductive RunOutcome where
  | ok                         -- `Ok(FinalReport)`
  | procError                  -- `ObjFuncProcFailed` / `ObjFuncProcInvalidOutput`
  | otherError                 -- any other error (no individuals, non-finite value, unlaunchable program, bad guess ...)
  deriving DecidableEq, Repr

structure CliIn where
  algoConfOk : Bool            -- `--num-concurrent` / `--sample-size` absent or >= 1
  termDurOk : Bool             -- `--terminate-after` absent or parses
  outDir : Option (Bool × Bool) -- `--out-dir`: (exists already, `--force`)
  specOk : Bool                -- the spec file can be read and parses
  killDurOk : Bool             -- `--kill-obj-func-after` absent or parses
  guessJsonOk : Bool           -- `--initial-guess` absent or valid JSON text
  run : RunOutcome             -- what `launch_with_async_obj_func` returns, if it is reached
  deriving Repr

structure CliOut where
  exitOk : Bool
  stdoutLines : Nat            -- lines printed to stdout
  launched : Bool              -- the optimisation was started (only then can an evaluation happen)
  outDirRemoved : Bool         -- a pre-existing output directory was removed
  outDirCreated : Bool
  diagFiles : Bool             -- failed_obj_func_{arg,stdout,stderr}
  summaryFile : Bool
  deriving DecidableEq, Repr

def failOut (removed created : Bool) : CliOut :=
  { exitOk := false, stdoutLines := 0, launched := false, outDirRemoved := removed, outDirCreated := created,
    diagFiles := false, summaryFile := false }

/-- `main`: the order of the validation steps and their effects -/
def cliM (i : CliIn) : CliOut :=
  if !i.algoConfOk then failOut false false
  else if !i.termDurOk then failOut false false
  else
    match i.outDir with
    | some (true, false) => failOut false false          -- exists, no --force: refused, left untouched
    | od =>
      let removed := od == some (true, true)
      let created := od.isSome
      if !i.specOk then failOut removed created
      else if !i.killDurOk then failOut removed created
      else if !i.guessJsonOk then failOut removed created
      else
        match i.run with
        | .ok => { exitOk := true, stdoutLines := 1, launched := true, outDirRemoved := removed, outDirCreated := created,
                   diagFiles := false, summaryFile := created }
        | .procError => { exitOk := false, stdoutLines := 0, launched := true, outDirRemoved := removed,
                          outDirCreated := created, diagFiles := created, summaryFile := false }
        | .otherError => { exitOk := false, stdoutLines := 0, launched := true, outDirRemoved := removed,
                           outDirCreated := created, diagFiles := false, summaryFile := false }

/-! ### L7: the detailed-report writer -/

structure Item where
  id : Nat
  seed : Nat
  obj : Option Int            -- order code of the objective value; `none`: rejected
  deriving DecidableEq, Repr

structure Files where
  rows : List Item := []       -- one CSV row per item, in order
  best : Option Item := none   -- the item whose `input_val` the best-seen file holds
  deriving Repr

/-- one iteration of `while let Some(item) = item_receiver.next().await` -/
def writeItem (f : Files) (it : Item) : Files :=
  let rows := f.rows ++ [it]
  match it.obj with
  | none => { f with rows := rows }
  | some x =>
    match f.best with
    | none => { rows := rows, best := some it }
    | some b =>
      match b.obj with
      | some y => if x < y then { rows := rows, best := some it } else { f with rows := rows }
      | none => { rows := rows, best := some it }

def writeAll (items : List Item) : Files := items.foldl writeItem {}

end Cambrian.Proc
