/-
L1.  Parameter-space specifications (`spec.rs`), values (`value.rs`), the initial value, and the two decidable
predicates the properties are about: `wf` (a well-formed parameter space, C10) and `conf` (a value has exactly the
declared structure, C01).

`FxHashMap`s are key-sorted, duplicate-free lists inside the mutual families (DESIGN 3.2).
-/
import CambrianModel.Model.F64
namespace Cambrian

mutual
inductive SNode where
  | real (init scale : F64) (min max : Option F64)
  | int (init : Int) (scale : F64) (min max : Option Int)
  | bool (init : Bool)
  | sub (fields : SFields)
  | array (elem : SNode) (size : Nat)
  | amap (elem : SNode) (initSize : Nat) (minSize maxSize : Option Nat)
  | variant (opts : SFields) (init : String)
  | enum (values : List String) (init : String)
  | opt (elem : SNode) (initPresent : Bool)
  | const
inductive SFields where
  | nil | cons (k : String) (n : SNode) (rest : SFields)
end

mutual
inductive VNode where
  | real (x : F64) | int (i : Int) | bool (b : Bool)
  | sub (f : VFields) | array (l : VList) | amap (m : VEntries)
  | variant (name : String) (v : VNode) | enum (s : String)
  | onone | osome (v : VNode)
  | const
inductive VFields where
  | nil | cons (k : String) (v : VNode) (rest : VFields)
inductive VList where
  | nil | cons (v : VNode) (rest : VList)
inductive VEntries where
  | nil | cons (k : Nat) (v : VNode) (rest : VEntries)
end

instance : Inhabited VNode := ⟨.const⟩
instance : Inhabited SNode := ⟨.const⟩

deriving instance DecidableEq for SNode, SFields
deriving instance DecidableEq for VNode, VFields, VList, VEntries
deriving instance Repr for SNode, SFields
deriving instance Repr for VNode, VFields, VList, VEntries

/-! ### small list-like API -/

def SFields.lookup : SFields → String → Option SNode
  | .nil, _ => none
  | .cons k n r, x => if k == x then some n else r.lookup x
def SFields.keys : SFields → List String
  | .nil => [] | .cons k _ r => k :: r.keys
def SFields.length : SFields → Nat
  | .nil => 0 | .cons _ _ r => r.length + 1

def VFields.keys : VFields → List String
  | .nil => [] | .cons k _ r => k :: r.keys
def VFields.lookup : VFields → String → Option VNode
  | .nil, _ => none
  | .cons k v r, x => if k == x then some v else r.lookup x

def VEntries.lookup : VEntries → Nat → Option VNode
  | .nil, _ => none
  | .cons k v r, x => if k == x then some v else r.lookup x
def VEntries.keys : VEntries → List Nat
  | .nil => [] | .cons k _ r => k :: r.keys
def VEntries.length : VEntries → Nat
  | .nil => 0 | .cons _ _ r => r.length + 1
def VEntries.any (f : VNode → Bool) : VEntries → Bool
  | .nil => false | .cons _ v r => f v || r.any f
/-- insert into a key-sorted entry list, replacing an equal key (`HashMap::insert`) -/
def VEntries.insert (k : Nat) (v : VNode) : VEntries → VEntries
  | .nil => .cons k v .nil
  | .cons k' v' r => if k < k' then .cons k v (.cons k' v' r) else if k == k' then .cons k v r else .cons k' v' (r.insert k v)
def VEntries.erase (k : Nat) : VEntries → VEntries
  | .nil => .nil
  | .cons k' v' r => if k == k' then r else .cons k' v' (r.erase k)

def VList.length : VList → Nat
  | .nil => 0 | .cons _ r => r.length + 1
def VList.get? : VList → Nat → Option VNode
  | .nil, _ => none
  | .cons v _, 0 => some v
  | .cons _ r, n+1 => r.get? n

def replicateV (v : VNode) : Nat → VList
  | 0 => .nil | n+1 => .cons v (replicateV v n)
/-- entries `a, a+1, ..., a+n-1`, all holding `v` -/
def rangeE (v : VNode) : Nat → Nat → VEntries
  | _, 0 => .nil | a, n+1 => .cons a v (rangeE v (a+1) n)

/-- strictly increasing (hence duplicate-free) keys -/
def sortedStr : List String → Bool
  | [] => true
  | [_] => true
  | a :: b :: r => decide (a < b) && sortedStr (b :: r)
def sortedNat : List Nat → Bool
  | [] => true
  | [_] => true
  | a :: b :: r => decide (a < b) && sortedNat (b :: r)

/-! ### the initial value (`spec.rs::initial_value`) -/

mutual
def initialValue : SNode → VNode
  | .real i _ _ _ => .real i
  | .int i _ _ _ => .int i
  | .bool b => .bool b
  | .sub f => .sub (initialFields f)
  | .array e n => .array (replicateV (initialValue e) n)
  | .amap e n _ _ => .amap (rangeE (initialValue e) 0 n)
  | .variant o i => .variant i (initialOpt o i)
  | .enum _ i => .enum i
  | .opt e p => if p then .osome (initialValue e) else .onone
  | .const => .const
def initialFields : SFields → VFields
  | .nil => .nil
  | .cons k n r => .cons k (initialValue n) (initialFields r)
/-- initial value of the option named `i` (`map.get(init).unwrap()`: a panic site when the name is unknown;
    `wf` guarantees it is known; the model returns `const` there) -/
def initialOpt : SFields → String → VNode
  | .nil, _ => .const
  | .cons k n r, i => if k == i then initialValue n else initialOpt r i
end

/-! ### numeric side conditions -/

def i64Min : Int := -9223372036854775808
def i64Max : Int := 9223372036854775807
def usizeMax : Nat := 18446744073709551615
def inI64 (i : Int) : Bool := decide (i64Min ≤ i) && decide (i ≤ i64Max)

def optAll {α} (p : α → Bool) : Option α → Bool
  | none => true | some a => p a

def inBoundsF (x : F64) (mn mx : Option F64) : Bool :=
  x.isFinite && optAll (fun m => F64.le m x) mn && optAll (fun m => F64.le x m) mx
def inBoundsI (x : Int) (mn mx : Option Int) : Bool :=
  inI64 x && optAll (fun m => decide (m ≤ x)) mn && optAll (fun m => decide (x ≤ m)) mx
def sizeOk (n : Nat) (mn mx : Option Nat) : Bool :=
  optAll (fun m => decide (m ≤ n)) mn && optAll (fun m => decide (n ≤ m)) mx

/-! ### well-formed parameter spaces (what C10 says an accepted spec is) -/

def allDistinct : List String → Bool
  | [] => true
  | a :: r => !r.contains a && allDistinct r

mutual
def wf : SNode → Bool
  | .real init scale mn mx =>
      init.isFinite && scale.isFinite && F64.lt (.fin 0) scale &&
      optAll F64.isFinite mn && optAll F64.isFinite mx &&
      (match mn, mx with | some a, some b => F64.lt a b | _, _ => true) &&
      optAll (fun m => F64.le m init) mn && optAll (fun m => F64.le init m) mx
  | .int init scale mn mx =>
      inI64 init && optAll inI64 mn && optAll inI64 mx && scale.isFinite && F64.lt (.fin 0) scale &&
      (match mn, mx with | some a, some b => decide (a < b) | _, _ => true) &&
      optAll (fun m => decide (m ≤ init)) mn && optAll (fun m => decide (init ≤ m)) mx
  | .bool _ => true
  | .sub f => decide (0 < f.length) && sortedStr f.keys && wfFields f
  | .array e n => decide (2 ≤ n) && decide (n ≤ usizeMax) && wf e
  | .amap e init mn mx =>
      (match mn, mx with | some a, some b => decide (a < b) | _, _ => true) &&
      (mx != some 0) && sizeOk init mn mx && decide (init ≤ usizeMax) && optAll (fun m => decide (m ≤ usizeMax)) mx && wf e
  | .variant o init => decide (2 ≤ o.length) && sortedStr o.keys && o.keys.contains init && wfFields o
  | .enum vs init => decide (2 ≤ vs.length) && allDistinct vs && vs.contains init
  | .opt e _ => wf e
  | .const => true
def wfFields : SFields → Bool
  | .nil => true
  | .cons _ n r => wf n && wfFields r
end

/-! ### conformance of a value to a spec (what C01 says every candidate satisfies) -/

mutual
def conf : SNode → VNode → Bool
  | .real _ _ mn mx, .real x => inBoundsF x mn mx
  | .int _ _ mn mx, .int i => inBoundsI i mn mx
  | .bool _, .bool _ => true
  | .sub sf, .sub vf => confFields sf vf
  | .array e n, .array l => l.length == n && confList e l
  | .amap e _ mn mx, .amap m =>
      sortedNat m.keys && m.keys.all (fun k => decide (k ≤ usizeMax)) && sizeOk m.length mn mx && confEntries e m
  | .variant o _, .variant name v => (match o.lookup name with | some cs => conf cs v | none => false)
  | .enum vs _, .enum s => vs.contains s
  | .opt _ _, .onone => true
  | .opt e _, .osome v => conf e v
  | .const, .const => true
  | _, _ => false
termination_by structural _ v => v
def confFields : SFields → VFields → Bool
  | .nil, .nil => true
  | .cons k s sr, .cons k' v vr => k == k' && conf s v && confFields sr vr
  | _, _ => false
termination_by structural _ v => v
def confList (e : SNode) : VList → Bool
  | .nil => true
  | .cons v r => conf e v && confList e r
termination_by structural l => l
def confEntries (e : SNode) : VEntries → Bool
  | .nil => true
  | .cons _ v r => conf e v && confEntries e r
termination_by structural m => m
end

/-- `spec_util::is_leaf` -/
def isLeaf : SNode → Bool
  | .sub _ | .array _ _ | .amap _ _ _ _ | .variant _ _ | .opt _ _ => false
  | .bool _ | .real _ _ _ _ | .int _ _ _ _ | .enum _ _ | .const => true

end Cambrian
