/-
L4c.  `path.rs::KeyManager` and the allocation of the key of an element added to a resizable map
(`mutation.rs::mutate_anon_map`, add branch): the counter only moves up, every existing key of the map is registered
right before a key is asked for, the key handed out is the counter.  The three facts are read from the source on
every run (`Generated.keyMgrSeenIsMax`, `keyMgrNextIsCounter`, `keysRegisteredBeforeAlloc`); the model is the code
under these facts and does nothing clever without them, so the theorems about it stop checking when the source
loses one.  `MutGen.lean` abstracts the whole thing into "largest key + 1 + keyBump"; `PathLemmas.alloc_form` proves
that this is what the key manager computes.
-/
import CambrianModel.Model.MutGen
import CambrianModel.Model.Generated
namespace Cambrian

structure KeyMgr where
  nextKey : Nat := 0
  deriving Repr, DecidableEq

/-- `on_key_seen` -/
def KeyMgr.onKeySeen (seenIsMax : Bool) (k : KeyMgr) (key : Nat) : KeyMgr :=
  if seenIsMax then { nextKey := Nat.max k.nextKey (key + 1) } else k

/-- `next_key` -/
def KeyMgr.next (nextIsCounter : Bool) (k : KeyMgr) : Nat × KeyMgr :=
  if nextIsCounter then (k.nextKey, { nextKey := k.nextKey + 1 }) else (0, k)

/-- the add branch of `mutate_anon_map`: register the existing keys (if the source still does), then ask for a key -/
def KeyMgr.alloc (seenIsMax nextIsCounter registered : Bool) (k : KeyMgr) (keys : List Nat) : Nat × KeyMgr :=
  KeyMgr.next nextIsCounter (if registered then keys.foldl (KeyMgr.onKeySeen seenIsMax) k else k)

/-- the allocation as the source has it now -/
def KeyMgr.allocNow (k : KeyMgr) (keys : List Nat) : Nat × KeyMgr :=
  KeyMgr.alloc Generated.keyMgrSeenIsMax Generated.keyMgrNextIsCounter Generated.keysRegisteredBeforeAlloc k keys

end Cambrian
