/-
L4d.  Rank-based selection (`selection.rs::SelectionImpl::select_ref`): for every ranked item in order a
`Bernoulli(p)` coin decides whether it is returned; if no coin succeeds an item is chosen uniformly.
The distribution is modelled exactly over `Rat`; `selDist` follows the loop, `selPmf` is its closed form
(`SelLemmas.selDist_get`).  Also the stated thresholds of C17's benchmark battery.
-/
namespace Cambrian.Sel

/-- the loop of `select_ref`: position `i` is returned with probability `carry * p`, otherwise the loop goes on
    with the remaining mass `carry * (1 - p)` -/
def loopMass (p : Rat) : Nat → Rat → List Rat
  | 0, _ => []
  | n+1, carry => carry * p :: loopMass p n (carry * (1 - p))

/-- mass that falls through the loop -/
def restMass (p : Rat) : Nat → Rat → Rat
  | 0, carry => carry
  | n+1, carry => restMass p n (carry * (1 - p))

/-- distribution of the index returned by `select_ref(individuals_ordered, p)` for `n` individuals:
    loop, then `choose` uniformly -/
def selDist (p : Rat) (n : Nat) : List Rat :=
  (loopMass p n 1).map (fun x => x + restMass p n 1 / n)

/-- closed form -/
def selPmf (p : Rat) (n i : Nat) : Rat := p * (1 - p) ^ i + (1 - p) ^ n / n

/-- 6-sigma acceptance band of one cell of a multinomial sample, without square roots:
    `(obs - D q)^2 <= 36 D q (1 - q) + 36` -/
def cellOk (draws obs : Nat) (q : Rat) : Bool :=
  let e : Rat := draws * q
  decide (((obs : Rat) - e) * ((obs : Rat) - e) ≤ 36 * e * (1 - q) + 36)

/-- observed counts do not significantly INCREASE with the rank (the property's own clause):
    `c_j - c_i <= 6 sqrt(c_i + c_j) + 6` for `i < j`, squared -/
def monoOk (ci cj : Nat) : Bool :=
  decide (cj ≤ ci) || decide ((cj - ci) * (cj - ci) ≤ 36 * (ci + cj) + 36 + 12 * (cj - ci))

def allPairs (f : Nat → Nat → Bool) : List Nat → Bool
  | [] => true
  | a :: r => r.all (f a) && allPairs f r

/-! ### benchmark battery: the factors stated by the check (DESIGN section 7, C17) -/

inductive Goal where
  | factor (k : Nat)      -- the best objective is at least `k` times smaller than the initial guess's
  | optimum               -- the known optimum (objective 0) is reached
  deriving Repr, DecidableEq

/-- problem name prefix -> goal within the stated budget -/
def goals : List (String × Goal) :=
  [("sphere2@", .factor 10000), ("sphere5@", .factor 1000), ("sphere10@", .factor 20),
   ("bound", .optimum), ("grid", .optimum), ("onemax", .optimum), ("mapsize", .optimum), ("mapshrink", .optimum), ("far", .factor 1000), ("deep", .factor 1000000000000), ("warm", .factor 1000000), ("choice", .optimum)]

def goalOf (name : String) : Option Goal :=
  (goals.find? (fun g => g.1.isPrefixOf name)).map (·.2)

def goalMet (g : Goal) (factorFloor : Nat) (reachedZero : Bool) : Bool :=
  match g with
  | .factor k => decide (k ≤ factorFloor)
  | .optimum => reachedZero

end Cambrian.Sel
