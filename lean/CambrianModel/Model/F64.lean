/-
L0.  `f64` as the properties see it: an *order code*.

A finite `f64` is `fin k`, `k` the sign-magnitude integer of its IEEE-754 bit pattern (`-0.0` and `+0.0` are both
`fin 0`, which is how Rust's `<`, `==` and `tangram_finite`'s `Ord` treat them).  On finite values this is an order
isomorphism (checked by `cvh selftest` on every run).  Comparison, `max`, `min`, `is_finite` are defined exactly
as Rust defines them; arithmetic is *not* modelled (DESIGN 3.1).
-/
namespace Cambrian

inductive F64 where
  | nan | ninf | fin (o : Int) | pinf
  deriving DecidableEq, Repr, Inhabited

namespace F64

/-- IEEE `<` (false whenever an operand is NaN). -/
def lt : F64 → F64 → Bool
  | fin a, fin b => decide (a < b)
  | ninf, fin _ => true | ninf, pinf => true | fin _, pinf => true
  | _, _ => false

/-- IEEE `==` (NaN is not equal to itself). -/
def feq : F64 → F64 → Bool
  | fin a, fin b => a == b
  | ninf, ninf => true | pinf, pinf => true
  | _, _ => false

/-- IEEE `<=`. -/
def le (a b : F64) : Bool := lt a b || feq a b

def gt (a b : F64) : Bool := lt b a
def ge (a b : F64) : Bool := le b a

def isNan : F64 → Bool | nan => true | _ => false
def isFinite : F64 → Bool | fin _ => true | _ => false

/-- Rust `f64::max`: NaN operands are ignored when the other operand is a number. -/
def max (a b : F64) : F64 :=
  match a, b with
  | nan, b => b
  | a, nan => a
  | a, b => if lt a b then b else a

/-- Rust `f64::min`. -/
def min (a b : F64) : F64 :=
  match a, b with
  | nan, b => b
  | a, nan => a
  | a, b => if lt b a then b else a

theorem le_fin (a b : Int) : le (fin a) (fin b) = decide (a ≤ b) := by
  simp only [le, lt, feq]
  by_cases h : a < b
  · simp [h]; omega
  · by_cases h2 : a = b
    · simp [h2]
    · have : ¬ a ≤ b := by omega
      simp [h, h2, this]

theorem lt_fin (a b : Int) : lt (fin a) (fin b) = decide (a < b) := rfl

end F64

/-- What `Bernoulli::new(p)` contributes: `p = 0`, `0 < p < 1`, `p = 1`, or anything else (`new` fails). -/
inductive PClass where | zero | mid | one | invalid
  deriving DecidableEq, Repr, Inhabited

end Cambrian
