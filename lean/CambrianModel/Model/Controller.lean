/-
L6.  `controller.rs::start_controller` as an event-driven state machine.

The order of events is the schedule: `complete seed r` is "the evaluation started with `seed` has ended with `r`
and its result is taken by the `select!` loop", `abortReq` is "the external abort signal (Terminate command, time
limit, SIGINT - all end in the same oneshot) is taken by the loop".  Events that are impossible in a state (a seed
that is not in flight, anything after the return) are no-ops, so theorems quantify over *all* event lists.
Every step returns the observable actions it performs.
-/
import CambrianModel.Model.F64
import CambrianModel.Model.Algo
namespace Cambrian.Ctl
open Cambrian

structure Cfg where
  nc : Nat                      -- `algo_config.num_concurrent`
  maxEval : Option Nat          -- `max_num_eval`
  target : Option F64           -- `target_obj_func_val`
  deriving Repr

/-- how an evaluation ended.  `acc x m`: accepted finite value `x` (`m`: observed summary, see `Algo.summ`);
    `rej`: `Ok(None)`; `fail e`: `Err(e)` from the objective function, or a non-finite value (`e = 0`) -/
inductive Res where
  | acc (x m : Int) | rej | fail (e : Nat)
  deriving Repr, DecidableEq

inductive Ev (V : Type) where
  /-- the evaluation started with `seed` ends with `r`; `ch`: the random decisions used if this step hands out
      another individual -/
  | complete (seed : Nat) (r : Res) (ch : Algo.Choice V)
  | abortReq

inductive Outcome (V : Type) where
  | ok (best : Int) (v : V) (accepted rejected : Nat)     -- `Ok(FinalReport)`
  | err (e : Nat)                                         -- `Err(error_recording)`
  | noIndividuals                                         -- `Err(Error::NoIndividuals)`
  | badGuess                                              -- the explicit initial value was rejected
  deriving Repr, DecidableEq

inductive Act (V : Type) where
  | start (seed id : Nat) (v : V)                         -- `obj_func.evaluate(value, _, seed, id)` is called
  | broadcastAbort                                        -- `abort_signal_sender.broadcast(())`
  | item (id seed : Nat) (r : Option Int)                 -- a `DetailedReportItem` is sent
  | ret (o : Outcome V) (dropped : List Nat)              -- the function returns; seeds of futures dropped unfinished
  deriving Repr, DecidableEq

structure St (V : Type) where
  core : Algo.St V
  pushed : Nat := 0              -- `pushed_for_eval_count`
  accepted : Nat := 0            -- `count_accepted`
  rejected : Nat := 0            -- `count_rejected`
  aborted : Bool := false        -- `abort_signal_received`
  err : Option Nat := none       -- `error_recording`
  inflight : List (Nat × Algo.Ind V) := []   -- `evaled_individuals` (seed, individual)
  nextSeed : Nat := 0            -- `seed_mgr.next_seed`
  done : Bool := false
  failed : Nat := 0              -- ghost: evaluations that ended in an error
  deriving Repr

def budgetLeft (c : Cfg) (pushed : Nat) : Bool :=
  match c.maxEval with | none => true | some n => decide (pushed < n)

def completedAll (c : Cfg) (acc rej : Nat) : Bool :=
  match c.maxEval with | none => false | some n => decide (n ≤ acc + rej)

/-- `best_seen_final.0.get() <= target_obj_func_val` -/
def targetHit {V} (c : Cfg) (a : Algo.St V) : Bool :=
  match c.target, Algo.best a with
  | some t, some (x, _) => F64.le (.fin x) t
  | _, _ => false

/-- what the function returns once the loop has been left -/
def outcome {V} (s : St V) : Outcome V :=
  match s.err with
  | some e => .err e
  | none => match Algo.best s.core with
    | some (x, v) => .ok x v s.accepted s.rejected
    | none => .noIndividuals

/-- leave the loop -/
def finish {V} (s : St V) (acts : List (Act V)) : St V × List (Act V) :=
  ({ s with done := true }, acts ++ [.ret (outcome s) (s.inflight.map (·.1))])

/-- push one evaluation: `next_individual`, `next_seed`, `evaled_individuals.push` -/
def startOne {V} (s : St V) (ch : Algo.Choice V) : St V × Act V :=
  let (core', ind) := Algo.next s.core ch
  ({ s with core := core', pushed := s.pushed + 1, nextSeed := s.nextSeed + 1,
            inflight := s.inflight ++ [(s.nextSeed, ind)] },
   .start s.nextSeed ind.id ind.v)

/-- the loop iterates again: with nothing in flight `try_next` yields `Ok(None)` and the loop is left -/
def again {V} (s : St V) (acts : List (Act V)) : St V × List (Act V) :=
  if s.inflight.isEmpty then finish s acts else (s, acts)

def lookupSeed {V} (seed : Nat) : List (Nat × Algo.Ind V) → Option (Algo.Ind V)
  | [] => none
  | (k, i) :: r => if k == seed then some i else lookupSeed seed r

def eraseSeed {V} (seed : Nat) : List (Nat × Algo.Ind V) → List (Nat × Algo.Ind V)
  | [] => []
  | (k, i) :: r => if k == seed then r else (k, i) :: eraseSeed seed r

/-- the tail of the `Ok(Some(evaled_individual))` branch after counting and `process_individual_eval` -/
def afterResult {V} (c : Cfg) (s : St V) (ch : Algo.Choice V) (acts : List (Act V)) : St V × List (Act V) :=
  if targetHit c s.core then finish s acts
  else if completedAll c s.accepted s.rejected then finish s acts
  else if budgetLeft c s.pushed && !s.aborted then
    let (s', a) := startOne s ch
    (s', acts ++ [a])
  else again s acts

/-- the `in_abort_signal_recv` branch -/
def onAbort {V} (s : St V) : St V × List (Act V) :=
  if s.aborted then (s, []) else ({ s with aborted := true }, [.broadcastAbort])

/-- the `Err(error)` branch; `s1` already has the failed future removed -/
def onFail {V} (s1 : St V) (e : Nat) : St V × List (Act V) :=
  if s1.aborted then again s1 []
  else again { s1 with aborted := true, err := some e } [.broadcastAbort]

/-- counting and `process_individual_eval` of the `Ok(Some(evaled_individual))` branch -/
def resultState {V} (s : St V) (seed : Nat) (ind : Algo.Ind V) (r : Option (Int × Int)) : St V :=
  { s with inflight := eraseSeed seed s.inflight,
           accepted := if r.isSome then s.accepted + 1 else s.accepted,
           rejected := if r.isSome then s.rejected else s.rejected + 1,
           core := Algo.proc s.core ind r }

/-- the `Ok(Some(evaled_individual))` branch -/
def onResult {V} (c : Cfg) (s : St V) (seed : Nat) (ind : Algo.Ind V) (r : Option (Int × Int))
    (ch : Algo.Choice V) : St V × List (Act V) :=
  afterResult c (resultState s seed ind r) ch [.item ind.id seed (r.map (·.1))]

/-- the failed future is removed from `evaled_individuals` -/
def failState {V} (s : St V) (seed : Nat) : St V :=
  { s with inflight := eraseSeed seed s.inflight, failed := s.failed + 1 }

def step {V} (c : Cfg) (s : St V) : Ev V → St V × List (Act V)
  | .abortReq => if s.done then (s, []) else onAbort s
  | .complete seed r ch =>
    if s.done then (s, []) else
    match lookupSeed seed s.inflight with
    | none => (s, [])
    | some ind =>
      match r with
      | .fail e => onFail (failState s seed) e
      | .acc x m => onResult c s seed ind (some (x, m)) ch
      | .rej => onResult c s seed ind none ch

/-- start the initial `min(num_concurrent, max_num_eval)` evaluations; `chs i` are the random decisions for the
    `i`-th of them -/
def startMany {V} (chs : Nat → Algo.Choice V) : Nat → Nat → St V → List (Act V) → St V × List (Act V)
  | 0, _, s, acts => (s, acts)
  | n+1, i, s, acts => let (s', a) := startOne s (chs i); startMany chs n (i+1) s' (acts ++ [a])

def initialCount (c : Cfg) : Nat :=
  match c.maxEval with | none => c.nc | some n => Nat.min c.nc n

/-- everything before the loop.  `initV` is the validated initial value (`none`: the explicit guess was rejected,
    nothing is started). -/
def init {V} (c : Cfg) (sampleSize : Nat) (initV : Option V) (dflt : V) (chs : Nat → Algo.Choice V) :
    St V × List (Act V) :=
  match initV with
  | none => ({ core := Algo.new dflt sampleSize, done := true }, [.ret .badGuess []])
  | some v0 =>
    let s0 : St V := { core := Algo.new v0 sampleSize }
    let (s1, acts) := startMany chs (initialCount c) 0 s0 []
    again s1 acts

/-- run a whole schedule, collecting all actions -/
def runFrom {V} (c : Cfg) : St V → List (Act V) → List (Ev V) → St V × List (Act V)
  | s, acts, [] => (s, acts)
  | s, acts, e :: es => let (s', a) := step c s e; runFrom c s' (acts ++ a) es

/-- a whole run: initialisation, then the schedule `evs` -/
def run {V} (c : Cfg) (sampleSize : Nat) (initV : Option V) (dflt : V) (chs : Nat → Algo.Choice V)
    (evs : List (Ev V)) : St V × List (Act V) :=
  runFrom c (init c sampleSize initV dflt chs).1 (init c sampleSize initV dflt chs).2 evs

end Cambrian.Ctl
