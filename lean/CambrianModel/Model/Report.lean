/-
L7'.  One row of the detailed report (`detailed_report.rs::to_csv_row`) as text, and how a reader gets the fields
back although the parameter set (JSON) may itself contain the separator `;`: the first seven and the last two fields
are taken from the two ends of the row, what lies between is the JSON text.
Fields are character lists; numbers, the source name and the seed never contain `;`, compact JSON never contains a
raw line break (serde_json escapes control characters).
-/
import CambrianModel.Model.Generated
namespace Cambrian.Report

abbrev Txt := List Char

/-- `a;b;c` -/
def joinSemi : List Txt → Txt
  | [] => []
  | [x] => x
  | x :: y :: r => x ++ ';' :: joinSemi (y :: r)

/-- split at every `;` (always at least one piece) -/
def splitSemi : Txt → List Txt
  | [] => [[]]
  | c :: r =>
    match splitSemi r with
    | [] => [[c]]                       -- unreachable
    | p :: ps => if c == ';' then [] :: p :: ps else (c :: p) :: ps

structure Row where
  id : Txt
  evalTime : Txt
  source : Txt
  crossoverProb : Txt
  selectionPressure : Txt
  mutationProb : Txt
  mutationScale : Txt
  inputVal : Txt          -- compact JSON of the parameter set: may contain `;`
  seed : Txt
  objFuncVal : Txt        -- empty: rejected
  deriving DecidableEq, Repr

/-- the fields in the order of the `format!` call of `to_csv_row` (the order is extracted from the source:
    `Generated.csvFieldOrder`) -/
def Row.fields (r : Row) : List Txt :=
  [r.id, r.evalTime, r.source, r.crossoverProb, r.selectionPressure, r.mutationProb, r.mutationScale, r.inputVal, r.seed,
   r.objFuncVal]

/-- `to_csv_row` without the final line break -/
def format (r : Row) : Txt := joinSemi r.fields

/-- reading a row back: seven fields from the left, two from the right, the JSON in between -/
def parse (t : Txt) : Option Row :=
  let ps := splitSemi t
  if ps.length < 10 then none else
  match ps.take 7, (ps.drop 7).reverse with
  | [a, b, c, d, e, f, g], obj :: sd :: midRev =>
      some { id := a, evalTime := b, source := c, crossoverProb := d, selectionPressure := e, mutationProb := f,
             mutationScale := g, inputVal := joinSemi midRev.reverse, seed := sd, objFuncVal := obj }
  | _, _ => none

/-- no separator inside the plain fields -/
def Row.plainOk (r : Row) : Bool :=
  [r.id, r.evalTime, r.source, r.crossoverProb, r.selectionPressure, r.mutationProb, r.mutationScale, r.seed, r.objFuncVal].all
    (fun f => !f.contains ';')

end Cambrian.Report
