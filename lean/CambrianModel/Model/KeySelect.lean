/-
L4b'.  `crossover.rs::select_anon_map_keys` as an ALGORITHM (code-shaped, oracle-driven), next to the relational
description `keysOk` of `Model/Crossover.lean` that the acceptor `crossAcc` uses.

`order` is the shuffled union of the parents' keys (what `all_keys.shuffle(rng)` leaves), `sel i` the index of the
parent that `selection.select_value` returns in iteration `i`.  `KeySelectLemmas.selectKeys_keysOk` proves that every
result of the algorithm satisfies `keysOk` - the acceptor is not tighter than the code it describes.
-/
import CambrianModel.Model.Crossover
namespace Cambrian

/-- the `for key in all_keys` loop; `acc` = `selected_keys` so far -/
def selLoop (minS maxS : Nat) (ps : List VNode) (sel : Nat → Nat) : List Nat → Nat → List Nat → List Nat
  | [], _, acc => acc
  | k :: r, i, acc =>
    let take := if acc.length < minS then true else (mapKeys (ps.getD (sel i) .const)).contains k
    let acc' := if take then acc ++ [k] else acc
    if acc'.length == maxS then acc' else selLoop minS maxS ps sel r (i + 1) acc'

/-- `select_anon_map_keys` -/
def selectKeys (mn mx : Option Nat) (ps : List VNode) (order : List Nat) (sel : Nat → Nat) : List Nat :=
  selLoop (mn.getD 0) (mx.getD order.length) ps sel order 0 []

end Cambrian
