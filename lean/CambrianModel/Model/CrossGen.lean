/-
L4b''.  `crossover.rs::Crossover::crossover` as an ALGORITHM: a code-shaped, oracle-driven model, next to the acceptor
`crossAcc` of `Model/Crossover.lean`.

Random decisions, indexed by the path of the node at which they are taken: the `Bernoulli(crossover_prob)` outcome
(`decide`), the index of the parent that rank selection returns (`sel p k`: the k-th selection at that node - one for a
clone / variant name / presence, one per considered key in `select_anon_map_keys`), and the shuffle of the key union.
`CrossGenLemmas.crossGen_crossAcc` proves that every result of the algorithm is accepted by `crossAcc`.
-/
import CambrianModel.Model.Crossover
import CambrianModel.Model.KeySelect
import CambrianModel.Model.MutGen
namespace Cambrian

structure CrossOracle where
  decide : Path → Bool
  sel : Path → Nat → Nat
  shuffle : Path → List Nat → List Nat

/-- `selection.select_ref(parents, pressure)`: the parent with the drawn index -/
def selectD (ps : List VNode) (i : Nat) : VNode := ps.getD (i % ps.length) .const

def mkVList (f : Nat → VNode) : Nat → Nat → VList
  | 0, _ => .nil
  | n+1, i => .cons (f i) (mkVList f n (i + 1))

mutual
/-- `do_crossover` -/
def crossGen (o : CrossOracle) : SNode → Path → List VNode → VNode
  | .const, _, _ => .const
  | s, p, ps =>
    match ps with
    | [] => .const                       -- never called with no parent
    | [x] => x
    | _ =>
      if isLeaf s || !(o.decide p) then selectD ps (o.sel p 0)
      else
        match s with
        | .sub sf => .sub (crossGenFields o sf p ps)
        | .array e n => .array (mkVList (fun i => crossGen o e (toString i :: p) (ps.filterMap (arrChild i))) n 0)
        | .amap e _ mn mx =>
            let keys := selectKeys mn mx ps (o.shuffle p (unionKeys ps)) (fun i => o.sel p (i + 1) % ps.length)
            .amap (keys.foldl (fun m k => m.insert k (crossGen o e (toString k :: p) (ps.filterMap (mapChild k)))) .nil)
        | .variant opts _ =>
            let names := ps.filterMap varName
            let name := if names.eraseDups.length > 1 then (varName (selectD ps (o.sel p 0))).getD "" else names.headD ""
            (match crossGenOpt o opts name p (ps.filterMap (varChild name)) with
             | some v => .variant name v
             | none => selectD ps 0)
        | .opt e _ =>
            let absent := ps.map isAbsent
            let selectNone := if absent.eraseDups.length == 1 then absent.headD false else isAbsent (selectD ps (o.sel p 0))
            if selectNone then .onone else .osome (crossGen o e ("optional" :: p) (ps.filterMap optChild))
        | _ => selectD ps (o.sel p 0)     -- leaves never reach this point
/-- `crossover_sub`: every declared key -/
def crossGenFields (o : CrossOracle) : SFields → Path → List VNode → VFields
  | .nil, _, _ => .nil
  | .cons k s sr, p, ps => .cons k (crossGen o s (k :: p) (ps.filterMap (subChild k))) (crossGenFields o sr p ps)
/-- the children of the selected variant option recombined under that option's spec -/
def crossGenOpt (o : CrossOracle) : SFields → String → Path → List VNode → Option VNode
  | .nil, _, _, _ => none
  | .cons k s r, name, p, cs => if k == name then some (crossGen o s (name :: p) cs) else crossGenOpt o r name p cs
end

/-- the oracle is one the random generator can produce for crossover probability class `cp` and selection pressure
    class `sp` (at pressure 1 rank selection always returns the best-ranked parent) -/
def CrossOracle.Consistent (o : CrossOracle) (cp sp : PClass) : Prop :=
  (cp = .zero → ∀ p, o.decide p = false) ∧ (cp = .one → ∀ p, o.decide p = true) ∧ cp ≠ .invalid ∧ sp ≠ .invalid ∧
  (sp = .one → ∀ p k, o.sel p k = 0) ∧ (∀ p l, (o.shuffle p l).Perm l)

end Cambrian
