/-
Lemmas behind C10: the spec parser model accepts only well-formed parameter spaces, and every well-formed
parameter space can be written down and is read back exactly.
-/
import CambrianModel.Model.SpecParse
import CambrianModel.Lemmas.JsonLemmas
namespace Cambrian

/- what a serde_yaml tree is: the `as_i64` view of a number lies in the `i64` range -/
mutual
def yvalid : Y → Bool
  | .num _ i _ => optAll inI64 i
  | .seq l => yvalidList l
  | .map m => yvalidPairs m
  | .tagged _ v => yvalid v
  | _ => true
def yvalidList : YList → Bool
  | .nil => true | .cons y r => yvalid y && yvalidList r
def yvalidPairs : YPairs → Bool
  | .nil => true | .cons k v r => yvalid k && yvalid v && yvalidPairs r
end

/-- every type definition in scope is a well-formed parameter space -/
def EnvWF (env : Env) : Prop := ∀ n s, (n, s) ∈ env → wf s = true

/-! ### the YAML tree -/

theorem yvalid_untag : ∀ (y : Y), yvalid y = true → yvalid y.untag = true
  | .tagged _ v, h => by
      simp only [yvalid] at h
      simpa [Y.untag] using yvalid_untag v h
  | .null, h => by simpa [Y.untag] using h
  | .bool _, h => by simpa [Y.untag] using h
  | .num _ _ _, h => by simpa [Y.untag] using h
  | .str _, h => by simpa [Y.untag] using h
  | .seq _, h => by simpa [Y.untag] using h
  | .map _, h => by simpa [Y.untag] using h

theorem yvalid_get : ∀ (m : YPairs) (n : String) (v : Y), yvalidPairs m = true → m.get n = some v → yvalid v = true
  | .nil, _, _, _, h => by simp [YPairs.get] at h
  | .cons k v' r, n, v, hm, h => by
      simp only [yvalidPairs, Bool.and_eq_true] at hm
      simp only [YPairs.get] at h
      split at h
      · injection h with h; subst h; exact hm.1.2
      · exact yvalid_get r n v hm.2 h

theorem asI64_inI64 (y : Y) (i : Int) (hy : yvalid y = true) (h : y.asI64 = some i) : inI64 i = true := by
  have hu := yvalid_untag y hy
  unfold Y.asI64 at h
  split at h
  · rename_i f i' u heq
    rw [heq] at hu
    subst h
    simpa [yvalid, optAll] using hu
  · simp at h

/-! ### attribute extraction -/

theorem exAttr_some {α} (m : YPairs) (name : String) (f : Y → Option α) (b : Bool) (a : α)
    (h : exAttr m name f b = .ok (some a)) : ∃ v, m.get name = some v ∧ f v = some a := by
  unfold exAttr at h
  split at h
  · rename_i v hv
    split at h
    · rename_i a' ha
      injection h with h; injection h with h; subst h
      exact ⟨v, hv, ha⟩
    · simp at h
  · split at h <;> simp at h

theorem exReal_some (m : YPairs) (name : String) (b : Bool) (x : F64) (h : exReal m name b = .ok (some x)) :
    x.isFinite = true := by
  unfold exReal at h
  split at h
  · split at h
    · rename_i hx; injection h with h; injection h with h; subst h; exact hx
    · simp at h
  · rename_i hne
    exact absurd h (hne x)

theorem exReal_opt (m : YPairs) (name : String) (b : Bool) (o : Option F64) (h : exReal m name b = .ok o) :
    optAll F64.isFinite o = true := by
  cases o with
  | none => rfl
  | some x => exact exReal_some m name b x h

theorem exUsize_some (m : YPairs) (name : String) (b : Bool) (x : Nat) (h : exUsize m name b = .ok (some x)) :
    x ≤ usizeMax := by
  unfold exUsize at h
  split at h
  · split at h
    · rename_i hx; injection h with h; injection h with h; subst h; exact hx
    · simp at h
  · rename_i hne
    exact absurd h (hne x)

theorem exInt_some (m : YPairs) (name : String) (b : Bool) (i : Int) (hm : yvalidPairs m = true)
    (h : exInt m name b = .ok (some i)) : inI64 i = true := by
  obtain ⟨v, hv, hi⟩ := exAttr_some m name Y.asI64 b i h
  exact asI64_inI64 v i (yvalid_get m name v hm hv) hi

theorem exInt_opt (m : YPairs) (name : String) (b : Bool) (o : Option Int) (hm : yvalidPairs m = true)
    (h : exInt m name b = .ok o) : optAll inI64 o = true := by
  cases o with
  | none => rfl
  | some x => exact exInt_some m name b x hm h

theorem isFinite_fin (x : F64) (h : x.isFinite = true) : ∃ a, x = .fin a := by
  cases x <;> simp [F64.isFinite] at h
  exact ⟨_, rfl⟩

theorem buildReal_wf (m : YPairs) (s : SNode) (h : buildReal m = .ok s) : wf s = true := by
  unfold buildReal at h
  split at h; · simp at h
  split at h; · simp at h
  rename_i mn hmn
  split at h; · simp at h
  rename_i mx hmx
  have h1 := exReal_opt _ _ _ _ hmn
  have h2 := exReal_opt _ _ _ _ hmx
  rcases mn with _ | a <;> rcases mx with _ | b
  all_goals simp only [optAll] at h1 h2
  all_goals (try obtain ⟨a, rfl⟩ := isFinite_fin _ h1)
  all_goals (try obtain ⟨b, rfl⟩ := isFinite_fin _ h2)
  all_goals
    simp only [] at h
    split at h; · simp at h
    rename_i hb
    split at h; · simp at h
    · simp at h
    rename_i init hinit
    obtain ⟨i, rfl⟩ := isFinite_fin _ (exReal_some _ _ _ _ hinit)
    split at h; · simp at h
    rename_i hi
    split at h; · simp at h
    · simp at h
    rename_i scale hscale
    obtain ⟨sc, rfl⟩ := isFinite_fin _ (exReal_some _ _ _ _ hscale)
    split at h; · simp at h
    rename_i hsc
    injection h with h; subst h
    simp [boundsSaneF, F64.ge, F64.gt, F64.le_fin, F64.lt_fin] at hb hi hsc
    simp [wf, optAll, F64.isFinite, F64.le_fin, F64.lt_fin]
    omega

theorem buildInt_wf (m : YPairs) (s : SNode) (hm : yvalidPairs m = true) (h : buildInt m = .ok s) : wf s = true := by
  unfold buildInt at h
  split at h; · simp at h
  split at h; · simp at h
  rename_i mn hmn
  split at h; · simp at h
  rename_i mx hmx
  have h1 := exInt_opt _ _ _ _ hm hmn
  have h2 := exInt_opt _ _ _ _ hm hmx
  rcases mn with _ | a <;> rcases mx with _ | b
  all_goals
    simp only [] at h
    split at h; · simp at h
    rename_i hb
    split at h; · simp at h
    · simp at h
    rename_i init hinit
    have h3 := exInt_some _ _ _ _ hm hinit
    split at h; · simp at h
    rename_i hi
    split at h; · simp at h
    · simp at h
    rename_i scale hscale
    obtain ⟨sc, rfl⟩ := isFinite_fin _ (exReal_some _ _ _ _ hscale)
    split at h; · simp at h
    rename_i hsc
    injection h with h; subst h
    simp [boundsSaneI, F64.le_fin] at hb hi hsc
    simp only [optAll] at h1 h2
    simp [wf, h1, h2, h3, optAll, F64.isFinite, F64.lt_fin]
    omega

theorem buildBool_wf (m : YPairs) (s : SNode) (h : buildBool m = .ok s) : wf s = true := by
  unfold buildBool at h
  split at h; · simp at h
  split at h
  · simp at h
  · simp at h
  · injection h with h; subst h; rfl

theorem enumValues_length : ∀ (l : YList) (vs : List String), enumValues l = .ok vs → vs.length = l.length
  | .nil, vs, h => by
      simp only [enumValues] at h
      injection h with h; subst h; rfl
  | .cons y r, vs, h => by
      cases y <;> simp only [enumValues] at h <;> try (simp at h; done)
      split at h
      · rename_i l hl
        injection h with h; subst h
        simp [YList.length, enumValues_length r l hl]
      · simp at h

theorem buildEnum_wf (m : YPairs) (s : SNode) (h : buildEnum m = .ok s) : wf s = true := by
  unfold buildEnum at h
  split at h; · simp at h
  split at h; · simp at h
  · simp at h
  rename_i init hinit
  split at h; · simp at h
  · rename_i l hl
    split at h; · simp at h
    rename_i hlen
    split at h; · simp at h
    rename_i vs hvs
    split at h; · simp at h
    rename_i hd
    split at h; · simp at h
    rename_i hc
    injection h with h; subst h
    have := enumValues_length l vs hvs
    simp only [wf, Bool.and_eq_true, decide_eq_true_eq]
    refine ⟨⟨by omega, by simpa using hd⟩, by simpa using hc⟩
  · simp at h

/-! ### sorted key lists and `SFields.insert` -/

theorem sortedStr_cons (a : String) : ∀ (l : List String), sortedStr (a :: l) = true ↔ ((∀ x ∈ l, a < x) ∧ sortedStr l = true)
  | [] => by simp [sortedStr]
  | b :: r => by
      have ih := sortedStr_cons b r
      simp only [sortedStr, Bool.and_eq_true, decide_eq_true_eq, List.mem_cons, forall_eq_or_imp]
      constructor
      · intro ⟨h1, h2⟩
        refine ⟨⟨h1, fun x hx => ?_⟩, h2⟩
        exact String.lt_trans h1 ((ih.1 h2).1 x hx)
      · intro ⟨⟨h1, _⟩, h3⟩
        exact ⟨h1, h3⟩

theorem SFields.mem_insert_keys (k : String) (n : SNode) : ∀ (f : SFields) (x : String),
    x ∈ (SFields.insert k n f).keys ↔ (x = k ∨ x ∈ f.keys)
  | .nil, x => by simp [SFields.insert, SFields.keys]
  | .cons k' n' r, x => by
      simp only [SFields.insert]
      split
      · simp [SFields.keys]
      · split
        · rename_i h; have : k = k' := by simpa using h
          subst this; simp [SFields.keys]
        · simp only [SFields.keys, List.mem_cons, SFields.mem_insert_keys k n r x]
          constructor <;> intro h <;> rcases h with h | h | h <;> simp [h]

theorem SFields.insert_sorted (k : String) (n : SNode) : ∀ (f : SFields), sortedStr f.keys = true →
    sortedStr (SFields.insert k n f).keys = true
  | .nil, _ => by simp [SFields.insert, SFields.keys, sortedStr]
  | .cons k' n' r, h => by
      have h' := (sortedStr_cons k' r.keys).1 (by simpa [SFields.keys] using h)
      simp only [SFields.insert]
      split
      · rename_i hlt
        simp only [SFields.keys] at h ⊢
        simp [sortedStr, hlt, h]
      · split
        · rename_i h2; have : k = k' := by simpa using h2
          subst this; simpa [SFields.keys] using h
        · rename_i h1 h2
          have hne : ¬ k = k' := by simpa using h2
          have hlt : k' < k := by
            apply Decidable.byContradiction
            intro hc
            exact hne (String.le_antisymm hc h1)
          simp only [SFields.keys]
          rw [sortedStr_cons]
          refine ⟨fun x hx => ?_, SFields.insert_sorted k n r h'.2⟩
          rcases (SFields.mem_insert_keys k n r x).1 hx with hx | hx
          · subst hx; exact hlt
          · exact h'.1 x hx

theorem SFields.insert_wf (k : String) (n : SNode) (hn : wf n = true) : ∀ (f : SFields),
    wfFields f = true → wfFields (SFields.insert k n f) = true
  | .nil, _ => by simp [SFields.insert, wfFields, hn]
  | .cons k' n' r, h => by
      simp only [wfFields, Bool.and_eq_true] at h
      simp only [SFields.insert]
      split
      · simp [wfFields, hn, h]
      · split
        · simp [wfFields, hn, h]
        · simp [wfFields, h, SFields.insert_wf k n hn r h.2]

/-- inserting a key below all keys of a sorted list conses it -/
theorem SFields.insert_lt (k : String) (n : SNode) : ∀ (f : SFields), (∀ x ∈ f.keys, k < x) → SFields.insert k n f = .cons k n f
  | .nil, _ => rfl
  | .cons k' n' r, h => by
      have : k < k' := h k' (by simp [SFields.keys])
      simp [SFields.insert, this]

theorem Env.find_mem : ∀ (env : Env) (n : String) (s : SNode), Env.find env n = some s → ∃ k, (k, s) ∈ env
  | [], _, _, h => by simp [Env.find] at h
  | (k, s') :: r, n, s, h => by
      simp only [Env.find] at h
      split at h
      · injection h with h; subst h; exact ⟨k, by simp⟩
      · obtain ⟨k', hk'⟩ := Env.find_mem r n s h
        exact ⟨k', by simp [hk']⟩

/-! ### whatever `build` accepts is well-formed -/

mutual
/-- whatever `build` accepts is well-formed (given well-formed definitions in scope) -/
theorem build_wf (env : Env) (y : Y) (s : SNode) (henv : EnvWF env) (hy : yvalid y = true)
    (h : build env y = .ok s) : wf s = true := by
  cases y with
  | map m => ?_
  | _ => simp [build] at h
  simp only [build] at h
  simp only [yvalid] at hy
  split at h; · simp at h
  rename_i t ht
  generalize t.getD "sub" = tn at h
  by_cases hc : (tn == "real") = true
  · rw [if_pos hc] at h; exact buildReal_wf m s h
  rw [if_neg hc] at h; clear hc
  by_cases hc : (tn == "int") = true
  · rw [if_pos hc] at h; exact buildInt_wf m s hy h
  rw [if_neg hc] at h; clear hc
  by_cases hc : (tn == "bool") = true
  · rw [if_pos hc] at h; exact buildBool_wf m s h
  rw [if_neg hc] at h; clear hc
  by_cases hc : (tn == "sub") = true
  · rw [if_pos hc] at h
    -- sub
    split at h; · simp at h
    rename_i env' henv'
    split at h; · simp at h
    rename_i f hf
    split at h; · simp at h
    rename_i hlen
    injection h with h; subst h
    have he' := subDefs_wf env m env' henv hy henv'
    obtain ⟨h1, h2⟩ := subMembers_wf env' m f he' hy hf
    have : f.length ≠ 0 := by simpa using hlen
    simp only [wf, Bool.and_eq_true, decide_eq_true_eq]
    exact ⟨⟨by omega, h2⟩, h1⟩
  rw [if_neg hc] at h; clear hc
  by_cases hc : (tn == "array") = true
  · rw [if_pos hc] at h
    -- array
    split at h; · simp at h
    split at h; · simp at h
    · simp at h
    rename_i e he
    split at h; · simp at h
    · simp at h
    rename_i n hn
    split at h; · simp at h
    rename_i hn2
    injection h with h; subst h
    have := exUsize_some _ _ _ _ hn
    simp only [wf, Bool.and_eq_true, decide_eq_true_eq]
    exact ⟨⟨by omega, this⟩, valueTypeOf_wf env m e henv hy he⟩
  rw [if_neg hc] at h; clear hc
  by_cases hc : (tn == "anon map") = true
  · rw [if_pos hc] at h
    -- anon map
    split at h; · simp at h
    split at h; · simp at h
    · simp at h
    rename_i e he
    split at h; · simp at h
    rename_i mn hmn
    split at h; · simp at h
    rename_i mx hmx
    have hwe := valueTypeOf_wf env m e henv hy he
    rcases mn with _ | a <;> rcases mx with _ | b
    all_goals
      simp only [] at h
      split at h; · simp at h
      rename_i hb
      split at h; · simp at h
      rename_i hz
      split at h; · simp at h
      · simp at h
      rename_i n hn
      split at h; · simp at h
      rename_i hi
      injection h with h; subst h
      have h3 := exUsize_some _ _ _ _ hn
      try have h4 := exUsize_some _ _ _ _ hmx
      simp [boundsSaneN] at hb hz hi
      simp [wf, sizeOk, optAll, hwe, h3]
      try omega
  rw [if_neg hc] at h; clear hc
  by_cases hc : (tn == "variant") = true
  · rw [if_pos hc] at h
    -- variant
    split at h; · simp at h
    · simp at h
    rename_i init hinit
    split at h; · simp at h
    rename_i o ho
    split at h; · simp at h
    rename_i hlen
    split at h; · simp at h
    rename_i hc
    injection h with h; subst h
    obtain ⟨h1, h2⟩ := variantOpts_wf env m o henv hy ho
    simp only [wf, Bool.and_eq_true, decide_eq_true_eq]
    exact ⟨⟨⟨by omega, h2⟩, by simpa using hc⟩, h1⟩
  rw [if_neg hc] at h; clear hc
  by_cases hc : (tn == "enum") = true
  · rw [if_pos hc] at h; exact buildEnum_wf m s h
  rw [if_neg hc] at h; clear hc
  by_cases hc : (tn == "optional") = true
  · rw [if_pos hc] at h
    -- optional
    split at h; · simp at h
    split at h; · simp at h
    · simp at h
    rename_i e he
    split at h; · simp at h
    · simp at h
    injection h with h; subst h
    simp only [wf]
    exact valueTypeOf_wf env m e henv hy he
  rw [if_neg hc] at h; clear hc
  by_cases hc : (tn == "const") = true
  · rw [if_pos hc] at h
    -- const
    split at h; · simp at h
    injection h with h; subst h; rfl
  · rw [if_neg hc] at h; clear hc
    -- a type reference
    split at h
    · rename_i n hn
      split at h; · simp at h
      injection h with h; subst h
      obtain ⟨k, hk⟩ := Env.find_mem env _ _ hn
      exact henv k _ hk
    · simp at h
termination_by sizeOf y
theorem subDefs_wf (env : Env) (m : YPairs) (env' : Env) (henv : EnvWF env) (hm : yvalidPairs m = true)
    (h : subDefs env m = .ok env') : EnvWF env' := by
  cases m with
  | nil => simp only [subDefs] at h; injection h with h; subst h; exact henv
  | cons k v r =>
    simp only [yvalidPairs, Bool.and_eq_true] at hm
    simp only [subDefs] at h
    split at h; · simp at h
    split at h
    · split at h; · simp at h
      split at h; · simp at h
      rename_i n hn
      refine subDefs_wf _ r env' ?_ hm.2 h
      intro k' s' hmem
      rcases List.mem_cons.1 hmem with heq | hmem
      · injection heq with _ h2; subst h2
        exact build_wf env v _ henv hm.1.2 hn
      · exact henv k' s' hmem
    · exact subDefs_wf env r env' henv hm.2 h
termination_by sizeOf m
theorem subMembers_wf (env : Env) (m : YPairs) (f : SFields) (henv : EnvWF env) (hm : yvalidPairs m = true)
    (h : subMembers env m = .ok f) : wfFields f = true ∧ sortedStr f.keys = true := by
  cases m with
  | nil => simp only [subMembers] at h; injection h with h; subst h; simp [wfFields, SFields.keys, sortedStr]
  | cons k v r =>
    simp only [yvalidPairs, Bool.and_eq_true] at hm
    simp only [subMembers] at h
    split at h; · exact subMembers_wf env r f henv hm.2 h
    split at h
    · split at h; · simp at h
      rename_i n hn
      split at h; · simp at h
      rename_i f' hf'
      injection h with h; subst h
      obtain ⟨h1, h2⟩ := subMembers_wf env r f' henv hm.2 hf'
      exact ⟨SFields.insert_wf _ n (build_wf env v n henv hm.1.2 hn) f' h1, SFields.insert_sorted _ n f' h2⟩
    · exact subMembers_wf env r f henv hm.2 h
termination_by sizeOf m
theorem variantOpts_wf (env : Env) (m : YPairs) (f : SFields) (henv : EnvWF env) (hm : yvalidPairs m = true)
    (h : variantOpts env m = .ok f) : wfFields f = true ∧ sortedStr f.keys = true := by
  cases m with
  | nil => simp only [variantOpts] at h; injection h with h; subst h; simp [wfFields, SFields.keys, sortedStr]
  | cons k v r =>
    simp only [yvalidPairs, Bool.and_eq_true] at hm
    simp only [variantOpts] at h
    split at h; · simp at h
    split at h
    · split at h; · simp at h
      rename_i n hn
      split at h; · simp at h
      rename_i f' hf'
      injection h with h; subst h
      obtain ⟨h1, h2⟩ := variantOpts_wf env r f' henv hm.2 hf'
      exact ⟨SFields.insert_wf _ n (build_wf env v n henv hm.1.2 hn) f' h1, SFields.insert_sorted _ n f' h2⟩
    · exact variantOpts_wf env r f henv hm.2 h
termination_by sizeOf m
theorem valueTypeOf_wf (env : Env) (m : YPairs) (e : SNode) (henv : EnvWF env) (hm : yvalidPairs m = true)
    (h : valueTypeOf env m = .ok (some e)) : wf e = true := by
  cases m with
  | nil => simp [valueTypeOf] at h
  | cons k v r =>
    simp only [yvalidPairs, Bool.and_eq_true] at hm
    simp only [valueTypeOf] at h
    split at h
    · split at h; · simp at h
      rename_i n hn
      injection h with h; injection h with h; subst h
      exact build_wf env v n henv hm.1.2 hn
    · exact valueTypeOf_wf env r e henv hm.2 h
termination_by sizeOf m
end

/-- an accepted document denotes a well-formed parameter space -/
theorem parseSpec_wf (y : Y) (s : SNode) (hy : yvalid y = true) (h : parseSpec y = .ok s) : wf s = true :=
  build_wf [] y s (by intro n s hm; cases hm) hy h

/-! ### writing a parameter space down -/

/-- a number attribute as serde_yaml presents it: a float has no integer views; an integer has its `f64` view
    (`cast`, an observed function), its `i64` view and, when non-negative, its `u64` view -/
def yFloat (x : F64) : Y := .num x none none
def yInt (cast : Int → F64) (i : Int) : Y := .num (cast i) (some i) (if 0 ≤ i then some i.toNat else none)
def yNat (cast : Int → F64) (n : Nat) : Y := .num (cast n) (some n) (some n)

def optPair (k : String) (v : Option Y) (r : YPairs) : YPairs :=
  match v with | some y => .cons (.str k) y r | none => r

def strSeq : List String → YList
  | [] => .nil
  | s :: r => .cons (.str s) (strSeq r)

/- the canonical document of a spec: no type definitions, members in key order -/
mutual
def render (cast : Int → F64) : SNode → Y
  | .real init scale mn mx =>
      .map (.cons (.str "type") (.str "real") (.cons (.str "init") (yFloat init) (.cons (.str "scale") (yFloat scale)
        (optPair "min" (mn.map yFloat) (optPair "max" (mx.map yFloat) .nil)))))
  | .int init scale mn mx =>
      .map (.cons (.str "type") (.str "int") (.cons (.str "init") (yInt cast init) (.cons (.str "scale") (yFloat scale)
        (optPair "min" (mn.map (yInt cast)) (optPair "max" (mx.map (yInt cast)) .nil)))))
  | .bool b => .map (.cons (.str "type") (.str "bool") (.cons (.str "init") (.bool b) .nil))
  | .sub f => .map (.cons (.str "type") (.str "sub") (renderFields cast f))
  | .array e n =>
      .map (.cons (.str "type") (.str "array") (.cons (.str "size") (yNat cast n) (.cons (.str "valueType") (render cast e) .nil)))
  | .amap e init mn mx =>
      .map (.cons (.str "type") (.str "anon map") (.cons (.str "initSize") (yNat cast init)
        (optPair "minSize" (mn.map (yNat cast)) (optPair "maxSize" (mx.map (yNat cast))
          (.cons (.str "valueType") (render cast e) .nil)))))
  | .variant o init => .map (.cons (.str "type") (.str "variant") (.cons (.str "init") (.str init) (renderFields cast o)))
  | .enum vs init =>
      .map (.cons (.str "type") (.str "enum") (.cons (.str "init") (.str init) (.cons (.str "values") (.seq (strSeq vs)) .nil)))
  | .opt e p =>
      .map (.cons (.str "type") (.str "optional") (.cons (.str "initPresent") (.bool p) (.cons (.str "valueType") (render cast e) .nil)))
  | .const => .map (.cons (.str "type") (.str "const") .nil)
def renderFields (cast : Int → F64) : SFields → YPairs
  | .nil => .nil
  | .cons k n r => .cons (.str k) (render cast n) (renderFields cast r)
end

/- member / option names that can be written as plain keys: a member is not called `type` and does not look like
   a type definition; an option is not called `type` or `init` -/
mutual
def keysWritable : SNode → Bool
  | .sub f => f.keys.all (fun k => k != "type" && !k.startsWith Generated.typeDefPrefixDefs &&
                                   !k.startsWith Generated.typeDefPrefixMembers) && keysWritableFields f
  | .variant o _ => o.keys.all (fun k => k != "type" && k != "init") && keysWritableFields o
  | .array e _ => keysWritable e
  | .amap e _ _ _ => keysWritable e
  | .opt e _ => keysWritable e
  | _ => true
def keysWritableFields : SFields → Bool
  | .nil => true | .cons _ n r => keysWritable n && keysWritableFields r
end

/-! ### reading the canonical document back -/

@[simp] theorem YPairs.get_cons_str (k : String) (v : Y) (r : YPairs) (n : String) :
    (YPairs.cons (.str k) v r).get n = if k = n then some v else r.get n := by
  simp [YPairs.get]
@[simp] theorem YPairs.get_nil (n : String) : YPairs.nil.get n = none := rfl

@[simp] theorem asF64_yFloat (x : F64) : (yFloat x).asF64 = some x := rfl
@[simp] theorem asF64_yInt (cast i) : (yInt cast i).asF64 = some (cast i) := rfl
@[simp] theorem asI64_yInt (cast i) : (yInt cast i).asI64 = some i := rfl
@[simp] theorem asU64_yNat (cast n) : (yNat cast n).asU64 = some n := rfl
@[simp] theorem asStr_str (s : String) : (Y.str s).asStr = some s := rfl
@[simp] theorem asBool_bool (b : Bool) : (Y.bool b).asBool = some b := rfl

theorem build_render_real (cast : Int → F64) (env : Env) (init scale mn mx)
    (hs : wf (.real init scale mn mx) = true) :
    build env (render cast (.real init scale mn mx)) = .ok (.real init scale mn mx) := by
  simp only [wf, Bool.and_eq_true] at hs
  obtain ⟨⟨⟨⟨⟨⟨⟨h1, h2⟩, h3⟩, h4⟩, h5⟩, h6⟩, h7⟩, h8⟩ := hs
  obtain ⟨i, rfl⟩ := isFinite_fin _ h1
  obtain ⟨sc, rfl⟩ := isFinite_fin _ h2
  rcases mn with _ | a <;> rcases mx with _ | b
  all_goals simp only [optAll] at h4 h5
  all_goals (try obtain ⟨a, rfl⟩ := isFinite_fin _ h4)
  all_goals (try obtain ⟨b, rfl⟩ := isFinite_fin _ h5)
  all_goals
    simp [optAll, F64.le_fin, F64.lt_fin] at h3 h6 h7 h8
    simp [render, build, exStr, exAttr, optPair, buildReal, exReal, checkUnexpected, Generated.realAttrs,
      F64.isFinite, boundsSaneF, F64.ge, F64.gt, F64.le_fin, F64.lt_fin]
  all_goals (repeat' split)
  all_goals first | rfl | omega

theorem build_render_int (cast : Int → F64) (env : Env) (init scale mn mx)
    (hs : wf (.int init scale mn mx) = true) :
    build env (render cast (.int init scale mn mx)) = .ok (.int init scale mn mx) := by
  simp only [wf, Bool.and_eq_true] at hs
  obtain ⟨⟨⟨⟨⟨⟨⟨h1, h2⟩, h3⟩, h4⟩, h5⟩, h6⟩, h7⟩, h8⟩ := hs
  obtain ⟨sc, rfl⟩ := isFinite_fin _ h4
  rcases mn with _ | a <;> rcases mx with _ | b
  all_goals
    simp [optAll, F64.lt_fin] at h5 h6 h7 h8
    simp [render, build, exStr, exAttr, optPair, buildInt, exInt, exReal, checkUnexpected, Generated.intAttrs,
      F64.isFinite, boundsSaneI, F64.le_fin]
  all_goals (repeat' split)
  all_goals first | rfl | omega

theorem build_render_bool (cast : Int → F64) (env : Env) (b : Bool) :
    build env (render cast (.bool b)) = .ok (.bool b) := by
  simp [render, build, exStr, exAttr, buildBool, exBool, checkUnexpected, Generated.boolAttrs]

theorem build_render_const (cast : Int → F64) (env : Env) :
    build env (render cast .const) = .ok .const := by
  simp [render, build, exStr, exAttr, checkUnexpected, Generated.constAttrs]

theorem enumValues_strSeq : ∀ (vs : List String), enumValues (strSeq vs) = .ok vs
  | [] => rfl
  | s :: r => by simp [strSeq, enumValues, enumValues_strSeq r]

theorem strSeq_length : ∀ (vs : List String), (strSeq vs).length = vs.length
  | [] => rfl
  | s :: r => by simp [strSeq, YList.length, strSeq_length r]

theorem build_render_enum (cast : Int → F64) (env : Env) (vs init)
    (hs : wf (.enum vs init) = true) :
    build env (render cast (.enum vs init)) = .ok (.enum vs init) := by
  simp only [wf, Bool.and_eq_true, decide_eq_true_eq] at hs
  obtain ⟨⟨h1, h2⟩, h3⟩ := hs
  have : ¬ vs.length < 2 := by omega
  simp [render, build, exStr, exAttr, buildEnum, checkUnexpected, Generated.enumAttrs, enumValues_strSeq,
    strSeq_length, this, h2]
  simpa using h3

theorem build_render_array (cast : Int → F64) (env : Env) (e : SNode) (n : Nat)
    (hs : wf (.array e n) = true) (ih : build env (render cast e) = .ok e) :
    build env (render cast (.array e n)) = .ok (.array e n) := by
  simp only [wf, Bool.and_eq_true, decide_eq_true_eq] at hs
  obtain ⟨⟨h1, h2⟩, _⟩ := hs
  have : ¬ n < 2 := by omega
  simp [render, build, exStr, exAttr, checkUnexpected, Generated.arrayAttrs, valueTypeOf, ih, exUsize, h2, this]

theorem build_render_opt (cast : Int → F64) (env : Env) (e : SNode) (p : Bool)
    (ih : build env (render cast e) = .ok e) :
    build env (render cast (.opt e p)) = .ok (.opt e p) := by
  simp [render, build, exStr, exAttr, checkUnexpected, Generated.optionalAttrs, valueTypeOf, ih, exBool]

theorem build_render_amap (cast : Int → F64) (env : Env) (e : SNode) (n : Nat) (mn mx : Option Nat)
    (hs : wf (.amap e n mn mx) = true) (ih : build env (render cast e) = .ok e) :
    build env (render cast (.amap e n mn mx)) = .ok (.amap e n mn mx) := by
  simp only [wf, Bool.and_eq_true, decide_eq_true_eq] at hs
  obtain ⟨⟨⟨⟨⟨h1, h2⟩, h3⟩, h4⟩, h5⟩, _⟩ := hs
  rcases mn with _ | a <;> rcases mx with _ | b
  all_goals
    simp [sizeOk, optAll] at h1 h2 h3 h5
  · simp [render, build, exStr, exAttr, checkUnexpected, Generated.anonMapAttrs, valueTypeOf, ih, exUsize, optPair,
      boundsSaneN, h4]
  · have e1 : ¬ n > b := by omega
    simp [render, build, exStr, exAttr, checkUnexpected, Generated.anonMapAttrs, valueTypeOf, ih, exUsize, optPair,
      boundsSaneN, h4, h5, h2, e1]
  · have e1 : ¬ n < a := by omega
    have e2 : a ≤ usizeMax := by omega
    simp [render, build, exStr, exAttr, checkUnexpected, Generated.anonMapAttrs, valueTypeOf, ih, exUsize, optPair,
      boundsSaneN, h4, e1, e2]
  · have e1 : ¬ n < a := by omega
    have e2 : a ≤ usizeMax := by omega
    have e3 : ¬ n > b := by omega
    have e4 : ¬ a ≥ b := by omega
    simp [render, build, exStr, exAttr, checkUnexpected, Generated.anonMapAttrs, valueTypeOf, ih, exUsize, optPair,
      boundsSaneN, h4, h5, h2, e1, e2, e3, e4]

theorem subDefs_renderFields (cast : Int → F64) (env : Env) : ∀ (f : SFields),
    (∀ k ∈ f.keys, k.startsWith Generated.typeDefPrefixDefs = false) → subDefs env (renderFields cast f) = .ok env
  | .nil, _ => by simp [renderFields, subDefs]
  | .cons k n r, h => by
      have h1 := h k (by simp [SFields.keys])
      have h2 := subDefs_renderFields cast env r (fun x hx => h x (by simp [SFields.keys, hx]))
      simp [renderFields, subDefs, h1, h2]

theorem SFields.length_eq_keys : ∀ (f : SFields), f.length = f.keys.length
  | .nil => rfl
  | .cons _ _ r => by simp [SFields.length, SFields.keys, SFields.length_eq_keys r]

theorem build_render_sub (cast : Int → F64) (env : Env) (f : SFields)
    (hs : wf (.sub f) = true)
    (hk : ∀ k ∈ f.keys, k.startsWith Generated.typeDefPrefixDefs = false)
    (ih : subMembers env (renderFields cast f) = .ok f) :
    build env (render cast (.sub f)) = .ok (.sub f) := by
  simp only [wf, Bool.and_eq_true, decide_eq_true_eq] at hs
  have hlen : f.length ≠ 0 := by omega
  have hp : "type".startsWith Generated.typeDefPrefixDefs = false := by decide
  simp [render, build, exStr, exAttr, subDefs, subMembers, hp, subDefs_renderFields cast env f hk, ih, hlen]

theorem build_render_variant (cast : Int → F64) (env : Env) (o : SFields) (init : String)
    (hs : wf (.variant o init) = true)
    (ih : variantOpts env (renderFields cast o) = .ok o) :
    build env (render cast (.variant o init)) = .ok (.variant o init) := by
  simp only [wf, Bool.and_eq_true, decide_eq_true_eq] at hs
  obtain ⟨⟨⟨h1, h2⟩, h3⟩, h4⟩ := hs
  have hlen : ¬ o.length < 2 := by omega
  simp [render, build, exStr, exAttr, variantOpts, ih, hlen]
  simpa using h3

mutual
/-- every well-formed parameter space (with writable names) can be written down and is read back exactly, in any
    scope of type definitions -/
theorem build_render (cast : Int → F64) (hcast : ∀ i, (cast i).isFinite = true) (env : Env) (s : SNode)
    (hs : wf s = true) (hk : keysWritable s = true) : build env (render cast s) = .ok s := by
  cases s with
  | real init scale mn mx => exact build_render_real cast env init scale mn mx hs
  | int init scale mn mx => exact build_render_int cast env init scale mn mx hs
  | bool b => exact build_render_bool cast env b
  | const => exact build_render_const cast env
  | «enum» vs init => exact build_render_enum cast env vs init hs
  | array e n =>
      have hs' := hs
      simp only [wf, Bool.and_eq_true] at hs'
      simp only [keysWritable] at hk
      exact build_render_array cast env e n hs (build_render cast hcast env e hs'.2 hk)
  | opt e p =>
      have hs' := hs
      simp only [wf] at hs'
      simp only [keysWritable] at hk
      exact build_render_opt cast env e p (build_render cast hcast env e hs' hk)
  | amap e n mn mx =>
      have hs' := hs
      simp only [wf, Bool.and_eq_true] at hs'
      simp only [keysWritable] at hk
      exact build_render_amap cast env e n mn mx hs (build_render cast hcast env e hs'.2 hk)
  | sub f =>
      have hs' := hs
      simp only [wf, Bool.and_eq_true] at hs'
      simp only [keysWritable, Bool.and_eq_true, List.all_eq_true, Bool.not_eq_true', bne_iff_ne, ne_eq] at hk
      refine build_render_sub cast env f hs (fun k hkm => (hk.1 k hkm).1.2) ?_
      exact subMembers_render cast hcast env f hs'.2 hs'.1.2
        (fun k hkm => by simp [(hk.1 k hkm).1.1, (hk.1 k hkm).2]) hk.2
  | variant o init =>
      have hs' := hs
      simp only [wf, Bool.and_eq_true] at hs'
      simp only [keysWritable, Bool.and_eq_true, List.all_eq_true, bne_iff_ne, ne_eq] at hk
      refine build_render_variant cast env o init hs ?_
      exact variantOpts_render cast hcast env o hs'.2 hs'.1.1.2
        (fun k hkm => by simp [(hk.1 k hkm).1, (hk.1 k hkm).2]) hk.2
termination_by sizeOf s
theorem subMembers_render (cast : Int → F64) (hcast : ∀ i, (cast i).isFinite = true) (env : Env) (f : SFields)
    (hw : wfFields f = true) (hsort : sortedStr f.keys = true)
    (hkeys : ∀ k ∈ f.keys, (k != "type" && !k.startsWith Generated.typeDefPrefixMembers) = true)
    (hk : keysWritableFields f = true) : subMembers env (renderFields cast f) = .ok f := by
  cases f with
  | nil => simp [renderFields, subMembers]
  | cons k n r =>
    simp only [wfFields, Bool.and_eq_true] at hw
    simp only [keysWritableFields, Bool.and_eq_true] at hk
    have hs' := (sortedStr_cons k r.keys).1 (by simpa [SFields.keys] using hsort)
    have h1 := build_render cast hcast env n hw.1 hk.1
    have h2 := subMembers_render cast hcast env r hw.2 hs'.2 (fun x hx => hkeys x (by simp [SFields.keys, hx])) hk.2
    have h3 := hkeys k (by simp [SFields.keys])
    simp only [renderFields, subMembers, asStr_str, h3, if_true, h1, h2, SFields.insert_lt k n r hs'.1]
termination_by sizeOf f
theorem variantOpts_render (cast : Int → F64) (hcast : ∀ i, (cast i).isFinite = true) (env : Env) (f : SFields)
    (hw : wfFields f = true) (hsort : sortedStr f.keys = true)
    (hkeys : ∀ k ∈ f.keys, (k != "type" && k != "init") = true)
    (hk : keysWritableFields f = true) : variantOpts env (renderFields cast f) = .ok f := by
  cases f with
  | nil => simp [renderFields, variantOpts]
  | cons k n r =>
    simp only [wfFields, Bool.and_eq_true] at hw
    simp only [keysWritableFields, Bool.and_eq_true] at hk
    have hs' := (sortedStr_cons k r.keys).1 (by simpa [SFields.keys] using hsort)
    have h1 := build_render cast hcast env n hw.1 hk.1
    have h2 := variantOpts_render cast hcast env r hw.2 hs'.2 (fun x hx => hkeys x (by simp [SFields.keys, hx])) hk.2
    have h3 := hkeys k (by simp [SFields.keys])
    simp only [renderFields, variantOpts, asStr_str, h3, if_true, h1, h2, SFields.insert_lt k n r hs'.1]
termination_by sizeOf f
end

end Cambrian
