/-
Lemmas behind C10: the spec parser model accepts only well-formed parameter spaces, and every well-formed
parameter space can be written down and is read back exactly.
-/
import CambrianModel.Model.SpecParse
import CambrianModel.Lemmas.JsonLemmas
namespace Cambrian

/- what a serde_yaml tree is: the `as_i64` view of a number lies in the `i64` range -/
mutual
def yvalid : Y → Bool
  | .num _ i _ => optAll inI64 i
  | .seq l => yvalidList l
  | .map m => yvalidPairs m
  | .tagged _ v => yvalid v
  | _ => true
def yvalidList : YList → Bool
  | .nil => true | .cons y r => yvalid y && yvalidList r
def yvalidPairs : YPairs → Bool
  | .nil => true | .cons k v r => yvalid k && yvalid v && yvalidPairs r
end

/-- every type definition in scope is a well-formed parameter space -/
def EnvWF (env : Env) : Prop := ∀ n s, (n, s) ∈ env → wf s = true

/-- whatever `build` accepts is well-formed (given well-formed definitions in scope) -/
theorem build_wf (env : Env) (y : Y) (s : SNode) (henv : EnvWF env) (hy : yvalid y = true)
    (h : build env y = .ok s) : wf s = true := by
  sorry

/-- an accepted document denotes a well-formed parameter space -/
theorem parseSpec_wf (y : Y) (s : SNode) (hy : yvalid y = true) (h : parseSpec y = .ok s) : wf s = true :=
  build_wf [] y s (by intro n s hm; cases hm) hy h

/-! ### writing a parameter space down -/

/-- a number attribute as serde_yaml presents it: a float has no integer views; an integer has its `f64` view
    (`cast`, an observed function), its `i64` view and, when non-negative, its `u64` view -/
def yFloat (x : F64) : Y := .num x none none
def yInt (cast : Int → F64) (i : Int) : Y := .num (cast i) (some i) (if 0 ≤ i then some i.toNat else none)
def yNat (cast : Int → F64) (n : Nat) : Y := .num (cast n) (some n) (some n)

def optPair (k : String) (v : Option Y) (r : YPairs) : YPairs :=
  match v with | some y => .cons (.str k) y r | none => r

def strSeq : List String → YList
  | [] => .nil
  | s :: r => .cons (.str s) (strSeq r)

/- the canonical document of a spec: no type definitions, members in key order -/
mutual
def render (cast : Int → F64) : SNode → Y
  | .real init scale mn mx =>
      .map (.cons (.str "type") (.str "real") (.cons (.str "init") (yFloat init) (.cons (.str "scale") (yFloat scale)
        (optPair "min" (mn.map yFloat) (optPair "max" (mx.map yFloat) .nil)))))
  | .int init scale mn mx =>
      .map (.cons (.str "type") (.str "int") (.cons (.str "init") (yInt cast init) (.cons (.str "scale") (yFloat scale)
        (optPair "min" (mn.map (yInt cast)) (optPair "max" (mx.map (yInt cast)) .nil)))))
  | .bool b => .map (.cons (.str "type") (.str "bool") (.cons (.str "init") (.bool b) .nil))
  | .sub f => .map (.cons (.str "type") (.str "sub") (renderFields cast f))
  | .array e n =>
      .map (.cons (.str "type") (.str "array") (.cons (.str "size") (yNat cast n) (.cons (.str "valueType") (render cast e) .nil)))
  | .amap e init mn mx =>
      .map (.cons (.str "type") (.str "anon map") (.cons (.str "initSize") (yNat cast init)
        (optPair "minSize" (mn.map (yNat cast)) (optPair "maxSize" (mx.map (yNat cast))
          (.cons (.str "valueType") (render cast e) .nil)))))
  | .variant o init => .map (.cons (.str "type") (.str "variant") (.cons (.str "init") (.str init) (renderFields cast o)))
  | .enum vs init =>
      .map (.cons (.str "type") (.str "enum") (.cons (.str "init") (.str init) (.cons (.str "values") (.seq (strSeq vs)) .nil)))
  | .opt e p =>
      .map (.cons (.str "type") (.str "optional") (.cons (.str "initPresent") (.bool p) (.cons (.str "valueType") (render cast e) .nil)))
  | .const => .map (.cons (.str "type") (.str "const") .nil)
def renderFields (cast : Int → F64) : SFields → YPairs
  | .nil => .nil
  | .cons k n r => .cons (.str k) (render cast n) (renderFields cast r)
end

/- member / option names that can be written as plain keys: a member is not called `type` and does not look like
   a type definition; an option is not called `type` or `init` -/
mutual
def keysWritable : SNode → Bool
  | .sub f => f.keys.all (fun k => k != "type" && !k.startsWith Generated.typeDefPrefixDefs &&
                                   !k.startsWith Generated.typeDefPrefixMembers) && keysWritableFields f
  | .variant o _ => o.keys.all (fun k => k != "type" && k != "init") && keysWritableFields o
  | .array e _ => keysWritable e
  | .amap e _ _ _ => keysWritable e
  | .opt e _ => keysWritable e
  | _ => true
def keysWritableFields : SFields → Bool
  | .nil => true | .cons _ n r => keysWritable n && keysWritableFields r
end

/-- every well-formed parameter space (with writable names) can be written down and is read back exactly, in any
    scope of type definitions -/
theorem build_render (cast : Int → F64) (hcast : ∀ i, (cast i).isFinite = true) (env : Env) (s : SNode)
    (hs : wf s = true) (hk : keysWritable s = true) : build env (render cast s) = .ok s := by
  sorry

end Cambrian
