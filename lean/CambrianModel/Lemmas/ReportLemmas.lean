/-
The detailed-report row can be read back exactly, whatever the parameter set contains.
-/
import CambrianModel.Model.Report
namespace Cambrian.Report

theorem splitSemi_ne_nil : ∀ t : Txt, splitSemi t ≠ []
  | [] => by simp [splitSemi]
  | c :: r => by
    simp only [splitSemi]
    cases h : splitSemi r with
    | nil => simp
    | cons p ps => by_cases hc : (c == ';') = true <;> simp [hc]

/-- joining the pieces gives the text back, for every text -/
theorem joinSemi_splitSemi : ∀ t : Txt, joinSemi (splitSemi t) = t
  | [] => by simp [splitSemi, joinSemi]
  | c :: r => by
    have ih := joinSemi_splitSemi r
    simp only [splitSemi]
    cases h : splitSemi r with
    | nil => exact absurd h (splitSemi_ne_nil r)
    | cons p ps =>
      rw [h] at ih
      by_cases hc : (c == ';') = true
      · have : c = ';' := by simpa using hc
        subst this
        simp only [beq_self_eq_true, if_true, joinSemi, List.nil_append]
        rw [ih]
      · simp only [hc, Bool.false_eq_true, if_false]
        cases ps with
        | nil => simp only [joinSemi] at ih ⊢; rw [ih]
        | cons q qs => simp only [joinSemi, List.cons_append] at ih ⊢; rw [ih]

/-- a piece without separator in front of a separator is split off -/
theorem splitSemi_cons_piece : ∀ (x : Txt) (rest : Txt), x.contains ';' = false →
    splitSemi (x ++ ';' :: rest) = x :: splitSemi rest
  | [], rest, _ => by
    simp only [List.nil_append, splitSemi]
    cases h : splitSemi rest with
    | nil => exact absurd h (splitSemi_ne_nil rest)
    | cons p ps => simp
  | c :: x, rest, hx => by
    have hc : (c == ';') = false := by
      simp only [List.contains_cons, Bool.or_eq_false_iff] at hx
      have := hx.1
      rw [Bool.eq_false_iff] at this ⊢
      intro h; apply this
      have : c = ';' := by simpa using h
      subst this; simp
    have hx' : x.contains ';' = false := by
      simp only [List.contains_cons, Bool.or_eq_false_iff] at hx; exact hx.2
    have ih := splitSemi_cons_piece x rest hx'
    simp only [List.cons_append, splitSemi]
    rw [ih]
    simp [hc]

/-- a last piece without separator -/
theorem splitSemi_plain : ∀ (x : Txt), x.contains ';' = false → splitSemi x = [x]
  | [], _ => by simp [splitSemi]
  | c :: x, hx => by
    have hc : (c == ';') = false := by
      simp only [List.contains_cons, Bool.or_eq_false_iff] at hx
      have := hx.1
      rw [Bool.eq_false_iff] at this ⊢
      intro h; apply this
      have : c = ';' := by simpa using h
      subst this; simp
    have hx' : x.contains ';' = false := by
      simp only [List.contains_cons, Bool.or_eq_false_iff] at hx; exact hx.2
    simp only [splitSemi, splitSemi_plain x hx', hc, Bool.false_eq_true, if_false]

/-- text ; a ; b with plain a, b: the pieces of the text, then a and b -/
theorem splitSemi_tail2 : ∀ (j a b : Txt), a.contains ';' = false → b.contains ';' = false →
    splitSemi (j ++ ';' :: (a ++ ';' :: b)) = splitSemi j ++ [a, b]
  | [], a, b, ha, hb => by
    have := splitSemi_cons_piece [] (a ++ ';' :: b) (by simp)
    simp only [List.nil_append] at this ⊢
    rw [this, splitSemi_cons_piece a b ha, splitSemi_plain b hb]
    simp [splitSemi]
  | c :: j, a, b, ha, hb => by
    have ih := splitSemi_tail2 j a b ha hb
    simp only [List.cons_append, splitSemi]
    rw [ih]
    cases h : splitSemi j with
    | nil => exact absurd h (splitSemi_ne_nil j)
    | cons p ps => by_cases hc : (c == ';') = true <;> simp [hc]

/-- Every record can be read back exactly from its row - id, seed, result, adaptive parameters and the parameter set,
    whatever characters (separators included) the parameter set contains. -/
theorem parse_format (r : Row) (h : r.plainOk = true) : parse (format r) = some r := by
  obtain ⟨a, b, c, d, e, f, g, j, sd, obj⟩ := r
  simp only [Row.plainOk, List.all_cons, List.all_nil, Bool.and_true, Bool.and_eq_true, Bool.not_eq_true'] at h
  obtain ⟨ha, hb, hc, hd, he, hf, hg, hs, ho⟩ := h
  have hsplit : splitSemi (format ⟨a, b, c, d, e, f, g, j, sd, obj⟩) = [a, b, c, d, e, f, g] ++ (splitSemi j ++ [sd, obj]) := by
    simp only [format, Row.fields, joinSemi]
    rw [splitSemi_cons_piece a _ ha, splitSemi_cons_piece b _ hb, splitSemi_cons_piece c _ hc,
        splitSemi_cons_piece d _ hd, splitSemi_cons_piece e _ he, splitSemi_cons_piece f _ hf,
        splitSemi_cons_piece g _ hg, splitSemi_tail2 j sd obj hs ho]
    rfl
  have hlen : ¬ ([a, b, c, d, e, f, g] ++ (splitSemi j ++ [sd, obj])).length < 10 := by
    have : 1 ≤ (splitSemi j).length := by
      cases h : splitSemi j with
      | nil => exact absurd h (splitSemi_ne_nil j)
      | cons p ps => simp
    simp only [List.length_append, List.length_cons, List.length_nil]; omega
  simp only [parse, hsplit, hlen, if_false]
  have ht : ([a, b, c, d, e, f, g] ++ (splitSemi j ++ [sd, obj])).take 7 = [a, b, c, d, e, f, g] := by simp
  have hd' : (([a, b, c, d, e, f, g] ++ (splitSemi j ++ [sd, obj])).drop 7).reverse = obj :: sd :: (splitSemi j).reverse := by
    simp
  rw [ht, hd']
  simp only [List.reverse_reverse, joinSemi_splitSemi]

end Cambrian.Report
