/-
Lemmas about the launch layer (L7): `compile` is a function of the SET of criteria, conflicts are exactly repeated
kinds; any number of Terminate commands yields one abort request; the report writer is drained before a result is
returned.
-/
import CambrianModel.Model.Launch
namespace Cambrian.Launch
open Cambrian

/-! ### compile -/

/-- is a criterion of kind `k` already taken by a partial result? -/
def Compiled.has (c : Compiled) : Nat → Bool
  | 0 => c.maxEval.isSome | 1 => c.target.isSome | 2 => c.after.isSome | 3 => c.onSignal | _ => false

theorem compileStep_some_iff (c : Compiled) (x : Crit) : (compileStep c x).isSome = !(c.has x.kind) := by
  cases x <;> simp only [compileStep, Compiled.has, Crit.kind] <;> split <;> simp_all [Option.isSome_iff_ne_none]

theorem compileStep_has (c c' : Compiled) (x : Crit) (h : compileStep c x = some c') (k : Nat) :
    c'.has k = (c.has k || k == x.kind) := by
  cases x <;> simp only [compileStep] at h <;> split at h <;> simp at h <;> subst h <;>
    (match k with
     | 0 | 1 | 2 | 3 => simp_all [Compiled.has, Crit.kind]
     | n+4 => simp [Compiled.has, Crit.kind])

/-- `compile` succeeds exactly when no kind of criterion is given twice -/
theorem compileFrom_isSome (c : Compiled) (cs : List Crit) :
    (compileFrom c cs).isSome = true ↔ ((cs.map Crit.kind).Nodup ∧ ∀ x ∈ cs, c.has x.kind = false) := by
  induction cs generalizing c with
  | nil => simp [compileFrom]
  | cons x xs ih =>
    simp only [compileFrom]
    cases h : compileStep c x with
    | none =>
      have := compileStep_some_iff c x
      rw [h] at this
      simp at this
      simp [this]
    | some c' =>
      have h1 := compileStep_some_iff c x
      rw [h] at h1
      simp at h1
      have h2 := compileStep_has c c' x h
      simp only [ih c', List.map_cons, List.nodup_cons, List.mem_map, List.mem_cons, forall_eq_or_imp, h2,
        Bool.or_eq_false_iff, beq_eq_false_iff_ne, ne_eq]
      constructor
      · rintro ⟨hn, hall⟩
        refine ⟨⟨?_, hn⟩, h1, fun y hy => (hall y hy).1⟩
        rintro ⟨y, hy, hk⟩
        exact (hall y hy).2 hk
      · rintro ⟨⟨hx, hn⟩, _, hall⟩
        exact ⟨hn, fun y hy => ⟨hall y hy, fun hk => hx ⟨y, hy, hk⟩⟩⟩

theorem compile_isSome (cs : List Crit) : (compile cs).isSome = true ↔ (cs.map Crit.kind).Nodup := by
  rw [compile, compileFrom_isSome]
  constructor
  · exact fun h => h.1
  · intro h; refine ⟨h, fun x _ => ?_⟩
    cases x <;> rfl

/-- what an accepted list compiles to: each component is the (only) criterion of its kind -/
theorem compileFrom_maxEval (c c' : Compiled) (cs : List Crit) (h : compileFrom c cs = some c') (n : Nat) :
    c'.maxEval = some n ↔ (c.maxEval = some n ∨ Crit.numEval n ∈ cs) := by
  induction cs generalizing c with
  | nil => simp [compileFrom] at h; subst h; simp
  | cons x xs ih =>
    simp only [compileFrom] at h
    cases hx : compileStep c x with
    | none => simp [hx] at h
    | some c1 =>
      simp only [hx] at h
      rw [ih c1 h]
      cases x <;> simp only [compileStep] at hx <;> split at hx <;> simp at hx <;> subst hx <;> simp_all
      constructor
      · rintro (h | h) <;> simp_all
      · rintro (h | h) <;> simp_all

theorem compile_maxEval (cs : List Crit) (c : Compiled) (h : compile cs = some c) (n : Nat) :
    c.maxEval = some n ↔ Crit.numEval n ∈ cs := by
  rw [compileFrom_maxEval {} c cs h n]; simp

theorem compileFrom_target (c c' : Compiled) (cs : List Crit) (h : compileFrom c cs = some c') (t : F64) :
    c'.target = some t ↔ (c.target = some t ∨ Crit.target t ∈ cs) := by
  induction cs generalizing c with
  | nil => simp [compileFrom] at h; subst h; simp
  | cons x xs ih =>
    simp only [compileFrom] at h
    cases hx : compileStep c x with
    | none => simp [hx] at h
    | some c1 =>
      simp only [hx] at h
      rw [ih c1 h]
      cases x <;> simp only [compileStep] at hx <;> split at hx <;> simp at hx <;> subst hx <;> simp_all
      constructor
      · rintro (h | h) <;> simp_all
      · rintro (h | h) <;> simp_all

theorem compile_target (cs : List Crit) (c : Compiled) (h : compile cs = some c) (t : F64) :
    c.target = some t ↔ Crit.target t ∈ cs := by
  rw [compileFrom_target {} c cs h t]; simp

theorem compileFrom_after (c c' : Compiled) (cs : List Crit) (h : compileFrom c cs = some c') (d : Nat) :
    c'.after = some d ↔ (c.after = some d ∨ Crit.after d ∈ cs) := by
  induction cs generalizing c with
  | nil => simp [compileFrom] at h; subst h; simp
  | cons x xs ih =>
    simp only [compileFrom] at h
    cases hx : compileStep c x with
    | none => simp [hx] at h
    | some c1 =>
      simp only [hx] at h
      rw [ih c1 h]
      cases x <;> simp only [compileStep] at hx <;> split at hx <;> simp at hx <;> subst hx <;> simp_all
      constructor
      · rintro (h | h) <;> simp_all
      · rintro (h | h) <;> simp_all

theorem compile_after (cs : List Crit) (c : Compiled) (h : compile cs = some c) (d : Nat) :
    c.after = some d ↔ Crit.after d ∈ cs := by
  rw [compileFrom_after {} c cs h d]; simp

/-! ### async_launch: one abort request -/

def nAbortReq (l : List LAct) : Nat := (l.filter (· == .abortReq)).length

theorem lrun_abort_le (s : LSt) (evs : List LEv) :
    nAbortReq (lrun s evs).2 ≤ (if s.holder then 1 else 0) ∧ ((lrun s evs).1.holder = true → s.holder = true) := by
  induction evs generalizing s with
  | nil => simp [lrun, nAbortReq]
  | cons e es ih =>
    simp only [lrun]
    have key : (lstep s e).1.holder = true → s.holder = true := by
      unfold lstep; split
      · exact id
      · cases e <;> simp <;> split <;> simp_all
    have cnt : nAbortReq (lstep s e).2 + (if (lstep s e).1.holder then 1 else 0) ≤ (if s.holder then 1 else 0) := by
      unfold lstep; split
      · simp [nAbortReq]
      · cases e <;> simp [nAbortReq] <;> split <;> simp_all
    obtain ⟨i1, i2⟩ := ih (lstep s e).1
    constructor
    · simp only [nAbortReq, List.filter_append, List.length_append] at *
      omega
    · intro h; exact key (i2 h)

/-- the first Terminate that arrives while the controller runs is passed on -/
theorem lstep_first_terminate (s : LSt) (hd : s.done = false) (hh : s.holder = true) :
    lstep s .terminate = ({ s with holder := false }, [.abortReq]) := by
  simp [lstep, hd, hh]

/-- a further Terminate changes nothing: in particular the run is not ended and the controller's result is still
    what is returned -/
theorem lstep_later_terminate (s : LSt) (hh : s.holder = false) : lstep s .terminate = (s, []) := by
  simp only [lstep]; split <;> simp [hh]

/-! ### sync_launch: the writer is drained before any result is returned -/

/-- in every reachable state: once the function has returned, the writer future has completed -/
theorem sstep_ret_after_writer (wr : Bool) (s : SSt) (e : SEv)
    (hs : s.done = true → s.writerFinished.isSome = true) :
    (sstep wr s e).1.done = true → (sstep wr s e).1.writerFinished.isSome = true := by
  rcases s with ⟨tf, wf, d⟩
  cases tf <;> cases d <;> cases wr <;> rcases wf with _ | wf <;> cases e <;> simp_all [sstep] <;>
    (rename_i ok; cases ok <;> simp)

theorem srun_ret_after_writer (wr : Bool) (s : SSt) (evs : List SEv)
    (hs : s.done = true → s.writerFinished.isSome = true) :
    (srun wr s evs).1.done = true → (srun wr s evs).1.writerFinished.isSome = true := by
  induction evs generalizing s with
  | nil => simpa [srun] using hs
  | cons e es ih =>
    simp only [srun]
    exact ih _ (sstep_ret_after_writer wr s e hs)

/-- a controller result (`Ok` or `Err` alike) is returned only together with a drained writer: the `ret (some _)`
    action is preceded by `awaitWriter` in the same step unless the writer had completed before -/
theorem sstep_launchDone (wr : Bool) (s : SSt) (ok : Bool) (hd : s.done = false) :
    (sstep wr s (.launchDone ok)).2 =
      match s.writerFinished with
      | some _ => [.ret (some ok)]
      | none => if wr then [.awaitWriter, .ret (some ok)] else [.awaitWriter, .ret none] := by
  rcases s with ⟨tf, wf, d⟩
  simp only at hd; subst hd
  rcases wf with _ | wf <;> cases wr <;> simp [sstep]

/-- the time limit sends exactly one Terminate -/
def nTerm (l : List SAct) : Nat := (l.filter (· == .sendTerminate)).length

theorem sstep_term (wr : Bool) (s : SSt) (e : SEv) :
    nTerm (sstep wr s e).2 + (if s.timeoutFired then 1 else 0) = (if (sstep wr s e).1.timeoutFired then 1 else 0) ∨
    (nTerm (sstep wr s e).2 = 0 ∧ (sstep wr s e).1.timeoutFired = s.timeoutFired) := by
  rcases s with ⟨tf, wf, d⟩
  cases tf <;> cases d <;> cases wr <;> rcases wf with _ | wf <;> cases e <;> simp [sstep, nTerm] <;>
    (rename_i ok; cases ok <;> simp)

theorem srun_term_le (wr : Bool) (s : SSt) (evs : List SEv) :
    nTerm (srun wr s evs).2 + (if s.timeoutFired then 1 else 0) ≤ 1 := by
  induction evs generalizing s with
  | nil => simp [srun, nTerm]; split <;> simp
  | cons e es ih =>
    simp only [srun]
    have ih' := ih (sstep wr s e).1
    have cnt := sstep_term wr s e
    have happ : nTerm ((sstep wr s e).2 ++ (srun wr (sstep wr s e).1 es).2) =
        nTerm (sstep wr s e).2 + nTerm (srun wr (sstep wr s e).1 es).2 := by
      simp [nTerm, List.filter_append]
    rw [happ]
    rcases cnt with h | ⟨h1, h2⟩
    · omega
    · rw [h2] at ih'; omega

end Cambrian.Launch
