/-
Conformance of every individual of a run (C01 over L6 + L5 with `V := VNode`), for every event list, provided
every offspring value supplied by the random decisions is one the operators can produce (`OffspringOk`).
-/
import CambrianModel.Lemmas.PopInv
import CambrianModel.Lemmas.MutLemmas
import CambrianModel.Lemmas.CrossLemmas
namespace Cambrian.Ctl
open Cambrian Cambrian.Algo

/-- `create_offspring`: crossover of the whole population in ranking order (the initial value when the population
    is empty), then mutation; `keysBounded`: map keys are machine `usize`s -/
def OffspringOk (spec : SNode) (core : Algo.St VNode) (v : VNode) : Prop :=
  ∃ (cp sp mp : PClass) (c : VNode),
    (if core.pop.isEmpty then c = core.init else crossAcc cp sp spec (core.pop.map (·.v)) c = true) ∧
    mutAcc mp spec c v = true ∧ keysBounded v = true

/-- the random decisions of one event are legal in state `s`: if this step hands out a new individual, its value is
    one the operators can produce from the population as it is after the result has been processed -/
def LegalEv (spec : SNode) (s : St VNode) : Ev VNode → Prop
  | .abortReq => True
  | .complete seed r ch =>
    ∀ ind, lookupSeed seed s.inflight = some ind →
      match r with
      | .acc x m => OffspringOk spec (Algo.proc s.core ind (some (x, m))) ch.v
      | .rej => OffspringOk spec (Algo.proc s.core ind none) ch.v
      | .fail _ => True

/-- legality along a whole schedule -/
def LegalFrom (spec : SNode) (c : Cfg) : St VNode → List (Ev VNode) → Prop
  | _, [] => True
  | s, e :: es => LegalEv spec s e ∧ LegalFrom spec c (step c s e).1 es

/-- the initial evaluations: the first is the initial value itself, the others are mutations of it (the
    population is still empty) -/
def LegalInit (spec : SNode) (v0 : VNode) (chs : Nat → Algo.Choice VNode) : Prop :=
  ∀ i, ∃ mp, mutAcc mp spec v0 (chs i).v = true ∧ keysBounded (chs i).v = true

structure ConfInv (spec : SNode) (s : St VNode) (acts : List (Act VNode)) : Prop where
  initOk : conf spec s.core.init = true
  popOk : ∀ e ∈ s.core.pop, conf spec e.v = true
  inflOk : ∀ p ∈ s.inflight, conf spec p.2.v = true
  startsOk : ∀ sd id v, Act.start sd id v ∈ acts → conf spec v = true

/-! ### the operators only produce conforming values -/

theorem offspring_conf {spec : SNode} (hs : wf spec = true) {core : Algo.St VNode} {v : VNode}
    (hinit : conf spec core.init = true) (hpop : ∀ e ∈ core.pop, conf spec e.v = true)
    (h : OffspringOk spec core v) : conf spec v = true := by
  obtain ⟨cp, sp, mp, c, hc, hm, hk⟩ := h
  refine mutAcc_conf mp spec c v hs ?_ hk hm
  split at hc
  · rw [hc]; exact hinit
  · rename_i hne
    refine crossAcc_conf cp sp spec _ c hs ?_ ?_ hc
    · intro h
      apply hne
      simpa using h
    · intro p hp
      simp only [List.mem_map] at hp
      obtain ⟨e, he, rfl⟩ := hp
      exact hpop e he

/-! ### the algorithm core -/

theorem next_conf {spec : SNode} {a : Algo.St VNode} {ch : Algo.Choice VNode}
    (hinit : conf spec a.init = true) (hpop : ∀ e ∈ a.pop, conf spec e.v = true)
    (hch : a.initUsed = true → conf spec ch.v = true) :
    conf spec (Algo.next a ch).1.init = true ∧ (∀ e ∈ (Algo.next a ch).1.pop, conf spec e.v = true) ∧
    conf spec (Algo.next a ch).2.v = true := by
  obtain ⟨_, _, _, e4, e5, _, e7⟩ := Algo.next_spec a ch
  refine ⟨by rw [e4]; exact hinit, fun e he => hpop e (e5.subset he), ?_⟩
  rcases e7 with ⟨_, _, _, _, _, hv⟩ | ⟨_, _, _, e, he, _, _, hv, _⟩
  · rw [hv]
    split
    · rename_i hu; exact hch hu
    · exact hinit
  · rw [hv]; exact hpop e he

theorem proc_conf {spec : SNode} {a : Algo.St VNode} {ind : Algo.Ind VNode} (r : Option (Int × Int))
    (hinit : conf spec a.init = true) (hpop : ∀ e ∈ a.pop, conf spec e.v = true)
    (hind : conf spec ind.v = true) :
    conf spec (Algo.proc a ind r).init = true ∧ (∀ e ∈ (Algo.proc a ind r).pop, conf spec e.v = true) := by
  cases r with
  | none => exact ⟨hinit, hpop⟩
  | some xm =>
    obtain ⟨x, m⟩ := xm
    rw [Algo.proc_some]
    refine ⟨hinit, fun e he => ?_⟩
    rcases Algo.mem_ins (List.mem_of_mem_take he) with rfl | he
    · exact hind
    · exact hpop e he

/-! ### the controller -/

theorem finish_conf {spec : SNode} {s : St VNode} {acts : List (Act VNode)} (h : ConfInv spec s acts) :
    ConfInv spec (finish s acts).1 (finish s acts).2 := by
  refine ⟨h.initOk, h.popOk, h.inflOk, fun sd id v hv => ?_⟩
  simp only [finish, List.mem_append, List.mem_singleton, reduceCtorEq, or_false] at hv
  exact h.startsOk sd id v hv

theorem again_conf {spec : SNode} {s : St VNode} {acts : List (Act VNode)} (h : ConfInv spec s acts) :
    ConfInv spec (again s acts).1 (again s acts).2 := by
  simp only [again]
  split
  · exact finish_conf h
  · exact h

theorem startOne_conf {spec : SNode} {s : St VNode} {acts : List (Act VNode)} (ch : Algo.Choice VNode)
    (h : ConfInv spec s acts) (hch : s.core.initUsed = true → conf spec ch.v = true) :
    ConfInv spec (startOne s ch).1 (acts ++ [(startOne s ch).2]) := by
  obtain ⟨_, _, _, _, _, _, _, _, ind, e9, e10, e11, e12⟩ := startOne_state s ch
  obtain ⟨n1, n2, n3⟩ := next_conf h.initOk h.popOk hch
  rw [← e12] at n3
  refine ⟨by rw [e11]; exact n1, by rw [e11]; exact n2, ?_, ?_⟩
  · intro p hp
    rw [e9] at hp
    simp only [List.mem_append, List.mem_singleton] at hp
    rcases hp with hp | rfl
    · exact h.inflOk p hp
    · exact n3
  · intro sd id v hv
    simp only [List.mem_append, List.mem_singleton] at hv
    rcases hv with hv | hv
    · exact h.startsOk sd id v hv
    · rw [e10] at hv
      injection hv with _ _ hv
      rw [hv]; exact n3

theorem afterResult_conf {spec : SNode} (hs : wf spec = true) {c : Cfg} {s : St VNode} {ch : Algo.Choice VNode}
    {acts : List (Act VNode)} (h : ConfInv spec s acts) (hch : OffspringOk spec s.core ch.v) :
    ConfInv spec (afterResult c s ch acts).1 (afterResult c s ch acts).2 := by
  simp only [afterResult]
  split
  · exact finish_conf h
  · split
    · exact finish_conf h
    · split
      · exact startOne_conf ch h (fun _ => offspring_conf hs h.initOk h.popOk hch)
      · exact again_conf h

theorem onAbort_conf {spec : SNode} {s : St VNode} {acts : List (Act VNode)} (h : ConfInv spec s acts) :
    ConfInv spec (onAbort s).1 (acts ++ (onAbort s).2) := by
  simp only [onAbort]
  split
  · simpa using h
  · refine ⟨h.initOk, h.popOk, h.inflOk, fun sd id v hv => ?_⟩
    simp only [List.mem_append, List.mem_singleton, reduceCtorEq, or_false] at hv
    exact h.startsOk sd id v hv

theorem onFail_conf {spec : SNode} {s1 : St VNode} {acts : List (Act VNode)} (er : Nat)
    (h : ConfInv spec s1 acts) : ConfInv spec (onFail s1 er).1 (acts ++ (onFail s1 er).2) := by
  simp only [onFail]
  split
  · have := again_conf h
    have e := again_append s1 acts []
    simp only [List.append_nil] at e
    rw [e] at this; exact this
  · have := @again_conf spec { s1 with aborted := true, err := some er } (acts ++ [.broadcastAbort])
      ⟨h.initOk, h.popOk, h.inflOk, fun sd id v hv => by
        simp only [List.mem_append, List.mem_singleton, reduceCtorEq, or_false] at hv
        exact h.startsOk sd id v hv⟩
    rw [again_append] at this; exact this

theorem onResult_conf {spec : SNode} (hs : wf spec = true) {c : Cfg} {s : St VNode} {acts : List (Act VNode)}
    {seed : Nat} {ind : Algo.Ind VNode} (r : Option (Int × Int)) (ch : Algo.Choice VNode)
    (hl : lookupSeed seed s.inflight = some ind) (h : ConfInv spec s acts)
    (hch : OffspringOk spec (Algo.proc s.core ind r) ch.v) :
    ConfInv spec (onResult c s seed ind r ch).1 (acts ++ (onResult c s seed ind r ch).2) := by
  obtain ⟨_, f2, _⟩ := eraseSeed_facts hl
  have hind : conf spec ind.v = true := h.inflOk _ (lookupSeed_some hl)
  obtain ⟨p1, p2⟩ := proc_conf r h.initOk h.popOk hind
  simp only [onResult]
  have := @afterResult_conf spec hs c (resultState s seed ind r) ch (acts ++ [.item ind.id seed (r.map (·.1))])
    ⟨p1, p2, fun p hp => h.inflOk p (f2 p hp), fun sd id v hv => by
      simp only [List.mem_append, List.mem_singleton, reduceCtorEq, or_false] at hv
      exact h.startsOk sd id v hv⟩ hch
  rw [afterResult_append] at this; exact this

theorem step_conf {spec : SNode} (hs : wf spec = true) {c : Cfg} {s : St VNode} {acts : List (Act VNode)}
    (e : Ev VNode) (h : ConfInv spec s acts) (hl : LegalEv spec s e) :
    ConfInv spec (step c s e).1 (acts ++ (step c s e).2) := by
  cases e with
  | abortReq =>
    simp only [step]
    split
    · simpa using h
    · exact onAbort_conf h
  | complete seed r ch =>
    simp only [step]
    split
    · simpa using h
    · split
      · simpa using h
      · rename_i ind hi
        have hl' := hl ind hi
        cases r with
        | acc x m => exact onResult_conf hs _ ch hi h hl'
        | rej => exact onResult_conf hs _ ch hi h hl'
        | fail er =>
          obtain ⟨_, f2, _⟩ := eraseSeed_facts hi
          apply onFail_conf
          exact ⟨h.initOk, h.popOk, fun p hp => h.inflOk p (f2 p hp), h.startsOk⟩

theorem startMany_conf {spec : SNode} (chs : Nat → Algo.Choice VNode) (hchs : ∀ i, conf spec (chs i).v = true) :
    ∀ (n i : Nat) (s : St VNode) (acts : List (Act VNode)), ConfInv spec s acts →
      ConfInv spec (startMany chs n i s acts).1 (startMany chs n i s acts).2
  | 0, _, s, acts, h => by simpa [startMany] using h
  | n+1, i, s, acts, h => by
    simp only [startMany]
    exact startMany_conf chs hchs n (i+1) _ _ (startOne_conf (chs i) h (fun _ => hchs i))

theorem init_conf {spec : SNode} (hs : wf spec = true) (c : Cfg) (ss : Nat) (v0 d : VNode)
    (hv0 : conf spec v0 = true) (chs : Nat → Algo.Choice VNode) (hchs : LegalInit spec v0 chs) :
    ConfInv spec (init c ss (some v0) d chs).1 (init c ss (some v0) d chs).2 := by
  simp only [init]
  have h0 : ConfInv spec ({ core := Algo.new v0 ss } : St VNode) [] :=
    ⟨hv0, by simp [Algo.new], by simp, by simp⟩
  refine again_conf (startMany_conf chs (fun i => ?_) _ _ _ _ h0)
  obtain ⟨mp, hm, hk⟩ := hchs i
  exact mutAcc_conf mp spec v0 _ hs hv0 hk hm

theorem runFrom_conf {spec : SNode} (hs : wf spec = true) {c : Cfg} :
    ∀ (evs : List (Ev VNode)) (s : St VNode) (acts : List (Act VNode)), ConfInv spec s acts →
      LegalFrom spec c s evs → ConfInv spec (runFrom c s acts evs).1 (runFrom c s acts evs).2
  | [], _, _, h, _ => h
  | e :: es, s, acts, h, hl => by
    simp only [runFrom]
    exact runFrom_conf hs es _ _ (step_conf hs e h hl.1) hl.2

/-- every parameter set handed to the objective function conforms to the spec, in every generation, for every
    schedule -/
theorem run_confInv (spec : SNode) (hs : wf spec = true) (c : Cfg) (ss : Nat) (v0 d : VNode)
    (hv0 : conf spec v0 = true) (chs : Nat → Algo.Choice VNode) (hchs : LegalInit spec v0 chs)
    (evs : List (Ev VNode))
    (hlegal : LegalFrom spec c (init c ss (some v0) d chs).1 evs) :
    ConfInv spec (run c ss (some v0) d chs evs).1 (run c ss (some v0) d chs evs).2 :=
  runFrom_conf hs evs _ _ (init_conf hs c ss v0 d hv0 chs hchs) hlegal

end Cambrian.Ctl
