/-
Conformance of every individual of a run (C01 over L6 + L5 with `V := VNode`), for every event list, provided
every offspring value supplied by the random decisions is one the operators can produce (`OffspringOk`).
-/
import CambrianModel.Lemmas.PopInv
import CambrianModel.Lemmas.MutLemmas
import CambrianModel.Lemmas.CrossLemmas
namespace Cambrian.Ctl
open Cambrian Cambrian.Algo

/-- `create_offspring`: crossover of the whole population in ranking order (the initial value when the population
    is empty), then mutation; `keysBounded`: map keys are machine `usize`s -/
def OffspringOk (spec : SNode) (core : Algo.St VNode) (v : VNode) : Prop :=
  ∃ (cp sp mp : PClass) (c : VNode),
    (if core.pop.isEmpty then c = core.init else crossAcc cp sp spec (core.pop.map (·.v)) c = true) ∧
    mutAcc mp spec c v = true ∧ keysBounded v = true

/-- the random decisions of one event are legal in state `s`: if this step hands out a new individual, its value is
    one the operators can produce from the population as it is after the result has been processed -/
def LegalEv (spec : SNode) (s : St VNode) : Ev VNode → Prop
  | .abortReq => True
  | .complete seed r ch =>
    ∀ ind, lookupSeed seed s.inflight = some ind →
      match r with
      | .acc x m => OffspringOk spec (Algo.proc s.core ind (some (x, m))) ch.v
      | .rej => OffspringOk spec (Algo.proc s.core ind none) ch.v
      | .fail _ => True

/-- legality along a whole schedule -/
def LegalFrom (spec : SNode) (c : Cfg) : St VNode → List (Ev VNode) → Prop
  | _, [] => True
  | s, e :: es => LegalEv spec s e ∧ LegalFrom spec c (step c s e).1 es

/-- the initial evaluations: the first is the initial value itself, the others are mutations of it (the
    population is still empty) -/
def LegalInit (spec : SNode) (v0 : VNode) (chs : Nat → Algo.Choice VNode) : Prop :=
  ∀ i, ∃ mp, mutAcc mp spec v0 (chs i).v = true ∧ keysBounded (chs i).v = true

structure ConfInv (spec : SNode) (s : St VNode) (acts : List (Act VNode)) : Prop where
  initOk : conf spec s.core.init = true
  popOk : ∀ e ∈ s.core.pop, conf spec e.v = true
  inflOk : ∀ p ∈ s.inflight, conf spec p.2.v = true
  startsOk : ∀ sd id v, Act.start sd id v ∈ acts → conf spec v = true

/-- every parameter set handed to the objective function conforms to the spec, in every generation, for every
    schedule -/
theorem run_confInv (spec : SNode) (hs : wf spec = true) (c : Cfg) (ss : Nat) (v0 d : VNode)
    (hv0 : conf spec v0 = true) (chs : Nat → Algo.Choice VNode) (hchs : LegalInit spec v0 chs)
    (evs : List (Ev VNode))
    (hlegal : LegalFrom spec c (init c ss (some v0) d chs).1 evs) :
    ConfInv spec (run c ss (some v0) d chs evs).1 (run c ss (some v0) d chs evs).2 := by
  sorry

end Cambrian.Ctl
