/-
Lemma behind C17 (operator liveness): every output `mutation::mutate` may produce at probability 1 satisfies
`liveOne` - for every spec, value and nesting.
-/
import CambrianModel.Lemmas.MutLemmas
namespace Cambrian

mutual
theorem mutAcc_one_live (s : SNode) (vi vo : VNode) (hs : wf s = true) (hi : conf s vi = true)
    (h : mutAcc .one s vi vo = true) : liveOne s vi vo = true := by
  cases vo with
  | real y => cases s <;> cases vi <;> simp [liveOne]
  | int y => cases s <;> cases vi <;> simp [liveOne]
  | const => cases s <;> cases vi <;> simp [liveOne]
  | bool y => cases s <;> cases vi <;> simp [liveOne] <;> simp [mutAcc] at h <;> exact h
  | «enum» y => cases s <;> cases vi <;> simp [liveOne] <;> simp [mutAcc] at h <;> exact h.1
  | onone => cases s <;> cases vi <;> simp [liveOne] <;> simp [mutAcc] at h
  | osome v' =>
      cases s <;> cases vi <;> try (simp [mutAcc] at h; done)
      all_goals
        simp only [wf] at hs
        simp only [mutAcc, Bool.and_eq_true] at h
        simp only [conf] at hi
        simp only [liveOne]
      · rename_i e _
        exact mutAcc_one_live e _ v' hs (initialValue_conf e hs) h.2
  | sub fo =>
      cases s <;> cases vi <;> try (simp [mutAcc] at h; done)
      rename_i sf fi
      simp only [wf, Bool.and_eq_true] at hs
      simp only [mutAcc, Bool.and_eq_true] at h
      simp only [conf] at hi
      simp only [liveOne]
      exact mutAcc_one_live_fields sf fi fo hs.2 hi h.2
  | array lo =>
      cases s <;> cases vi <;> try (simp [mutAcc] at h; done)
      rename_i e n li
      simp only [wf, Bool.and_eq_true] at hs
      simp only [mutAcc, Bool.and_eq_true] at h
      simp only [conf, Bool.and_eq_true] at hi
      simp only [liveOne]
      exact mutAcc_one_live_list e li lo hs.2 hi.2 h.2
  | variant n' v' =>
      cases s <;> cases vi <;> try (simp [mutAcc] at h; done)
      rename_i opts i n v
      simp only [wf, Bool.and_eq_true] at hs
      simp only [mutAcc] at h
      simp only [liveOne, Bool.and_eq_true]
      split at h
      · simp at h
      · rename_i hn
        simp only [Bool.and_eq_true] at h
        refine ⟨by simpa using hn, ?_⟩
        cases ho : opts.lookup n' with
        | none => simp
        | some cs =>
          simp only [ho] at h
          have hw := lookup_wf opts n' cs hs.2 ho
          exact mutAcc_one_live cs _ v' hw (initialValue_conf cs hw) h.2
  | amap mo =>
      cases s <;> cases vi <;> try (simp [mutAcc] at h; done)
      rename_i e ini mn mx mi
      simp only [wf, Bool.and_eq_true] at hs
      simp only [mutAcc] at h
      simp only [conf, Bool.and_eq_true] at hi
      simp only [liveOne, Bool.and_eq_true]
      split at h
      · simp at h
      · rename_i hn1
        split at h
        · simp only [Bool.and_eq_true] at h
          exact ⟨by simpa using hn1, mutAcc_one_live_entries e mi none mo hs.2 hi.2 (by simp) h.2⟩
        · split at h
          · split at h
            · rename_i k hf
              simp only [Bool.and_eq_true] at h
              have hknot : ¬ k ∈ mi.keys := by
                have : k ∈ mo.keys.filter (fun k => !(mi.keys.contains k)) := by rw [hf]; simp
                simpa using (List.mem_filter.1 this).2
              refine ⟨by simpa using hn1, mutAcc_one_live_entries e mi (some k) mo hs.2 hi.2 ?_ h.2⟩
              intro k' hk'
              injection hk' with hk'; subst hk'
              exact VEntries.lookup_none_of_not_mem mi _ hknot
            · simp at h
          · simp at h
termination_by structural vo
theorem mutAcc_one_live_fields (sf : SFields) (fi fo : VFields) (hs : wfFields sf = true)
    (hi : confFields sf fi = true) (h : mutAccFields .one sf fi fo = true) : liveOneFields sf fi fo = true := by
  cases fo with
  | nil => cases sf <;> cases fi <;> simp [liveOneFields]
  | cons k2 v' vr' =>
      cases sf <;> cases fi <;> try (simp [mutAccFields] at h; done)
      rename_i k s sr k1 v vr
      simp only [wfFields, Bool.and_eq_true] at hs
      simp only [mutAccFields, Bool.and_eq_true] at h
      simp only [confFields, Bool.and_eq_true] at hi
      simp only [liveOneFields, Bool.and_eq_true]
      exact ⟨mutAcc_one_live s v v' hs.1 hi.1.2 h.1.2, mutAcc_one_live_fields sr vr vr' hs.2 hi.2 h.2⟩
termination_by structural fo
theorem mutAcc_one_live_list (e : SNode) (li lo : VList) (hs : wf e = true)
    (hi : confList e li = true) (h : mutAccList .one e li lo = true) : liveOneList e li lo = true := by
  cases lo with
  | nil => cases li <;> simp [liveOneList]
  | cons v' r' =>
      cases li <;> try (simp [mutAccList] at h; done)
      rename_i v r
      simp only [mutAccList, Bool.and_eq_true] at h
      simp only [confList, Bool.and_eq_true] at hi
      simp only [liveOneList, Bool.and_eq_true]
      exact ⟨mutAcc_one_live e v v' hs hi.1 h.1, mutAcc_one_live_list e r r' hs hi.2 h.2⟩
termination_by structural lo
theorem mutAcc_one_live_entries (e : SNode) (mi : VEntries) (added : Option Nat) (mo : VEntries)
    (hs : wf e = true) (hi : confEntries e mi = true) (hadd : ∀ k, added = some k → mi.lookup k = none)
    (h : mutAccEntries .one e mi added mo = true) : liveOneEntries e mi mo = true := by
  cases mo with
  | nil => simp [liveOneEntries]
  | cons k v' r =>
      simp only [mutAccEntries, Bool.and_eq_true] at h
      simp only [liveOneEntries, Bool.and_eq_true]
      refine ⟨?_, mutAcc_one_live_entries e mi added r hs hi hadd h.2⟩
      have h1 := h.1
      cases hl : mi.lookup k with
      | none => simp
      | some v =>
        simp only
        split at h1
        · rename_i ha
          have := hadd k (by simpa using ha)
          rw [this] at hl; cases hl
        · rw [hl] at h1
          exact mutAcc_one_live e v v' hs (VEntries.lookup_conf e mi k v hi hl) h1
termination_by structural mo
end

end Cambrian
