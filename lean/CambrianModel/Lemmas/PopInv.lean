/-
Population / identity invariant of the algorithm core inside the controller, for every event list.
Relates the ranked population and the in-flight individuals to the observable action list.
-/
import CambrianModel.Lemmas.CtlStep
import CambrianModel.Lemmas.AlgoLemmas
namespace Cambrian.Ctl
open Cambrian Cambrian.Algo

variable {V : Type}

/-- accepted results of individual `id`, in processing order -/
def itemVals (id : Nat) (acts : List (Act V)) : List Int :=
  acts.filterMap fun a => match a with
    | .item i _ (some x) => if i == id then some x else none
    | _ => none

/-- number of times individual `id` was handed out for evaluation -/
def nHandouts (id : Nat) (acts : List (Act V)) : Nat :=
  acts.countP fun a => match a with
    | .start _ i _ => i == id
    | _ => false

/-- the `start` actions, in order -/
def startsOf (acts : List (Act V)) : List (Nat × Nat × V) :=
  acts.filterMap fun a => match a with
    | .start sd i v => some (sd, i, v)
    | _ => none

def stateOk (ss : Nat) (e : Entry V) : Prop :=
  match e.st with
  | .ready l => 0 < l.length ∧ l.length < ss
  | .final x l => l.length = ss ∧ x = e.obj

structure PopInv (ss : Nat) (s : St V) (acts : List (Act V)) : Prop where
  /-- configuration is constant -/
  cfgSS : s.core.sampleSize = ss
  cfgMax : s.core.maxPop = Generated.maxPopSize
  cfgMin : s.core.minReeval = Generated.minPopSizeForReeval
  /-- the population is strictly sorted by `(objective, id)` -/
  sorted : s.core.pop.Pairwise (fun a b => keyLt a.obj a.id b.obj b.id = true)
  /-- an individual is never both in the population and in flight, nor twice in either -/
  idsNodup : (s.core.pop.map (·.id) ++ s.inflight.map (·.2.id)).Nodup
  /-- every id handed out so far is below `nextId`; one id always carries one value -/
  startsLt : ∀ sd id v, Act.start sd id v ∈ acts → id < s.core.nextId
  startsSame : ∀ sd id v sd' v', Act.start sd id v ∈ acts → Act.start sd' id v' ∈ acts → v' = v
  /-- population entries: handed out, their stored samples are exactly their accepted results -/
  popEntry : ∀ e ∈ s.core.pop, (∃ sd, Act.start sd e.id e.v ∈ acts) ∧ itemVals e.id acts = samplesOf e.st ∧
      nHandouts e.id acts = (samplesOf e.st).length ∧ stateOk ss e ∧ (∃ m, e.obj = summ (samplesOf e.st) m)
  /-- in-flight individuals -/
  inflEntry : ∀ p ∈ s.inflight, Act.start p.1 p.2.id p.2.v ∈ acts ∧ itemVals p.2.id acts = p.2.samples ∧
      nHandouts p.2.id acts = p.2.samples.length + 1 ∧ p.2.samples.length < ss
  /-- an individual is evaluated at most sample-size times -/
  handoutBound : ∀ id, nHandouts id acts ≤ ss
  /-- the first individual is the initial value -/
  first : (s.core.initUsed = false → startsOf acts = []) ∧
      (∀ x xs, startsOf acts = x :: xs → x = (0, 0, s.core.init))
  /-- sample size 1: the best-ranked entry is a minimum over all accepted results so far -/
  headMin : ss = 1 → ∀ id sd x, Act.item id sd (some x) ∈ acts →
      ∃ h, s.core.pop.head? = some h ∧ (h.obj < x ∨ (h.obj = x ∧ h.id ≤ id))
  /-- (auxiliary) every reported id is below `nextId` -/
  itemsLt : ∀ id sd r, Act.item id sd r ∈ acts → id < s.core.nextId
  /-- (auxiliary) before the first hand-out nothing has been used -/
  fresh0 : startsOf acts = [] → s.core.initUsed = false ∧ s.core.nextId = 0 ∧ s.nextSeed = 0

/-! ### observers of the action list -/

@[simp] theorem itemVals_append (id : Nat) (a b : List (Act V)) :
    itemVals id (a ++ b) = itemVals id a ++ itemVals id b := by simp [itemVals]
@[simp] theorem nHandouts_append (id : Nat) (a b : List (Act V)) :
    nHandouts id (a ++ b) = nHandouts id a + nHandouts id b := by simp [nHandouts]
@[simp] theorem startsOf_append (a b : List (Act V)) : startsOf (a ++ b) = startsOf a ++ startsOf b := by
  simp [startsOf]

@[simp] theorem itemVals_start (id sd i : Nat) (v : V) : itemVals id [(.start sd i v : Act V)] = [] := rfl
@[simp] theorem itemVals_bc (id : Nat) : itemVals id [(.broadcastAbort : Act V)] = [] := rfl
@[simp] theorem itemVals_ret (id : Nat) (o : Outcome V) (d : List Nat) : itemVals id [(.ret o d : Act V)] = [] := rfl
@[simp] theorem itemVals_itemR (id i sd : Nat) : itemVals id [(.item i sd none : Act V)] = [] := rfl
theorem itemVals_itemA (id i sd : Nat) (x : Int) :
    itemVals id [(.item i sd (some x) : Act V)] = if i = id then [x] else [] := by
  by_cases h : i = id <;> simp [itemVals, h]

theorem nHandouts_start (id sd i : Nat) (v : V) :
    nHandouts id [(.start sd i v : Act V)] = if i = id then 1 else 0 := by
  by_cases h : i = id <;> simp [nHandouts, h]
@[simp] theorem nHandouts_bc (id : Nat) : nHandouts id [(.broadcastAbort : Act V)] = 0 := rfl
@[simp] theorem nHandouts_ret (id : Nat) (o : Outcome V) (d : List Nat) : nHandouts id [(.ret o d : Act V)] = 0 := rfl
@[simp] theorem nHandouts_item (id i sd : Nat) (r : Option Int) : nHandouts id [(.item i sd r : Act V)] = 0 := rfl

@[simp] theorem startsOf_start (sd i : Nat) (v : V) : startsOf [(.start sd i v : Act V)] = [(sd, i, v)] := rfl
@[simp] theorem startsOf_bc : startsOf [(.broadcastAbort : Act V)] = [] := rfl
@[simp] theorem startsOf_ret (o : Outcome V) (d : List Nat) : startsOf [(.ret o d : Act V)] = [] := rfl
@[simp] theorem startsOf_item (i sd : Nat) (r : Option Int) : startsOf [(.item i sd r : Act V)] = [] := rfl

theorem mem_startsOf {sd i : Nat} {v : V} {acts : List (Act V)} (h : Act.start sd i v ∈ acts) :
    (sd, i, v) ∈ startsOf acts := by
  simp only [startsOf, List.mem_filterMap]
  exact ⟨_, h, rfl⟩

theorem itemVals_eq_nil {id : Nat} {acts : List (Act V)} (h : ∀ sd r, Act.item id sd r ∉ acts) :
    itemVals id acts = [] := by
  induction acts with
  | nil => rfl
  | cons a as ih =>
    have h1 : itemVals id as = [] := ih (fun sd r hm => h sd r (List.mem_cons_of_mem _ hm))
    have e : a :: as = [a] ++ as := rfl
    rw [e, itemVals_append, h1, List.append_nil]
    cases a with
    | item i sd r =>
      cases r with
      | none => rfl
      | some x =>
        rw [itemVals_itemA]
        split
        · rename_i hi
          subst hi
          exact absurd (List.mem_cons_self) (h sd (some x))
        · rfl
    | _ => rfl

theorem nHandouts_eq_zero {id : Nat} {acts : List (Act V)} (h : ∀ sd v, Act.start sd id v ∉ acts) :
    nHandouts id acts = 0 := by
  induction acts with
  | nil => rfl
  | cons a as ih =>
    have h1 : nHandouts id as = 0 := ih (fun sd v hm => h sd v (List.mem_cons_of_mem _ hm))
    have e : a :: as = [a] ++ as := rfl
    rw [e, nHandouts_append, h1, Nat.add_zero]
    cases a with
    | start sd i v =>
      rw [nHandouts_start]
      split
      · rename_i hi
        subst hi
        exact absurd (List.mem_cons_self) (h sd v)
      · rfl
    | _ => rfl

/-! ### derived facts -/

theorem count_id_pos {l : List (Entry V)} {e : Entry V} (h : e ∈ l) : 0 < (l.map (·.id)).count e.id :=
  List.count_pos_iff.2 (List.mem_map.2 ⟨e, h, rfl⟩)

theorem count_iid_pos {l : List (Nat × Ind V)} {p : Nat × Ind V} (h : p ∈ l) :
    0 < (l.map (·.2.id)).count p.2.id :=
  List.count_pos_iff.2 (List.mem_map.2 ⟨p, h, rfl⟩)

theorem PopInv.popLt {ss : Nat} {s : St V} {acts : List (Act V)} (h : PopInv ss s acts) :
    ∀ e ∈ s.core.pop, e.id < s.core.nextId := by
  intro e he
  obtain ⟨⟨sd, h1⟩, _⟩ := h.popEntry e he
  exact h.startsLt _ _ _ h1

theorem PopInv.inflLt {ss : Nat} {s : St V} {acts : List (Act V)} (h : PopInv ss s acts) :
    ∀ p ∈ s.inflight, p.2.id < s.core.nextId := by
  intro p hp
  exact h.startsLt _ _ _ (h.inflEntry p hp).1

theorem PopInv.cnt {ss : Nat} {s : St V} {acts : List (Act V)} (h : PopInv ss s acts) (a : Nat) :
    (s.core.pop.map (·.id)).count a + (s.inflight.map (·.2.id)).count a ≤ 1 := by
  have := List.nodup_iff_count.1 h.idsNodup a
  rwa [List.count_append] at this

theorem nodup_of_cnt {l1 l2 : List Nat} (h : ∀ a, l1.count a + l2.count a ≤ 1) : (l1 ++ l2).Nodup := by
  rw [List.nodup_iff_count]
  intro a
  rw [List.count_append]
  exact h a

/-! ### `eraseSeed` -/

theorem eraseSeed_count {seed : Nat} {l : List (Nat × Ind V)} {i : Ind V} (h : lookupSeed seed l = some i) (a : Nat) :
    (l.map (·.2.id)).count a = ((eraseSeed seed l).map (·.2.id)).count a + (if i.id = a then 1 else 0) := by
  induction l with
  | nil => simp [lookupSeed] at h
  | cons p r ih =>
    obtain ⟨k, j⟩ := p
    simp only [lookupSeed] at h
    by_cases hk : (k == seed) = true
    · simp only [hk, ↓reduceIte, Option.some.injEq] at h
      subst h
      simp only [eraseSeed, hk, ↓reduceIte, List.map_cons, List.count_cons, beq_iff_eq]
    · simp only [hk, Bool.false_eq_true, ↓reduceIte] at h
      have := ih h
      simp only [eraseSeed, hk, Bool.false_eq_true, ↓reduceIte, List.map_cons, List.count_cons, beq_iff_eq]
      omega

/-! ### handing out one individual -/

theorem popInv_start {ss : Nat} {s s' : St V} {acts : List (Act V)} (hss : 0 < ss) (h : PopInv ss s acts)
    (ch : Choice V) (hc : s'.core = (next s.core ch).1)
    (hi : s'.inflight = s.inflight ++ [(s.nextSeed, (next s.core ch).2)]) :
    PopInv ss s' (acts ++ [.start s.nextSeed (next s.core ch).2.id (next s.core ch).2.v]) := by
  have popLt := h.popLt
  have inflLt := h.inflLt
  have cnt := h.cnt
  obtain ⟨n1, n2, n3, n4, nsub, nmono, ncase⟩ := next_spec s.core ch
  generalize next s.core ch = nx at *
  obtain ⟨a', ind⟩ := nx
  simp only at hc hi n1 n2 n3 n4 nsub nmono ncase ⊢
  have hmemPop : ∀ e ∈ a'.pop, e ∈ s.core.pop := fun e he => nsub.subset he
  -- the facts that depend on which branch `next` took
  have key : ind.id < a'.nextId ∧ itemVals ind.id acts = ind.samples ∧ nHandouts ind.id acts = ind.samples.length ∧
      ind.samples.length < ss ∧
      (∀ a, (a'.pop.map (·.id)).count a + (s.inflight.map (·.2.id)).count a + (if ind.id = a then 1 else 0) ≤ 1) ∧
      (∀ sd' v', Act.start sd' ind.id v' ∈ acts → v' = ind.v) ∧
      (startsOf acts = [] → s.nextSeed = 0 ∧ ind.id = 0 ∧ ind.v = s.core.init) ∧
      a'.initUsed = true ∧ (ss = 1 → a'.pop.head? = s.core.pop.head?) := by
    rcases ncase with ⟨c1, c2, c3, c4, c5, c6⟩ | ⟨c1, c2, c3, e, ce, cr, cid, cv, cs, cc⟩
    · have hnoStart : ∀ sd v, Act.start sd ind.id v ∉ acts := by
        intro sd v hm
        have := h.startsLt _ _ _ hm
        omega
      have hnoItem : ∀ sd r, Act.item ind.id sd r ∉ acts := by
        intro sd r hm
        have := h.itemsLt _ _ _ hm
        omega
      refine ⟨by omega, ?_, ?_, by rw [c4]; exact hss, ?_, ?_, ?_, c5, fun _ => by rw [c1]⟩
      · rw [c4]; exact itemVals_eq_nil hnoItem
      · rw [c4]; exact nHandouts_eq_zero hnoStart
      · intro a
        rw [c1]
        have := cnt a
        split
        · rename_i ha
          subst ha
          have z1 : (s.core.pop.map (·.id)).count ind.id = 0 := by
            rw [List.count_eq_zero]
            intro hm
            obtain ⟨e, he, hid⟩ := List.mem_map.1 hm
            have := popLt e he
            omega
          have z2 : (s.inflight.map (·.2.id)).count ind.id = 0 := by
            rw [List.count_eq_zero]
            intro hm
            obtain ⟨p, hp, hid⟩ := List.mem_map.1 hm
            have := inflLt p hp
            omega
          omega
        · omega
      · intro sd' v' hm
        exact absurd hm (hnoStart sd' v')
      · intro hs
        obtain ⟨f1, f2, f3⟩ := h.fresh0 hs
        refine ⟨f3, by omega, ?_⟩
        rw [c6, f1]; simp
    · obtain ⟨⟨sd0, p1⟩, p2, p3, p4, _⟩ := h.popEntry e ce
      have hready : ∃ l, e.st = .ready l := by
        simp only [isReady] at cr
        split at cr
        · rename_i l hl; exact ⟨l, hl⟩
        · simp at cr
      obtain ⟨l, hl⟩ := hready
      simp only [stateOk, hl] at p4
      have hsl : samplesOf e.st = l := by rw [hl]; rfl
      refine ⟨?_, ?_, ?_, ?_, ?_, ?_, ?_, ?_, ?_⟩
      · rw [cid, c2]; exact popLt e ce
      · rw [cid, cs]; exact p2
      · rw [cid, cs]; exact p3
      · rw [cs, hsl]; exact p4.2
      · intro a
        have := cnt a
        have := cc a
        rw [cid]
        omega
      · intro sd' v' hm
        rw [cid] at hm
        rw [cv]
        exact h.startsSame _ _ _ _ _ p1 hm
      · intro hs
        have := mem_startsOf p1
        rw [hs] at this
        simp at this
      · rw [c3]
        cases hiu : s.core.initUsed with
        | true => rfl
        | false =>
          have hs := h.first.1 hiu
          have := mem_startsOf p1
          rw [hs] at this
          simp at this
      · intro h1
        have := h.cfgSS
        omega
  obtain ⟨k1, k2, k3, k4, k5, k6, k7, k8, k9⟩ := key
  have hpopNe : ∀ e ∈ a'.pop, e.id ≠ ind.id := by
    intro e he heq
    have := k5 ind.id
    have := count_id_pos he
    rw [heq] at this
    simp only [↓reduceIte] at *
    omega
  have hinflNe : ∀ p ∈ s.inflight, p.2.id ≠ ind.id := by
    intro p hp heq
    have := k5 ind.id
    have := count_iid_pos hp
    rw [heq] at this
    simp only [↓reduceIte] at *
    omega
  refine ⟨?_, ?_, ?_, ?_, ?_, ?_, ?_, ?_, ?_, ?_, ?_, ?_, ?_, ?_⟩
  · rw [hc, n1]; exact h.cfgSS
  · rw [hc, n2]; exact h.cfgMax
  · rw [hc, n3]; exact h.cfgMin
  · rw [hc]; exact h.sorted.sublist nsub
  · rw [hc, hi]
    apply nodup_of_cnt
    intro a
    have := k5 a
    simp only [List.map_append, List.map_cons, List.map_nil, List.count_append, List.count_cons, List.count_nil,
      beq_iff_eq]
    omega
  · intro sd id v hm
    rw [hc]
    simp only [List.mem_append, List.mem_singleton, Act.start.injEq] at hm
    rcases hm with hm | ⟨_, rfl, _⟩
    · have := h.startsLt _ _ _ hm; omega
    · exact k1
  · intro sd id v sd' v' hm hm'
    simp only [List.mem_append, List.mem_singleton, Act.start.injEq] at hm hm'
    rcases hm with hm | ⟨_, rfl, rfl⟩
    · rcases hm' with hm' | ⟨_, rfl, rfl⟩
      · exact h.startsSame _ _ _ _ _ hm hm'
      · exact (k6 _ _ hm).symm
    · rcases hm' with hm' | ⟨_, _, rfl⟩
      · exact k6 _ _ hm'
      · rfl
  · intro e he
    rw [hc] at he
    obtain ⟨⟨sd0, p1⟩, p2, p3, p4, p5⟩ := h.popEntry e (hmemPop e he)
    have hne := hpopNe e he
    refine ⟨⟨sd0, List.mem_append_left _ p1⟩, ?_, ?_, p4, p5⟩
    · rw [itemVals_append, itemVals_start, List.append_nil]; exact p2
    · rw [nHandouts_append, nHandouts_start, if_neg (Ne.symm hne)]; exact p3
  · intro p hp
    rw [hi] at hp
    simp only [List.mem_append, List.mem_singleton] at hp
    rcases hp with hp | rfl
    · obtain ⟨q1, q2, q3, q4⟩ := h.inflEntry p hp
      have hne := hinflNe p hp
      refine ⟨List.mem_append_left _ q1, ?_, ?_, q4⟩
      · rw [itemVals_append, itemVals_start, List.append_nil]; exact q2
      · rw [nHandouts_append, nHandouts_start, if_neg (Ne.symm hne)]; exact q3
    · refine ⟨by simp, ?_, ?_, k4⟩
      · rw [itemVals_append, itemVals_start, List.append_nil]; exact k2
      · rw [nHandouts_append, nHandouts_start, if_pos rfl]; simp only; omega
  · intro id
    rw [nHandouts_append, nHandouts_start]
    split
    · rename_i hid
      subst hid
      omega
    · have := h.handoutBound id; omega
  · rw [hc]
    refine ⟨fun hf => by rw [k8] at hf; simp at hf, ?_⟩
    intro x xs hx
    rw [startsOf_append, startsOf_start] at hx
    rw [n4]
    cases hs : startsOf acts with
    | nil =>
      rw [hs] at hx
      simp only [List.nil_append, List.cons.injEq] at hx
      obtain ⟨g1, g2, g3⟩ := k7 hs
      rw [← hx.1, g1, g2, g3]
    | cons y ys =>
      rw [hs] at hx
      simp only [List.cons_append, List.cons.injEq] at hx
      rw [← hx.1]
      exact h.first.2 y ys hs
  · intro h1 id sd x hm
    simp only [List.mem_append, List.mem_singleton, reduceCtorEq, or_false] at hm
    rw [hc, k9 h1]
    exact h.headMin h1 id sd x hm
  · intro id sd r hm
    simp only [List.mem_append, List.mem_singleton, reduceCtorEq, or_false] at hm
    rw [hc]
    have := h.itemsLt _ _ _ hm
    omega
  · intro hs
    rw [startsOf_append, startsOf_start] at hs
    simp at hs

/-! ### taking one result -/

theorem proc_cfg (a : Algo.St V) (ind : Ind V) (r : Option (Int × Int)) :
    (proc a ind r).sampleSize = a.sampleSize ∧ (proc a ind r).maxPop = a.maxPop ∧
    (proc a ind r).minReeval = a.minReeval ∧ (proc a ind r).init = a.init ∧
    (proc a ind r).initUsed = a.initUsed ∧ (proc a ind r).nextId = a.nextId := by
  cases r with
  | none => exact ⟨rfl, rfl, rfl, rfl, rfl, rfl⟩
  | some p => obtain ⟨x, m⟩ := p; exact ⟨rfl, rfl, rfl, rfl, rfl, rfl⟩

theorem itemVals_item_ne {id i : Nat} (sd : Nat) (r : Option Int) (h : i ≠ id) :
    itemVals id [(.item i sd r : Act V)] = [] := by
  cases r with
  | none => rfl
  | some x => rw [itemVals_itemA, if_neg h]

theorem stateOk_newEntry (ss : Nat) (ind : Ind V) (x m : Int) (h : ind.samples.length < ss) :
    stateOk ss (newEntry ss ind x m) := by
  by_cases hlen : (ind.samples ++ [x]).length = ss
  · have e : (newEntry ss ind x m).st = .final (summ (ind.samples ++ [x]) m) (ind.samples ++ [x]) := by
      simp only [newEntry, hlen, beq_self_eq_true, ↓reduceIte]
    simp only [stateOk, e]
    exact ⟨hlen, rfl⟩
  · have e : (newEntry ss ind x m).st = .ready (ind.samples ++ [x]) := by
      simp only [newEntry, beq_iff_eq, hlen, ↓reduceIte]
    simp only [stateOk, e]
    simp only [List.length_append, List.length_singleton] at hlen ⊢
    omega

theorem popInv_result {ss : Nat} {s s' : St V} {acts : List (Act V)} (h : PopInv ss s acts) {seed : Nat} {ind : Ind V}
    (r : Option (Int × Int)) (hl : lookupSeed seed s.inflight = some ind)
    (hc : s'.core = proc s.core ind r) (hi : s'.inflight = eraseSeed seed s.inflight)
    (hn : s'.nextSeed = s.nextSeed) :
    PopInv ss s' (acts ++ [.item ind.id seed (r.map (·.1))]) := by
  have popLt := h.popLt
  have cnt := h.cnt
  have hmem := lookupSeed_some hl
  obtain ⟨q1, q2, q3, q4⟩ := h.inflEntry _ hmem
  simp only at q1 q2 q3 q4
  have hidLt := h.startsLt _ _ _ q1
  have ec := eraseSeed_count hl
  have hsubI := (eraseSeed_facts hl).2.1
  obtain ⟨g1, g2, g3, g4, g5, g6⟩ := proc_cfg s.core ind r
  have hinflNe : ∀ p ∈ eraseSeed seed s.inflight, p.2.id ≠ ind.id := by
    intro p hp heq
    have := ec ind.id
    have := cnt ind.id
    have := count_iid_pos hp
    rw [heq] at this
    simp only [↓reduceIte] at *
    omega
  have hpopNe : ∀ e ∈ s.core.pop, e.id ≠ ind.id := by
    intro e he heq
    have := cnt ind.id
    have := count_id_pos he
    have := count_iid_pos hmem
    rw [heq] at *
    simp only at *
    omega
  -- population entries that were there before keep their facts
  have hold : ∀ e ∈ s.core.pop, (∃ sd, Act.start sd e.id e.v ∈ acts ++ [.item ind.id seed (r.map (·.1))]) ∧
      itemVals e.id (acts ++ [.item ind.id seed (r.map (·.1))]) = samplesOf e.st ∧
      nHandouts e.id (acts ++ [.item ind.id seed (r.map (·.1))]) = (samplesOf e.st).length ∧ stateOk ss e ∧
      (∃ m, e.obj = summ (samplesOf e.st) m) := by
    intro e he
    obtain ⟨⟨sd0, p1⟩, p2, p3, p4, p5⟩ := h.popEntry e he
    refine ⟨⟨sd0, List.mem_append_left _ p1⟩, ?_, ?_, p4, p5⟩
    · rw [itemVals_append, itemVals_item_ne _ _ (Ne.symm (hpopNe e he)), List.append_nil]; exact p2
    · rw [nHandouts_append, nHandouts_item, Nat.add_zero]; exact p3
  refine ⟨?_, ?_, ?_, ?_, ?_, ?_, ?_, ?_, ?_, ?_, ?_, ?_, ?_, ?_⟩
  · rw [hc, g1]; exact h.cfgSS
  · rw [hc, g2]; exact h.cfgMax
  · rw [hc, g3]; exact h.cfgMin
  · rw [hc]
    cases r with
    | none => exact h.sorted
    | some p =>
      obtain ⟨x, m⟩ := p
      rw [proc_some]
      exact (ins_sorted _ h.sorted).sublist (List.take_sublist _ _)
  · rw [hc, hi]
    apply nodup_of_cnt
    intro a
    have := cnt a
    have := ec a
    cases r with
    | none => rw [proc_none]; omega
    | some p =>
      obtain ⟨x, m⟩ := p
      rw [proc_some]
      have c1 := ((List.take_sublist s.core.maxPop (ins (newEntry s.core.sampleSize ind x m) s.core.pop)).map
        (·.id)).count_le a
      have c2 := count_ins_le (newEntry s.core.sampleSize ind x m) s.core.pop a
      have e1 : (newEntry s.core.sampleSize ind x m).id = ind.id := rfl
      rw [e1] at c2
      simp only at c1 ⊢
      omega
  · intro sd id v hm
    simp only [List.mem_append, List.mem_singleton, reduceCtorEq, or_false] at hm
    rw [hc, g6]; exact h.startsLt _ _ _ hm
  · intro sd id v sd' v' hm hm'
    simp only [List.mem_append, List.mem_singleton, reduceCtorEq, or_false] at hm hm'
    exact h.startsSame _ _ _ _ _ hm hm'
  · intro e he
    rw [hc] at he
    cases r with
    | none => exact hold e he
    | some p =>
      obtain ⟨x, m⟩ := p
      rw [proc_some] at he
      rcases mem_ins (List.mem_of_mem_take he) with rfl | he
      · have hsm := newEntry_samples s.core.sampleSize ind x m
        rw [hsm]
        have e1 : (newEntry s.core.sampleSize ind x m).id = ind.id := rfl
        have e2 : (newEntry s.core.sampleSize ind x m).v = ind.v := rfl
        rw [e1, e2]
        refine ⟨⟨seed, List.mem_append_left _ q1⟩, ?_, ?_, ?_, ⟨m, rfl⟩⟩
        · simp only [Option.map]
          rw [itemVals_append, itemVals_itemA, if_pos rfl, q2]
        · rw [nHandouts_append, nHandouts_item, Nat.add_zero, q3]; simp
        · rw [h.cfgSS]; exact stateOk_newEntry ss ind x m q4
      · exact hold e he
  · intro p hp
    rw [hi] at hp
    obtain ⟨r1, r2, r3, r4⟩ := h.inflEntry p (hsubI p hp)
    refine ⟨List.mem_append_left _ r1, ?_, ?_, r4⟩
    · rw [itemVals_append, itemVals_item_ne _ _ (Ne.symm (hinflNe p hp)), List.append_nil]; exact r2
    · rw [nHandouts_append, nHandouts_item, Nat.add_zero]; exact r3
  · intro id
    rw [nHandouts_append, nHandouts_item, Nat.add_zero]; exact h.handoutBound id
  · rw [hc, g4, g5, startsOf_append, startsOf_item, List.append_nil]; exact h.first
  · intro h1 id sd x hm
    rw [hc]
    cases r with
    | none =>
      simp only [Option.map, List.mem_append, List.mem_singleton, Act.item.injEq, reduceCtorEq, and_false,
        or_false] at hm
      exact h.headMin h1 id sd x hm
    | some p =>
      obtain ⟨x0, m⟩ := p
      rw [proc_some]
      have hpos : 0 < s.core.maxPop := by rw [h.cfgMax]; decide
      rw [head?_take_pos hpos]
      obtain ⟨hd, hh1, hh2, hh3⟩ := head_ins (newEntry s.core.sampleSize ind x0 m) s.core.pop
      refine ⟨hd, hh1, ?_⟩
      simp only [Option.map, List.mem_append, List.mem_singleton, Act.item.injEq, Option.some.injEq] at hm
      rcases hm with hm | ⟨rfl, _, rfl⟩
      · obtain ⟨h0, k1, k2⟩ := h.headMin h1 id sd x hm
        have := hh3 h0 k1
        simp only [keyLe] at this
        omega
      · have hs : ind.samples = [] := by
          apply List.eq_nil_of_length_eq_zero; omega
        have e1 : (newEntry s.core.sampleSize ind x m).obj = x := by
          simp only [newEntry, hs, List.nil_append, summ]
        have e2 : (newEntry s.core.sampleSize ind x m).id = ind.id := rfl
        rw [e1, e2] at hh2
        exact hh2
  · intro id sd r' hm
    simp only [List.mem_append, List.mem_singleton, Act.item.injEq] at hm
    rw [hc, g6]
    rcases hm with hm | ⟨rfl, _, _⟩
    · exact h.itemsLt _ _ _ hm
    · exact hidLt
  · intro hs
    rw [startsOf_append, startsOf_item, List.append_nil] at hs
    rw [hc, g5, g6, hn]
    exact h.fresh0 hs

/-! ### steps that neither hand out nor report an individual -/

/-- `broadcastAbort` and `ret` actions -/
def Act.neutral : Act V → Prop
  | .broadcastAbort => True
  | .ret _ _ => True
  | _ => False

theorem neutral_obs {extra : List (Act V)} (hex : ∀ a ∈ extra, a.neutral) :
    (∀ id, itemVals id extra = []) ∧ (∀ id, nHandouts id extra = 0) ∧ startsOf extra = [] ∧
    (∀ sd id v, Act.start sd id v ∉ extra) ∧ (∀ id sd r, Act.item id sd r ∉ extra) := by
  induction extra with
  | nil => exact ⟨fun _ => rfl, fun _ => rfl, rfl, by simp, by simp⟩
  | cons a as ih =>
    obtain ⟨i1, i2, i3, i4, i5⟩ := ih (fun b hb => hex b (List.mem_cons_of_mem _ hb))
    have ha := hex a List.mem_cons_self
    have e : a :: as = [a] ++ as := rfl
    cases a with
    | broadcastAbort =>
      refine ⟨fun id => ?_, fun id => ?_, ?_, ?_, ?_⟩
      · rw [e, itemVals_append, i1]; rfl
      · rw [e, nHandouts_append, i2]; rfl
      · rw [e, startsOf_append, i3]; rfl
      · intro sd id v hm
        simp only [List.mem_cons, reduceCtorEq, false_or] at hm
        exact i4 _ _ _ hm
      · intro sd id v hm
        simp only [List.mem_cons, reduceCtorEq, false_or] at hm
        exact i5 _ _ _ hm
    | ret o d =>
      refine ⟨fun id => ?_, fun id => ?_, ?_, ?_, ?_⟩
      · rw [e, itemVals_append, i1]; rfl
      · rw [e, nHandouts_append, i2]; rfl
      · rw [e, startsOf_append, i3]; rfl
      · intro sd id v hm
        simp only [List.mem_cons, reduceCtorEq, false_or] at hm
        exact i4 _ _ _ hm
      · intro sd id v hm
        simp only [List.mem_cons, reduceCtorEq, false_or] at hm
        exact i5 _ _ _ hm
    | start _ _ _ => exact absurd ha (by simp [Act.neutral])
    | item _ _ _ => exact absurd ha (by simp [Act.neutral])

theorem eraseSeed_sublist (seed : Nat) (l : List (Nat × Ind V)) : (eraseSeed seed l).Sublist l := by
  induction l with
  | nil => exact List.Sublist.refl _
  | cons p r ih =>
    obtain ⟨k, j⟩ := p
    simp only [eraseSeed]
    split
    · exact List.sublist_cons_self _ _
    · exact ih.cons_cons _

theorem popInv_weaken {ss : Nat} {s s' : St V} {acts : List (Act V)} (h : PopInv ss s acts) (hc : s'.core = s.core)
    (hi : s'.inflight.Sublist s.inflight) (hn : s'.nextSeed = s.nextSeed) {extra : List (Act V)}
    (hex : ∀ a ∈ extra, a.neutral) : PopInv ss s' (acts ++ extra) := by
  obtain ⟨o1, o2, o3, o4, o5⟩ := neutral_obs hex
  have hst : ∀ sd id v, Act.start sd id v ∈ acts ++ extra → Act.start sd id v ∈ acts := by
    intro sd id v hm
    rcases List.mem_append.1 hm with hm | hm
    · exact hm
    · exact absurd hm (o4 _ _ _)
  have hit : ∀ id sd r, Act.item id sd r ∈ acts ++ extra → Act.item id sd r ∈ acts := by
    intro sd id v hm
    rcases List.mem_append.1 hm with hm | hm
    · exact hm
    · exact absurd hm (o5 _ _ _)
  refine ⟨?_, ?_, ?_, ?_, ?_, ?_, ?_, ?_, ?_, ?_, ?_, ?_, ?_, ?_⟩
  · rw [hc]; exact h.cfgSS
  · rw [hc]; exact h.cfgMax
  · rw [hc]; exact h.cfgMin
  · rw [hc]; exact h.sorted
  · rw [hc]
    exact h.idsNodup.sublist ((List.Sublist.refl _).append (hi.map _))
  · intro sd id v hm
    rw [hc]; exact h.startsLt _ _ _ (hst _ _ _ hm)
  · intro sd id v sd' v' hm hm'
    exact h.startsSame _ _ _ _ _ (hst _ _ _ hm) (hst _ _ _ hm')
  · intro e he
    rw [hc] at he
    obtain ⟨⟨sd0, p1⟩, p2, p3, p4, p5⟩ := h.popEntry e he
    exact ⟨⟨sd0, List.mem_append_left _ p1⟩, by rw [itemVals_append, o1, List.append_nil]; exact p2,
      by rw [nHandouts_append, o2, Nat.add_zero]; exact p3, p4, p5⟩
  · intro p hp
    obtain ⟨r1, r2, r3, r4⟩ := h.inflEntry p (hi.subset hp)
    exact ⟨List.mem_append_left _ r1, by rw [itemVals_append, o1, List.append_nil]; exact r2,
      by rw [nHandouts_append, o2, Nat.add_zero]; exact r3, r4⟩
  · intro id
    rw [nHandouts_append, o2, Nat.add_zero]; exact h.handoutBound id
  · rw [hc, startsOf_append, o3, List.append_nil]; exact h.first
  · intro h1 id sd x hm
    rw [hc]; exact h.headMin h1 id sd x (hit _ _ _ hm)
  · intro id sd r hm
    rw [hc]; exact h.itemsLt _ _ _ (hit _ _ _ hm)
  · intro hs
    rw [startsOf_append, o3, List.append_nil] at hs
    rw [hc, hn]; exact h.fresh0 hs

theorem popInv_same {ss : Nat} {s s' : St V} {acts : List (Act V)} (h : PopInv ss s acts) (hc : s'.core = s.core)
    (hi : s'.inflight.Sublist s.inflight) (hn : s'.nextSeed = s.nextSeed) : PopInv ss s' acts := by
  have := popInv_weaken h hc hi hn (extra := []) (by simp)
  simpa using this

theorem neutral_ret (o : Outcome V) (d : List Nat) : ∀ a ∈ [(.ret o d : Act V)], a.neutral := by
  intro a ha
  rw [List.mem_singleton] at ha
  subst ha
  exact True.intro

theorem neutral_bc : ∀ a ∈ [(.broadcastAbort : Act V)], a.neutral := by
  intro a ha
  rw [List.mem_singleton] at ha
  subst ha
  exact True.intro

/-! ### the controller -/

theorem finish_popInv {ss : Nat} {s : St V} {acts : List (Act V)} (h : PopInv ss s acts) :
    PopInv ss (finish s acts).1 (finish s acts).2 := by
  simp only [finish]
  refine popInv_weaken h ?_ ?_ ?_ (neutral_ret _ _)
  · rfl
  · exact List.Sublist.refl _
  · rfl

theorem again_popInv {ss : Nat} {s : St V} {acts : List (Act V)} (h : PopInv ss s acts) :
    PopInv ss (again s acts).1 (again s acts).2 := by
  simp only [again]
  split
  · exact finish_popInv h
  · exact h

theorem startOne_popInv {ss : Nat} {s : St V} {acts : List (Act V)} (hss : 0 < ss) (ch : Choice V)
    (h : PopInv ss s acts) : PopInv ss (startOne s ch).1 (acts ++ [(startOne s ch).2]) := by
  simp only [startOne]
  exact popInv_start hss h ch rfl rfl

theorem afterResult_popInv {ss : Nat} {c : Cfg} {s : St V} {ch : Choice V} {acts : List (Act V)} (hss : 0 < ss)
    (h : PopInv ss s acts) : PopInv ss (afterResult c s ch acts).1 (afterResult c s ch acts).2 := by
  simp only [afterResult]
  split
  · exact finish_popInv h
  · split
    · exact finish_popInv h
    · split
      · exact startOne_popInv hss ch h
      · exact again_popInv h

theorem onResult_popInv {ss : Nat} {c : Cfg} {s : St V} {acts : List (Act V)} {seed : Nat} {ind : Ind V} (hss : 0 < ss)
    (r : Option (Int × Int)) (ch : Choice V) (hl : lookupSeed seed s.inflight = some ind) (h : PopInv ss s acts) :
    PopInv ss (onResult c s seed ind r ch).1 (acts ++ (onResult c s seed ind r ch).2) := by
  simp only [onResult]
  have h1 : PopInv ss (resultState s seed ind r) (acts ++ [.item ind.id seed (r.map (·.1))]) :=
    popInv_result h r hl rfl rfl rfl
  have := afterResult_popInv (c := c) (ch := ch) hss h1
  rw [afterResult_append] at this
  exact this

theorem onFail_popInv {ss : Nat} {s1 : St V} {acts : List (Act V)} (er : Nat) (h : PopInv ss s1 acts) :
    PopInv ss (onFail s1 er).1 (acts ++ (onFail s1 er).2) := by
  simp only [onFail]
  split
  · have := again_popInv h
    have e := again_append s1 acts []
    simp only [List.append_nil] at e
    rw [e] at this; exact this
  · have h1 : PopInv ss { s1 with aborted := true, err := some er } (acts ++ [.broadcastAbort]) := by
      refine popInv_weaken h ?_ ?_ ?_ neutral_bc
      · rfl
      · exact List.Sublist.refl _
      · rfl
    have := again_popInv h1
    rw [again_append] at this; exact this

theorem onAbort_popInv {ss : Nat} {s : St V} {acts : List (Act V)} (h : PopInv ss s acts) :
    PopInv ss (onAbort s).1 (acts ++ (onAbort s).2) := by
  simp only [onAbort]
  split
  · simpa using h
  · refine popInv_weaken h ?_ ?_ ?_ neutral_bc
    · rfl
    · exact List.Sublist.refl _
    · rfl

theorem step_popInv {ss : Nat} {c : Cfg} {s : St V} {acts : List (Act V)} (hss : 0 < ss) (e : Ev V)
    (h : PopInv ss s acts) : PopInv ss (step c s e).1 (acts ++ (step c s e).2) := by
  cases e with
  | abortReq =>
    simp only [step]
    split
    · simpa using h
    · exact onAbort_popInv h
  | complete seed r ch =>
    simp only [step]
    split
    · simpa using h
    · split
      · simpa using h
      · rename_i ind hl
        cases r with
        | acc x m => exact onResult_popInv hss _ ch hl h
        | rej => exact onResult_popInv hss _ ch hl h
        | fail er =>
          apply onFail_popInv
          exact popInv_same h rfl (eraseSeed_sublist _ _) rfl

theorem startMany_popInv {ss : Nat} (hss : 0 < ss) (chs : Nat → Choice V) :
    ∀ (n i : Nat) (s : St V) (acts : List (Act V)), PopInv ss s acts →
      PopInv ss (startMany chs n i s acts).1 (startMany chs n i s acts).2
  | 0, _, _, _, h => by simpa [startMany] using h
  | n+1, i, s, acts, h => by
    simp only [startMany]
    exact startMany_popInv hss chs n (i+1) _ _ (startOne_popInv hss (chs i) h)

theorem init_popInv (c : Cfg) (ss : Nat) (hss : 0 < ss) (v0 d : V) (chs : Nat → Choice V) :
    PopInv ss (init c ss (some v0) d chs).1 (init c ss (some v0) d chs).2 := by
  simp only [init]
  have h0 : PopInv ss ({ core := Algo.new v0 ss } : St V) [] := by
    refine ⟨rfl, rfl, rfl, ?_, ?_, ?_, ?_, ?_, ?_, ?_, ?_, ?_, ?_, ?_⟩
    · simp [Algo.new]
    · simp [Algo.new]
    · intro sd id v hm; simp at hm
    · intro sd id v sd' v' hm; simp at hm
    · intro e he; simp [Algo.new] at he
    · intro p hp; simp at hp
    · intro id; simp [nHandouts]
    · exact ⟨fun _ => rfl, fun x xs hx => by simp [startsOf] at hx⟩
    · intro _ id sd x hm; simp at hm
    · intro id sd r hm; simp at hm
    · intro _; exact ⟨rfl, rfl, rfl⟩
  exact again_popInv (startMany_popInv hss chs _ _ _ _ h0)

theorem runFrom_popInv {ss : Nat} {c : Cfg} (hss : 0 < ss) : ∀ (evs : List (Ev V)) (s : St V) (acts : List (Act V)),
    PopInv ss s acts → PopInv ss (runFrom c s acts evs).1 (runFrom c s acts evs).2
  | [], _, _, h => h
  | e :: es, s, acts, h => by
    simp only [runFrom]
    exact runFrom_popInv hss es _ _ (step_popInv hss e h)

/-- the invariant holds after every schedule (valid configuration: sample size and concurrency at least 1) -/
theorem run_popInv (c : Cfg) (ss : Nat) (hss : 0 < ss) (v0 d : V) (chs : Nat → Algo.Choice V) (evs : List (Ev V)) :
    PopInv ss (run c ss (some v0) d chs evs).1 (run c ss (some v0) d chs evs).2 :=
  runFrom_popInv hss evs _ _ (init_popInv c ss hss v0 d chs)

end Cambrian.Ctl
