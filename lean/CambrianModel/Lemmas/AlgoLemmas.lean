/-
Facts about the algorithm core (`ins`, `extractBestReady`, `next`, `proc`) used by the population invariant.
-/
import CambrianModel.Model.Algo
namespace Cambrian.Algo

variable {V : Type}

/-- the strict order of the ranked population -/
abbrev entLt (a b : Entry V) : Prop := keyLt a.obj a.id b.obj b.id = true

theorem keyLt_iff (o1 : Int) (i1 : Nat) (o2 : Int) (i2 : Nat) :
    keyLt o1 i1 o2 i2 = true ↔ (o1 < o2 ∨ (o1 = o2 ∧ i1 < i2)) := by
  simp [keyLt]

/-! ### `ins` -/

theorem mem_ins {e y : Entry V} {l : List (Entry V)} (h : y ∈ ins e l) : y = e ∨ y ∈ l := by
  induction l with
  | nil => simpa [ins] using h
  | cons x xs ih =>
    simp only [ins] at h
    split at h
    · simpa using h
    · split at h
      · simp only [List.mem_cons] at h ⊢
        rcases h with h | h
        · exact Or.inr (Or.inl h)
        · rcases ih h with h | h
          · exact Or.inl h
          · exact Or.inr (Or.inr h)
      · simp only [List.mem_cons] at h ⊢
        rcases h with h | h
        · exact Or.inl h
        · exact Or.inr (Or.inr h)

theorem ins_sorted (e : Entry V) {l : List (Entry V)} (h : l.Pairwise entLt) : (ins e l).Pairwise entLt := by
  induction l with
  | nil => simp [ins]
  | cons x xs ih =>
    rw [List.pairwise_cons] at h
    obtain ⟨hx, hxs⟩ := h
    simp only [ins]
    split
    · rename_i h1
      rw [List.pairwise_cons]
      refine ⟨?_, List.pairwise_cons.2 ⟨hx, hxs⟩⟩
      intro y hy
      simp only [List.mem_cons] at hy
      rcases hy with rfl | hy
      · exact h1
      · have := hx y hy
        simp only [entLt, keyLt_iff] at h1 this ⊢
        omega
    · rename_i h1
      split
      · rename_i h2
        rw [List.pairwise_cons]
        refine ⟨?_, ih hxs⟩
        intro y hy
        rcases mem_ins hy with rfl | hy
        · exact h2
        · exact hx y hy
      · rename_i h2
        rw [List.pairwise_cons]
        refine ⟨?_, hxs⟩
        intro y hy
        have := hx y hy
        simp only [entLt, keyLt_iff] at h1 h2 this ⊢
        omega

theorem count_ins_le (e : Entry V) (l : List (Entry V)) (a : Nat) :
    ((ins e l).map (·.id)).count a ≤ (l.map (·.id)).count a + (if e.id = a then 1 else 0) := by
  induction l with
  | nil => simp [ins, List.count_cons]
  | cons x xs ih =>
    simp only [ins]
    split
    · simp only [List.map_cons, List.count_cons, beq_iff_eq]
      split <;> split <;> omega
    · split
      · simp only [List.map_cons, List.count_cons, beq_iff_eq] at ih ⊢
        by_cases h1 : e.id = a <;> by_cases h2 : x.id = a <;> simp only [h1, h2, if_true, if_false] at ih ⊢ <;> omega
      · simp only [List.map_cons, List.count_cons, beq_iff_eq]
        split <;> split <;> omega

/-- non-strict key order, on explicit keys -/
def keyLe (o1 : Int) (i1 : Nat) (o2 : Int) (i2 : Nat) : Prop := o1 < o2 ∨ (o1 = o2 ∧ i1 ≤ i2)

theorem keyLe_trans {o1 o2 o3 : Int} {i1 i2 i3 : Nat} (h1 : keyLe o1 i1 o2 i2) (h2 : keyLe o2 i2 o3 i3) :
    keyLe o1 i1 o3 i3 := by
  simp only [keyLe] at *; omega

/-- the head of `ins e l` is the smaller of `e` and the old head -/
theorem head_ins (e : Entry V) (l : List (Entry V)) :
    ∃ h, (ins e l).head? = some h ∧ keyLe h.obj h.id e.obj e.id ∧
      (∀ h0, l.head? = some h0 → keyLe h.obj h.id h0.obj h0.id) := by
  cases l with
  | nil => exact ⟨e, by simp [ins], by simp [keyLe], by simp⟩
  | cons x xs =>
    simp only [ins]
    split
    · rename_i h1
      refine ⟨e, by simp, by simp [keyLe], ?_⟩
      intro h0 hh
      simp only [List.head?_cons, Option.some.injEq] at hh
      subst hh
      simp only [keyLt_iff] at h1
      simp only [keyLe]; omega
    · rename_i h1
      split
      · rename_i h2
        refine ⟨x, by simp, ?_, ?_⟩
        · simp only [keyLt_iff] at h2
          simp only [keyLe]; omega
        · intro h0 hh
          simp only [List.head?_cons, Option.some.injEq] at hh
          subst hh
          simp [keyLe]
      · rename_i h2
        refine ⟨e, by simp, by simp [keyLe], ?_⟩
        intro h0 hh
        simp only [List.head?_cons, Option.some.injEq] at hh
        subst hh
        simp only [keyLt_iff] at h1 h2
        simp only [keyLe]; omega

theorem head?_take_pos {α} {n : Nat} (hn : 0 < n) (l : List α) : (l.take n).head? = l.head? := by
  cases n with
  | zero => omega
  | succ n => cases l <;> simp

/-! ### `extractBestReady` -/

theorem extract_facts {l : List (Entry V)} {e : Entry V} {rest : List (Entry V)}
    (h : extractBestReady l = some (e, rest)) :
    isReady e = true ∧ e ∈ l ∧ rest.Sublist l ∧
    (∀ a, (l.map (·.id)).count a = (rest.map (·.id)).count a + (if e.id = a then 1 else 0)) := by
  induction l generalizing rest with
  | nil => simp [extractBestReady] at h
  | cons x xs ih =>
    simp only [extractBestReady] at h
    split at h
    · rename_i hr
      simp only [Option.some.injEq, Prod.mk.injEq] at h
      obtain ⟨rfl, rfl⟩ := h
      refine ⟨hr, by simp, by simp, ?_⟩
      intro a
      simp only [List.map_cons, List.count_cons, beq_iff_eq]
    · split at h
      · rename_i e' r' he
        simp only [Option.some.injEq, Prod.mk.injEq] at h
        obtain ⟨rfl, rfl⟩ := h
        obtain ⟨h1, h2, h3, h4⟩ := ih he
        refine ⟨h1, List.mem_cons_of_mem _ h2, h3.cons_cons _, ?_⟩
        intro a
        have := h4 a
        simp only [List.map_cons, List.count_cons, beq_iff_eq]
        omega
      · simp at h

/-! ### `next` -/

theorem next_cases (a : St V) (c : Choice V) :
    next a c = fresh a c ∨
    (1 < a.sampleSize ∧ ∃ e rest, extractBestReady a.pop = some (e, rest) ∧
      next a c = ({ a with pop := rest }, { id := e.id, v := e.v, samples := samplesOf e.st })) := by
  simp only [next]
  split
  · rename_i hc
    simp only [Bool.and_eq_true, decide_eq_true_eq] at hc
    split
    · rename_i e rest he
      exact Or.inr ⟨hc.1.2, e, rest, he, rfl⟩
    · exact Or.inl rfl
  · exact Or.inl rfl

/-- everything the invariant needs to know about one `next_individual` -/
theorem next_spec (a : St V) (c : Choice V) :
    (next a c).1.sampleSize = a.sampleSize ∧ (next a c).1.maxPop = a.maxPop ∧
    (next a c).1.minReeval = a.minReeval ∧ (next a c).1.init = a.init ∧
    (next a c).1.pop.Sublist a.pop ∧ a.nextId ≤ (next a c).1.nextId ∧
    (((next a c).1.pop = a.pop ∧ (next a c).2.id = a.nextId ∧ (next a c).1.nextId = a.nextId + 1 ∧
        (next a c).2.samples = [] ∧ (next a c).1.initUsed = true ∧
        (next a c).2.v = (if a.initUsed then c.v else a.init)) ∨
     (1 < a.sampleSize ∧ (next a c).1.nextId = a.nextId ∧ (next a c).1.initUsed = a.initUsed ∧
        ∃ e, e ∈ a.pop ∧ isReady e = true ∧ (next a c).2.id = e.id ∧ (next a c).2.v = e.v ∧
          (next a c).2.samples = samplesOf e.st ∧
          (∀ x, (a.pop.map (·.id)).count x = ((next a c).1.pop.map (·.id)).count x + (if e.id = x then 1 else 0)))) := by
  rcases next_cases a c with h | ⟨h1, e, rest, he, h⟩
  · rw [h]
    simp [fresh]
  · rw [h]
    obtain ⟨f1, f2, f3, f4⟩ := extract_facts he
    refine ⟨rfl, rfl, rfl, rfl, f3, Nat.le_refl _, Or.inr ⟨h1, rfl, rfl, e, f2, f1, rfl, rfl, rfl, f4⟩⟩

/-! ### `proc` -/

theorem proc_none (a : St V) (ind : Ind V) : proc a ind none = a := rfl

/-- the entry that `proc` inserts for an accepted result -/
def newEntry (ss : Nat) (ind : Ind V) (x m : Int) : Entry V :=
  { obj := summ (ind.samples ++ [x]) m, id := ind.id, v := ind.v,
    st := if (ind.samples ++ [x]).length == ss then IState.final (summ (ind.samples ++ [x]) m) (ind.samples ++ [x])
          else IState.ready (ind.samples ++ [x]) }

theorem proc_some (a : St V) (ind : Ind V) (x m : Int) :
    proc a ind (some (x, m)) = { a with pop := (ins (newEntry a.sampleSize ind x m) a.pop).take a.maxPop } := rfl

theorem newEntry_samples (ss : Nat) (ind : Ind V) (x m : Int) :
    samplesOf (newEntry ss ind x m).st = ind.samples ++ [x] := by
  simp only [newEntry]
  split <;> rfl

end Cambrian.Algo
