/-
Lemmas behind C01 (mutation closure) and C13 (mutation is local), for every spec / value / nesting.

  * `mutAcc_zero_id`     : probability 0, the output is the input
  * `mutAcc_conf`        : mutation preserves conformance.  STATEMENT CHANGE: one ADDED HYPOTHESIS
                           `(hk : keysBounded vo = true)` (every map key of the output is `≤ usizeMax`), see the
                           counterexample at `keysBounded` below
  * `mutAcc_resizeLocal` : every accepted output satisfies C13's locality predicate
-/
import CambrianModel.Model.Mutation
import CambrianModel.Lemmas.JsonLemmas
namespace Cambrian

/-! ### probability 0: the output is the input -/

mutual
/-- probability 0: the output is the input -/
theorem mutAcc_zero_id (s : SNode) (vi vo : VNode) (hi : conf s vi = true)
    (h : mutAcc .zero s vi vo = true) : vo = vi := by
  cases vo with
  | real y => cases s <;> cases vi <;> simp [mutAcc] at h <;> simp [h]
  | int y => cases s <;> cases vi <;> simp [mutAcc] at h <;> simp [h]
  | bool y => cases s <;> cases vi <;> simp [mutAcc] at h <;> simp [h]
  | «enum» y => cases s <;> cases vi <;> simp [mutAcc] at h <;> simp [h]
  | const => cases s <;> cases vi <;> simp [mutAcc] at h <;> simp [conf] at hi <;> rfl
  | onone => cases s <;> cases vi <;> simp [mutAcc] at h <;> rfl
  | osome v' =>
      cases s <;> cases vi <;> simp [mutAcc] at h
      case opt.osome e _ v => rw [mutAcc_zero_id e v v' (by simpa [conf] using hi) h]
  | sub fo =>
      cases s <;> cases vi <;> simp [mutAcc] at h
      case sub.sub sf fi => rw [mutAcc_zero_fields sf fi fo (by simpa [conf] using hi) h]
  | array lo =>
      cases s <;> cases vi <;> simp [mutAcc] at h
      case array.array e _ li =>
        simp only [conf, Bool.and_eq_true] at hi
        rw [mutAcc_zero_list e li lo hi.2 h]
  | variant n' v' =>
      cases s <;> cases vi <;> try (simp [mutAcc] at h; done)
      case variant.variant opts _ n v =>
        simp only [mutAcc] at h
        split at h
        · rename_i hn
          simp at h
          have hn' : n = n' := by simpa using hn
          subst hn'
          simp only [conf] at hi
          cases ho : opts.lookup n with
          | none => simp [ho] at h
          | some cs =>
            simp only [ho] at h hi
            rw [mutAcc_zero_id cs v v' hi h]
        · simp at h
  | amap mo =>
      cases s <;> cases vi <;> try (simp [mutAcc] at h; done)
      case amap.amap e _ mn mx mi =>
        simp only [conf, Bool.and_eq_true] at hi
        simp only [mutAcc] at h
        split at h
        · simp at h; rw [mutAcc_zero_same e mi mo hi.2 h]
        · split at h
          · simp at h
          · split at h
            · split at h <;> simp at h
            · simp at h
theorem mutAcc_zero_fields (sf : SFields) (fi fo : VFields) (hi : confFields sf fi = true)
    (h : mutAccFields .zero sf fi fo = true) : fo = fi := by
  cases fo with
  | nil => cases sf <;> cases fi <;> simp [mutAccFields] at h <;> rfl
  | cons k2 v' vr' =>
      cases sf <;> cases fi <;> simp [mutAccFields] at h
      case cons.cons k s sr k1 v vr =>
        simp only [confFields, Bool.and_eq_true] at hi
        obtain ⟨⟨⟨h1, h2⟩, h3⟩, h4⟩ := h
        rw [mutAcc_zero_id s v v' hi.1.2 h3, mutAcc_zero_fields sr vr vr' hi.2 h4, ← h1, ← h2]
theorem mutAcc_zero_list (e : SNode) (li lo : VList) (hi : confList e li = true)
    (h : mutAccList .zero e li lo = true) : lo = li := by
  cases lo with
  | nil => cases li <;> simp [mutAccList] at h <;> rfl
  | cons v' r' =>
      cases li <;> simp [mutAccList] at h
      case cons v r =>
        simp only [confList, Bool.and_eq_true] at hi
        rw [mutAcc_zero_id e v v' hi.1 h.1, mutAcc_zero_list e r r' hi.2 h.2]
theorem mutAcc_zero_same (e : SNode) (mi mo : VEntries) (hi : confEntries e mi = true)
    (h : mutAccSame .zero e mi mo = true) : mo = mi := by
  cases mo with
  | nil => cases mi <;> simp [mutAccSame] at h <;> rfl
  | cons k' v' r' =>
      cases mi <;> simp [mutAccSame] at h
      case cons k v r =>
        simp only [confEntries, Bool.and_eq_true] at hi
        rw [mutAcc_zero_id e v v' hi.1 h.1.2, mutAcc_zero_same e r r' hi.2 h.2, h.1.1]
end


/-! ### mutation preserves conformance -/

theorem F64.max_fin (a b : Int) : F64.max (.fin a) (.fin b) = .fin (if a < b then b else a) := by
  simp only [F64.max, F64.lt]; by_cases h : a < b <;> simp [h]
theorem F64.min_fin (a b : Int) : F64.min (.fin a) (.fin b) = .fin (if b < a then b else a) := by
  simp only [F64.min, F64.lt]; by_cases h : b < a <;> simp [h]

theorem realOut_inBounds (y : F64) (mn mx : Option F64)
    (hlt : (match mn, mx with | some a, some b => F64.lt a b | _, _ => true) = true)
    (hmn : optAll F64.isFinite mn = true) (hmx : optAll F64.isFinite mx = true)
    (h : realOut y mn mx = true) : inBoundsF y mn mx = true := by
  cases y <;> simp [realOut, F64.isFinite] at h
  rcases mn with _ | (_ | _ | a | _) <;> rcases mx with _ | (_ | _ | b | _) <;>
    simp [optAll, F64.isFinite] at hmn hmx <;>
    simp [F64.lt] at hlt <;>
    simp [clampR, F64.max_fin, F64.min_fin] at h <;>
    simp [inBoundsF, optAll, F64.isFinite, F64.le_fin] <;>
    (try split at h) <;> (try split at h) <;> omega

theorem intOut_inBounds (y : Int) (mn mx : Option Int)
    (hlt : (match mn, mx with | some a, some b => decide (a < b) | _, _ => true) = true)
    (h : intOut y mn mx = true) : inBoundsI y mn mx = true := by
  simp only [intOut, Bool.and_eq_true] at h
  obtain ⟨h1, h2⟩ := h
  rcases mn with _ | a <;> rcases mx with _ | b <;>
    simp [clampI] at h2 <;> simp at hlt <;> simp [inBoundsI, optAll, h1] <;>
    (try split at h2) <;> (try split at h2) <;> omega


/-! ### entries helpers -/
theorem VEntries.lookup_conf (e : SNode) : ∀ (m : VEntries) (k : Nat) (v : VNode), confEntries e m = true →
    m.lookup k = some v → conf e v = true
  | .nil, _, _, _, h => by simp [VEntries.lookup] at h
  | .cons k' v' r, k, v, hc, h => by
      simp only [confEntries, Bool.and_eq_true] at hc
      simp only [VEntries.lookup] at h
      split at h
      · injection h with h; subst h; exact hc.1
      · exact VEntries.lookup_conf e r k v hc.2 h

theorem VEntries.any_conf (e : SNode) (f : VNode → Bool) : ∀ (m : VEntries), confEntries e m = true →
    m.any f = true → ∃ v, conf e v = true ∧ f v = true
  | .nil, _, h => by simp [VEntries.any] at h
  | .cons _ v r, hc, h => by
      simp only [confEntries, Bool.and_eq_true] at hc
      simp only [VEntries.any, Bool.or_eq_true] at h
      rcases h with h | h
      · exact ⟨v, hc.1, h⟩
      · exact VEntries.any_conf e f r hc.2 h

theorem VEntries.lookup_mem_keys : ∀ (m : VEntries) (k : Nat) (v : VNode), m.lookup k = some v → k ∈ m.keys
  | .nil, _, _, h => by simp [VEntries.lookup] at h
  | .cons k' v' r, k, v, h => by
      simp only [VEntries.lookup] at h
      simp only [VEntries.keys, List.mem_cons]
      split at h
      · rename_i hk; left; simpa using Eq.symm (by simpa using hk)
      · right; exact VEntries.lookup_mem_keys r k v h

/-! ### size bounds -/
theorem sizeOk_remove (n n' : Nat) (mn mx : Option Nat) (h : sizeOk n mn mx = true) (hn : n' + 1 = n)
    (hmin : atMin n mn = false) : sizeOk n' mn mx = true := by
  subst hn
  rcases mn with _ | a <;> rcases mx with _ | b <;> simp [sizeOk, optAll] at h ⊢ <;> simp [atMin] at hmin <;> omega

theorem sizeOk_add (n n' : Nat) (mn mx : Option Nat)
    (hlt : (match mn, mx with | some a, some b => decide (a < b) | _, _ => true) = true)
    (h : sizeOk n mn mx = true) (hn : n' = n + 1)
    (h0 : (mx != some 0) = true)
    (hc : (atMin n mn || !(atMax n mx)) = true) : sizeOk n' mn mx = true := by
  subst hn
  rcases mn with _ | a <;> rcases mx with _ | b <;> simp [sizeOk, optAll] at h ⊢ <;> simp [atMin, atMax] at hc <;>
    simp at hlt h0 <;> omega

/-! ### ADDED HYPOTHESIS of `mutAcc_conf`

`keysBounded v`: every map key anywhere in `v` is at most `usize::MAX` (true of every Rust value: keys are `usize`).
The acceptor `mutAcc` puts no bound on the key of an ADDED map element (it only demands that the key is not a key of
the input map), while `conf` demands `k ≤ usizeMax` of every key; so without this hypothesis `mutAcc_conf` is false
(the `example` after the definition is the counterexample). -/
mutual
def keysBounded : VNode → Bool
  | .sub f => keysBoundedFields f
  | .array l => keysBoundedList l
  | .amap m => keysBoundedEntries m
  | .variant _ v => keysBounded v
  | .osome v => keysBounded v
  | _ => true
def keysBoundedFields : VFields → Bool
  | .nil => true | .cons _ v r => keysBounded v && keysBoundedFields r
def keysBoundedList : VList → Bool
  | .nil => true | .cons v r => keysBounded v && keysBoundedList r
def keysBoundedEntries : VEntries → Bool
  | .nil => true | .cons k v r => decide (k ≤ usizeMax) && keysBounded v && keysBoundedEntries r
end

/-- counterexample to `mutAcc_conf` without `keysBounded`: the empty map under a well-formed map spec conforms,
    the acceptor accepts the one-element map with key `usizeMax + 1`, which does not conform -/
example :
    let s : SNode := .amap (.bool true) 0 none none
    let vi : VNode := .amap .nil
    let vo : VNode := .amap (.cons (usizeMax + 1) (.bool false) .nil)
    wf s = true ∧ conf s vi = true ∧ mutAcc .one s vi vo = true ∧ conf s vo = false ∧ keysBounded vo = false := by
  decide

theorem keysBoundedEntries_keys : ∀ (m : VEntries), keysBoundedEntries m = true →
    m.keys.all (fun k => decide (k ≤ usizeMax)) = true
  | .nil, _ => by simp [VEntries.keys]
  | .cons k v r, h => by
      simp only [keysBoundedEntries, Bool.and_eq_true] at h
      simp only [VEntries.keys, List.all_cons, Bool.and_eq_true]
      exact ⟨h.1.1, keysBoundedEntries_keys r h.2⟩

mutual
/-- mutation preserves conformance: every accepted output of a conforming input conforms
    (ADDED HYPOTHESIS `hk`, see `keysBounded`) -/
theorem mutAcc_conf (pc : PClass) (s : SNode) (vi vo : VNode) (hs : wf s = true) (hi : conf s vi = true)
    (hk : keysBounded vo = true) (h : mutAcc pc s vi vo = true) : conf s vo = true := by
  cases vo with
  | real y =>
      cases s <;> cases vi <;> try (simp [mutAcc] at h; done)
      rename_i i sc mn mx x
      simp only [wf, Bool.and_eq_true] at hs
      simp only [conf] at hi ⊢
      have hr := realOut_inBounds y mn mx hs.1.1.2 hs.1.1.1.1.2 hs.1.1.1.2
      cases pc <;> simp [mutAcc] at h
      · subst h; exact hi
      · rcases h with h | h
        · subst h; exact hi
        · exact hr h
      · rcases h with h | h
        · subst h; exact hi
        · exact hr h
  | int y =>
      cases s <;> cases vi <;> try (simp [mutAcc] at h; done)
      rename_i i sc mn mx x
      simp only [wf, Bool.and_eq_true] at hs
      simp only [conf] at hi ⊢
      have hr := intOut_inBounds y mn mx hs.1.1.2
      cases pc <;> simp [mutAcc] at h
      · subst h; exact hi
      · rcases h with h | h
        · subst h; exact hi
        · exact hr h
      · rcases h with h | h
        · subst h; exact hi
        · exact hr h
  | bool y => cases s <;> cases vi <;> simp [mutAcc] at h <;> simp [conf]
  | «enum» y =>
      cases s <;> cases vi <;> try (simp [mutAcc] at h; done)
      simp only [conf] at hi ⊢
      cases pc <;> simp [mutAcc] at h
      · subst h; exact hi
      · rcases h with h | h
        · subst h; exact hi
        · simpa using h
      · simpa using h.2
  | const => cases s <;> cases vi <;> simp [mutAcc] at h <;> simp [conf]
  | onone => cases s <;> cases vi <;> simp [mutAcc] at h <;> simp [conf]
  | osome v' =>
      cases s <;> cases vi <;> try (simp [mutAcc] at h; done)
      all_goals
        simp only [wf] at hs
        simp only [keysBounded] at hk
        simp only [mutAcc, Bool.and_eq_true] at h
        simp only [conf] at hi ⊢
      · rename_i e _
        exact mutAcc_conf pc e _ v' hs (initialValue_conf e hs) hk h.2
      · rename_i e _ v
        exact mutAcc_conf pc e v v' hs hi hk h.2
  | sub fo =>
      cases s <;> cases vi <;> try (simp [mutAcc] at h; done)
      rename_i sf fi
      simp only [wf, Bool.and_eq_true] at hs
      simp only [keysBounded] at hk
      simp only [mutAcc, Bool.and_eq_true] at h
      simp only [conf] at hi ⊢
      exact mutAcc_conf_fields pc sf fi fo hs.2 hi hk h.2
  | array lo =>
      cases s <;> cases vi <;> try (simp [mutAcc] at h; done)
      rename_i e n li
      simp only [wf, Bool.and_eq_true] at hs
      simp only [keysBounded] at hk
      simp only [mutAcc, Bool.and_eq_true] at h
      simp only [conf, Bool.and_eq_true] at hi ⊢
      obtain ⟨h1, h2⟩ := mutAcc_conf_list pc e li lo hs.2 hi.2 hk h.2
      exact ⟨by rw [h2]; exact hi.1, h1⟩
  | variant n' v' =>
      cases s <;> cases vi <;> try (simp [mutAcc] at h; done)
      rename_i opts i n v
      simp only [wf, Bool.and_eq_true] at hs
      simp only [keysBounded] at hk
      simp only [mutAcc] at h
      simp only [conf] at hi ⊢
      split at h
      · rename_i hn
        have hn' : n = n' := by simpa using hn
        subst hn'
        simp only [Bool.and_eq_true] at h
        cases ho : opts.lookup n with
        | none => simp [ho] at h
        | some cs =>
          simp only [ho] at h hi ⊢
          exact mutAcc_conf pc cs v v' (lookup_wf opts n cs hs.2 ho) hi hk h.2
      · simp only [Bool.and_eq_true] at h
        cases ho : opts.lookup n' with
        | none => simp [ho] at h
        | some cs =>
          simp only [ho] at h ⊢
          have hw := lookup_wf opts n' cs hs.2 ho
          exact mutAcc_conf pc cs _ v' hw (initialValue_conf cs hw) hk h.2
  | amap mo =>
      cases s <;> cases vi <;> try (simp [mutAcc] at h; done)
      rename_i e ini mn mx mi
      simp only [wf, Bool.and_eq_true] at hs
      simp only [keysBounded] at hk
      simp only [mutAcc] at h
      simp only [conf, Bool.and_eq_true] at hi ⊢
      have hkb := keysBoundedEntries_keys mo hk
      split at h
      · rename_i hn
        simp only [Bool.and_eq_true] at h
        obtain ⟨h1, h2⟩ := mutAcc_conf_same pc e mi mo hs.2 hi.2 hk h.2
        have hn' : mo.length = mi.length := by simpa using hn
        exact ⟨⟨⟨by rw [h2]; exact hi.1.1.1, hkb⟩, by rw [hn']; exact hi.1.2⟩, h1⟩
      · split at h
        · rename_i hn
          have hn' : mo.length + 1 = mi.length := by simpa using hn
          simp only [Bool.and_eq_true] at h
          refine ⟨⟨⟨h.1.1.2, hkb⟩, ?_⟩, mutAcc_conf_entries pc e mi none mo hs.2 hi.2 hk h.2⟩
          exact sizeOk_remove _ _ mn mx hi.1.2 hn' (by simpa using h.1.1.1.2)
        · split at h
          · rename_i hn
            have hn' : mo.length = mi.length + 1 := by simpa using hn
            split at h
            · rename_i k hf
              simp only [Bool.and_eq_true] at h
              refine ⟨⟨⟨h.1.2, hkb⟩, ?_⟩, mutAcc_conf_entries pc e mi (some k) mo hs.2 hi.2 hk h.2⟩
              exact sizeOk_add _ _ mn mx hs.1.1.1.1.1 hi.1.2 hn' hs.1.1.1.1.2 h.1.1.2
            · simp at h
          · simp at h
termination_by structural vo
theorem mutAcc_conf_fields (pc : PClass) (sf : SFields) (fi fo : VFields) (hs : wfFields sf = true)
    (hi : confFields sf fi = true) (hk : keysBoundedFields fo = true)
    (h : mutAccFields pc sf fi fo = true) : confFields sf fo = true := by
  cases fo with
  | nil => cases sf <;> cases fi <;> simp [mutAccFields] at h <;> simp [confFields]
  | cons k2 v' vr' =>
      cases sf <;> cases fi <;> try (simp [mutAccFields] at h; done)
      rename_i k s sr k1 v vr
      simp only [wfFields, Bool.and_eq_true] at hs
      simp only [keysBoundedFields, Bool.and_eq_true] at hk
      simp only [mutAccFields, Bool.and_eq_true] at h
      simp only [confFields, Bool.and_eq_true] at hi ⊢
      exact ⟨⟨h.1.1.2, mutAcc_conf pc s v v' hs.1 hi.1.2 hk.1 h.1.2⟩,
        mutAcc_conf_fields pc sr vr vr' hs.2 hi.2 hk.2 h.2⟩
termination_by structural fo
theorem mutAcc_conf_list (pc : PClass) (e : SNode) (li lo : VList) (hs : wf e = true)
    (hi : confList e li = true) (hk : keysBoundedList lo = true)
    (h : mutAccList pc e li lo = true) : confList e lo = true ∧ lo.length = li.length := by
  cases lo with
  | nil => cases li <;> simp [mutAccList] at h <;> simp [confList, VList.length]
  | cons v' r' =>
      cases li <;> try (simp [mutAccList] at h; done)
      rename_i v r
      simp only [keysBoundedList, Bool.and_eq_true] at hk
      simp only [mutAccList, Bool.and_eq_true] at h
      simp only [confList, Bool.and_eq_true] at hi ⊢
      obtain ⟨h1, h2⟩ := mutAcc_conf_list pc e r r' hs hi.2 hk.2 h.2
      exact ⟨⟨mutAcc_conf pc e v v' hs hi.1 hk.1 h.1, h1⟩, by simp [VList.length, h2]⟩
termination_by structural lo
theorem mutAcc_conf_same (pc : PClass) (e : SNode) (mi mo : VEntries) (hs : wf e = true)
    (hi : confEntries e mi = true) (hk : keysBoundedEntries mo = true)
    (h : mutAccSame pc e mi mo = true) : confEntries e mo = true ∧ mo.keys = mi.keys := by
  cases mo with
  | nil => cases mi <;> simp [mutAccSame] at h <;> simp [confEntries, VEntries.keys]
  | cons k' v' r' =>
      cases mi <;> try (simp [mutAccSame] at h; done)
      rename_i k v r
      simp only [keysBoundedEntries, Bool.and_eq_true] at hk
      simp only [mutAccSame, Bool.and_eq_true] at h
      simp only [confEntries, Bool.and_eq_true] at hi ⊢
      obtain ⟨h1, h2⟩ := mutAcc_conf_same pc e r r' hs hi.2 hk.2 h.2
      have hkk : k = k' := by simpa using h.1.1
      exact ⟨⟨mutAcc_conf pc e v v' hs hi.1 hk.1.2 h.1.2, h1⟩, by simp [VEntries.keys, h2, hkk]⟩
termination_by structural mo
theorem mutAcc_conf_entries (pc : PClass) (e : SNode) (mi : VEntries) (added : Option Nat) (mo : VEntries)
    (hs : wf e = true) (hi : confEntries e mi = true) (hk : keysBoundedEntries mo = true)
    (h : mutAccEntries pc e mi added mo = true) : confEntries e mo = true := by
  cases mo with
  | nil => simp [confEntries]
  | cons k v' r =>
      simp only [keysBoundedEntries, Bool.and_eq_true] at hk
      simp only [mutAccEntries, Bool.and_eq_true] at h
      simp only [confEntries, Bool.and_eq_true]
      refine ⟨?_, mutAcc_conf_entries pc e mi added r hs hi hk.2 h.2⟩
      have h1 := h.1
      split at h1
      · cases mi with
        | nil => exact mutAcc_conf pc e _ v' hs (initialValue_conf e hs) hk.1.2 h1
        | cons k0 v0 r0 =>
          obtain ⟨src, hc, hm⟩ := VEntries.any_conf e _ _ hi h1
          exact mutAcc_conf pc e src v' hs hc hk.1.2 hm
      · cases hl : mi.lookup k with
        | none => simp [hl] at h1
        | some v =>
          simp only [hl] at h1
          exact mutAcc_conf pc e v v' hs (VEntries.lookup_conf e mi k v hi hl) hk.1.2 h1
termination_by structural mo
end


/-! ### mutation is local -/

theorem sortedNat_pairwise : ∀ (l : List Nat), sortedNat l = true ↔ l.Pairwise (· < ·)
  | [] => by simp [sortedNat]
  | a :: l => by rw [sortedNat_cons, List.pairwise_cons, sortedNat_pairwise l]

/-- pigeonhole: a duplicate-free list inside a list that is not longer covers it -/
theorem covers_of_sorted_subset : ∀ (L B : List Nat), L.Pairwise (· < ·) → (∀ x ∈ L, x ∈ B) → B.length ≤ L.length →
    ∀ x ∈ B, x ∈ L
  | [], B, _, _, hlen, x, hx => by
      have : B = [] := List.eq_nil_of_length_eq_zero (by simpa using hlen)
      subst this; exact hx
  | a :: L, B, hp, hsub, hlen, x, hx => by
      rw [List.pairwise_cons] at hp
      have ha : a ∈ B := hsub a (by simp)
      have hlen' : (B.erase a).length ≤ L.length := by
        rw [List.length_erase_of_mem ha]; simp at hlen; omega
      have hsub' : ∀ y ∈ L, y ∈ B.erase a := fun y hy => by
        have hne : y ≠ a := by have := hp.1 y hy; omega
        exact (List.mem_erase_of_ne hne).2 (hsub y (by simp [hy]))
      by_cases hxa : x = a
      · simp [hxa]
      · have := covers_of_sorted_subset L (B.erase a) hp.2 hsub' hlen' x ((List.mem_erase_of_ne hxa).2 hx)
        simp [this]

theorem length_filter_split (p : Nat → Bool) : ∀ (l : List Nat),
    (l.filter p).length + (l.filter (fun x => !p x)).length = l.length
  | [] => rfl
  | a :: l => by
      have := length_filter_split p l
      cases hp : p a <;> simp [List.filter, hp] <;> omega

/-- the add case: one new key, one more element, no duplicates: no input key disappeared -/
theorem add_keys_subset (A B : List Nat) (k : Nat) (hA : sortedNat A = true)
    (hf : A.filter (fun x => !(B.contains x)) = [k]) (hlen : A.length = B.length + 1) :
    B.all (A.contains ·) = true := by
  have hsplit := length_filter_split (fun x => B.contains x) A
  simp only [hf, List.length_cons, List.length_nil] at hsplit
  have hp : (A.filter (fun x => B.contains x)).Pairwise (· < ·) :=
    List.Pairwise.filter _ ((sortedNat_pairwise A).1 hA)
  have hsub : ∀ x ∈ A.filter (fun x => B.contains x), x ∈ B := fun x hx => by
    simpa using (List.mem_filter.1 hx).2
  have := covers_of_sorted_subset _ B hp hsub (by omega)
  simp only [List.all_eq_true, List.contains_eq_mem, decide_eq_true_eq]
  intro x hx
  exact (List.mem_filter.1 (this x hx)).1

theorem VEntries.lookup_none_of_not_mem : ∀ (m : VEntries) (k : Nat), ¬ k ∈ m.keys → m.lookup k = none
  | .nil, _, _ => rfl
  | .cons k' v' r, k, h => by
      simp only [VEntries.keys, List.mem_cons, not_or] at h
      simp only [VEntries.lookup]
      have : ¬ k' = k := fun hh => h.1 hh.symm
      simp [this, VEntries.lookup_none_of_not_mem r k h.2]

theorem mutAccSame_keys (pc : PClass) (e : SNode) : ∀ (mi mo : VEntries), mutAccSame pc e mi mo = true → mo.keys = mi.keys
  | .nil, .nil, _ => rfl
  | .cons _ _ r, .cons _ _ r', h => by
      simp [mutAccSame] at h
      simp [VEntries.keys, mutAccSame_keys pc e r r' h.2, h.1.1]
  | .nil, .cons _ _ _, h => by simp [mutAccSame] at h
  | .cons _ _ _, .nil, h => by simp [mutAccSame] at h

/-- with duplicate-free keys, pairing entries by position is pairing them by key -/
theorem mutAccSame_entries (pc : PClass) (e : SNode) (full : VEntries) : ∀ (mi mo : VEntries),
    mutAccSame pc e mi mo = true → sortedNat mi.keys = true →
    (∀ k v, mi.lookup k = some v → full.lookup k = some v) → mutAccEntries pc e full none mo = true
  | .nil, .nil, _, _, _ => by simp [mutAccEntries]
  | .cons k v r, .cons k' v' r', h, hsrt, hl => by
      simp only [mutAccSame, Bool.and_eq_true, beq_iff_eq] at h
      obtain ⟨⟨hk, hm⟩, hr⟩ := h
      subst hk
      simp only [VEntries.keys, sortedNat_cons] at hsrt
      have h1 : full.lookup k = some v := hl k v (by simp [VEntries.lookup])
      have h2 : ∀ k2 v2, r.lookup k2 = some v2 → full.lookup k2 = some v2 := fun k2 v2 h2 => by
        apply hl
        have := hsrt.1 k2 (VEntries.lookup_mem_keys r k2 v2 h2)
        have hne : ¬ k = k2 := by omega
        simp [VEntries.lookup, hne, h2]
      simp [mutAccEntries, h1, hm, mutAccSame_entries pc e full r r' hr hsrt.2 h2]
  | .nil, .cons _ _ _, h, _, _ => by simp [mutAccSame] at h
  | .cons _ _ _, .nil, h, _, _ => by simp [mutAccSame] at h



mutual
/-- every accepted output satisfies C13's locality predicate -/
theorem mutAcc_resizeLocal (pc : PClass) (s : SNode) (vi vo : VNode) (hs : wf s = true) (hi : conf s vi = true)
    (h : mutAcc pc s vi vo = true) : resizeLocal pc s vi vo = true := by
  cases vo with
  | real y => cases s <;> cases vi <;> simp [resizeLocal]
  | int y => cases s <;> cases vi <;> simp [resizeLocal]
  | bool y => cases s <;> cases vi <;> simp [resizeLocal]
  | «enum» y => cases s <;> cases vi <;> simp [resizeLocal]
  | const => cases s <;> cases vi <;> simp [resizeLocal]
  | onone => cases s <;> cases vi <;> simp [resizeLocal]
  | osome v' =>
      cases s <;> cases vi <;> try (simp [mutAcc] at h; done)
      all_goals
        simp only [wf] at hs
        simp only [mutAcc, Bool.and_eq_true] at h
        simp only [conf] at hi
        simp only [resizeLocal]
      · rename_i e _
        exact mutAcc_resizeLocal pc e _ v' hs (initialValue_conf e hs) h.2
      · rename_i e _ v
        exact mutAcc_resizeLocal pc e v v' hs hi h.2
  | sub fo =>
      cases s <;> cases vi <;> try (simp [mutAcc] at h; done)
      rename_i sf fi
      simp only [wf, Bool.and_eq_true] at hs
      simp only [mutAcc, Bool.and_eq_true] at h
      simp only [conf] at hi
      simp only [resizeLocal]
      exact mutAcc_rl_fields pc sf fi fo hs.2 hi h.2
  | array lo =>
      cases s <;> cases vi <;> try (simp [mutAcc] at h; done)
      rename_i e n li
      simp only [wf, Bool.and_eq_true] at hs
      simp only [mutAcc, Bool.and_eq_true] at h
      simp only [conf, Bool.and_eq_true] at hi
      simp only [resizeLocal]
      exact mutAcc_rl_list pc e li lo hs.2 hi.2 h.2
  | variant n' v' =>
      cases s <;> cases vi <;> try (simp [mutAcc] at h; done)
      rename_i opts i n v
      simp only [wf, Bool.and_eq_true] at hs
      simp only [mutAcc] at h
      simp only [conf] at hi
      simp only [resizeLocal]
      split at h
      · rename_i hn
        have hn' : n = n' := by simpa using hn
        subst hn'
        simp only [Bool.and_eq_true] at h
        cases ho : opts.lookup n with
        | none => simp
        | some cs =>
          simp only [ho] at h hi
          simp only [beq_self_eq_true, if_true]
          exact mutAcc_resizeLocal pc cs v v' (lookup_wf opts n cs hs.2 ho) hi h.2
      · rename_i hn
        simp only [Bool.and_eq_true] at h
        cases ho : opts.lookup n' with
        | none => simp
        | some cs =>
          simp only [ho] at h
          simp only [hn]
          have hw := lookup_wf opts n' cs hs.2 ho
          exact mutAcc_resizeLocal pc cs _ v' hw (initialValue_conf cs hw) h.2
  | amap mo =>
      cases s <;> cases vi <;> try (simp [mutAcc] at h; done)
      rename_i e ini mn mx mi
      simp only [wf, Bool.and_eq_true] at hs
      simp only [mutAcc] at h
      simp only [conf, Bool.and_eq_true] at hi
      simp only [resizeLocal, mapStepOk, Bool.and_eq_true]
      split at h
      · rename_i hn
        simp only [Bool.and_eq_true] at h
        have hkeys := mutAccSame_keys pc e mi mo h.2
        have hent := mutAccSame_entries pc e mi mi mo h.2 hi.1.1.1 (fun _ _ hh => hh)
        refine ⟨?_, mutAcc_rl_entries pc e mi none mo hs.2 hi.2 (by simp) hent⟩
        simp only [hn, if_true, hkeys, Bool.and_eq_true, beq_self_eq_true, and_true]
        cases pc <;> simp at h ⊢
      · rename_i hn1
        split at h
        · rename_i hn
          simp only [Bool.and_eq_true] at h
          refine ⟨?_, mutAcc_rl_entries pc e mi none mo hs.2 hi.2 (by simp) h.2⟩
          rw [if_neg hn1, if_pos hn, Bool.and_eq_true]
          refine ⟨?_, h.1.2⟩
          cases pc <;> simp at h ⊢
        · rename_i hn2
          split at h
          · rename_i hn
            have hn' : mo.length = mi.length + 1 := by simpa using hn
            split at h
            · rename_i k hf
              simp only [Bool.and_eq_true] at h
              have hknot : ¬ k ∈ mi.keys := by
                have : k ∈ mo.keys.filter (fun k => !(mi.keys.contains k)) := by rw [hf]; simp
                simpa using (List.mem_filter.1 this).2
              refine ⟨?_, mutAcc_rl_entries pc e mi (some k) mo hs.2 hi.2 ?_ h.2⟩
              · rw [if_neg hn1, if_neg hn2, if_pos hn, Bool.and_eq_true]
                refine ⟨?_, add_keys_subset mo.keys mi.keys k h.1.2 hf ?_⟩
                · cases pc <;> simp at h ⊢
                · rw [← VEntries.length_eq_keys, ← VEntries.length_eq_keys]; exact hn'
              · intro k' hk'
                injection hk' with hk'; subst hk'
                exact VEntries.lookup_none_of_not_mem mi _ hknot
            · simp at h
          · simp at h
termination_by structural vo
theorem mutAcc_rl_fields (pc : PClass) (sf : SFields) (fi fo : VFields) (hs : wfFields sf = true)
    (hi : confFields sf fi = true) (h : mutAccFields pc sf fi fo = true) : resizeLocalFields pc sf fi fo = true := by
  cases fo with
  | nil => cases sf <;> cases fi <;> simp [resizeLocalFields]
  | cons k2 v' vr' =>
      cases sf <;> cases fi <;> try (simp [mutAccFields] at h; done)
      rename_i k s sr k1 v vr
      simp only [wfFields, Bool.and_eq_true] at hs
      simp only [mutAccFields, Bool.and_eq_true] at h
      simp only [confFields, Bool.and_eq_true] at hi
      simp only [resizeLocalFields, Bool.and_eq_true]
      exact ⟨mutAcc_resizeLocal pc s v v' hs.1 hi.1.2 h.1.2, mutAcc_rl_fields pc sr vr vr' hs.2 hi.2 h.2⟩
termination_by structural fo
theorem mutAcc_rl_list (pc : PClass) (e : SNode) (li lo : VList) (hs : wf e = true)
    (hi : confList e li = true) (h : mutAccList pc e li lo = true) : resizeLocalList pc e li lo = true := by
  cases lo with
  | nil => cases li <;> simp [resizeLocalList]
  | cons v' r' =>
      cases li <;> try (simp [mutAccList] at h; done)
      rename_i v r
      simp only [mutAccList, Bool.and_eq_true] at h
      simp only [confList, Bool.and_eq_true] at hi
      simp only [resizeLocalList, Bool.and_eq_true]
      exact ⟨mutAcc_resizeLocal pc e v v' hs hi.1 h.1, mutAcc_rl_list pc e r r' hs hi.2 h.2⟩
termination_by structural lo
theorem mutAcc_rl_entries (pc : PClass) (e : SNode) (mi : VEntries) (added : Option Nat) (mo : VEntries)
    (hs : wf e = true) (hi : confEntries e mi = true) (hadd : ∀ k, added = some k → mi.lookup k = none)
    (h : mutAccEntries pc e mi added mo = true) : resizeLocalEntries pc e mi mo = true := by
  cases mo with
  | nil => simp [resizeLocalEntries]
  | cons k v' r =>
      simp only [mutAccEntries, Bool.and_eq_true] at h
      simp only [resizeLocalEntries, Bool.and_eq_true]
      refine ⟨?_, mutAcc_rl_entries pc e mi added r hs hi hadd h.2⟩
      have h1 := h.1
      cases hl : mi.lookup k with
      | none => simp
      | some v =>
        simp only
        split at h1
        · rename_i ha
          have := hadd k (by simpa using ha)
          rw [this] at hl; cases hl
        · simp only [hl] at h1
          exact mutAcc_resizeLocal pc e v v' hs (VEntries.lookup_conf e mi k v hi hl) h1
termination_by structural mo
end


end Cambrian
