/-
Lemmas behind C01 (mutation closure) and C13 (mutation is local), for every spec / value / nesting.
-/
import CambrianModel.Model.Mutation
namespace Cambrian

/-- mutation preserves conformance: every accepted output of a conforming input conforms -/
theorem mutAcc_conf (pc : PClass) (s : SNode) (vi vo : VNode) (hs : wf s = true) (hi : conf s vi = true)
    (h : mutAcc pc s vi vo = true) : conf s vo = true := by
  sorry

/-- probability 0: the output is the input -/
theorem mutAcc_zero_id (s : SNode) (vi vo : VNode) (hi : conf s vi = true)
    (h : mutAcc .zero s vi vo = true) : vo = vi := by
  sorry

/-- every accepted output satisfies C13's locality predicate -/
theorem mutAcc_resizeLocal (pc : PClass) (s : SNode) (vi vo : VNode) (hs : wf s = true) (hi : conf s vi = true)
    (h : mutAcc pc s vi vo = true) : resizeLocal pc s vi vo = true := by
  sorry

end Cambrian
