import CambrianModel.Model.Json
namespace Cambrian

mutual
theorem conf_jsonable : (s : SNode) → (v : VNode) → conf s v = true → jsonable v = true
  | s, .real x, h => by
    cases s <;> simp [conf] at h
    simp [inBoundsF] at h
    simp [jsonable, h.1.1]
  | _, .int _, _ => by simp [jsonable]
  | _, .bool _, _ => by simp [jsonable]
  | _, .enum _, _ => by simp [jsonable]
  | _, .onone, _ => by simp [jsonable]
  | _, .const, _ => by simp [jsonable]
  | s, .sub vf, h => by
    cases s <;> simp [conf] at h
    rename_i sf
    simp only [jsonable]
    exact confFields_jsonable sf vf h
  | s, .array l, h => by
    cases s <;> simp [conf] at h
    rename_i e n
    simp only [jsonable]
    exact confList_jsonable e l h.2
  | s, .amap m, h => by
    cases s <;> simp [conf] at h
    rename_i e i mn mx
    simp only [jsonable]
    exact confEntries_jsonable e m h.2
  | s, .variant n v, h => by
    cases s <;> simp [conf] at h
    rename_i o i
    simp only [jsonable]
    split at h
    · rename_i cs _
      exact conf_jsonable cs v h
    · simp at h
  | s, .osome v, h => by
    cases s <;> simp [conf] at h
    rename_i e p
    simp only [jsonable]
    exact conf_jsonable e v h
theorem confFields_jsonable : (sf : SFields) → (vf : VFields) → confFields sf vf = true → jsonableFields vf = true
  | _, .nil, _ => by simp [jsonableFields]
  | sf, .cons k v r, h => by
    cases sf <;> simp [confFields] at h
    rename_i k' s sr
    simp only [jsonableFields, Bool.and_eq_true]
    exact ⟨conf_jsonable s v h.1.2, confFields_jsonable sr r h.2⟩
theorem confList_jsonable : (e : SNode) → (l : VList) → confList e l = true → jsonableList l = true
  | _, .nil, _ => by simp [jsonableList]
  | e, .cons v r, h => by
    simp [confList] at h
    simp only [jsonableList, Bool.and_eq_true]
    exact ⟨conf_jsonable e v h.1, confList_jsonable e r h.2⟩
theorem confEntries_jsonable : (e : SNode) → (m : VEntries) → confEntries e m = true → jsonableEntries m = true
  | _, .nil, _ => by simp [jsonableEntries]
  | e, .cons k v r, h => by
    simp [confEntries] at h
    simp only [jsonableEntries, Bool.and_eq_true]
    exact ⟨conf_jsonable e v h.1, confEntries_jsonable e r h.2⟩
end

end Cambrian
