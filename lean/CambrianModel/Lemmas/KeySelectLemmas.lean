/-
Refinement: every result of the algorithm `selectKeys` (the code-shaped model of `select_anon_map_keys`) satisfies
the relational description `keysOk` used by the acceptor `crossAcc` - for every shuffle, every sequence of selected
parents (consistent with the class of the selection pressure), any number of parents, any bounds.
-/
import CambrianModel.Model.KeySelect
namespace Cambrian

/-- keys of the parent selected in iteration `i` -/
def selKeysAt (ps : List VNode) (sel : Nat → Nat) (i : Nat) : List Nat := mapKeys (ps.getD (sel i) .const)

/-- selected keys that the first parent does not have -/
def foreignCount (first : List Nat) (l : List Nat) : Nat := (l.filter (fun k => !(first.contains k))).length

theorem foreignCount_snoc (first l : List Nat) (k : Nat) :
    foreignCount first (l ++ [k]) = foreignCount first l + (if first.contains k then 0 else 1) := by
  simp only [foreignCount, List.filter_append, List.length_append]
  have hm : (decide (k ∈ first)) = first.contains k := by simp
  cases h : first.contains k <;> simp [List.filter, h, hm ▸ h]

/-- state of the loop after the keys `done` (in order) have been considered; iteration index = `done.length` -/
structure SelInv (minS maxS : Nat) (ps : List VNode) (sel : Nat → Nat) (first : List Nat) (one : Bool)
    (done acc : List Nat) : Prop where
  sub : ∀ k ∈ acc, k ∈ done
  lt : acc.length < maxS
  miss : ∀ k ∈ done, k ∉ acc → ∃ i, (selKeysAt ps sel i).contains k = false
  forced : acc.length < minS → acc = done
  foreign : one = true → foreignCount first acc ≤ Nat.min acc.length minS

/-- what the loop returns -/
structure SelPost (minS maxS : Nat) (ps : List VNode) (sel : Nat → Nat) (first : List Nat) (one : Bool)
    (all res : List Nat) : Prop where
  sub : ∀ k ∈ res, k ∈ all
  le : res.length ≤ maxS
  miss : res.length = maxS ∨ ((∀ k ∈ all, k ∉ res → ∃ i, (selKeysAt ps sel i).contains k = false) ∧ (res.length < minS → res = all))
  foreign : one = true → foreignCount first res ≤ minS

variable {minS maxS : Nat} {ps : List VNode} {sel : Nat → Nat} {first : List Nat} {one : Bool}

/-- the key is taken: forced (below the minimum size), or the selected parent has it -/
theorem SelInv.take {done acc : List Nat} (h : SelInv minS maxS ps sel first one done acc) (k : Nat)
    (hwhy : acc.length < minS ∨ (¬ acc.length < minS ∧ (one = true → first.contains k = true)))
    (hroom : acc.length + 1 < maxS) : SelInv minS maxS ps sel first one (done ++ [k]) (acc ++ [k]) := by
  refine ⟨?_, ?_, ?_, ?_, ?_⟩
  · intro x hx; simp only [List.mem_append, List.mem_singleton] at hx ⊢
    rcases hx with hx | hx
    · exact Or.inl (h.sub x hx)
    · exact Or.inr hx
  · simpa using hroom
  · intro x hx hnx
    simp only [List.mem_append, List.mem_singleton] at hx hnx
    rcases hx with hx | hx
    · exact h.miss x hx (fun hh => hnx (Or.inl hh))
    · exact absurd (Or.inr hx) hnx
  · intro hl
    simp only [List.length_append, List.length_singleton] at hl
    rw [h.forced (by omega)]
  · intro ho
    have hf := h.foreign ho
    rw [foreignCount_snoc]
    simp only [List.length_append, List.length_singleton]
    rcases hwhy with hw | ⟨hw, hk⟩
    · have : Nat.min acc.length minS = acc.length := Nat.min_eq_left (Nat.le_of_lt hw)
      have h2 : Nat.min (acc.length + 1) minS = acc.length + 1 := Nat.min_eq_left hw
      rw [h2]; rw [this] at hf
      split <;> omega
    · rw [hk ho]
      have : Nat.min acc.length minS = minS := Nat.min_eq_right (by omega)
      have h2 : Nat.min (acc.length + 1) minS = minS := Nat.min_eq_right (by omega)
      rw [h2]; rw [this] at hf; simpa using hf

/-- the key is skipped: not forced, and the parent selected in this iteration lacks it -/
theorem SelInv.skip {done acc : List Nat} (h : SelInv minS maxS ps sel first one done acc) (k : Nat)
    (hnf : ¬ acc.length < minS) (hl : (selKeysAt ps sel done.length).contains k = false) :
    SelInv minS maxS ps sel first one (done ++ [k]) acc := by
  refine ⟨?_, h.lt, ?_, ?_, h.foreign⟩
  · intro x hx; exact List.mem_append_left _ (h.sub x hx)
  · intro x hx hnx
    simp only [List.mem_append, List.mem_singleton] at hx
    rcases hx with hx | hx
    · exact h.miss x hx hnx
    · subst hx; exact ⟨_, hl⟩
  · intro hlt; exact absurd hlt hnf

/-- the loop stops because the maximum size is reached -/
theorem SelInv.full {done acc : List Nat} (h : SelInv minS maxS ps sel first one done acc) (k : Nat) (r : List Nat)
    (hwhy : acc.length < minS ∨ (¬ acc.length < minS ∧ (one = true → first.contains k = true)))
    (hfull : acc.length + 1 = maxS) : SelPost minS maxS ps sel first one (done ++ k :: r) (acc ++ [k]) := by
  refine ⟨?_, by simp [hfull], Or.inl (by simp [hfull]), ?_⟩
  · intro x hx; simp only [List.mem_append, List.mem_singleton] at hx
    simp only [List.mem_append, List.mem_cons]
    rcases hx with hx | hx
    · exact Or.inl (h.sub x hx)
    · exact Or.inr (Or.inl hx)
  · intro ho
    have hf := h.foreign ho
    rw [foreignCount_snoc]
    rcases hwhy with hw | ⟨hw, hk⟩
    · have : Nat.min acc.length minS = acc.length := Nat.min_eq_left (Nat.le_of_lt hw)
      rw [this] at hf
      split <;> omega
    · rw [hk ho]
      have : Nat.min acc.length minS ≤ minS := Nat.min_le_right _ _
      simp only [if_true]; omega

theorem selLoop_post (hone : one = true → ∀ i, selKeysAt ps sel i = first) :
    ∀ (r done acc : List Nat), SelInv minS maxS ps sel first one done acc →
      SelPost minS maxS ps sel first one (done ++ r) (selLoop minS maxS ps sel r done.length acc)
  | [], done, acc, h => by
    simp only [selLoop, List.append_nil]
    exact ⟨h.sub, Nat.le_of_lt h.lt, Or.inr ⟨h.miss, h.forced⟩, fun ho => Nat.le_trans (h.foreign ho) (Nat.min_le_right _ _)⟩
  | k :: r, done, acc, h => by
    have hlen : (done ++ [k]).length = done.length + 1 := by simp
    have happ : done ++ k :: r = (done ++ [k]) ++ r := by simp
    simp only [selLoop]
    by_cases hforce : acc.length < minS
    · simp only [hforce, if_true]
      by_cases hfull : (acc ++ [k]).length = maxS
      · simp only [hfull, beq_self_eq_true, if_true]
        exact h.full k r (Or.inl hforce) (by simpa using hfull)
      · have hne : ((acc ++ [k]).length == maxS) = false := by simpa using hfull
        simp only [hne, Bool.false_eq_true, if_false]
        have hroom : acc.length + 1 < maxS := by
          have := h.lt; simp only [List.length_append, List.length_singleton] at hfull; omega
        have := selLoop_post hone r (done ++ [k]) (acc ++ [k]) (h.take k (Or.inl hforce) hroom)
        rw [hlen] at this; rw [happ]; exact this
    · simp only [hforce, if_false]
      cases htake : (mapKeys (ps.getD (sel done.length) .const)).contains k with
      | true =>
        simp only [if_true]
        have hwhy : acc.length < minS ∨ (¬ acc.length < minS ∧ (one = true → first.contains k = true)) :=
          Or.inr ⟨hforce, fun ho => by rw [← hone ho done.length]; exact htake⟩
        by_cases hfull : (acc ++ [k]).length = maxS
        · simp only [hfull, beq_self_eq_true, if_true]
          exact h.full k r hwhy (by simpa using hfull)
        · have hne : ((acc ++ [k]).length == maxS) = false := by simpa using hfull
          simp only [hne, Bool.false_eq_true, if_false]
          have hroom : acc.length + 1 < maxS := by
            have := h.lt; simp only [List.length_append, List.length_singleton] at hfull; omega
          have := selLoop_post hone r (done ++ [k]) (acc ++ [k]) (h.take k hwhy hroom)
          rw [hlen] at this; rw [happ]; exact this
      | false =>
        simp only [Bool.false_eq_true, if_false]
        have hne : (acc.length == maxS) = false := by have := h.lt; simp; omega
        simp only [hne, Bool.false_eq_true, if_false]
        have := selLoop_post hone r (done ++ [k]) acc (h.skip k hforce htake)
        rw [hlen] at this; rw [happ]; exact this

theorem getD_mem {α} (l : List α) (i : Nat) (d : α) (h : i < l.length) : l.getD i d ∈ l := by
  rw [List.getD_eq_getElem?_getD, List.getElem?_eq_getElem h]
  exact List.getElem_mem h

/-- Every result of `select_anon_map_keys` - for every shuffle `order` of the union of the parents' keys and every
    sequence `sel` of selected parents (always the first parent at selection pressure 1) - satisfies the acceptor's
    description `keysOk`, once sorted (`S` is the key list of the offspring map). -/
theorem selectKeys_keysOk (sp : PClass) (mn mx : Option Nat) (ps : List VNode) (order : List Nat) (sel : Nat → Nat)
    (S : List Nat) (hsp : sp ≠ .invalid) (hne : ps ≠ [])
    (hperm : order.Perm (unionKeys ps))
    (hsel : ∀ i, sel i < ps.length) (hsel1 : sp = .one → ∀ i, sel i = 0)
    (hmx : mx ≠ some 0) (hb : ∀ a b, mn = some a → mx = some b → a < b)
    (hS : S.Perm (selectKeys mn mx ps order sel)) (hsorted : sortedNat S = true) :
    keysOk sp mn mx ps S = true := by
  obtain ⟨p0, prest, hps⟩ : ∃ p0 prest, ps = p0 :: prest := by
    cases ps with
    | nil => exact absurd rfl hne
    | cons a b => exact ⟨a, b, rfl⟩
  subst hps
  have hlenU : (unionKeys (p0 :: prest)).length = order.length := hperm.length_eq.symm
  have hmemU : ∀ k, k ∈ unionKeys (p0 :: prest) ↔ k ∈ order := fun k => (hperm.mem_iff).symm
  -- the post-condition of the loop
  have hpost : SelPost (mn.getD 0) (mx.getD order.length) (p0 :: prest) sel (mapKeys p0) (sp == .one) order
      (selectKeys mn mx (p0 :: prest) order sel) := by
    cases horder : order with
    | nil =>
      simp only [selectKeys, selLoop, horder]
      exact ⟨by simp, by simp, Or.inr ⟨by simp, fun _ => rfl⟩, by simp [foreignCount]⟩
    | cons k0 r0 =>
      have hone : (sp == .one) = true → ∀ i, selKeysAt (p0 :: prest) sel i = mapKeys p0 := by
        intro ho i
        have : sp = .one := by simpa using ho
        simp [selKeysAt, hsel1 this i]
      have hinit : SelInv (mn.getD 0) (mx.getD order.length) (p0 :: prest) sel (mapKeys p0) (sp == .one) [] [] := by
        refine ⟨by simp, ?_, by simp, fun _ => rfl, by simp [foreignCount]⟩
        cases hmxv : mx with
        | none => simp [horder]
        | some b =>
          simp only [Option.getD_some, List.length_nil]
          cases b with
          | zero => exact absurd hmxv hmx
          | succ b => omega
      have := selLoop_post hone order [] [] hinit
      simpa [selectKeys, horder] using this
  generalize hR : selectKeys mn mx (p0 :: prest) order sel = R at hpost hS
  have hlenS : S.length = R.length := hS.length_eq
  have hmemS : ∀ k, k ∈ S ↔ k ∈ R := fun k => hS.mem_iff
  simp only [keysOk, Bool.and_eq_true, bne_iff_ne, ne_eq, decide_eq_true_eq, List.all_eq_true,
    Bool.or_eq_true, List.contains_iff_mem, beq_iff_eq]
  refine ⟨⟨⟨⟨⟨⟨hsp, hsorted⟩, ?_⟩, ?_⟩, ?_⟩, ?_⟩, ?_⟩
  · intro k hk
    exact (hmemU k).2 (hpost.sub k ((hmemS k).1 hk))
  · rw [hlenS, hlenU]; exact hpost.le
  · rw [hlenS, hlenU]
    rcases hpost.miss with hfull | ⟨_, hforced⟩
    · rw [hfull]
      cases hmxv : mx with
      | none => simp only [Option.getD_none]; exact Nat.min_le_right _ _
      | some b =>
        simp only [Option.getD_some]
        cases hmnv : mn with
        | none => simp
        | some a => have := hb a b hmnv hmxv; simp only [Option.getD_some]; exact Nat.le_trans (Nat.min_le_left _ _) (Nat.le_of_lt this)
    · by_cases hlt : R.length < mn.getD 0
      · rw [hforced hlt]; exact Nat.min_le_right _ _
      · exact Nat.le_trans (Nat.min_le_left _ _) (Nat.le_of_not_lt hlt)
  · intro k hk
    by_cases hkR : k ∈ R
    · exact Or.inl (Or.inl ((hmemS k).2 hkR))
    · rcases hpost.miss with hfull | ⟨hmiss, _⟩
      · exact Or.inl (Or.inr (by rw [hlenS, hlenU]; exact hfull))
      · obtain ⟨i, hi⟩ := hmiss k ((hmemU k).1 hk) hkR
        refine Or.inr ?_
        by_cases hone : sp = .one
        · simp only [hone, if_true]
          have : selKeysAt (p0 :: prest) sel i = mapKeys p0 := by simp [selKeysAt, hsel1 hone i]
          rw [this] at hi
          simpa using hi
        · simp only [hone, if_false, List.any_eq_true]
          refine ⟨(p0 :: prest).getD (sel i) .const, getD_mem (p0 :: prest) (sel i) .const (hsel i), ?_⟩
          simpa [selKeysAt] using hi
  · refine (Classical.em (sp = .one)).elim (fun hone => Or.inr ?_) (fun hone => Or.inl hone)
    have := hpost.foreign (by simpa using hone)
    have hp : (S.filter (fun k => !(mapKeys p0).contains k)).Perm (R.filter (fun k => !(mapKeys p0).contains k)) :=
      hS.filter _
    simp only [foreignCount] at this
    rw [hp.length_eq]; exact this

end Cambrian
