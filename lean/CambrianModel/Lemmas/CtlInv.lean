/-
Bookkeeping invariant of the controller state machine, for every event list (every schedule).
-/
import CambrianModel.Model.Controller
namespace Cambrian.Ctl
open Cambrian

variable {V : Type}

/-! ### observers of the action list -/

def Act.startSeed? : Act V → Option Nat
  | .start sd _ _ => some sd
  | _ => none
def Act.isStart : Act V → Bool
  | .start _ _ _ => true | _ => false
def Act.isItemAcc : Act V → Bool
  | .item _ _ (some _) => true | _ => false
def Act.isItemRej : Act V → Bool
  | .item _ _ none => true | _ => false
def Act.isBroadcast : Act V → Bool
  | .broadcastAbort => true | _ => false
def Act.isRet : Act V → Bool
  | .ret _ _ => true | _ => false

def startSeeds (acts : List (Act V)) : List Nat := acts.filterMap Act.startSeed?
def nStarts (acts : List (Act V)) : Nat := acts.countP Act.isStart
def nItemsAcc (acts : List (Act V)) : Nat := acts.countP Act.isItemAcc
def nItemsRej (acts : List (Act V)) : Nat := acts.countP Act.isItemRej
def nBroadcast (acts : List (Act V)) : Nat := acts.countP Act.isBroadcast
def nRet (acts : List (Act V)) : Nat := acts.countP Act.isRet

@[simp] theorem startSeeds_append (a b : List (Act V)) : startSeeds (a ++ b) = startSeeds a ++ startSeeds b := by
  simp [startSeeds]
@[simp] theorem nStarts_append (a b : List (Act V)) : nStarts (a ++ b) = nStarts a + nStarts b := by
  simp [nStarts]
@[simp] theorem nItemsAcc_append (a b : List (Act V)) : nItemsAcc (a ++ b) = nItemsAcc a + nItemsAcc b := by
  simp [nItemsAcc]
@[simp] theorem nItemsRej_append (a b : List (Act V)) : nItemsRej (a ++ b) = nItemsRej a + nItemsRej b := by
  simp [nItemsRej]
@[simp] theorem nBroadcast_append (a b : List (Act V)) : nBroadcast (a ++ b) = nBroadcast a + nBroadcast b := by
  simp [nBroadcast]
@[simp] theorem nRet_append (a b : List (Act V)) : nRet (a ++ b) = nRet a + nRet b := by
  simp [nRet]

@[simp] theorem startSeeds_start (sd i : Nat) (v : V) : startSeeds [(.start sd i v : Act V)] = [sd] := rfl
@[simp] theorem startSeeds_bc  : startSeeds [(.broadcastAbort : Act V)] = [] := rfl
@[simp] theorem startSeeds_itemA (i sd : Nat) (x : Int) : startSeeds [(.item i sd (some x) : Act V)] = [] := rfl
@[simp] theorem startSeeds_itemR (i sd : Nat) : startSeeds [(.item i sd none : Act V)] = [] := rfl
@[simp] theorem startSeeds_ret (o : Outcome V) (d : List Nat) : startSeeds [(.ret o d : Act V)] = [] := rfl
@[simp] theorem nStarts_start (sd i : Nat) (v : V) : nStarts [(.start sd i v : Act V)] = 1 := rfl
@[simp] theorem nStarts_bc  : nStarts [(.broadcastAbort : Act V)] = 0 := rfl
@[simp] theorem nStarts_itemA (i sd : Nat) (x : Int) : nStarts [(.item i sd (some x) : Act V)] = 0 := rfl
@[simp] theorem nStarts_itemR (i sd : Nat) : nStarts [(.item i sd none : Act V)] = 0 := rfl
@[simp] theorem nStarts_ret (o : Outcome V) (d : List Nat) : nStarts [(.ret o d : Act V)] = 0 := rfl
@[simp] theorem nItemsAcc_start (sd i : Nat) (v : V) : nItemsAcc [(.start sd i v : Act V)] = 0 := rfl
@[simp] theorem nItemsAcc_bc  : nItemsAcc [(.broadcastAbort : Act V)] = 0 := rfl
@[simp] theorem nItemsAcc_itemA (i sd : Nat) (x : Int) : nItemsAcc [(.item i sd (some x) : Act V)] = 1 := rfl
@[simp] theorem nItemsAcc_itemR (i sd : Nat) : nItemsAcc [(.item i sd none : Act V)] = 0 := rfl
@[simp] theorem nItemsAcc_ret (o : Outcome V) (d : List Nat) : nItemsAcc [(.ret o d : Act V)] = 0 := rfl
@[simp] theorem nItemsRej_start (sd i : Nat) (v : V) : nItemsRej [(.start sd i v : Act V)] = 0 := rfl
@[simp] theorem nItemsRej_bc  : nItemsRej [(.broadcastAbort : Act V)] = 0 := rfl
@[simp] theorem nItemsRej_itemA (i sd : Nat) (x : Int) : nItemsRej [(.item i sd (some x) : Act V)] = 0 := rfl
@[simp] theorem nItemsRej_itemR (i sd : Nat) : nItemsRej [(.item i sd none : Act V)] = 1 := rfl
@[simp] theorem nItemsRej_ret (o : Outcome V) (d : List Nat) : nItemsRej [(.ret o d : Act V)] = 0 := rfl
@[simp] theorem nBroadcast_start (sd i : Nat) (v : V) : nBroadcast [(.start sd i v : Act V)] = 0 := rfl
@[simp] theorem nBroadcast_bc  : nBroadcast [(.broadcastAbort : Act V)] = 1 := rfl
@[simp] theorem nBroadcast_itemA (i sd : Nat) (x : Int) : nBroadcast [(.item i sd (some x) : Act V)] = 0 := rfl
@[simp] theorem nBroadcast_itemR (i sd : Nat) : nBroadcast [(.item i sd none : Act V)] = 0 := rfl
@[simp] theorem nBroadcast_ret (o : Outcome V) (d : List Nat) : nBroadcast [(.ret o d : Act V)] = 0 := rfl
@[simp] theorem nRet_start (sd i : Nat) (v : V) : nRet [(.start sd i v : Act V)] = 0 := rfl
@[simp] theorem nRet_bc  : nRet [(.broadcastAbort : Act V)] = 0 := rfl
@[simp] theorem nRet_itemA (i sd : Nat) (x : Int) : nRet [(.item i sd (some x) : Act V)] = 0 := rfl
@[simp] theorem nRet_itemR (i sd : Nat) : nRet [(.item i sd none : Act V)] = 0 := rfl
@[simp] theorem nRet_ret (o : Outcome V) (d : List Nat) : nRet [(.ret o d : Act V)] = 1 := rfl

theorem nStarts_eq_length_startSeeds (acts : List (Act V)) : nStarts acts = (startSeeds acts).length := by
  induction acts with
  | nil => rfl
  | cons a as ih =>
    cases a <;> simp_all [nStarts, startSeeds, Act.isStart, Act.startSeed?, List.filterMap_cons, List.countP_cons]

/-! ### `lookupSeed` / `eraseSeed` -/

def seedsOf (l : List (Nat × Algo.Ind V)) : List Nat := l.map (·.1)

theorem lookupSeed_some {seed : Nat} {l : List (Nat × Algo.Ind V)} {i : Algo.Ind V}
    (h : lookupSeed seed l = some i) : (seed, i) ∈ l := by
  induction l with
  | nil => simp [lookupSeed] at h
  | cons p r ih =>
    obtain ⟨k, j⟩ := p
    simp only [lookupSeed] at h
    split at h
    · rename_i hk
      have : k = seed := by simpa using hk
      simp_all
    · exact List.mem_cons_of_mem _ (ih h)

theorem eraseSeed_facts {seed : Nat} {l : List (Nat × Algo.Ind V)} {i : Algo.Ind V}
    (h : lookupSeed seed l = some i) :
    (eraseSeed seed l).length + 1 = l.length ∧
    (∀ p ∈ eraseSeed seed l, p ∈ l) ∧
    ((seedsOf l).Nodup → (seedsOf (eraseSeed seed l)).Nodup ∧ seed ∉ seedsOf (eraseSeed seed l)) := by
  induction l with
  | nil => simp [lookupSeed] at h
  | cons p r ih =>
    obtain ⟨k, j⟩ := p
    simp only [lookupSeed] at h
    by_cases hk : (k == seed) = true
    · simp only [hk, ↓reduceIte] at h
      have hks : k = seed := by simpa using hk
      subst hks
      simp only [eraseSeed, hk, ↓reduceIte, List.length_cons, true_and]
      refine ⟨fun p hp => List.mem_cons_of_mem _ hp, fun hn => ?_⟩
      simp only [seedsOf, List.map_cons, List.nodup_cons] at hn
      exact ⟨hn.2, hn.1⟩
    · simp only [hk] at h
      obtain ⟨h1, h2, h3⟩ := ih h
      simp only [eraseSeed, hk, List.length_cons]
      refine ⟨by simp at h1 ⊢; omega, ?_, fun hn => ?_⟩
      · intro p hp
        simp only [Bool.false_eq_true, ↓reduceIte, List.mem_cons] at hp
        rcases hp with rfl | hp
        · simp
        · exact List.mem_cons_of_mem _ (h2 p hp)
      · simp only [seedsOf, List.map_cons, List.nodup_cons] at hn
        obtain ⟨h4, h5⟩ := h3 hn.2
        simp only [Bool.false_eq_true, ↓reduceIte, seedsOf, List.map_cons, List.nodup_cons, List.mem_cons, not_or]
        refine ⟨⟨?_, h4⟩, ?_, h5⟩
        · intro hm
          apply hn.1
          simp only [seedsOf, List.mem_map] at hm ⊢
          obtain ⟨q, hq, hqk⟩ := hm
          exact ⟨q, h2 q hq, hqk⟩
        · intro hs; apply hk; simp [hs]

/-! ### projections of the intermediate states -/

@[simp] theorem resultState_pushed (s : St V) (seed : Nat) (ind : Algo.Ind V) (r : Option (Int × Int)) :
    (resultState s seed ind r).pushed = s.pushed := rfl
@[simp] theorem resultState_aborted (s : St V) (seed : Nat) (ind : Algo.Ind V) (r : Option (Int × Int)) :
    (resultState s seed ind r).aborted = s.aborted := rfl
@[simp] theorem resultState_err (s : St V) (seed : Nat) (ind : Algo.Ind V) (r : Option (Int × Int)) :
    (resultState s seed ind r).err = s.err := rfl
@[simp] theorem resultState_nextSeed (s : St V) (seed : Nat) (ind : Algo.Ind V) (r : Option (Int × Int)) :
    (resultState s seed ind r).nextSeed = s.nextSeed := rfl
@[simp] theorem resultState_done (s : St V) (seed : Nat) (ind : Algo.Ind V) (r : Option (Int × Int)) :
    (resultState s seed ind r).done = s.done := rfl
@[simp] theorem resultState_failed (s : St V) (seed : Nat) (ind : Algo.Ind V) (r : Option (Int × Int)) :
    (resultState s seed ind r).failed = s.failed := rfl
@[simp] theorem resultState_inflight (s : St V) (seed : Nat) (ind : Algo.Ind V) (r : Option (Int × Int)) :
    (resultState s seed ind r).inflight = eraseSeed seed s.inflight := rfl
@[simp] theorem resultState_core (s : St V) (seed : Nat) (ind : Algo.Ind V) (r : Option (Int × Int)) :
    (resultState s seed ind r).core = Algo.proc s.core ind r := rfl
@[simp] theorem resultState_accepted_some (s : St V) (seed : Nat) (ind : Algo.Ind V) (x : Int × Int) :
    (resultState s seed ind (some x)).accepted = s.accepted + 1 := rfl
@[simp] theorem resultState_accepted_none (s : St V) (seed : Nat) (ind : Algo.Ind V) :
    (resultState s seed ind none).accepted = s.accepted := rfl
@[simp] theorem resultState_rejected_some (s : St V) (seed : Nat) (ind : Algo.Ind V) (x : Int × Int) :
    (resultState s seed ind (some x)).rejected = s.rejected := rfl
@[simp] theorem resultState_rejected_none (s : St V) (seed : Nat) (ind : Algo.Ind V) :
    (resultState s seed ind none).rejected = s.rejected + 1 := rfl
@[simp] theorem failState_pushed (s : St V) (seed : Nat) : (failState s seed).pushed = s.pushed := rfl
@[simp] theorem failState_aborted (s : St V) (seed : Nat) : (failState s seed).aborted = s.aborted := rfl
@[simp] theorem failState_err (s : St V) (seed : Nat) : (failState s seed).err = s.err := rfl
@[simp] theorem failState_nextSeed (s : St V) (seed : Nat) : (failState s seed).nextSeed = s.nextSeed := rfl
@[simp] theorem failState_done (s : St V) (seed : Nat) : (failState s seed).done = s.done := rfl
@[simp] theorem failState_accepted (s : St V) (seed : Nat) : (failState s seed).accepted = s.accepted := rfl
@[simp] theorem failState_rejected (s : St V) (seed : Nat) : (failState s seed).rejected = s.rejected := rfl
@[simp] theorem failState_core (s : St V) (seed : Nat) : (failState s seed).core = s.core := rfl
@[simp] theorem failState_inflight (s : St V) (seed : Nat) : (failState s seed).inflight = eraseSeed seed s.inflight := rfl
@[simp] theorem failState_failed (s : St V) (seed : Nat) : (failState s seed).failed = s.failed + 1 := rfl

/-! ### the invariant -/

structure Inv (c : Cfg) (s : St V) (acts : List (Act V)) : Prop where
  bal : s.pushed = s.accepted + s.rejected + s.failed + s.inflight.length
  cap : s.inflight.length ≤ c.nc
  bud : ∀ n, c.maxEval = some n → s.pushed ≤ n
  seedEq : s.nextSeed = s.pushed
  lt : ∀ p ∈ s.inflight, p.1 < s.nextSeed
  nd : (seedsOf s.inflight).Nodup
  live : s.done = false → s.inflight ≠ []
  seeds : startSeeds acts = List.range s.pushed
  itemsA : nItemsAcc acts = s.accepted
  itemsR : nItemsRej acts = s.rejected
  bc : nBroadcast acts = s.aborted.toNat
  rets : nRet acts = s.done.toNat
  errAb : s.err.isSome → s.aborted = true
  failAb : s.aborted = false → s.failed = 0

/-- the invariant in the middle of a step: one slot has been freed, nothing has been decided yet -/
structure InvMid (c : Cfg) (s : St V) (acts : List (Act V)) : Prop where
  bal : s.pushed = s.accepted + s.rejected + s.failed + s.inflight.length
  cap : s.inflight.length ≤ c.nc
  bud : ∀ n, c.maxEval = some n → s.pushed ≤ n
  seedEq : s.nextSeed = s.pushed
  lt : ∀ p ∈ s.inflight, p.1 < s.nextSeed
  nd : (seedsOf s.inflight).Nodup
  notDone : s.done = false
  seeds : startSeeds acts = List.range s.pushed
  itemsA : nItemsAcc acts = s.accepted
  itemsR : nItemsRej acts = s.rejected
  bc : nBroadcast acts = s.aborted.toNat
  rets : nRet acts = 0
  errAb : s.err.isSome → s.aborted = true

theorem finish_inv {c : Cfg} {s : St V} {acts : List (Act V)} (h : InvMid c s acts)
    (failAb : s.aborted = false → s.failed = 0) :
    Inv c (finish s acts).1 (finish s acts).2 := by
  obtain ⟨bal, cap, bud, seedEq, lt, nd, _, seeds, iA, iR, bc, rets, errAb⟩ := h
  refine ⟨bal, ?_, bud, seedEq, lt, nd, ?_, ?_, ?_, ?_, ?_, ?_, errAb, failAb⟩ <;> dsimp only [finish]
  · omega
  · simp
  · simpa using seeds
  · simpa using iA
  · simpa using iR
  · simp [bc]
  · simp [rets]

theorem again_inv {c : Cfg} {s : St V} {acts : List (Act V)} (h : InvMid c s acts)
    (failAb : s.aborted = false → s.failed = 0) :
    Inv c (again s acts).1 (again s acts).2 := by
  simp only [again]
  split
  · exact finish_inv h failAb
  · rename_i hne
    obtain ⟨bal, cap, bud, seedEq, lt, nd, nDone, seeds, iA, iR, bc, rets, errAb⟩ := h
    refine ⟨bal, ?_, bud, seedEq, lt, nd, ?_, seeds, iA, iR, bc, ?_, errAb, failAb⟩ <;> dsimp only
    · omega
    · intro _ he; simp [he] at hne
    · simp [rets, nDone]

theorem startOne_state (s : St V) (ch : Algo.Choice V) :
    (startOne s ch).1.pushed = s.pushed + 1 ∧ (startOne s ch).1.nextSeed = s.nextSeed + 1 ∧
    (startOne s ch).1.accepted = s.accepted ∧ (startOne s ch).1.rejected = s.rejected ∧
    (startOne s ch).1.failed = s.failed ∧ (startOne s ch).1.aborted = s.aborted ∧
    (startOne s ch).1.err = s.err ∧ (startOne s ch).1.done = s.done ∧
    (∃ ind, (startOne s ch).1.inflight = s.inflight ++ [(s.nextSeed, ind)] ∧
        (startOne s ch).2 = .start s.nextSeed ind.id ind.v ∧
        (startOne s ch).1.core = (Algo.next s.core ch).1 ∧ ind = (Algo.next s.core ch).2) := by
  simp [startOne]

theorem startOne_mid {c : Cfg} {s : St V} {acts : List (Act V)} (ch : Algo.Choice V)
    (h : InvMid c s acts) (hcap : s.inflight.length + 1 ≤ c.nc) (hbud : ∀ n, c.maxEval = some n → s.pushed < n) :
    InvMid c (startOne s ch).1 (acts ++ [(startOne s ch).2]) := by
  obtain ⟨bal, cap, bud, seedEq, lt, nd, nDone, seeds, iA, iR, bc, rets, errAb⟩ := h
  obtain ⟨e1, e2, e3, e4, e5, e6, e7, e8, ind, e9, e10, _, _⟩ := startOne_state s ch
  refine ⟨?_, ?_, ?_, ?_, ?_, ?_, ?_, ?_, ?_, ?_, ?_, ?_, ?_⟩
  · simp only [e1, e3, e4, e5, e9, List.length_append, List.length_singleton]; omega
  · simp only [e9, List.length_append, List.length_singleton]; omega
  · intro n hn
    have := hbud n hn
    simp only [e1]; omega
  · simp only [e1, e2]; omega
  · intro p hp
    simp only [e9, List.mem_append, List.mem_singleton] at hp
    simp only [e2]
    rcases hp with hp | rfl
    · have := lt p hp; omega
    · simp
  · simp only [e9, seedsOf, List.map_append, List.map_cons, List.map_nil]
    rw [List.nodup_append]
    refine ⟨nd, by simp, ?_⟩
    intro a ha b hb2
    simp only [List.mem_singleton] at hb2
    subst hb2
    simp only [seedsOf, List.mem_map] at ha
    obtain ⟨q, hq, rfl⟩ := ha
    have := lt q hq
    omega
  · simp [e8, nDone]
  · simp [seeds, e10, e1, List.range_succ, seedEq]
  · simp [iA, e10, e3]
  · simp [iR, e10, e4]
  · simp [bc, e10, e6]
  · simp [rets, e10]
  · simpa only [e7, e6] using errAb

theorem afterResult_inv {c : Cfg} {s : St V} {ch : Algo.Choice V} {acts : List (Act V)}
    (h : InvMid c s acts) (failAb : s.aborted = false → s.failed = 0) (hcap : s.inflight.length + 1 ≤ c.nc) :
    Inv c (afterResult c s ch acts).1 (afterResult c s ch acts).2 := by
  simp only [afterResult]
  split
  · exact finish_inv h failAb
  · split
    · exact finish_inv h failAb
    · split
      · rename_i hb
        simp only [Bool.and_eq_true, Bool.not_eq_true'] at hb
        have hm := startOne_mid ch h hcap (fun n hn => by
          have := hb.1
          simpa only [budgetLeft, hn, decide_eq_true_eq] using this)
        obtain ⟨e1, e2, e3, e4, e5, e6, e7, e8, ind, e9, e10, _, _⟩ := startOne_state s ch
        obtain ⟨bal, cap, bud, seedEq, lt, nd, nDone, seeds, iA, iR, bc, rets, errAb⟩ := hm
        exact ⟨bal, cap, bud, seedEq, lt, nd, fun _ => by simp [e9], seeds, iA, iR, bc,
          by simp [rets, nDone], errAb, by simpa only [e5, e6] using failAb⟩
      · exact again_inv h failAb

theorem finish_append (s : St V) (pre a : List (Act V)) :
    finish s (pre ++ a) = ((finish s a).1, pre ++ (finish s a).2) := by
  simp [finish]

theorem again_append (s : St V) (pre a : List (Act V)) :
    again s (pre ++ a) = ((again s a).1, pre ++ (again s a).2) := by
  simp only [again]; split <;> simp [finish_append]

theorem afterResult_append (c : Cfg) (s : St V) (ch : Algo.Choice V) (pre a : List (Act V)) :
    afterResult c s ch (pre ++ a) = ((afterResult c s ch a).1, pre ++ (afterResult c s ch a).2) := by
  simp only [afterResult]
  split
  · exact finish_append ..
  · split
    · exact finish_append ..
    · split
      · simp
      · exact again_append ..

theorem onAbort_inv {c : Cfg} {s : St V} {acts : List (Act V)} (hd' : s.done = false) (h : Inv c s acts) :
    Inv c (onAbort s).1 (acts ++ (onAbort s).2) := by
  simp only [onAbort]
  split
  · simpa using h
  · rename_i hab
    obtain ⟨bal, cap, bud, seedEq, lt, nd, live, seeds, iA, iR, bc, rets, errAb, failAb⟩ := h
    have hab' : s.aborted = false := by simpa using hab
    refine ⟨bal, cap, bud, seedEq, lt, nd, live, ?_, ?_, ?_, ?_, ?_, fun _ => rfl, ?_⟩
    · simpa using seeds
    · simpa using iA
    · simpa using iR
    · simp [bc, hab']
    · simpa using rets
    · intro hf; simp at hf

theorem onFail_inv {c : Cfg} {s1 : St V} {acts : List (Act V)} (er : Nat) (h : InvMid c s1 acts) :
    Inv c (onFail s1 er).1 (acts ++ (onFail s1 er).2) := by
  simp only [onFail]
  split
  · rename_i hab
    have := again_inv h (fun hf => by simp [hab] at hf)
    have e := again_append s1 acts []
    simp only [List.append_nil] at e
    rw [e] at this; exact this
  · rename_i hab
    simp only [Bool.not_eq_true] at hab
    obtain ⟨bal, cap, bud, seedEq, lt, nd, nDone, seeds, iA, iR, bc, rets, errAb⟩ := h
    have := @again_inv V c { s1 with aborted := true, err := some er } (acts ++ [.broadcastAbort])
      ⟨bal, cap, bud, seedEq, lt, nd, nDone,
       by simpa using seeds, by simpa using iA, by simpa using iR, by simp [bc, hab],
       by simpa using rets, fun _ => rfl⟩ (fun hf => by simp at hf)
    rw [again_append] at this; exact this

theorem onResult_inv {c : Cfg} {s : St V} {acts : List (Act V)} {seed : Nat} {ind : Algo.Ind V}
    (r : Option (Int × Int)) (ch : Algo.Choice V) (hd' : s.done = false)
    (hl : lookupSeed seed s.inflight = some ind) (h : Inv c s acts) :
    Inv c (onResult c s seed ind r ch).1 (acts ++ (onResult c s seed ind r ch).2) := by
  obtain ⟨bal, cap, bud, seedEq, lt, nd, live, seeds, iA, iR, bc, rets, errAb, failAb⟩ := h
  obtain ⟨f1, f2, f3⟩ := eraseSeed_facts hl
  obtain ⟨f3, _⟩ := f3 nd
  have rets0 : nRet acts = 0 := by simpa [hd'] using rets
  simp only [onResult]
  have := @afterResult_inv V c (resultState s seed ind r) ch (acts ++ [.item ind.id seed (r.map (·.1))])
    ⟨by cases r <;> simp <;> omega, by simp; omega, bud, seedEq, fun p hp => lt p (f2 p hp), f3, hd',
     by cases r <;> simpa using seeds,
     by cases r <;> simp [iA],
     by cases r <;> simp [iR],
     by cases r <;> simpa using bc,
     by cases r <;> simpa using rets0, errAb⟩ failAb (by simp; omega)
  rw [afterResult_append] at this; exact this

theorem step_inv {c : Cfg} {s : St V} {acts : List (Act V)} (e : Ev V) (h : Inv c s acts) :
    Inv c (step c s e).1 (acts ++ (step c s e).2) := by
  cases e with
  | abortReq =>
    simp only [step]
    split
    · simpa using h
    · rename_i hd
      exact onAbort_inv (by simpa using hd) h
  | complete seed r ch =>
    simp only [step]
    split
    · simpa using h
    · rename_i hd
      have hd' : s.done = false := by simpa using hd
      split
      · simpa using h
      · rename_i ind hl
        cases r with
        | acc x m => exact onResult_inv _ ch hd' hl h
        | rej => exact onResult_inv _ ch hd' hl h
        | fail er =>
          obtain ⟨bal, cap, bud, seedEq, lt, nd, live, seeds, iA, iR, bc, rets, errAb, failAb⟩ := h
          obtain ⟨f1, f2, f3⟩ := eraseSeed_facts hl
          obtain ⟨f3, _⟩ := f3 nd
          have rets0 : nRet acts = 0 := by simpa [hd'] using rets
          apply onFail_inv
          exact ⟨by simp; omega, by simp; omega, bud, seedEq,
              fun p hp => lt p (f2 p hp), f3, hd', seeds, iA, iR, bc, rets0, errAb⟩

theorem startMany_mid {c : Cfg} (chs : Nat → Algo.Choice V) :
    ∀ (n i : Nat) (s : St V) (acts : List (Act V)), InvMid c s acts → s.inflight.length + n ≤ c.nc →
      (∀ N, c.maxEval = some N → s.pushed + n ≤ N) →
      InvMid c (startMany chs n i s acts).1 (startMany chs n i s acts).2 ∧
      (startMany chs n i s acts).1.failed = s.failed ∧ (startMany chs n i s acts).1.aborted = s.aborted
  | 0, _, s, acts, h, _, _ => by simp [startMany, h]
  | n+1, i, s, acts, h, hc, hb => by
    simp only [startMany]
    have hm := startOne_mid (chs i) h (by omega) (fun N hN => by have := hb N hN; omega)
    obtain ⟨e1, _, _, _, e5, e6, _, _, ind, e9, _, _, _⟩ := startOne_state s (chs i)
    have := startMany_mid chs n (i+1) (startOne s (chs i)).1 (acts ++ [(startOne s (chs i)).2]) hm
      (by simp only [e9, List.length_append, List.length_singleton]; omega)
      (fun N hN => by have := hb N hN; simp only [e1]; omega)
    simpa only [e5, e6] using this

theorem init_inv (c : Cfg) (sampleSize : Nat) (initV : Option V) (dflt : V) (chs : Nat → Algo.Choice V) :
    Inv c (init c sampleSize initV dflt chs).1 (init c sampleSize initV dflt chs).2 := by
  cases initV with
  | none =>
    simp only [init]
    refine ⟨rfl, by simp, fun n _ => by simp, rfl, by simp, by simp [seedsOf], by simp, by simp, by simp, by simp,
      by simp, by simp, by simp, by simp⟩
  | some v0 =>
    simp only [init]
    have h0 : InvMid c ({ core := Algo.new v0 sampleSize } : St V) [] :=
      ⟨rfl, by simp, fun n _ => by simp, rfl, by simp, by simp [seedsOf], rfl, by simp [startSeeds], by simp [nItemsAcc],
       by simp [nItemsRej], by simp [nBroadcast], by simp [nRet], by simp⟩
    obtain ⟨hm, hf, ha⟩ := startMany_mid chs (initialCount c) 0 _ [] h0
      (by simp only [initialCount]; split <;> simp [Nat.min_def] <;> (try split) <;> omega)
      (fun N hN => by simp only [initialCount, hN]; simp [Nat.min_def]; split <;> omega)
    exact again_inv hm (fun _ => by simp [hf])

theorem runFrom_inv {c : Cfg} : ∀ (evs : List (Ev V)) (s : St V) (acts : List (Act V)), Inv c s acts →
    Inv c (runFrom c s acts evs).1 (runFrom c s acts evs).2
  | [], _, _, h => h
  | e :: es, s, acts, h => by
    simp only [runFrom]
    exact runFrom_inv es _ _ (step_inv e h)

/-- the bookkeeping invariant holds after every schedule -/
theorem run_inv (c : Cfg) (sampleSize : Nat) (initV : Option V) (dflt : V) (chs : Nat → Algo.Choice V)
    (evs : List (Ev V)) :
    Inv c (run c sampleSize initV dflt chs evs).1 (run c sampleSize initV dflt chs evs).2 :=
  runFrom_inv evs _ _ (init_inv c sampleSize initV dflt chs)

end Cambrian.Ctl
