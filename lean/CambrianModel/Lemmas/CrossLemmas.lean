/-
Lemmas behind C01 (crossover closure) and C12 (recombination invents nothing), for every spec, every ordered
parent list and every nesting.
-/
import CambrianModel.Model.Crossover
namespace Cambrian
namespace Cross

/-! ### sorted key lists -/

theorem sortedNat_cons' (a : Nat) : ∀ (l : List Nat), sortedNat (a :: l) = true ↔ ((∀ x ∈ l, a < x) ∧ sortedNat l = true)
  | [] => by simp [sortedNat]
  | b :: r => by
      have ih := sortedNat_cons' b r
      simp only [sortedNat, Bool.and_eq_true, decide_eq_true_eq, List.mem_cons, forall_eq_or_imp]
      constructor
      · intro ⟨h1, h2⟩
        refine ⟨⟨h1, fun x hx => ?_⟩, h2⟩
        have := (ih.1 h2).1 x hx
        omega
      · intro ⟨⟨h1, _⟩, h3⟩
        exact ⟨h1, h3⟩

theorem sortedStr_cons' (a : String) : ∀ (l : List String), sortedStr (a :: l) = true ↔ ((∀ x ∈ l, a < x) ∧ sortedStr l = true)
  | [] => by simp [sortedStr]
  | b :: r => by
      have ih := sortedStr_cons' b r
      simp only [sortedStr, Bool.and_eq_true, decide_eq_true_eq, List.mem_cons, forall_eq_or_imp]
      constructor
      · intro ⟨h1, h2⟩
        refine ⟨⟨h1, fun x hx => ?_⟩, h2⟩
        exact String.lt_trans h1 ((ih.1 h2).1 x hx)
      · intro ⟨⟨h1, _⟩, h3⟩
        exact ⟨h1, h3⟩

theorem sortedNat_nodup : ∀ (l : List Nat), sortedNat l = true → l.Nodup
  | [], _ => List.nodup_nil
  | a :: l, h => by
      have h' := (sortedNat_cons' a l).1 h
      rw [List.nodup_cons]
      refine ⟨fun hm => ?_, sortedNat_nodup l h'.2⟩
      have := h'.1 a hm
      omega

/-- strictly sorted lists with the same members are equal -/
theorem sortedNat_ext : ∀ (l₁ l₂ : List Nat), sortedNat l₁ = true → sortedNat l₂ = true →
    (∀ x, x ∈ l₁ ↔ x ∈ l₂) → l₁ = l₂
  | [], [], _, _, _ => rfl
  | [], b :: r, _, _, h => by have := (h b).2 (by simp); simp at this
  | a :: l, [], _, _, h => by have := (h a).1 (by simp); simp at this
  | a :: l, b :: r, h1, h2, h => by
      have h1' := (sortedNat_cons' a l).1 h1
      have h2' := (sortedNat_cons' b r).1 h2
      have hab : a = b := by
        have ha := (h a).1 (by simp)
        have hb := (h b).2 (by simp)
        simp only [List.mem_cons] at ha hb
        rcases ha with ha | ha
        · exact ha
        · rcases hb with hb | hb
          · exact hb.symm
          · have := h1'.1 b hb
            have := h2'.1 a ha
            omega
      subst hab
      congr 1
      refine sortedNat_ext l r h1'.2 h2'.2 fun x => ⟨fun hx => ?_, fun hx => ?_⟩
      · have := (h x).1 (by simp [hx])
        simp only [List.mem_cons] at this
        rcases this with rfl | this
        · have := h1'.1 x hx; omega
        · exact this
      · have := (h x).2 (by simp [hx])
        simp only [List.mem_cons] at this
        rcases this with rfl | this
        · have := h2'.1 x hx; omega
        · exact this

/-- a duplicate-free list inside another list of at most the same length has the same members -/
theorem subset_of_length_ge (S U : List Nat) (hS : S.Nodup) (hsub : ∀ x ∈ S, x ∈ U) (hlen : U.length ≤ S.length) :
    ∀ x ∈ U, x ∈ S := by
  intro k hk
  apply Classical.byContradiction
  intro hkS
  have : S.length ≤ (U.erase k).length := by
    apply List.Nodup.length_le_of_subset hS
    intro x hx
    have hne : x ≠ k := fun e => hkS (e ▸ hx)
    exact (List.mem_erase_of_ne hne).2 (hsub x hx)
  rw [List.length_erase_of_mem hk] at this
  have : 0 < U.length := List.length_pos_of_mem hk
  omega

theorem nodup_eraseDups : ∀ (n : Nat) (l : List Nat), l.length ≤ n → l.eraseDups.Nodup
  | _, [], _ => by simp
  | 0, a :: l, h => by simp at h
  | n+1, a :: l, h => by
      rw [List.eraseDups_cons, List.nodup_cons]
      constructor
      · rw [List.mem_eraseDups]
        simp
      · apply nodup_eraseDups n
        have := List.length_filter_le (fun b => !b == a) l
        simp only [List.length_cons] at h
        omega

/-! ### inversion of `conf` -/

theorem conf_const_inv {p : VNode} (h : conf .const p = true) : p = .const := by
  cases p <;> simp [conf] at h; rfl

theorem conf_sub_inv {sf : SFields} {p : VNode} (h : conf (.sub sf) p = true) :
    ∃ vf, p = .sub vf ∧ confFields sf vf = true := by
  cases p <;> simp [conf] at h
  exact ⟨_, rfl, h⟩

theorem conf_array_inv {e : SNode} {n : Nat} {p : VNode} (h : conf (.array e n) p = true) :
    ∃ l, p = .array l ∧ l.length = n ∧ confList e l = true := by
  cases p <;> simp [conf] at h
  exact ⟨_, rfl, h.1, h.2⟩

theorem conf_amap_inv {e : SNode} {i : Nat} {mn mx : Option Nat} {p : VNode} (h : conf (.amap e i mn mx) p = true) :
    ∃ m, p = .amap m ∧ sortedNat m.keys = true ∧ (∀ k ∈ m.keys, k ≤ usizeMax) ∧
      sizeOk m.length mn mx = true ∧ confEntries e m = true := by
  cases p <;> simp [conf] at h
  exact ⟨_, rfl, h.1.1.1, h.1.1.2, h.1.2, h.2⟩

theorem conf_variant_inv {o : SFields} {i : String} {p : VNode} (h : conf (.variant o i) p = true) :
    ∃ n v cs, p = .variant n v ∧ o.lookup n = some cs ∧ conf cs v = true := by
  cases p <;> simp [conf] at h
  rename_i n v
  split at h
  · rename_i cs hcs; exact ⟨n, v, cs, rfl, hcs, h⟩
  · simp at h

theorem conf_opt_inv {e : SNode} {b : Bool} {p : VNode} (h : conf (.opt e b) p = true) :
    p = .onone ∨ ∃ v, p = .osome v ∧ conf e v = true := by
  cases p <;> simp [conf] at h
  · exact .inl rfl
  · exact .inr ⟨_, rfl, h⟩

/-! ### children of conforming values -/

/-- the spec `s` is declared under the key `k` -/
def SFields.has : SFields → String → SNode → Prop
  | .nil, _, _ => False
  | .cons k n r, x, s => (k = x ∧ n = s) ∨ SFields.has r x s

theorem has_mem_keys : ∀ (sf : SFields) (k : String) (s : SNode), SFields.has sf k s → k ∈ sf.keys
  | .nil, _, _, h => by simp [SFields.has] at h
  | .cons k' n r, k, s, h => by
      simp only [SFields.has] at h
      simp only [SFields.keys, List.mem_cons]
      rcases h with ⟨h, _⟩ | h
      · exact .inl h.symm
      · exact .inr (has_mem_keys r k s h)

theorem has_wf : ∀ (sf : SFields) (k : String) (s : SNode), wfFields sf = true → SFields.has sf k s → wf s = true
  | .nil, _, _, _, h => by simp [SFields.has] at h
  | .cons k' n r, k, s, hw, h => by
      simp only [wfFields, Bool.and_eq_true] at hw
      simp only [SFields.has] at h
      rcases h with ⟨_, h⟩ | h
      · exact h ▸ hw.1
      · exact has_wf r k s hw.2 h

theorem lookup_wf' : ∀ (o : SFields) (k : String) (cs : SNode), wfFields o = true → o.lookup k = some cs → wf cs = true
  | .nil, _, _, _, h => by simp [SFields.lookup] at h
  | .cons k' n r, k, cs, hw, h => by
      simp only [wfFields, Bool.and_eq_true] at hw
      simp only [SFields.lookup] at h
      split at h
      · injection h with h; subst h; exact hw.1
      · exact lookup_wf' r k cs hw.2 h

/-- under distinct (sorted) keys, looking a declared key up in a conforming field list finds a conforming value -/
theorem confFields_lookup : ∀ (sf : SFields) (vf : VFields) (k : String) (s : SNode), sortedStr sf.keys = true →
    confFields sf vf = true → SFields.has sf k s → ∃ v, vf.lookup k = some v ∧ conf s v = true
  | .nil, _, _, _, _, _, h => by simp [SFields.has] at h
  | .cons k0 s0 sr, .nil, _, _, _, hc, _ => by simp [confFields] at hc
  | .cons k0 s0 sr, .cons k1 v1 vr, k, s, hso, hc, h => by
      simp only [confFields, Bool.and_eq_true, beq_iff_eq] at hc
      obtain ⟨⟨rfl, hc1⟩, hc2⟩ := hc
      have hso' := (sortedStr_cons' k0 sr.keys).1 (by simpa [SFields.keys] using hso)
      simp only [SFields.has] at h
      rcases h with ⟨rfl, rfl⟩ | h
      · exact ⟨v1, by simp [VFields.lookup], hc1⟩
      · have hlt := hso'.1 k (has_mem_keys sr k s h)
        have hne : ¬ k0 = k := fun e => String.lt_irrefl k (e ▸ hlt)
        obtain ⟨v, hv, hcv⟩ := confFields_lookup sr vr k s hso'.2 hc2 h
        exact ⟨v, by simp [VFields.lookup, hne, hv], hcv⟩

theorem confList_get : ∀ (e : SNode) (l : VList) (i : Nat), confList e l = true → i < l.length →
    ∃ v, l.get? i = some v ∧ conf e v = true
  | _, .nil, _, _, h => by simp [VList.length] at h
  | e, .cons v r, 0, hc, _ => by
      simp only [confList, Bool.and_eq_true] at hc
      exact ⟨v, rfl, hc.1⟩
  | e, .cons v r, i+1, hc, h => by
      simp only [confList, Bool.and_eq_true] at hc
      simp only [VList.length] at h
      simpa [VList.get?] using confList_get e r i hc.2 (by omega)

theorem confList_get' : ∀ (e : SNode) (l : VList) (i : Nat) (v : VNode), confList e l = true → l.get? i = some v →
    conf e v = true
  | _, .nil, _, _, _, h => by simp [VList.get?] at h
  | e, .cons v r, 0, w, hc, h => by
      simp only [confList, Bool.and_eq_true] at hc
      simp only [VList.get?, Option.some.injEq] at h
      exact h ▸ hc.1
  | e, .cons v r, i+1, w, hc, h => by
      simp only [confList, Bool.and_eq_true] at hc
      exact confList_get' e r i w hc.2 (by simpa [VList.get?] using h)

theorem lookup_mem_keys : ∀ (m : VEntries) (k : Nat) (v : VNode), m.lookup k = some v → k ∈ m.keys
  | .nil, _, _, h => by simp [VEntries.lookup] at h
  | .cons k' v' r, k, v, h => by
      simp only [VEntries.lookup] at h
      simp only [VEntries.keys, List.mem_cons]
      split at h
      · rename_i hk; exact .inl (by simpa using Eq.symm (beq_iff_eq.1 hk))
      · exact .inr (lookup_mem_keys r k v h)

theorem mem_keys_lookup : ∀ (m : VEntries) (k : Nat), k ∈ m.keys → ∃ v, m.lookup k = some v
  | .nil, _, h => by simp [VEntries.keys] at h
  | .cons k' v' r, k, h => by
      simp only [VEntries.keys, List.mem_cons] at h
      simp only [VEntries.lookup]
      by_cases hk : k' = k
      · exact ⟨v', by simp [hk]⟩
      · rcases h with h | h
        · exact absurd h.symm hk
        · obtain ⟨v, hv⟩ := mem_keys_lookup r k h
          exact ⟨v, by simp [hk, hv]⟩

theorem confEntries_lookup : ∀ (e : SNode) (m : VEntries) (k : Nat) (v : VNode), confEntries e m = true →
    m.lookup k = some v → conf e v = true
  | _, .nil, _, _, _, h => by simp [VEntries.lookup] at h
  | e, .cons k' v' r, k, v, hc, h => by
      simp only [confEntries, Bool.and_eq_true] at hc
      simp only [VEntries.lookup] at h
      split at h
      · injection h with h; exact h ▸ hc.1
      · exact confEntries_lookup e r k v hc.2 h

theorem length_eq_keys : ∀ (m : VEntries), m.length = m.keys.length
  | .nil => rfl
  | .cons _ _ r => by simp [VEntries.length, VEntries.keys, length_eq_keys r]

/-! ### lists of children -/

theorem filterMap_forall {f : VNode → Option VNode} {ps : List VNode} {P : VNode → Prop}
    (h : ∀ p ∈ ps, ∀ v, f p = some v → P v) : ∀ v ∈ ps.filterMap f, P v := by
  intro v hv
  obtain ⟨p, hp, hfp⟩ := List.mem_filterMap.1 hv
  exact h p hp v hfp

theorem filterMap_ne_nil {f : VNode → Option VNode} {ps : List VNode} {p v : VNode} (hp : p ∈ ps)
    (hf : f p = some v) : ps.filterMap f ≠ [] := by
  intro h
  have : v ∈ ps.filterMap f := List.mem_filterMap.2 ⟨p, hp, hf⟩
  rw [h] at this
  simp at this

theorem exists_mem_of_ne_nil {ps : List VNode} (h : ps ≠ []) : ∃ p, p ∈ ps := by
  cases ps with
  | nil => exact absurd rfl h
  | cons p r => exact ⟨p, by simp⟩

/-! ### one-step view of the acceptor -/

theorem selOk_mem {α} [BEq α] [LawfulBEq α] {sp : PClass} {ps : List α} {x : α} (h : selOk sp ps x = true) : x ∈ ps := by
  cases sp <;> simp [selOk] at h
  · exact h
  · exact h
  · cases ps with
    | nil => simp at h
    | cons a r => simp at h; simp [h]

/-- the ways an offspring can be accepted -/
inductive View (cp sp : PClass) (s : SNode) (ps : List VNode) (out : VNode) : Prop
  | const : s = .const → out = .const → View cp sp s ps out
  | single (p : VNode) : ps = [p] → out = p → View cp sp s ps out
  | clone : out ∈ ps → View cp sp s ps out
  | sub (sf : SFields) (fo : VFields) : s = .sub sf → out = .sub fo → crossAccFields cp sp sf ps fo = true →
      View cp sp s ps out
  | array (e : SNode) (n : Nat) (lo : VList) : s = .array e n → out = .array lo → lo.length = n →
      crossAccList cp sp e ps 0 lo = true → View cp sp s ps out
  | amap (e : SNode) (i : Nat) (mn mx : Option Nat) (mo : VEntries) : s = .amap e i mn mx → out = .amap mo →
      keysOk sp mn mx ps mo.keys = true → crossAccEntries cp sp e ps mo = true → View cp sp s ps out
  | variant (opts : SFields) (i n : String) (v : VNode) (cs : SNode) : s = .variant opts i → out = .variant n v →
      n ∈ ps.filterMap varName → opts.lookup n = some cs →
      crossAcc cp sp cs (ps.filterMap (varChild n)) v = true → View cp sp s ps out
  | onone (e : SNode) (b : Bool) : s = .opt e b → out = .onone → true ∈ ps.map isAbsent → View cp sp s ps out
  | osome (e : SNode) (b : Bool) (v : VNode) : s = .opt e b → out = .osome v → false ∈ ps.map isAbsent →
      crossAcc cp sp e (ps.filterMap optChild) v = true → View cp sp s ps out

theorem names_mem {l : List String} {n : String}
    (h : (match l.eraseDups with
          | [only] => n == only
          | names => selOk sp l n && names.contains n) = true) : n ∈ l := by
  split at h
  · rename_i only heq
    have : only ∈ l.eraseDups := by rw [heq]; simp
    rw [List.mem_eraseDups] at this
    simpa [beq_iff_eq.1 h] using this
  · simp only [Bool.and_eq_true] at h
    exact selOk_mem h.1

theorem absent_true {l : List Bool}
    (h : (match l.eraseDups with
          | [only] => only
          | _ => selOk sp l true) = true) : true ∈ l := by
  split at h
  · rename_i only heq
    have : only ∈ l.eraseDups := by rw [heq]; simp
    rw [List.mem_eraseDups] at this
    simpa [h] using this
  · exact selOk_mem h

theorem absent_false {l : List Bool}
    (h : (match l.eraseDups with
          | [only] => !only
          | _ => selOk sp l false) = true) : false ∈ l := by
  split at h
  · rename_i only heq
    have : only ∈ l.eraseDups := by rw [heq]; simp
    rw [List.mem_eraseDups] at this
    simp only [Bool.not_eq_true'] at h
    simpa [h] using this
  · exact selOk_mem h

theorem crossAcc_view {cp sp : PClass} {s : SNode} {ps : List VNode} {out : VNode}
    (h : crossAcc cp sp s ps out = true) : View cp sp s ps out := by
  by_cases hc : s = .const
  · subst hc
    rw [crossAcc.eq_1] at h
    exact .const rfl (beq_iff_eq.1 h)
  · cases ps with
    | nil => rw [crossAcc.eq_2 _ _ _ _ hc] at h; simp at h
    | cons p r =>
      cases r with
      | nil => rw [crossAcc.eq_3 _ _ _ _ _ hc] at h; exact .single p rfl (beq_iff_eq.1 h)
      | cons q r =>
        unfold crossAcc at h
        split at h
        · exact absurd rfl hc
        · simp only [Bool.or_eq_true, Bool.and_eq_true] at h
          rcases h with ⟨_, h⟩ | ⟨_, h⟩
          · exact .clone (selOk_mem h)
          · split at h
            · exact .sub _ _ rfl rfl h
            · simp only [Bool.and_eq_true, beq_iff_eq] at h
              exact .array _ _ _ rfl rfl h.1 h.2
            · simp only [Bool.and_eq_true] at h
              exact .amap _ _ _ _ _ rfl rfl h.1 h.2
            · simp only [Bool.and_eq_true] at h
              obtain ⟨h1, h2⟩ := h
              split at h2
              · rename_i cs hcs
                exact .variant _ _ _ _ cs rfl rfl (names_mem h1) hcs h2
              · simp at h2
            · exact .onone _ _ rfl rfl (absent_true h)
            · simp only [Bool.and_eq_true] at h
              exact .osome _ _ _ rfl rfl (absent_false h.1) h.2
            · simp at h

/-! ### introduction rules of `prov` -/

theorem prov_mem {s : SNode} {ps : List VNode} {out : VNode} (h : out ∈ ps) : prov s ps out = true := by
  rw [prov.eq_def]
  split
  · rfl
  · simp [h]

theorem prov_const {ps : List VNode} : prov .const ps .const = true := by simp [prov]

theorem prov_sub {sf ps fo} (h : provFields sf ps fo = true) : prov (.sub sf) ps (.sub fo) = true := by
  simp [prov, h]

theorem prov_array {e n ps lo} (h : provList e ps 0 lo = true) : prov (.array e n) ps (.array lo) = true := by
  simp [prov, h]

theorem prov_amap {e i mn mx ps mo} (h : provEntries e ps mo = true) :
    prov (.amap e i mn mx) ps (.amap mo) = true := by
  simp [prov, h]

theorem prov_variant {opts : SFields} {i n : String} {ps : List VNode} {v : VNode} {cs : SNode}
    (h1 : ∃ p ∈ ps, (varChild n p).isSome = true) (h2 : opts.lookup n = some cs)
    (h3 : prov cs (ps.filterMap (varChild n)) v = true) : prov (.variant opts i) ps (.variant n v) = true := by
  have : (ps.any fun p => (varChild n p).isSome) = true := by simpa using h1
  simp [prov, h2, h3, this]

theorem prov_onone {e b ps} (h : ∃ p ∈ ps, isAbsent p = true) : prov (.opt e b) ps .onone = true := by
  have : (ps.any isAbsent) = true := by simpa using h
  simp [prov, this]

theorem prov_osome {e : SNode} {b : Bool} {ps : List VNode} {v : VNode}
    (h1 : ∃ p ∈ ps, (optChild p).isSome = true) (h3 : prov e (ps.filterMap optChild) v = true) :
    prov (.opt e b) ps (.osome v) = true := by
  have : (ps.any fun p => (optChild p).isSome) = true := by simpa using h1
  simp [prov, h3, this]

/-! ### what `keysOk` says -/

theorem mem_unionKeys {ps : List VNode} {k : Nat} : k ∈ unionKeys ps ↔ ∃ p ∈ ps, k ∈ mapKeys p := by
  simp [unionKeys, List.mem_eraseDups, List.mem_flatMap]

theorem unionKeys_nodup (ps : List VNode) : (unionKeys ps).Nodup := nodup_eraseDups _ _ (Nat.le_refl _)

theorem keysOk_spec {sp : PClass} {mn mx : Option Nat} {ps : List VNode} {S : List Nat}
    (h : keysOk sp mn mx ps S = true) :
    sortedNat S = true ∧ (∀ k ∈ S, k ∈ unionKeys ps) ∧ S.length ≤ mx.getD (unionKeys ps).length ∧
    Nat.min (mn.getD 0) (unionKeys ps).length ≤ S.length ∧
    (∀ k ∈ unionKeys ps, k ∈ S ∨ S.length = mx.getD (unionKeys ps).length ∨
      (if sp == .one then ∀ p r, ps = p :: r → k ∉ mapKeys p else ∃ p ∈ ps, k ∉ mapKeys p)) := by
  simp only [keysOk, Bool.and_eq_true, decide_eq_true_eq, List.all_eq_true, Bool.or_eq_true, List.contains_iff_mem,
    beq_iff_eq] at h
  obtain ⟨⟨⟨⟨⟨⟨_, h1⟩, h2⟩, h3⟩, h4⟩, h5⟩, _⟩ := h
  refine ⟨h1, h2, h3, h4, fun k hk => ?_⟩
  rcases h5 k hk with (h | h) | h
  · exact .inl h
  · exact .inr (.inl h)
  · refine .inr (.inr ?_)
    split at h
    · rename_i hsp
      simp only [hsp, beq_self_eq_true, if_true]
      intro p r hps
      subst hps
      simpa using h
    · rename_i hsp
      simpa [hsp] using h

/-- a single parent is returned unchanged -/
theorem single (cp sp : PClass) (s : SNode) (p out : VNode) (hp : conf s p = true)
    (h : crossAcc cp sp s [p] out = true) : out = p := by
  by_cases hc : s = .const
  · subst hc
    rw [crossAcc.eq_1] at h
    rw [conf_const_inv hp]
    exact beq_iff_eq.1 h
  · rw [crossAcc.eq_3 _ _ _ _ _ hc] at h
    exact beq_iff_eq.1 h

/-! ### children of conforming parents -/

theorem arr_child {e : SNode} {n j : Nat} {p v : VNode} (hp : conf (.array e n) p = true)
    (hv : arrChild j p = some v) : conf e v = true := by
  obtain ⟨l, rfl, _, hl⟩ := conf_array_inv hp
  exact confList_get' e l j v hl hv

theorem arr_child_ex {e : SNode} {n j : Nat} {p : VNode} (hp : conf (.array e n) p = true) (hj : j < n) :
    ∃ v, arrChild j p = some v ∧ conf e v = true := by
  obtain ⟨l, rfl, hlen, hl⟩ := conf_array_inv hp
  exact confList_get e l j hl (by omega)

theorem map_child {e : SNode} {i k : Nat} {mn mx : Option Nat} {p v : VNode} (hp : conf (.amap e i mn mx) p = true)
    (hv : mapChild k p = some v) : conf e v = true := by
  obtain ⟨m, rfl, _, _, _, hm⟩ := conf_amap_inv hp
  exact confEntries_lookup e m k v hm hv

theorem mapKeys_child {k : Nat} {p : VNode} (h : k ∈ mapKeys p) : ∃ v, mapChild k p = some v := by
  cases p <;> simp [mapKeys] at h
  exact mem_keys_lookup _ k h

theorem var_child {o : SFields} {i n : String} {cs : SNode} {p v : VNode} (hp : conf (.variant o i) p = true)
    (hl : o.lookup n = some cs) (hv : varChild n p = some v) : conf cs v = true := by
  obtain ⟨n', v', cs', rfl, hl', hc'⟩ := conf_variant_inv hp
  simp only [varChild] at hv
  split at hv
  · rename_i hn
    have hn : n = n' := by simpa using hn
    subst hn
    injection hv with hv
    rw [hl] at hl'
    injection hl' with hl'
    rw [hl', ← hv]
    exact hc'
  · simp at hv

theorem varName_child {n : String} {ps : List VNode} (h : n ∈ ps.filterMap varName) :
    ∃ p ∈ ps, ∃ v, p = .variant n v ∧ varChild n p = some v := by
  obtain ⟨p, hp, hn⟩ := List.mem_filterMap.1 h
  refine ⟨p, hp, ?_⟩
  cases p <;> simp [varName] at hn
  subst hn
  exact ⟨_, rfl, by simp [varChild]⟩

theorem opt_child {e : SNode} {b : Bool} {p v : VNode} (hp : conf (.opt e b) p = true)
    (hv : optChild p = some v) : conf e v = true := by
  rcases conf_opt_inv hp with rfl | ⟨v', rfl, hc⟩
  · simp [optChild] at hv
  · simp only [optChild, Option.some.injEq] at hv
    exact hv ▸ hc

theorem present_child {e : SNode} {b : Bool} {ps : List VNode} (hp : ∀ p ∈ ps, conf (.opt e b) p = true)
    (h : false ∈ ps.map isAbsent) : ∃ p ∈ ps, ∃ v, p = .osome v ∧ optChild p = some v := by
  obtain ⟨p, hpm, hab⟩ := List.mem_map.1 h
  refine ⟨p, hpm, ?_⟩
  rcases conf_opt_inv (hp p hpm) with rfl | ⟨v', rfl, _⟩
  · simp [isAbsent] at hab
  · exact ⟨v', rfl, rfl⟩

/-- every declared field is well-formed and every parent has a conforming value under its key -/
def FieldsOk (sf : SFields) (ps : List VNode) : Prop :=
  ∀ k s, SFields.has sf k s → wf s = true ∧ ∀ p ∈ ps, ∃ v, subChild k p = some v ∧ conf s v = true

theorem fieldsOk_of_conf {sf : SFields} {ps : List VNode} (hs : wf (.sub sf) = true)
    (hp : ∀ p ∈ ps, conf (.sub sf) p = true) : FieldsOk sf ps := by
  simp only [wf, Bool.and_eq_true] at hs
  intro k s hks
  refine ⟨has_wf sf k s hs.2 hks, fun p hpm => ?_⟩
  obtain ⟨vf, rfl, hvf⟩ := conf_sub_inv (hp p hpm)
  exact confFields_lookup sf vf k s hs.1.2 hvf hks

theorem FieldsOk.tail {k : String} {s : SNode} {sr : SFields} {ps : List VNode} (H : FieldsOk (.cons k s sr) ps) :
    FieldsOk sr ps := fun k' s' h => H k' s' (by simp [SFields.has, h])

theorem FieldsOk.head {k : String} {s : SNode} {sr : SFields} {ps : List VNode} (H : FieldsOk (.cons k s sr) ps) :
    wf s = true ∧ ∀ p ∈ ps, ∃ v, subChild k p = some v ∧ conf s v = true := H k s (by simp [SFields.has])

theorem FieldsOk.children {k : String} {s : SNode} {ps : List VNode}
    (H : ∀ p ∈ ps, ∃ v, subChild k p = some v ∧ conf s v = true) :
    ∀ v ∈ ps.filterMap (subChild k), conf s v = true :=
  filterMap_forall fun p hp v hv => by
    obtain ⟨v', hv', hc⟩ := H p hp
    rw [hv] at hv'
    injection hv' with hv'
    exact hv' ▸ hc

theorem children_ne_nil {f : VNode → Option VNode} {ps : List VNode} {P : VNode → Prop} (hne : ps ≠ [])
    (H : ∀ p ∈ ps, ∃ v, f p = some v ∧ P v) : ps.filterMap f ≠ [] := by
  obtain ⟨p, hp⟩ := exists_mem_of_ne_nil hne
  obtain ⟨v, hv, _⟩ := H p hp
  exact filterMap_ne_nil hp hv

/-! ### provenance -/

mutual
theorem prov_main (cp sp : PClass) (s : SNode) (ps : List VNode) (out : VNode) (hs : wf s = true)
    (hp : ∀ p ∈ ps, conf s p = true) (h : crossAcc cp sp s ps out = true) : prov s ps out = true := by
  cases crossAcc_view h with
  | const h1 h2 => subst h1 h2; exact prov_const
  | single p h1 h2 => subst h1 h2; exact prov_mem (by simp)
  | clone hm => exact prov_mem hm
  | sub sf fo h1 h2 h3 =>
      subst h1 h2
      exact prov_sub (prov_fields cp sp sf ps fo (fieldsOk_of_conf hs hp) h3)
  | array e n lo h1 h2 h3 h4 =>
      subst h1 h2
      simp only [wf, Bool.and_eq_true] at hs
      exact prov_array (prov_list cp sp e ps 0 lo hs.2 (fun p hpm j v hv => arr_child (hp p hpm) hv) h4)
  | amap e i mn mx mo h1 h2 h3 h4 =>
      subst h1 h2
      simp only [wf, Bool.and_eq_true] at hs
      refine prov_amap (prov_entries cp sp e ps mo hs.2 (fun p hpm k v hv => map_child (hp p hpm) hv) ?_ h4)
      intro k hk
      obtain ⟨p, hpm, hkp⟩ := mem_unionKeys.1 ((keysOk_spec h3).2.1 k hk)
      obtain ⟨v, hv⟩ := mapKeys_child hkp
      exact ⟨p, hpm, by simp [hv]⟩
  | variant opts i n v cs h1 h2 h3 h4 h5 =>
      subst h1 h2
      simp only [wf, Bool.and_eq_true] at hs
      obtain ⟨p, hpm, v', _, hv'⟩ := varName_child h3
      refine prov_variant ⟨p, hpm, by simp [hv']⟩ h4 ?_
      exact prov_main cp sp cs _ v (lookup_wf' opts n cs hs.2 h4)
        (filterMap_forall fun p hpm v hv => var_child (hp p hpm) h4 hv) h5
  | onone e b h1 h2 h3 =>
      subst h1 h2
      obtain ⟨p, hpm, hab⟩ := List.mem_map.1 h3
      exact prov_onone ⟨p, hpm, hab⟩
  | osome e b v h1 h2 h3 h4 =>
      subst h1 h2
      simp only [wf] at hs
      obtain ⟨p, hpm, v', _, hv'⟩ := present_child hp h3
      refine prov_osome ⟨p, hpm, by simp [hv']⟩ ?_
      exact prov_main cp sp e _ v hs (filterMap_forall fun p hpm v hv => opt_child (hp p hpm) hv) h4
termination_by sizeOf out
theorem prov_fields (cp sp : PClass) (sf : SFields) (ps : List VNode) (fo : VFields) (H : FieldsOk sf ps)
    (h : crossAccFields cp sp sf ps fo = true) : provFields sf ps fo = true := by
  cases fo with
  | nil => cases sf <;> simp [crossAccFields] at h <;> simp [provFields]
  | cons k' v r =>
    cases sf with
    | nil => simp [crossAccFields] at h
    | cons k s sr =>
      simp only [crossAccFields, Bool.and_eq_true] at h
      have h1 := prov_main cp sp s _ v H.head.1 (FieldsOk.children H.head.2) h.1.2
      have h2 := prov_fields cp sp sr ps r H.tail h.2
      simp [provFields, h.1.1, h1, h2]
termination_by sizeOf fo
theorem prov_list (cp sp : PClass) (e : SNode) (ps : List VNode) (i : Nat) (lo : VList) (hs : wf e = true)
    (hc : ∀ p ∈ ps, ∀ j v, arrChild j p = some v → conf e v = true)
    (h : crossAccList cp sp e ps i lo = true) : provList e ps i lo = true := by
  cases lo with
  | nil => simp [provList]
  | cons v r =>
    simp only [crossAccList, Bool.and_eq_true] at h
    have h1 := prov_main cp sp e _ v hs (filterMap_forall fun p hpm v hv => hc p hpm i v hv) h.1
    have h2 := prov_list cp sp e ps (i+1) r hs hc h.2
    simp [provList, h1, h2]
termination_by sizeOf lo
theorem prov_entries (cp sp : PClass) (e : SNode) (ps : List VNode) (mo : VEntries) (hs : wf e = true)
    (hc : ∀ p ∈ ps, ∀ k v, mapChild k p = some v → conf e v = true)
    (HK : ∀ k ∈ mo.keys, ∃ p ∈ ps, (mapChild k p).isSome = true)
    (h : crossAccEntries cp sp e ps mo = true) : provEntries e ps mo = true := by
  cases mo with
  | nil => simp [provEntries]
  | cons k v r =>
    simp only [crossAccEntries, Bool.and_eq_true] at h
    have h1 := prov_main cp sp e _ v hs (filterMap_forall fun p hpm v hv => hc p hpm k v hv) h.1
    have h2 := prov_entries cp sp e ps r hs hc (fun k' hk' => HK k' (by simp [VEntries.keys, hk'])) h.2
    have hany : (ps.any fun p => (mapChild k p).isSome) = true := by
      simpa using HK k (by simp [VEntries.keys])
    simp [provEntries, h1, h2, hany]
termination_by sizeOf mo
end

/-! ### closure under conformance -/

/-- the key set accepted by `keysOk` is a legal key set -/
theorem amap_keys_conf {sp : PClass} {e : SNode} {i : Nat} {mn mx : Option Nat} {ps : List VNode} {S : List Nat}
    (hne : ps ≠ []) (hp : ∀ p ∈ ps, conf (.amap e i mn mx) p = true) (hk : keysOk sp mn mx ps S = true) :
    sortedNat S = true ∧ (∀ k ∈ S, k ≤ usizeMax) ∧ sizeOk S.length mn mx = true := by
  obtain ⟨h1, h2, h3, h4, _⟩ := keysOk_spec hk
  refine ⟨h1, fun k hkS => ?_, ?_⟩
  · obtain ⟨p, hpm, hkp⟩ := mem_unionKeys.1 (h2 k hkS)
    obtain ⟨m, rfl, _, hb, _, _⟩ := conf_amap_inv (hp p hpm)
    exact hb k hkp
  · obtain ⟨p, hpm⟩ := exists_mem_of_ne_nil hne
    obtain ⟨m, rfl, hso, _, hsz, _⟩ := conf_amap_inv (hp p hpm)
    have hle : m.keys.length ≤ (unionKeys ps).length :=
      List.Nodup.length_le_of_subset (sortedNat_nodup _ hso)
        (fun k hkm => mem_unionKeys.2 ⟨_, hpm, by simpa [mapKeys] using hkm⟩)
    rw [length_eq_keys] at hsz
    simp only [sizeOk, Bool.and_eq_true] at hsz ⊢
    constructor
    · cases mn with
      | none => simp [optAll]
      | some a =>
        have ha : a ≤ m.keys.length := by simpa [optAll] using hsz.1
        simp only [Option.getD_some] at h4
        simp only [optAll, decide_eq_true_eq]
        have : Nat.min a (unionKeys ps).length = a := Nat.min_eq_left (by omega)
        omega
    · cases mx with
      | none => simp [optAll]
      | some b => simpa [optAll] using h3

mutual
theorem conf_main (cp sp : PClass) (s : SNode) (ps : List VNode) (out : VNode) (hs : wf s = true)
    (hne : ps ≠ []) (hp : ∀ p ∈ ps, conf s p = true) (h : crossAcc cp sp s ps out = true) : conf s out = true := by
  cases crossAcc_view h with
  | const h1 h2 => subst h1 h2; simp [conf]
  | single p h1 h2 => subst h1 h2; exact hp _ (by simp)
  | clone hm => exact hp _ hm
  | sub sf fo h1 h2 h3 =>
      subst h1 h2
      simp only [conf]
      exact conf_fields cp sp sf ps fo hne (fieldsOk_of_conf hs hp) h3
  | array e n lo h1 h2 h3 h4 =>
      subst h1 h2
      simp only [wf, Bool.and_eq_true] at hs
      simp only [conf, Bool.and_eq_true, beq_iff_eq]
      refine ⟨h3, conf_list cp sp e ps 0 lo hs.2 hne (fun j _ hj p hpm => arr_child_ex (hp p hpm) (by omega)) h4⟩
  | amap e i mn mx mo h1 h2 h3 h4 =>
      subst h1 h2
      simp only [wf, Bool.and_eq_true] at hs
      obtain ⟨k1, k2, k3⟩ := amap_keys_conf hne hp h3
      simp only [conf, Bool.and_eq_true, List.all_eq_true, decide_eq_true_eq]
      refine ⟨⟨⟨k1, k2⟩, by rw [length_eq_keys]; exact k3⟩, ?_⟩
      refine conf_entries cp sp e ps mo hs.2 (fun p hpm k v hv => map_child (hp p hpm) hv) ?_ h4
      intro k hk
      obtain ⟨p, hpm, hkp⟩ := mem_unionKeys.1 ((keysOk_spec h3).2.1 k hk)
      obtain ⟨v, hv⟩ := mapKeys_child hkp
      exact filterMap_ne_nil hpm hv
  | variant opts i n v cs h1 h2 h3 h4 h5 =>
      subst h1 h2
      simp only [wf, Bool.and_eq_true] at hs
      obtain ⟨p, hpm, v', _, hv'⟩ := varName_child h3
      have := conf_main cp sp cs _ v (lookup_wf' opts n cs hs.2 h4) (filterMap_ne_nil hpm hv')
        (filterMap_forall fun p hpm v hv => var_child (hp p hpm) h4 hv) h5
      simp [conf, h4, this]
  | onone e b h1 h2 h3 => subst h1 h2; simp [conf]
  | osome e b v h1 h2 h3 h4 =>
      subst h1 h2
      simp only [wf] at hs
      obtain ⟨p, hpm, v', _, hv'⟩ := present_child hp h3
      simp only [conf]
      exact conf_main cp sp e _ v hs (filterMap_ne_nil hpm hv')
        (filterMap_forall fun p hpm v hv => opt_child (hp p hpm) hv) h4
termination_by sizeOf out
theorem conf_fields (cp sp : PClass) (sf : SFields) (ps : List VNode) (fo : VFields) (hne : ps ≠ [])
    (H : FieldsOk sf ps) (h : crossAccFields cp sp sf ps fo = true) : confFields sf fo = true := by
  cases fo with
  | nil => cases sf <;> simp [crossAccFields] at h <;> simp [confFields]
  | cons k' v r =>
    cases sf with
    | nil => simp [crossAccFields] at h
    | cons k s sr =>
      simp only [crossAccFields, Bool.and_eq_true] at h
      have h1 := conf_main cp sp s _ v H.head.1 (children_ne_nil hne H.head.2) (FieldsOk.children H.head.2) h.1.2
      have h2 := conf_fields cp sp sr ps r hne H.tail h.2
      simp [confFields, h.1.1, h1, h2]
termination_by sizeOf fo
theorem conf_list (cp sp : PClass) (e : SNode) (ps : List VNode) (i : Nat) (lo : VList) (hs : wf e = true)
    (hne : ps ≠ [])
    (hc : ∀ j, i ≤ j → j < i + lo.length → ∀ p ∈ ps, ∃ v, arrChild j p = some v ∧ conf e v = true)
    (h : crossAccList cp sp e ps i lo = true) : confList e lo = true := by
  cases lo with
  | nil => simp [confList]
  | cons v r =>
    simp only [crossAccList, Bool.and_eq_true] at h
    simp only [VList.length] at hc
    have hi := hc i (Nat.le_refl _) (by omega)
    have h1 := conf_main cp sp e _ v hs (children_ne_nil hne hi)
      (filterMap_forall fun p hpm v hv => by
        obtain ⟨v', hv', hcv⟩ := hi p hpm
        rw [hv] at hv'
        injection hv' with hv'
        exact hv' ▸ hcv) h.1
    have h2 := conf_list cp sp e ps (i+1) r hs hne (fun j hj1 hj2 => hc j (by omega) (by omega)) h.2
    simp [confList, h1, h2]
termination_by sizeOf lo
theorem conf_entries (cp sp : PClass) (e : SNode) (ps : List VNode) (mo : VEntries) (hs : wf e = true)
    (hc : ∀ p ∈ ps, ∀ k v, mapChild k p = some v → conf e v = true)
    (HK : ∀ k ∈ mo.keys, ps.filterMap (mapChild k) ≠ [])
    (h : crossAccEntries cp sp e ps mo = true) : confEntries e mo = true := by
  cases mo with
  | nil => simp [confEntries]
  | cons k v r =>
    simp only [crossAccEntries, Bool.and_eq_true] at h
    have h1 := conf_main cp sp e _ v hs (HK k (by simp [VEntries.keys]))
      (filterMap_forall fun p hpm v hv => hc p hpm k v hv) h.1
    have h2 := conf_entries cp sp e ps r hs hc (fun k' hk' => HK k' (by simp [VEntries.keys, hk'])) h.2
    simp [confEntries, h1, h2]
termination_by sizeOf mo
end

/-! ### identical parents -/

theorem same_children {f : VNode → Option VNode} {ps : List VNode} {w : VNode}
    (H : ∀ q ∈ ps, f q = some w) : ∀ q ∈ ps.filterMap f, q = w :=
  filterMap_forall fun p hp v hv => by
    rw [H p hp] at hv
    injection hv with hv
    exact hv.symm

theorem same_children_ne_nil {f : VNode → Option VNode} {ps : List VNode} {w : VNode} (hne : ps ≠ [])
    (H : ∀ q ∈ ps, f q = some w) : ps.filterMap f ≠ [] := by
  obtain ⟨p, hp⟩ := exists_mem_of_ne_nil hne
  exact filterMap_ne_nil hp (H p hp)

/-- with identical parents the accepted key set is the parents' key set -/
theorem amap_keys_same {sp : PClass} {mn mx : Option Nat} {ps : List VNode} {m : VEntries} {S : List Nat}
    (hne : ps ≠ []) (hall : ∀ q ∈ ps, q = .amap m) (hso : sortedNat m.keys = true)
    (hsz : sizeOk m.length mn mx = true) (hk : keysOk sp mn mx ps S = true) : S = m.keys := by
  obtain ⟨h1, h2, h3, _, h5⟩ := keysOk_spec hk
  have hU : ∀ k, k ∈ unionKeys ps ↔ k ∈ m.keys := by
    intro k
    rw [mem_unionKeys]
    constructor
    · rintro ⟨p, hpm, hkp⟩
      rw [hall p hpm] at hkp
      simpa [mapKeys] using hkp
    · intro hkm
      obtain ⟨p, hpm⟩ := exists_mem_of_ne_nil hne
      refine ⟨p, hpm, ?_⟩
      rw [hall p hpm]
      simpa [mapKeys] using hkm
  have hlenU : (unionKeys ps).length ≤ m.keys.length :=
    List.Nodup.length_le_of_subset (unionKeys_nodup ps) (fun k hk => (hU k).1 hk)
  have hUS : ∀ k ∈ unionKeys ps, k ∈ S := by
    by_cases hlen : (unionKeys ps).length ≤ S.length
    · exact subset_of_length_ge S _ (sortedNat_nodup _ h1) h2 hlen
    · intro k hkU
      rcases h5 k hkU with h | h | h
      · exact h
      · exfalso
        cases mx with
        | none => simp only [Option.getD_none] at h; omega
        | some b =>
          simp only [Option.getD_some] at h
          rw [length_eq_keys] at hsz
          simp only [sizeOk, Bool.and_eq_true, optAll, decide_eq_true_eq] at hsz
          omega
      · exfalso
        have hkm := (hU k).1 hkU
        split at h
        · cases ps with
          | nil => exact hne rfl
          | cons q r =>
            have := h q r rfl
            rw [hall q (by simp)] at this
            exact this (by simpa [mapKeys] using hkm)
        · obtain ⟨q, hq, hkq⟩ := h
          rw [hall q hq] at hkq
          exact hkq (by simpa [mapKeys] using hkm)
  exact sortedNat_ext S m.keys h1 hso fun x =>
    ⟨fun hx => (hU x).1 (h2 x hx), fun hx => hUS x ((hU x).2 hx)⟩

mutual
theorem same_main (cp sp : PClass) (s : SNode) (ps : List VNode) (p out : VNode) (hs : wf s = true)
    (hne : ps ≠ []) (hall : ∀ q ∈ ps, q = p) (hp : conf s p = true)
    (h : crossAcc cp sp s ps out = true) : out = p := by
  cases crossAcc_view h with
  | const h1 h2 => subst h1 h2; exact (conf_const_inv hp).symm
  | single q h1 h2 => subst h1 h2; exact hall _ (by simp)
  | clone hm => exact hall _ hm
  | sub sf fo h1 h2 h3 =>
      subst h1 h2
      obtain ⟨vf, rfl, hvf⟩ := conf_sub_inv hp
      simp only [wf, Bool.and_eq_true] at hs
      congr 1
      exact same_fields cp sp sf ps fo vf hne (fun k s hks => has_wf sf k s hs.2 hks) hs.1.2 hvf
        (fun k _ q hq => by rw [hall q hq]; rfl) h3
  | array e n lo h1 h2 h3 h4 =>
      subst h1 h2
      obtain ⟨l, rfl, hlen, hl⟩ := conf_array_inv hp
      simp only [wf, Bool.and_eq_true] at hs
      congr 1
      exact same_list cp sp e ps 0 lo l hs.2 hne hl (by omega)
        (fun j q hq => by rw [hall q hq]; simp [arrChild]) h4
  | amap e i mn mx mo h1 h2 h3 h4 =>
      subst h1 h2
      obtain ⟨m, rfl, hso, _, hsz, hm⟩ := conf_amap_inv hp
      simp only [wf, Bool.and_eq_true] at hs
      congr 1
      exact same_entries cp sp e ps mo m hs.2 hne hm (amap_keys_same hne hall hso hsz h3) hso
        (fun k _ q hq => by rw [hall q hq]; rfl) h4
  | variant opts i n v cs h1 h2 h3 h4 h5 =>
      subst h1 h2
      simp only [wf, Bool.and_eq_true] at hs
      obtain ⟨q, hqm, v', hq, hv'⟩ := varName_child h3
      have hq' := hall q hqm
      subst hq'
      subst hq
      have hv : v = v' := same_main cp sp cs _ v' v (lookup_wf' opts n cs hs.2 h4)
        (same_children_ne_nil hne fun q hq => by rw [hall q hq]; exact hv')
        (same_children fun q hq => by rw [hall q hq]; exact hv')
        (var_child hp h4 hv') h5
      rw [hv]
  | onone e b h1 h2 h3 =>
      subst h1 h2
      obtain ⟨q, hqm, hab⟩ := List.mem_map.1 h3
      rw [hall q hqm] at hab
      cases p <;> simp [isAbsent] at hab
      rfl
  | osome e b v h1 h2 h3 h4 =>
      subst h1 h2
      simp only [wf] at hs
      obtain ⟨q, hqm, v', hq, hv'⟩ := present_child (fun q hq => by rw [hall q hq]; exact hp) h3
      have hq' := hall q hqm
      subst hq'
      subst hq
      have hv : v = v' := same_main cp sp e _ v' v hs
        (same_children_ne_nil hne fun q hq => by rw [hall q hq]; exact hv')
        (same_children fun q hq => by rw [hall q hq]; exact hv')
        (opt_child hp hv') h4
      rw [hv]
termination_by sizeOf out
theorem same_fields (cp sp : PClass) (sf : SFields) (ps : List VNode) (fo vf : VFields) (hne : ps ≠ [])
    (hw : ∀ k s, SFields.has sf k s → wf s = true) (hso : sortedStr sf.keys = true)
    (hc : confFields sf vf = true) (hch : ∀ k ∈ sf.keys, ∀ q ∈ ps, subChild k q = vf.lookup k)
    (h : crossAccFields cp sp sf ps fo = true) : fo = vf := by
  cases fo with
  | nil =>
    cases sf <;> simp [crossAccFields] at h
    cases vf <;> simp [confFields] at hc
    rfl
  | cons k' v r =>
    cases sf with
    | nil => simp [crossAccFields] at h
    | cons k s sr =>
      cases vf with
      | nil => simp [confFields] at hc
      | cons k0 v0 r0 =>
        simp only [crossAccFields, Bool.and_eq_true, beq_iff_eq] at h
        simp only [confFields, Bool.and_eq_true, beq_iff_eq] at hc
        obtain ⟨⟨rfl, h1⟩, h2⟩ := h
        obtain ⟨⟨rfl, hc1⟩, hc2⟩ := hc
        have hso' := (sortedStr_cons' k sr.keys).1 (by simpa [SFields.keys] using hso)
        have hk : ∀ q ∈ ps, subChild k q = some v0 := fun q hq => by
          rw [hch k (by simp [SFields.keys]) q hq]; simp [VFields.lookup]
        have hv : v = v0 := same_main cp sp s _ v0 v (hw k s (by simp [SFields.has]))
          (same_children_ne_nil hne hk) (same_children hk) hc1 h1
        have hr : r = r0 := same_fields cp sp sr ps r r0 hne (fun k' s' h' => hw k' s' (by simp [SFields.has, h']))
          hso'.2 hc2 (fun k' hk' q hq => by
            have hlt := hso'.1 k' hk'
            have hne' : ¬ k = k' := fun e => String.lt_irrefl k' (e ▸ hlt)
            rw [hch k' (by simp [SFields.keys, hk']) q hq]
            simp [VFields.lookup, hne']) h2
        rw [hv, hr]
termination_by sizeOf fo
theorem same_list (cp sp : PClass) (e : SNode) (ps : List VNode) (i : Nat) (lo l : VList) (hs : wf e = true)
    (hne : ps ≠ []) (hc : confList e l = true) (hlen : lo.length = l.length)
    (hch : ∀ j, ∀ q ∈ ps, arrChild (i + j) q = l.get? j)
    (h : crossAccList cp sp e ps i lo = true) : lo = l := by
  cases lo with
  | nil =>
    cases l with
    | nil => rfl
    | cons _ _ => simp [VList.length] at hlen
  | cons v r =>
    cases l with
    | nil => simp [VList.length] at hlen
    | cons v0 r0 =>
      simp only [crossAccList, Bool.and_eq_true] at h
      simp only [confList, Bool.and_eq_true] at hc
      simp only [VList.length] at hlen
      have hk : ∀ q ∈ ps, arrChild i q = some v0 := fun q hq => by
        have := hch 0 q hq
        simpa [VList.get?] using this
      have hv : v = v0 := same_main cp sp e _ v0 v hs (same_children_ne_nil hne hk) (same_children hk) hc.1 h.1
      have hr : r = r0 := same_list cp sp e ps (i+1) r r0 hs hne hc.2 (by omega)
        (fun j q hq => by
          have := hch (j+1) q hq
          rw [show i + 1 + j = i + (j + 1) by omega, this]
          simp [VList.get?]) h.2
      rw [hv, hr]
termination_by sizeOf lo
theorem same_entries (cp sp : PClass) (e : SNode) (ps : List VNode) (mo m : VEntries) (hs : wf e = true)
    (hne : ps ≠ []) (hc : confEntries e m = true) (hk : mo.keys = m.keys) (hso : sortedNat m.keys = true)
    (hch : ∀ k ∈ m.keys, ∀ q ∈ ps, mapChild k q = m.lookup k)
    (h : crossAccEntries cp sp e ps mo = true) : mo = m := by
  cases mo with
  | nil =>
    cases m with
    | nil => rfl
    | cons _ _ _ => simp [VEntries.keys] at hk
  | cons k v r =>
    cases m with
    | nil => simp [VEntries.keys] at hk
    | cons k0 v0 r0 =>
      simp only [VEntries.keys, List.cons.injEq] at hk
      obtain ⟨rfl, hk⟩ := hk
      simp only [crossAccEntries, Bool.and_eq_true] at h
      simp only [confEntries, Bool.and_eq_true] at hc
      have hso' := (sortedNat_cons' k r0.keys).1 (by simpa [VEntries.keys] using hso)
      have hkk : ∀ q ∈ ps, mapChild k q = some v0 := fun q hq => by
        rw [hch k (by simp [VEntries.keys]) q hq]; simp [VEntries.lookup]
      have hv : v = v0 := same_main cp sp e _ v0 v hs (same_children_ne_nil hne hkk) (same_children hkk) hc.1 h.1
      have hr : r = r0 := same_entries cp sp e ps r r0 hs hne hc.2 hk hso'.2
        (fun k' hk' q hq => by
          have hlt := hso'.1 k' hk'
          have hne' : ¬ k = k' := by omega
          rw [hch k' (by simp [VEntries.keys, hk']) q hq]
          simp [VEntries.lookup, hne']) h.2
      rw [hv, hr]
termination_by sizeOf mo
end

end Cross

/-- crossover preserves conformance -/
theorem crossAcc_conf (cp sp : PClass) (s : SNode) (ps : List VNode) (out : VNode) (hs : wf s = true)
    (hne : ps ≠ []) (hp : ∀ p ∈ ps, conf s p = true) (h : crossAcc cp sp s ps out = true) : conf s out = true :=
  Cross.conf_main cp sp s ps out hs hne hp h

/-- every accepted offspring satisfies the provenance relation.
    ADDED HYPOTHESIS `hs : wf s`: children of a `sub` are looked up by key, so with a duplicated key in a
    (non-well-formed) spec the second field's children are the first field's values; e.g.
    `s = sub [a: bool, a: opt const]`, parents `[a: true, a: some const]`, `[a: false, a: none]`, the accepted
    offspring `[a: false, a: some const]` has no provenance. -/
theorem crossAcc_prov (cp sp : PClass) (s : SNode) (ps : List VNode) (out : VNode) (hs : wf s = true)
    (hp : ∀ p ∈ ps, conf s p = true) (h : crossAcc cp sp s ps out = true) : prov s ps out = true :=
  Cross.prov_main cp sp s ps out hs hp h

/-- a single parent is returned unchanged -/
theorem crossAcc_single (cp sp : PClass) (s : SNode) (p out : VNode) (hp : conf s p = true)
    (h : crossAcc cp sp s [p] out = true) : out = p :=
  Cross.single cp sp s p out hp h

/-- identical parents give an identical offspring -/
theorem crossAcc_same (cp sp : PClass) (s : SNode) (ps : List VNode) (p out : VNode) (hs : wf s = true)
    (hne : ps ≠ []) (hall : ∀ q ∈ ps, q = p) (hp : conf s p = true)
    (h : crossAcc cp sp s ps out = true) : out = p :=
  Cross.same_main cp sp s ps p out hs hne hall hp h

end Cambrian
