/-
Lemmas behind C01 (crossover closure) and C12 (recombination invents nothing), for every spec, every ordered
parent list and every nesting.
-/
import CambrianModel.Model.Crossover
namespace Cambrian

/-- crossover preserves conformance -/
theorem crossAcc_conf (cp sp : PClass) (s : SNode) (ps : List VNode) (out : VNode) (hs : wf s = true)
    (hne : ps ≠ []) (hp : ∀ p ∈ ps, conf s p = true) (h : crossAcc cp sp s ps out = true) : conf s out = true := by
  sorry

/-- every accepted offspring satisfies the provenance relation -/
theorem crossAcc_prov (cp sp : PClass) (s : SNode) (ps : List VNode) (out : VNode)
    (hp : ∀ p ∈ ps, conf s p = true) (h : crossAcc cp sp s ps out = true) : prov s ps out = true := by
  sorry

/-- a single parent is returned unchanged -/
theorem crossAcc_single (cp sp : PClass) (s : SNode) (p out : VNode) (hp : conf s p = true)
    (h : crossAcc cp sp s [p] out = true) : out = p := by
  sorry

/-- identical parents give an identical offspring -/
theorem crossAcc_same (cp sp : PClass) (s : SNode) (ps : List VNode) (p out : VNode) (hs : wf s = true)
    (hne : ps ≠ []) (hall : ∀ q ∈ ps, q = p) (hp : conf s p = true)
    (h : crossAcc cp sp s ps out = true) : out = p := by
  sorry

end Cambrian
