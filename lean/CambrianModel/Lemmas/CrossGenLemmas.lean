/-
Refinement: every result of the algorithm `crossGen` (the code-shaped model of `Crossover::crossover`) is accepted by
the acceptor `crossAcc` - for every spec, every non-empty list of conforming parents, every consistent oracle.
-/
import CambrianModel.Model.CrossGen
import CambrianModel.Lemmas.KeySelectLemmas
import CambrianModel.Lemmas.CrossLemmas
import CambrianModel.Lemmas.JsonLemmas
namespace Cambrian
namespace CrossG
open Cross

/-! ### lists of at least two parents -/

theorem two_of_length {ps : List VNode} (h : 2 ≤ ps.length) : ∃ a b r, ps = a :: b :: r := by
  cases ps with
  | nil => simp at h
  | cons a t =>
    cases t with
    | nil => simp at h
    | cons b r => exact ⟨a, b, r, rfl⟩

theorem ne_nil_of_two {ps : List VNode} (h : 2 ≤ ps.length) : ps ≠ [] := by
  intro e; subst e; simp at h

/-! ### introduction rules of the acceptor (two or more parents) -/

theorem acc_clone {cp sp : PClass} {s : SNode} {ps : List VNode} {out : VNode} (hs : s ≠ .const)
    (h2 : 2 ≤ ps.length) (h1 : (isLeaf s || cp == .zero || cp == .mid) = true) (h3 : selOk sp ps out = true) :
    crossAcc cp sp s ps out = true := by
  obtain ⟨a, b, r, rfl⟩ := two_of_length h2
  unfold crossAcc
  split
  · exact absurd rfl hs
  · simp [h1, h3]

theorem acc_sub {cp sp : PClass} {sf : SFields} {ps : List VNode} {fo : VFields} (h2 : 2 ≤ ps.length)
    (h1 : (cp == .one || cp == .mid) = true) (h3 : crossAccFields cp sp sf ps fo = true) :
    crossAcc cp sp (.sub sf) ps (.sub fo) = true := by
  obtain ⟨a, b, r, rfl⟩ := two_of_length h2
  simp [crossAcc, h1, h3]

theorem acc_array {cp sp : PClass} {e : SNode} {n : Nat} {ps : List VNode} {lo : VList} (h2 : 2 ≤ ps.length)
    (h1 : (cp == .one || cp == .mid) = true) (h3 : lo.length = n) (h4 : crossAccList cp sp e ps 0 lo = true) :
    crossAcc cp sp (.array e n) ps (.array lo) = true := by
  obtain ⟨a, b, r, rfl⟩ := two_of_length h2
  simp [crossAcc, h1, h3, h4]

theorem acc_amap {cp sp : PClass} {e : SNode} {i : Nat} {mn mx : Option Nat} {ps : List VNode} {mo : VEntries}
    (h2 : 2 ≤ ps.length) (h1 : (cp == .one || cp == .mid) = true) (h3 : keysOk sp mn mx ps mo.keys = true)
    (h4 : crossAccEntries cp sp e ps mo = true) :
    crossAcc cp sp (.amap e i mn mx) ps (.amap mo) = true := by
  obtain ⟨a, b, r, rfl⟩ := two_of_length h2
  simp [crossAcc, h1, h3, h4]

theorem acc_variant {cp sp : PClass} {opts : SFields} {i n : String} {cs : SNode} {ps : List VNode} {v : VNode}
    (h2 : 2 ≤ ps.length) (h1 : (cp == .one || cp == .mid) = true)
    (h3 : (match (ps.filterMap varName).eraseDups with
              | [only] => n == only
              | names => selOk sp (ps.filterMap varName) n && names.contains n) = true)
    (h4 : opts.lookup n = some cs)
    (h5 : crossAcc cp sp cs (ps.filterMap (varChild n)) v = true) :
    crossAcc cp sp (.variant opts i) ps (.variant n v) = true := by
  obtain ⟨a, b, r, rfl⟩ := two_of_length h2
  unfold crossAcc
  simp only [h1, Bool.true_and, Bool.or_eq_true, Bool.and_eq_true]
  exact Or.inr ⟨h3, by rw [h4]; exact h5⟩

theorem acc_onone {cp sp : PClass} {e : SNode} {i : Bool} {ps : List VNode} (h2 : 2 ≤ ps.length)
    (h1 : (cp == .one || cp == .mid) = true)
    (h3 : (match (ps.map isAbsent).eraseDups with
              | [only] => only
              | _ => selOk sp (ps.map isAbsent) true) = true) :
    crossAcc cp sp (.opt e i) ps .onone = true := by
  obtain ⟨a, b, r, rfl⟩ := two_of_length h2
  unfold crossAcc
  simp only [h1, Bool.true_and, Bool.or_eq_true, Bool.and_eq_true]
  exact Or.inr h3

theorem acc_osome {cp sp : PClass} {e : SNode} {i : Bool} {ps : List VNode} {v : VNode} (h2 : 2 ≤ ps.length)
    (h1 : (cp == .one || cp == .mid) = true)
    (h3 : (match (ps.map isAbsent).eraseDups with
              | [only] => !only
              | _ => selOk sp (ps.map isAbsent) false) = true)
    (h4 : crossAcc cp sp e (ps.filterMap optChild) v = true) :
    crossAcc cp sp (.opt e i) ps (.osome v) = true := by
  obtain ⟨a, b, r, rfl⟩ := two_of_length h2
  unfold crossAcc
  simp only [h1, Bool.true_and, Bool.or_eq_true, Bool.and_eq_true]
  exact Or.inr ⟨h3, h4⟩

/-! ### one-step view of the algorithm (two or more parents) -/

theorem gen_clone {o : CrossOracle} {s : SNode} {p : Path} {ps : List VNode} (hs : s ≠ .const) (h2 : 2 ≤ ps.length)
    (h : (isLeaf s || !(o.decide p)) = true) : crossGen o s p ps = selectD ps (o.sel p 0) := by
  obtain ⟨a, b, r, rfl⟩ := two_of_length h2
  rw [crossGen.eq_def]
  split
  · exact absurd rfl hs
  · simp only [h, if_true]

theorem gen_sub {o : CrossOracle} {sf : SFields} {p : Path} {ps : List VNode} (h2 : 2 ≤ ps.length)
    (h : o.decide p = true) : crossGen o (.sub sf) p ps = .sub (crossGenFields o sf p ps) := by
  obtain ⟨a, b, r, rfl⟩ := two_of_length h2
  rw [crossGen.eq_4 _ _ _ _ (by simp) (by simp)]
  simp [isLeaf, h]

theorem gen_array {o : CrossOracle} {e : SNode} {n : Nat} {p : Path} {ps : List VNode} (h2 : 2 ≤ ps.length)
    (h : o.decide p = true) :
    crossGen o (.array e n) p ps =
      .array (mkVList (fun i => crossGen o e (toString i :: p) (ps.filterMap (arrChild i))) n 0) := by
  obtain ⟨a, b, r, rfl⟩ := two_of_length h2
  rw [crossGen.eq_5 _ _ _ _ _ (by simp) (by simp)]
  simp [isLeaf, h]

theorem gen_amap {o : CrossOracle} {e : SNode} {i : Nat} {mn mx : Option Nat} {p : Path} {ps : List VNode}
    (h2 : 2 ≤ ps.length) (h : o.decide p = true) :
    crossGen o (.amap e i mn mx) p ps =
      .amap ((selectKeys mn mx ps (o.shuffle p (unionKeys ps)) (fun i => o.sel p (i + 1) % ps.length)).foldl
        (fun m k => m.insert k (crossGen o e (toString k :: p) (ps.filterMap (mapChild k)))) .nil) := by
  obtain ⟨a, b, r, rfl⟩ := two_of_length h2
  rw [crossGen.eq_6 _ _ _ _ _ _ _ (by simp) (by simp)]
  simp [isLeaf, h]

/-- the variant name the algorithm selects -/
def pickName (o : CrossOracle) (p : Path) (ps : List VNode) : String :=
  if (ps.filterMap varName).eraseDups.length > 1 then (varName (selectD ps (o.sel p 0))).getD ""
  else (ps.filterMap varName).headD ""

theorem gen_variant {o : CrossOracle} {opts : SFields} {i : String} {p : Path} {ps : List VNode}
    (h2 : 2 ≤ ps.length) (h : o.decide p = true) :
    crossGen o (.variant opts i) p ps =
      (match crossGenOpt o opts (pickName o p ps) p (ps.filterMap (varChild (pickName o p ps))) with
       | some v => .variant (pickName o p ps) v
       | none => selectD ps 0) := by
  obtain ⟨a, b, r, rfl⟩ := two_of_length h2
  rw [crossGen.eq_7 _ _ _ _ _ (by simp) (by simp)]
  simp only [isLeaf, h, Bool.not_true, Bool.or_false, Bool.false_eq_true, if_false]
  rfl

/-- whether the algorithm makes the optional value absent -/
def pickNone (o : CrossOracle) (p : Path) (ps : List VNode) : Bool :=
  if (ps.map isAbsent).eraseDups.length == 1 then (ps.map isAbsent).headD false
  else isAbsent (selectD ps (o.sel p 0))

theorem gen_opt {o : CrossOracle} {e : SNode} {i : Bool} {p : Path} {ps : List VNode}
    (h2 : 2 ≤ ps.length) (h : o.decide p = true) :
    crossGen o (.opt e i) p ps =
      if pickNone o p ps = true then .onone
      else .osome (crossGen o e ("optional" :: p) (ps.filterMap optChild)) := by
  obtain ⟨a, b, r, rfl⟩ := two_of_length h2
  rw [crossGen.eq_8 _ _ _ _ _ (by simp) (by simp)]
  simp only [isLeaf, h, Bool.not_true, Bool.or_false, Bool.false_eq_true, if_false]
  rfl

/-! ### selection -/

theorem selectD_mem {ps : List VNode} (hne : ps ≠ []) (i : Nat) : selectD ps i ∈ ps :=
  getD_mem ps _ _ (Nat.mod_lt _ (List.length_pos_iff.2 hne))

theorem selectD_zero (a : VNode) (r : List VNode) : selectD (a :: r) 0 = a := by
  simp [selectD]

/-- what rank selection returns is accepted by `selOk`, also seen through a projection `f` of the parents -/
theorem selOk_map {β} [BEq β] [LawfulBEq β] (f : VNode → β) {sp : PClass} {ps : List VNode} (hne : ps ≠ [])
    (hsp : sp ≠ .invalid) {i : Nat} (h1 : sp = .one → i = 0) : selOk sp (ps.map f) (f (selectD ps i)) = true := by
  have hm : f (selectD ps i) ∈ ps.map f := List.mem_map.2 ⟨_, selectD_mem hne i, rfl⟩
  cases sp with
  | invalid => exact absurd rfl hsp
  | one =>
    cases ps with
    | nil => exact absurd rfl hne
    | cons a r => rw [h1 rfl, selectD_zero]; simp [selOk]
  | zero => simpa [selOk] using hm
  | mid => simpa [selOk] using hm

theorem selOk_selectD {sp : PClass} {ps : List VNode} (hne : ps ≠ []) (hsp : sp ≠ .invalid) {i : Nat}
    (h1 : sp = .one → i = 0) : selOk sp ps (selectD ps i) = true := by
  have := selOk_map (fun x => x) hne hsp h1
  simpa using this

/-- the duplicate-free version of a non-empty list is its head alone, or has at least two members -/
theorem eraseDups_cases {β} [BEq β] (l : List β) (hne : l ≠ []) :
    (∃ only, l.eraseDups = [only] ∧ l.head? = some only) ∨ (∃ x y t, l.eraseDups = x :: y :: t) := by
  cases l with
  | nil => exact absurd rfl hne
  | cons c t =>
    rw [List.eraseDups_cons]
    cases h : (List.filter (fun b => !b == c) t).eraseDups with
    | nil => exact .inl ⟨c, rfl, rfl⟩
    | cons y t' => exact .inr ⟨c, y, t', rfl⟩

/-! ### what the oracle's decision says about the class of the crossover probability -/

theorem cp_of_decide {o : CrossOracle} {cp sp : PClass} (hc : o.Consistent cp sp) {p : Path} (h : o.decide p = true) :
    (cp == .one || cp == .mid) = true := by
  obtain ⟨h0, _, hi, _⟩ := hc
  cases cp with
  | zero => have := h0 rfl p; rw [h] at this; cases this
  | mid => rfl
  | one => rfl
  | invalid => exact absurd rfl hi

theorem cp_of_not_decide {o : CrossOracle} {cp sp : PClass} (hc : o.Consistent cp sp) {p : Path}
    (h : o.decide p = false) : (cp == .zero || cp == .mid) = true := by
  obtain ⟨_, h1, hi, _⟩ := hc
  cases cp with
  | zero => rfl
  | mid => rfl
  | one => have := h1 rfl p; rw [h] at this; cases this
  | invalid => exact absurd rfl hi

/-- a clone of the selected parent is accepted: always for a leaf, for an inner node when crossover is not decided -/
theorem clone_case {o : CrossOracle} {cp sp : PClass} (hc : o.Consistent cp sp) {s : SNode} {p : Path}
    {ps : List VNode} (hs : s ≠ .const) (h2 : 2 ≤ ps.length) (h : (isLeaf s || !(o.decide p)) = true) :
    crossAcc cp sp s ps (crossGen o s p ps) = true := by
  rw [gen_clone hs h2 h]
  refine acc_clone hs h2 ?_ (selOk_selectD (ne_nil_of_two h2) hc.2.2.2.1 (fun h1 => hc.2.2.2.2.1 h1 p 0))
  cases hl : isLeaf s with
  | true => rfl
  | false =>
    rw [hl] at h
    have hd : o.decide p = false := by simpa using h
    have := cp_of_not_decide hc hd
    simpa [Bool.or_assoc] using this

/-! ### arrays -/

theorem mkVList_length (f : Nat → VNode) : ∀ (n i : Nat), (mkVList f n i).length = n
  | 0, _ => rfl
  | n+1, i => by simp [mkVList, VList.length, mkVList_length f n (i+1)]

theorem mkVList_acc {cp sp : PClass} {e : SNode} {ps : List VNode} (f : Nat → VNode) :
    ∀ (n i : Nat), (∀ j, i ≤ j → j < i + n → crossAcc cp sp e (ps.filterMap (arrChild j)) (f j) = true) →
      crossAccList cp sp e ps i (mkVList f n i) = true
  | 0, _, _ => by simp [mkVList, crossAccList]
  | n+1, i, H => by
      simp only [mkVList, crossAccList, Bool.and_eq_true]
      exact ⟨H i (Nat.le_refl _) (by omega), mkVList_acc f n (i+1) (fun j h1 h2 => H j (by omega) (by omega))⟩

/-! ### anonymous maps -/

theorem insert_acc {cp sp : PClass} {e : SNode} {ps : List VNode} (k : Nat) (v : VNode)
    (hv : crossAcc cp sp e (ps.filterMap (mapChild k)) v = true) :
    ∀ (m : VEntries), crossAccEntries cp sp e ps m = true → crossAccEntries cp sp e ps (m.insert k v) = true
  | .nil, _ => by simp [VEntries.insert, crossAccEntries, hv]
  | .cons k' v' r, h => by
      simp only [crossAccEntries, Bool.and_eq_true] at h
      simp only [VEntries.insert]
      split
      · simp [crossAccEntries, hv, h]
      · split
        · simp [crossAccEntries, hv, h]
        · simp [crossAccEntries, h, insert_acc k v hv r h.2]

theorem foldl_insert_acc {cp sp : PClass} {e : SNode} {ps : List VNode} (g : Nat → VNode) :
    ∀ (l : List Nat) (m : VEntries), (∀ k ∈ l, crossAcc cp sp e (ps.filterMap (mapChild k)) (g k) = true) →
      crossAccEntries cp sp e ps m = true →
      crossAccEntries cp sp e ps (l.foldl (fun m k => m.insert k (g k)) m) = true
  | [], _, _, h => h
  | k :: l, m, H, h => by
      simp only [List.foldl_cons]
      exact foldl_insert_acc g l _ (fun k' hk' => H k' (by simp [hk'])) (insert_acc k (g k) (H k (by simp)) m h)

theorem foldl_insert_sorted (g : Nat → VNode) :
    ∀ (l : List Nat) (m : VEntries), sortedNat m.keys = true →
      sortedNat (l.foldl (fun m k => m.insert k (g k)) m).keys = true
  | [], _, h => h
  | k :: l, m, h => by
      simp only [List.foldl_cons]
      exact foldl_insert_sorted g l _ (VEntries.insert_sorted k (g k) m h)

theorem foldl_insert_mem (g : Nat → VNode) :
    ∀ (l : List Nat) (m : VEntries) (x : Nat),
      x ∈ (l.foldl (fun m k => m.insert k (g k)) m).keys ↔ (x ∈ l ∨ x ∈ m.keys)
  | [], _, _ => by simp
  | k :: l, m, x => by
      simp only [List.foldl_cons, List.mem_cons]
      rw [foldl_insert_mem g l _ x, VEntries.mem_insert_keys]
      constructor
      · rintro (h | h | h)
        · exact .inl (.inr h)
        · exact .inl (.inl h)
        · exact .inr h
      · rintro ((h | h) | h)
        · exact .inr (.inl h)
        · exact .inl h
        · exact .inr (.inr h)

/-- the key list of the map built from a duplicate-free key list is that list, sorted -/
theorem foldl_insert_perm (g : Nat → VNode) (l : List Nat) (hl : l.Nodup) :
    (l.foldl (fun (m : VEntries) k => m.insert k (g k)) VEntries.nil).keys.Perm l := by
  have hs := foldl_insert_sorted g l .nil (by simp [VEntries.keys, sortedNat])
  rw [List.perm_ext_iff_of_nodup (sortedNat_nodup _ hs) hl]
  intro x
  rw [foldl_insert_mem]
  simp [VEntries.keys]

/-- the loop only appends keys of the remaining order, in that order -/
theorem selLoop_sublist (minS maxS : Nat) (ps : List VNode) (sel : Nat → Nat) :
    ∀ (r : List Nat) (i : Nat) (acc : List Nat), ∃ t, t.Sublist r ∧ selLoop minS maxS ps sel r i acc = acc ++ t
  | [], _, acc => ⟨[], List.Sublist.refl _, by simp [selLoop]⟩
  | k :: r, i, acc => by
      simp only [selLoop]
      generalize (if acc.length < minS then true else (mapKeys (ps.getD (sel i) .const)).contains k) = take
      cases take with
      | true =>
        simp only [if_true]
        split
        · exact ⟨[k], by simp, rfl⟩
        · obtain ⟨t, ht, he⟩ := selLoop_sublist minS maxS ps sel r (i+1) (acc ++ [k])
          exact ⟨k :: t, ht.cons_cons k, by rw [he]; simp⟩
      | false =>
        simp only [Bool.false_eq_true, if_false]
        split
        · exact ⟨[], by simp, by simp⟩
        · obtain ⟨t, ht, he⟩ := selLoop_sublist minS maxS ps sel r (i+1) acc
          exact ⟨t, ht.cons k, he⟩

theorem selectKeys_sublist (mn mx : Option Nat) (ps : List VNode) (order : List Nat) (sel : Nat → Nat) :
    (selectKeys mn mx ps order sel).Sublist order := by
  obtain ⟨t, ht, he⟩ := selLoop_sublist (mn.getD 0) (mx.getD order.length) ps sel order 0 []
  rw [selectKeys, he]
  simpa using ht

theorem amap_keysOk {o : CrossOracle} {cp sp : PClass} (hc : o.Consistent cp sp) {e : SNode} {i : Nat}
    {mn mx : Option Nat} (hs : wf (.amap e i mn mx) = true) (p : Path) {ps : List VNode} (hne : ps ≠ [])
    (g : Nat → VNode) :
    keysOk sp mn mx ps
      ((selectKeys mn mx ps (o.shuffle p (unionKeys ps)) (fun i => o.sel p (i + 1) % ps.length)).foldl
        (fun (m : VEntries) k => m.insert k (g k)) VEntries.nil).keys = true := by
  simp only [wf, Bool.and_eq_true, bne_iff_ne, ne_eq] at hs
  obtain ⟨⟨⟨⟨⟨hb, hmx⟩, _⟩, _⟩, _⟩, _⟩ := hs
  have hperm := hc.2.2.2.2.2 p (unionKeys ps)
  have hnd : (selectKeys mn mx ps (o.shuffle p (unionKeys ps)) (fun i => o.sel p (i + 1) % ps.length)).Nodup :=
    (selectKeys_sublist _ _ _ _ _).nodup (hperm.nodup_iff.2 (unionKeys_nodup ps))
  refine selectKeys_keysOk sp mn mx ps _ _ _ hc.2.2.2.1 hne hperm
    (fun i => Nat.mod_lt _ (List.length_pos_iff.2 hne)) (fun h1 i => by rw [hc.2.2.2.2.1 h1]; simp) hmx ?_
    (foldl_insert_perm g _ hnd) (foldl_insert_sorted g _ .nil (by simp [VEntries.keys, sortedNat]))
  intro a b ha hb'
  subst ha hb'
  simpa using hb

/-! ### variants -/

theorem names_eq_map {opts : SFields} {i : String} : ∀ {ps : List VNode},
    (∀ q ∈ ps, conf (.variant opts i) q = true) → ps.filterMap varName = ps.map (fun q => (varName q).getD "")
  | [], _ => rfl
  | a :: r, hp => by
      obtain ⟨n, v, cs, rfl, _, _⟩ := conf_variant_inv (hp a (by simp))
      have ih := names_eq_map (ps := r) (fun q hq => hp q (by simp [hq]))
      simp [varName, ih]

theorem pickName_ok {o : CrossOracle} {cp sp : PClass} (hc : o.Consistent cp sp) {opts : SFields} {i : String}
    (p : Path) {ps : List VNode} (hne : ps ≠ []) (hp : ∀ q ∈ ps, conf (.variant opts i) q = true) :
    (match (ps.filterMap varName).eraseDups with
     | [only] => pickName o p ps == only
     | names => selOk sp (ps.filterMap varName) (pickName o p ps) && names.contains (pickName o p ps)) = true := by
  have hmap := names_eq_map hp
  have hne' : ps.filterMap varName ≠ [] := by rw [hmap]; simpa using hne
  rcases eraseDups_cases _ hne' with ⟨only, h1, h2⟩ | ⟨x, y, t, h⟩
  · have hpick : pickName o p ps = only := by
      simp [pickName, h1, List.headD_eq_head?_getD, h2]
    rw [hpick, h1]
    simp
  · have hpick : pickName o p ps = (varName (selectD ps (o.sel p 0))).getD "" := by
      simp [pickName, h]
    have hsel : selOk sp (ps.filterMap varName) (pickName o p ps) = true := by
      rw [hpick, hmap]
      exact selOk_map (fun q => (varName q).getD "") hne hc.2.2.2.1 (fun h1 => hc.2.2.2.2.1 h1 p 0)
    have hmem : pickName o p ps ∈ (ps.filterMap varName).eraseDups := by
      rw [List.mem_eraseDups]
      exact selOk_mem hsel
    rw [h] at hmem ⊢
    simp only [hsel, Bool.true_and, List.contains_iff_mem]
    simpa using hmem

/-! ### optional values -/

theorem pickNone_true {o : CrossOracle} {cp sp : PClass} (hc : o.Consistent cp sp) (p : Path) {ps : List VNode}
    (hne : ps ≠ []) (h : pickNone o p ps = true) :
    (match (ps.map isAbsent).eraseDups with
     | [only] => only
     | _ => selOk sp (ps.map isAbsent) true) = true := by
  have hne' : ps.map isAbsent ≠ [] := by simpa using hne
  rcases eraseDups_cases _ hne' with ⟨only, h1, h2⟩ | ⟨x, y, t, h'⟩
  · have hpick : pickNone o p ps = only := by
      simp [pickNone, h1, List.headD_eq_head?_getD, h2]
    rw [h1]
    simp only
    rw [← hpick, h]
  · have hpick : pickNone o p ps = isAbsent (selectD ps (o.sel p 0)) := by
      simp [pickNone, h']
    rw [h']
    simp only
    have := selOk_map (sp := sp) isAbsent hne hc.2.2.2.1 (fun h1 => hc.2.2.2.2.1 h1 p 0)
    rw [← hpick, h] at this
    exact this

theorem pickNone_false {o : CrossOracle} {cp sp : PClass} (hc : o.Consistent cp sp) (p : Path) {ps : List VNode}
    (hne : ps ≠ []) (h : pickNone o p ps = false) :
    (match (ps.map isAbsent).eraseDups with
     | [only] => !only
     | _ => selOk sp (ps.map isAbsent) false) = true := by
  have hne' : ps.map isAbsent ≠ [] := by simpa using hne
  rcases eraseDups_cases _ hne' with ⟨only, h1, h2⟩ | ⟨x, y, t, h'⟩
  · have hpick : pickNone o p ps = only := by
      simp [pickNone, h1, List.headD_eq_head?_getD, h2]
    rw [h1]
    simp only
    rw [← hpick, h]
    rfl
  · have hpick : pickNone o p ps = isAbsent (selectD ps (o.sel p 0)) := by
      simp [pickNone, h']
    rw [h']
    simp only
    have := selOk_map (sp := sp) isAbsent hne hc.2.2.2.1 (fun h1 => hc.2.2.2.2.1 h1 p 0)
    rw [← hpick, h] at this
    exact this

/-! ### the refinement -/

theorem single_case (o : CrossOracle) (cp sp : PClass) (s : SNode) (p : Path) (x : VNode) :
    crossAcc cp sp s [x] (crossGen o s p [x]) = true := by
  by_cases hc : s = .const
  · subst hc
    rw [crossGen.eq_1, crossAcc.eq_1]
    rfl
  · rw [crossGen.eq_3 _ _ _ _ hc, crossAcc.eq_3 _ _ _ _ _ hc]
    exact beq_self_eq_true x

mutual
theorem main (o : CrossOracle) (cp sp : PClass) (hc : o.Consistent cp sp) (s : SNode) (p : Path)
    (ps : List VNode) (hs : wf s = true) (hne : ps ≠ []) (hp : ∀ q ∈ ps, conf s q = true) :
    crossAcc cp sp s ps (crossGen o s p ps) = true := by
  by_cases h2 : 2 ≤ ps.length
  · cases hd : o.decide p with
    | false =>
      by_cases hcst : s = .const
      · subst hcst
        rw [crossGen.eq_1, crossAcc.eq_1]
        rfl
      · exact clone_case hc hcst h2 (by simp [hd])
    | true =>
      have hcp := cp_of_decide hc hd
      cases s with
      | const => rw [crossGen.eq_1, crossAcc.eq_1]; rfl
      | real _ _ _ _ => exact clone_case hc (by simp) h2 (by simp [isLeaf])
      | int _ _ _ _ => exact clone_case hc (by simp) h2 (by simp [isLeaf])
      | bool _ => exact clone_case hc (by simp) h2 (by simp [isLeaf])
      | enum _ _ => exact clone_case hc (by simp) h2 (by simp [isLeaf])
      | sub sf =>
        rw [gen_sub h2 hd]
        exact acc_sub h2 hcp (fields o cp sp hc sf p ps hne (fieldsOk_of_conf hs hp))
      | array e n =>
        simp only [wf, Bool.and_eq_true] at hs
        rw [gen_array h2 hd]
        refine acc_array h2 hcp (mkVList_length _ _ _) (mkVList_acc _ n 0 fun j _ hj => ?_)
        exact main o cp sp hc e (toString j :: p) (ps.filterMap (arrChild j)) hs.2
          (children_ne_nil hne fun q hq => arr_child_ex (hp q hq) (by omega))
          (filterMap_forall fun q hq v hv => arr_child (hp q hq) hv)
      | amap e i mn mx =>
        rw [gen_amap h2 hd]
        refine acc_amap h2 hcp (amap_keysOk hc hs p hne _) ?_
        simp only [wf, Bool.and_eq_true] at hs
        refine foldl_insert_acc _ _ .nil (fun k hk => ?_) (by simp [crossAccEntries])
        have hku : k ∈ unionKeys ps :=
          (hc.2.2.2.2.2 p (unionKeys ps)).mem_iff.1 ((selectKeys_sublist _ _ _ _ _).subset hk)
        obtain ⟨q, hq, hkq⟩ := mem_unionKeys.1 hku
        obtain ⟨v, hv⟩ := mapKeys_child hkq
        exact main o cp sp hc e (toString k :: p) (ps.filterMap (mapChild k)) hs.2
          (filterMap_ne_nil hq hv) (filterMap_forall fun q hq v hv => map_child (hp q hq) hv)
      | variant opts i =>
        have hn := pickName_ok (sp := sp) hc p hne hp
        obtain ⟨q, hq, v, hqv, hv⟩ := varName_child (names_mem hn)
        obtain ⟨n', v', cs, hq', hl, _⟩ := conf_variant_inv (hp q hq)
        have hl' : opts.lookup (pickName o p ps) = some cs := by
          rw [hqv] at hq'
          injection hq' with h1 _
          rw [h1]; exact hl
        simp only [wf, Bool.and_eq_true] at hs
        obtain ⟨w, hw, hacc⟩ := optc o cp sp hc opts (pickName o p ps) cs p (ps.filterMap (varChild (pickName o p ps)))
          hs.2 hl' (filterMap_ne_nil hq hv) (filterMap_forall fun q hq v hv => var_child (hp q hq) hl' hv)
        rw [gen_variant h2 hd, hw]
        exact acc_variant h2 hcp hn hl' hacc
      | opt e i =>
        simp only [wf] at hs
        rw [gen_opt h2 hd]
        cases hpn : pickNone o p ps with
        | true =>
          simp only [if_true]
          exact acc_onone h2 hcp (pickNone_true hc p hne hpn)
        | false =>
          simp only [Bool.false_eq_true, if_false]
          have hab := pickNone_false (sp := sp) hc p hne hpn
          obtain ⟨q, hq, v, _, hv⟩ := present_child hp (absent_false hab)
          refine acc_osome h2 hcp hab ?_
          exact main o cp sp hc e ("optional" :: p) (ps.filterMap optChild) hs (filterMap_ne_nil hq hv)
            (filterMap_forall fun q hq v hv => opt_child (hp q hq) hv)
  · cases ps with
    | nil => exact absurd rfl hne
    | cons a r =>
      cases r with
      | nil => exact single_case o cp sp s p a
      | cons b r => exact absurd (by simp) h2
termination_by structural s
theorem fields (o : CrossOracle) (cp sp : PClass) (hc : o.Consistent cp sp) (sf : SFields) (p : Path)
    (ps : List VNode) (hne : ps ≠ []) (H : FieldsOk sf ps) :
    crossAccFields cp sp sf ps (crossGenFields o sf p ps) = true := by
  cases sf with
  | nil => simp [crossGenFields, crossAccFields]
  | cons k s sr =>
    simp only [crossGenFields, crossAccFields, Bool.and_eq_true, beq_self_eq_true, true_and]
    exact ⟨main o cp sp hc s (k :: p) _ H.head.1 (children_ne_nil hne H.head.2) (FieldsOk.children H.head.2),
      fields o cp sp hc sr p ps hne H.tail⟩
termination_by structural sf
theorem optc (o : CrossOracle) (cp sp : PClass) (hc : o.Consistent cp sp) (opts : SFields) (name : String)
    (cs : SNode) (p : Path) (chs : List VNode) (hw : wfFields opts = true) (hl : opts.lookup name = some cs)
    (hne : chs ≠ []) (hp : ∀ q ∈ chs, conf cs q = true) :
    ∃ v, crossGenOpt o opts name p chs = some v ∧ crossAcc cp sp cs chs v = true := by
  cases opts with
  | nil => simp [SFields.lookup] at hl
  | cons k s r =>
    simp only [wfFields, Bool.and_eq_true] at hw
    simp only [SFields.lookup] at hl
    simp only [crossGenOpt]
    cases hk : k == name with
    | true =>
      rw [hk] at hl
      simp only [if_true, Option.some.injEq] at hl
      refine ⟨_, rfl, ?_⟩
      rw [← hl]
      exact main o cp sp hc s (name :: p) chs hw.1 hne (by rw [hl]; exact hp)
    | false =>
      rw [hk] at hl
      simp only [Bool.false_eq_true, if_false] at hl ⊢
      exact optc o cp sp hc r name cs p chs hw.2 hl hne hp
termination_by structural opts
end

end CrossG

/-- every result of the crossover algorithm is accepted by the acceptor -/
theorem crossGen_crossAcc (o : CrossOracle) (cp sp : PClass) (hc : o.Consistent cp sp) (s : SNode) (p : Path)
    (ps : List VNode) (hs : wf s = true) (hne : ps ≠ []) (hp : ∀ q ∈ ps, conf s q = true) :
    crossAcc cp sp s ps (crossGen o s p ps) = true :=
  CrossG.main o cp sp hc s p ps hs hne hp

end Cambrian
