/-
Lemmas behind C11: the codec model's round trip and "accepted implies conforming".
-/
import CambrianModel.Model.Json
namespace Cambrian

/-- `usize::to_string` then `str::parse::<usize>` is the identity -/
theorem parseUsize_toString (k : Nat) (h : k ≤ usizeMax) : parseUsize (toString k) = some k := by
  sorry

/-- the initial value of a well-formed spec conforms to it -/
theorem initialValue_conf (s : SNode) (hs : wf s = true) : conf s (initialValue s) = true := by
  sorry

/-- whatever `fromJson` accepts conforms to the spec -/
theorem fromJson_conf (cast : Int → F64) (hcast : ∀ i, (cast i).isFinite = true) (s : SNode) (j : J) (v : VNode)
    (hs : wf s = true) (hj : jvalid j = true) (h : fromJson cast s j = .ok v) : conf s v = true := by
  sorry

/-- serialise, read back, serialise: same JSON -/
theorem roundtrip_json (cast : Int → F64) (s : SNode) (v : VNode) (hs : wf s = true) (hv : conf s v = true) :
    ∃ v', fromJson cast s (toJson v) = .ok v' ∧ toJson v' = toJson v := by
  sorry

/-- serialise, read back: same value, when the encoding is unambiguous -/
theorem roundtrip_value (cast : Int → F64) (s : SNode) (v : VNode) (hs : wf s = true) (hu : unambiguous s = true)
    (hv : conf s v = true) : fromJson cast s (toJson v) = .ok v := by
  sorry

end Cambrian
