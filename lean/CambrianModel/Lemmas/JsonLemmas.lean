/-
Lemmas behind C11: the codec model's round trip and "accepted implies conforming".
-/
import CambrianModel.Model.Json
namespace Cambrian

/-! ### `parseUsize` -/

/-- `usize::to_string` then `str::parse::<usize>` is the identity -/
theorem parseUsize_toString (k : Nat) (h : k ≤ usizeMax) : parseUsize (toString k) = some k := by
  have hl : (toString k).toList = Nat.toDigits 10 k := by
    rw [Nat.toString_eq_repr, Nat.toList_repr]
  have hdig : ∀ c ∈ Nat.toDigits 10 k, c.isDigit = true :=
    fun c hc => Nat.isDigit_of_mem_toDigits (by decide) (by decide) hc
  have hne : Nat.toDigits 10 k ≠ [] := Nat.toDigits_ne_nil
  have hval : Nat.ofDigitChars 10 (Nat.toDigits 10 k) 0 = k := Nat.ofDigitChars_ten_toDigits
  unfold parseUsize
  simp only [hl]
  generalize Nat.toDigits 10 k = ds at *
  have hall : ds.all Char.isDigit = true := by
    rw [List.all_eq_true]; exact hdig
  split
  · rename_i r
    have := hdig '+' (by simp)
    exact absurd this (by decide)
  · cases ds with
    | nil => exact absurd rfl hne
    | cons c r => simp [hall, hval, h]

/-! ### the initial value conforms -/

theorem replicateV_length (v : VNode) : ∀ n, (replicateV v n).length = n
  | 0 => rfl
  | n+1 => by simp [replicateV, VList.length, replicateV_length v n]

theorem replicateV_conf (e : SNode) (v : VNode) (h : conf e v = true) : ∀ n, confList e (replicateV v n) = true
  | 0 => by simp [replicateV, confList]
  | n+1 => by simp [replicateV, confList, h, replicateV_conf e v h n]

theorem rangeE_length (v : VNode) : ∀ n a, (rangeE v a n).length = n
  | 0, _ => rfl
  | n+1, a => by simp [rangeE, VEntries.length, rangeE_length v n (a+1)]

theorem rangeE_conf (e : SNode) (v : VNode) (h : conf e v = true) : ∀ n a, confEntries e (rangeE v a n) = true
  | 0, _ => by simp [rangeE, confEntries]
  | n+1, a => by simp [rangeE, confEntries, h, rangeE_conf e v h n (a+1)]

theorem rangeE_sorted (v : VNode) : ∀ n a, sortedNat (rangeE v a n).keys = true
  | 0, _ => by simp [rangeE, VEntries.keys, sortedNat]
  | 1, a => by simp [rangeE, VEntries.keys, sortedNat]
  | n+2, a => by
      have := rangeE_sorted v (n+1) (a+1)
      simp only [rangeE, VEntries.keys] at this ⊢
      simp [sortedNat, this]

theorem rangeE_keys_le (v : VNode) : ∀ n a, a + n ≤ usizeMax + 1 →
    (rangeE v a n).keys.all (fun k => decide (k ≤ usizeMax)) = true
  | 0, _, _ => by simp [rangeE, VEntries.keys]
  | n+1, a, h => by
      have := rangeE_keys_le v n (a+1) (by omega)
      simp only [rangeE, VEntries.keys, List.all_cons, this, Bool.and_true]
      simp; omega

theorem lookup_wf : ∀ (o : SFields) (k : String) (cs : SNode), wfFields o = true → o.lookup k = some cs → wf cs = true
  | .nil, _, _, _, h => by simp [SFields.lookup] at h
  | .cons k' n r, k, cs, hw, h => by
      simp only [wfFields, Bool.and_eq_true] at hw
      simp only [SFields.lookup] at h
      split at h
      · injection h with h; subst h; exact hw.1
      · exact lookup_wf r k cs hw.2 h

mutual
theorem initialValue_conf (s : SNode) (hs : wf s = true) : conf s (initialValue s) = true := by
  cases s with
  | real i sc mn mx =>
      simp only [wf, Bool.and_eq_true] at hs
      simp only [initialValue, conf, inBoundsF, Bool.and_eq_true]
      exact ⟨⟨hs.1.1.1.1.1.1.1, hs.1.2⟩, hs.2⟩
  | int i sc mn mx =>
      simp only [wf, Bool.and_eq_true] at hs
      simp only [initialValue, conf, inBoundsI, Bool.and_eq_true]
      exact ⟨⟨hs.1.1.1.1.1.1.1, hs.1.2⟩, hs.2⟩
  | bool b => simp [initialValue, conf]
  | sub f =>
      simp only [wf, Bool.and_eq_true] at hs
      simp only [initialValue, conf]
      exact initialFields_conf f hs.2
  | array e n =>
      simp only [wf, Bool.and_eq_true] at hs
      simp only [initialValue, conf, Bool.and_eq_true]
      exact ⟨by simp [replicateV_length], replicateV_conf e _ (initialValue_conf e hs.2) n⟩
  | amap e n mn mx =>
      simp only [wf, Bool.and_eq_true, decide_eq_true_eq] at hs
      simp only [initialValue, conf, Bool.and_eq_true]
      refine ⟨⟨⟨rangeE_sorted _ _ _, rangeE_keys_le _ _ _ (by omega)⟩, ?_⟩, rangeE_conf e _ (initialValue_conf e hs.2) n 0⟩
      rw [rangeE_length]; exact hs.1.1.1.2
  | variant o i =>
      simp only [wf, Bool.and_eq_true] at hs
      simp only [initialValue, conf]
      obtain ⟨cs, h1, h2⟩ := initialOpt_conf o i hs.2 hs.1.2
      simp [h1, h2]
  | «enum» vs i =>
      simp only [wf, Bool.and_eq_true] at hs
      simp only [initialValue, conf]
      exact hs.2
  | opt e p =>
      simp only [wf] at hs
      cases p
      · simp [initialValue, conf]
      · simp [initialValue, conf, initialValue_conf e hs]
  | const => simp [initialValue, conf]
theorem initialFields_conf (f : SFields) (hs : wfFields f = true) : confFields f (initialFields f) = true := by
  cases f with
  | nil => simp [initialFields, confFields]
  | cons k n r =>
      simp only [wfFields, Bool.and_eq_true] at hs
      simp [initialFields, confFields, initialValue_conf n hs.1, initialFields_conf r hs.2]
theorem initialOpt_conf (o : SFields) (i : String) (hs : wfFields o = true) (hc : o.keys.contains i = true) :
    ∃ cs, o.lookup i = some cs ∧ conf cs (initialOpt o i) = true := by
  cases o with
  | nil => simp [SFields.keys] at hc
  | cons k n r =>
      simp only [wfFields, Bool.and_eq_true] at hs
      simp only [SFields.lookup, initialOpt]
      by_cases hk : (k == i) = true
      · simp only [hk, if_true]
        exact ⟨n, rfl, initialValue_conf n hs.1⟩
      · simp only [hk]
        apply initialOpt_conf r i hs.2
        simp only [SFields.keys, List.contains_cons, Bool.or_eq_true] at hc
        rcases hc with hc | hc
        · exfalso; apply hk
          have : i = k := by simpa using hc
          simp [this]
        · exact hc
end

/-! ### bounds -/
theorem inBoundsF_of_not_oob (x : F64) (mn mx : Option F64) (hx : x.isFinite = true)
    (hmn : optAll F64.isFinite mn = true) (hmx : optAll F64.isFinite mx = true)
    (h : outOfBoundsF x mn mx = false) : inBoundsF x mn mx = true := by
  cases x <;> simp [F64.isFinite] at hx
  rcases mn with _ | (_ | _ | a | _) <;> rcases mx with _ | (_ | _ | b | _) <;>
    simp [optAll, F64.isFinite] at hmn hmx <;>
    simp [outOfBoundsF, F64.lt] at h <;>
    simp [inBoundsF, optAll, F64.isFinite, F64.le_fin] <;> omega

theorem not_oob_of_inBoundsF (x : F64) (mn mx : Option F64) (h : inBoundsF x mn mx = true) :
    outOfBoundsF x mn mx = false := by
  cases x <;> simp [inBoundsF, F64.isFinite] at h
  rcases mn with _ | (_ | _ | a | _) <;> rcases mx with _ | (_ | _ | b | _) <;>
    simp [optAll, F64.le, F64.lt, F64.feq] at h <;>
    simp [outOfBoundsF, F64.lt] <;> omega

theorem inBoundsI_of_not_oob (x : Int) (mn mx : Option Int) (hx : inI64 x = true)
    (h : outOfBoundsI x mn mx = false) : inBoundsI x mn mx = true := by
  rcases mn with _ | a <;> rcases mx with _ | b <;>
    simp [outOfBoundsI] at h <;> simp [inBoundsI, optAll, hx] <;> omega

theorem not_oob_of_inBoundsI (x : Int) (mn mx : Option Int) (h : inBoundsI x mn mx = true) :
    outOfBoundsI x mn mx = false := by
  rcases mn with _ | a <;> rcases mx with _ | b <;>
    simp [inBoundsI, optAll] at h <;> simp [outOfBoundsI] <;> omega

/-! ### sorted key lists and `VEntries.insert` -/
theorem sortedNat_cons (a : Nat) : ∀ (l : List Nat), sortedNat (a :: l) = true ↔ ((∀ x ∈ l, a < x) ∧ sortedNat l = true)
  | [] => by simp [sortedNat]
  | b :: r => by
      have ih := sortedNat_cons b r
      simp only [sortedNat, Bool.and_eq_true, decide_eq_true_eq, List.mem_cons, forall_eq_or_imp]
      constructor
      · intro ⟨h1, h2⟩
        refine ⟨⟨h1, fun x hx => ?_⟩, h2⟩
        have := (ih.1 h2).1 x hx
        omega
      · intro ⟨⟨h1, _⟩, h3⟩
        exact ⟨h1, h3⟩

theorem VEntries.length_eq_keys : ∀ (m : VEntries), m.length = m.keys.length
  | .nil => rfl
  | .cons _ _ r => by simp [VEntries.length, VEntries.keys, VEntries.length_eq_keys r]

theorem VEntries.mem_insert_keys (k : Nat) (v : VNode) : ∀ (m : VEntries) (x : Nat),
    x ∈ (m.insert k v).keys ↔ (x = k ∨ x ∈ m.keys)
  | .nil, x => by simp [VEntries.insert, VEntries.keys]
  | .cons k' v' r, x => by
      simp only [VEntries.insert]
      split
      · simp [VEntries.keys]
      · split
        · rename_i h; have : k = k' := by simpa using h
          subst this; simp [VEntries.keys]
        · simp only [VEntries.keys, List.mem_cons, VEntries.mem_insert_keys k v r x]
          constructor <;> intro h <;> rcases h with h | h | h <;> simp [h]

theorem VEntries.insert_sorted (k : Nat) (v : VNode) : ∀ (m : VEntries), sortedNat m.keys = true →
    sortedNat (m.insert k v).keys = true
  | .nil, _ => by simp [VEntries.insert, VEntries.keys, sortedNat]
  | .cons k' v' r, h => by
      have h' := (sortedNat_cons k' r.keys).1 (by simpa [VEntries.keys] using h)
      simp only [VEntries.insert]
      split
      · rename_i hlt
        simp only [VEntries.keys] at h ⊢
        simp [sortedNat, hlt, h]
      · split
        · rename_i h2; have : k = k' := by simpa using h2
          subst this; simpa [VEntries.keys] using h
        · rename_i h1 h2
          have hne : ¬ k = k' := by simpa using h2
          simp only [VEntries.keys]
          rw [sortedNat_cons]
          refine ⟨fun x hx => ?_, VEntries.insert_sorted k v r h'.2⟩
          rcases (VEntries.mem_insert_keys k v r x).1 hx with hx | hx
          · omega
          · exact h'.1 x hx

theorem VEntries.insert_conf (e : SNode) (k : Nat) (v : VNode) (hv : conf e v = true) : ∀ (m : VEntries),
    confEntries e m = true → confEntries e (m.insert k v) = true
  | .nil, _ => by simp [VEntries.insert, confEntries, hv]
  | .cons k' v' r, h => by
      simp only [confEntries, Bool.and_eq_true] at h
      simp only [VEntries.insert]
      split
      · simp [confEntries, hv, h]
      · split
        · simp [confEntries, hv, h]
        · simp [confEntries, h, VEntries.insert_conf e k v hv r h.2]

/-- inserting a key below all keys of a sorted list conses it -/
theorem VEntries.insert_lt (k : Nat) (v : VNode) : ∀ (m : VEntries), (∀ x ∈ m.keys, k < x) → m.insert k v = .cons k v m
  | .nil, _ => rfl
  | .cons k' v' r, h => by
      have : k < k' := h k' (by simp [VEntries.keys])
      simp [VEntries.insert, this]

/-! ### whatever `fromJson` accepts conforms -/

def JList.length : JList → Nat
  | .nil => 0 | .cons _ r => r.length + 1

/- ADDED HYPOTHESIS of `fromJson_conf`: every JSON array of the document has at most `usize::MAX` elements (true of
   every `Vec`).  Without it an array-form map of more than `usize::MAX + 1` elements read against a map spec without
   `max_size` would get keys beyond `usize::MAX`, which `conf` forbids. -/
mutual
def jsized : J → Bool
  | .arr l => decide (l.length ≤ usizeMax) && jsizedList l
  | .obj f => jsizedFields f
  | _ => true
def jsizedList : JList → Bool
  | .nil => true | .cons j r => jsized j && jsizedList r
def jsizedFields : JFields → Bool
  | .nil => true | .cons _ j r => jsized j && jsizedFields r
end

theorem parseUsize_le (k : String) (n : Nat) (h : parseUsize k = some n) : n ≤ usizeMax := by
  unfold parseUsize at h
  simp only at h
  split at h <;> split at h <;> simp at h <;> omega

theorem fromJson_opt_null (cast : Int → F64) (e : SNode) (p : Bool) : fromJson cast (.opt e p) .null = .ok .onone := by
  simp [fromJson]

theorem fromJson_opt_ne (cast : Int → F64) (e : SNode) (p : Bool) (j : J) (hj : j ≠ .null) :
    fromJson cast (.opt e p) j =
      (match fromJson cast e j with | .ok v => .ok (.osome v) | .error err => .error err) := by
  cases j <;> first | exact absurd rfl hj | (simp only [fromJson]; split <;> simp [*])

theorem fromJson_variant_nil (cast : Int → F64) (o : SFields) (i : String) :
    fromJson cast (.variant o i) (.obj .nil) = .error .exactlyOneVariant := by
  simp [fromJson]
theorem fromJson_variant_two (cast : Int → F64) (o : SFields) (i : String) k j k' j' r :
    fromJson cast (.variant o i) (.obj (.cons k j (.cons k' j' r))) = .error .exactlyOneVariant := by
  simp [fromJson]

mutual
theorem fromJson_conf (cast : Int → F64) (hcast : ∀ i, (cast i).isFinite = true)
    (s : SNode) (j : J) (v : VNode)
    (hs : wf s = true) (hj : jvalid j = true) (hz : jsized j = true) (h : fromJson cast s j = .ok v) : conf s v = true := by
  cases s with
  | real i sc mn mx =>
      simp only [wf, Bool.and_eq_true] at hs
      cases j <;> simp only [fromJson] at h <;> try (simp at h; done)
      all_goals
        split at h
        · simp at h
        · rename_i hb
          injection h with h; subst h
          simp only [conf]
          first
            | exact inBoundsF_of_not_oob _ _ _ (hcast _) hs.1.1.1.1.2 hs.1.1.1.2 (by simpa using hb)
            | exact inBoundsF_of_not_oob _ _ _ (by simpa [jvalid] using hj) hs.1.1.1.1.2 hs.1.1.1.2 (by simpa using hb)
  | int i sc mn mx =>
      cases j <;> simp only [fromJson] at h <;> try (simp at h; done)
      split at h
      · simp at h
      · rename_i hb
        injection h with h; subst h
        simp only [conf]
        exact inBoundsI_of_not_oob _ _ _ (by simpa [jvalid] using hj) (by simpa using hb)
  | bool b =>
      cases j <;> simp only [fromJson] at h <;> try (simp at h; done)
      injection h with h; subst h; simp [conf]
  | sub sf =>
      simp only [wf, Bool.and_eq_true] at hs
      cases j <;> simp only [fromJson] at h <;> try (simp at h; done)
      rename_i jf
      split at h
      · rename_i f hf
        injection h with h; subst h
        simp only [conf]
        exact fromJsonSub_conf cast hcast sf jf f hs.2 (by simpa [jvalid] using hj) (by simpa [jsized] using hz) hf
      · simp at h
  | array e n =>
      simp only [wf, Bool.and_eq_true] at hs
      cases j <;> simp only [fromJson] at h <;> try (simp at h; done)
      rename_i l
      split at h
      · rename_i vl hl
        split at h
        · rename_i hlen
          injection h with h; subst h
          simp only [conf, Bool.and_eq_true]
          simp only [jsized, Bool.and_eq_true] at hz
          exact ⟨hlen, fromJsonList_conf cast hcast e l vl hs.2 (by simpa [jvalid] using hj) hz.2 hl⟩
        · simp at h
      · simp at h
  | amap e n mn mx =>
      simp only [wf, Bool.and_eq_true] at hs
      cases j <;> simp only [fromJson] at h <;> try (simp at h; done)
      · rename_i l
        split at h
        · rename_i m hm
          split at h
          · rename_i hsz
            injection h with h; subst h
            simp only [jsized, Bool.and_eq_true, decide_eq_true_eq] at hz
            obtain ⟨h1, h2, h3⟩ := fromJsonIdx_conf cast hcast e 0 l m hs.2 (by simpa [jvalid] using hj) hz.2 hm
            simp only [conf, Bool.and_eq_true, List.all_eq_true, decide_eq_true_eq]
            refine ⟨⟨⟨h2, fun x hx => ?_⟩, hsz⟩, h1⟩
            have := h3 x hx
            omega
          · simp at h
        · simp at h
      · rename_i jf
        split at h
        · rename_i m hm
          split at h
          · rename_i hsz
            injection h with h; subst h
            obtain ⟨h1, h2, h3⟩ := fromJsonMap_conf cast hcast e jf m hs.2 (by simpa [jvalid] using hj) (by simpa [jsized] using hz) hm
            simp only [conf, Bool.and_eq_true, List.all_eq_true, decide_eq_true_eq]
            exact ⟨⟨⟨h2, h3⟩, hsz⟩, h1⟩
          · simp at h
        · simp at h
  | variant o i =>
      simp only [wf, Bool.and_eq_true] at hs
      cases j <;> try (simp [fromJson] at h; done)
      rename_i jf
      cases jf with
      | nil => simp [fromJson] at h
      | cons k cj r =>
        cases r with
        | cons => simp [fromJson] at h
        | nil =>
          simp only [fromJson] at h
          split at h
          · rename_i cs hcs
            split at h
            · rename_i v' hv'
              injection h with h; subst h
              simp only [conf, hcs]
              simp only [jvalid, jvalidFields, Bool.and_eq_true] at hj
              simp only [jsized, jsizedFields, Bool.and_eq_true] at hz
              exact fromJson_conf cast hcast cs cj v' (lookup_wf o k cs hs.2 hcs) hj.1 hz.1 hv'
            · simp at h
          · simp at h
  | «enum» vs i =>
      cases j <;> simp only [fromJson] at h <;> try (simp at h; done)
      split at h
      · rename_i hc
        injection h with h; subst h
        simpa [conf] using hc
      · simp at h
  | opt e p =>
      simp only [wf] at hs
      by_cases hn : j = .null
      · subst hn
        rw [fromJson_opt_null] at h
        injection h with h; subst h; simp [conf]
      · rw [fromJson_opt_ne _ _ _ _ hn] at h
        split at h
        · rename_i v' hv'
          injection h with h; subst h
          simp only [conf]
          exact fromJson_conf cast hcast e j v' hs hj hz hv'
        · simp at h
  | const =>
      cases j <;> simp only [fromJson] at h <;> try (simp at h; done)
      injection h with h; subst h; simp [conf]
termination_by (sizeOf j, sizeOf s)
theorem fromJsonSub_conf (cast : Int → F64) (hcast : ∀ i, (cast i).isFinite = true)
    (sf : SFields) (jf : JFields) (vf : VFields)
    (hs : wfFields sf = true) (hj : jvalidFields jf = true) (hz : jsizedFields jf = true)
    (h : fromJsonSub cast sf jf = .ok vf) : confFields sf vf = true := by
  cases sf <;> cases jf <;> simp only [fromJsonSub] at h <;> try (simp at h; done)
  · injection h with h; subst h; simp [confFields]
  · rename_i k s sr k' j jr
    simp only [wfFields, Bool.and_eq_true] at hs
    simp only [jvalidFields, Bool.and_eq_true] at hj
    simp only [jsizedFields, Bool.and_eq_true] at hz
    split at h
    · split at h
      · rename_i v hv
        split at h
        · rename_i r hr
          injection h with h; subst h
          simp only [confFields, Bool.and_eq_true]
          exact ⟨⟨by simp, fromJson_conf cast hcast s j v hs.1 hj.1 hz.1 hv⟩, fromJsonSub_conf cast hcast sr jr r hs.2 hj.2 hz.2 hr⟩
        · simp at h
      · simp at h
    · split at h <;> simp at h
termination_by (sizeOf jf, sizeOf sf)
theorem fromJsonList_conf (cast : Int → F64) (hcast : ∀ i, (cast i).isFinite = true)
    (e : SNode) (l : JList) (vl : VList)
    (hs : wf e = true) (hj : jvalidList l = true) (hz : jsizedList l = true)
    (h : fromJsonList cast e l = .ok vl) : confList e vl = true := by
  cases l <;> simp only [fromJsonList] at h
  · injection h with h; subst h; simp [confList]
  · rename_i j r
    simp only [jvalidList, Bool.and_eq_true] at hj
    simp only [jsizedList, Bool.and_eq_true] at hz
    split at h
    · rename_i v hv
      split at h
      · rename_i vr hr
        injection h with h; subst h
        simp only [confList, Bool.and_eq_true]
        exact ⟨fromJson_conf cast hcast e j v hs hj.1 hz.1 hv, fromJsonList_conf cast hcast e r vr hs hj.2 hz.2 hr⟩
      · simp at h
    · simp at h
termination_by (sizeOf l, sizeOf e)
theorem fromJsonIdx_conf (cast : Int → F64) (hcast : ∀ i, (cast i).isFinite = true)
    (e : SNode) (a : Nat) (l : JList) (m : VEntries)
    (hs : wf e = true) (hj : jvalidList l = true) (hz : jsizedList l = true)
    (h : fromJsonIdx cast e a l = .ok m) :
    confEntries e m = true ∧ sortedNat m.keys = true ∧ ∀ x ∈ m.keys, a ≤ x ∧ x < a + l.length := by
  cases l <;> simp only [fromJsonIdx] at h
  · injection h with h; subst h; simp [confEntries, VEntries.keys, sortedNat]
  · rename_i j r
    simp only [jvalidList, Bool.and_eq_true] at hj
    simp only [jsizedList, Bool.and_eq_true] at hz
    split at h
    · rename_i v hv
      split at h
      · rename_i vr hr
        injection h with h; subst h
        obtain ⟨h1, h2, h3⟩ := fromJsonIdx_conf cast hcast e (a+1) r vr hs hj.2 hz.2 hr
        simp only [confEntries, Bool.and_eq_true, VEntries.keys, sortedNat_cons, JList.length]
        refine ⟨⟨fromJson_conf cast hcast e j v hs hj.1 hz.1 hv, h1⟩, ⟨fun x hx => ?_, h2⟩, fun x hx => ?_⟩
        · have := h3 x hx; omega
        · simp only [List.mem_cons] at hx
          rcases hx with hx | hx
          · omega
          · have := h3 x hx; omega
      · simp at h
    · simp at h
termination_by (sizeOf l, sizeOf e)
theorem fromJsonMap_conf (cast : Int → F64) (hcast : ∀ i, (cast i).isFinite = true)
    (e : SNode) (jf : JFields) (m : VEntries)
    (hs : wf e = true) (hj : jvalidFields jf = true) (hz : jsizedFields jf = true)
    (h : fromJsonMap cast e jf = .ok m) :
    confEntries e m = true ∧ sortedNat m.keys = true ∧ ∀ x ∈ m.keys, x ≤ usizeMax := by
  cases jf <;> simp only [fromJsonMap] at h
  · injection h with h; subst h; simp [confEntries, VEntries.keys, sortedNat]
  · rename_i k j r
    simp only [jvalidFields, Bool.and_eq_true] at hj
    simp only [jsizedFields, Bool.and_eq_true] at hz
    split at h
    · simp at h
    · rename_i n hn
      split at h
      · rename_i v hv
        split at h
        · rename_i vr hr
          injection h with h; subst h
          obtain ⟨h1, h2, h3⟩ := fromJsonMap_conf cast hcast e r vr hs hj.2 hz.2 hr
          split
          · exact ⟨h1, h2, h3⟩
          · refine ⟨VEntries.insert_conf e n v (fromJson_conf cast hcast e j v hs hj.1 hz.1 hv) vr h1,
              VEntries.insert_sorted n v vr h2, fun x hx => ?_⟩
            rcases (VEntries.mem_insert_keys n v vr x).1 hx with hx | hx
            · subst hx; exact parseUsize_le k _ hn
            · exact h3 x hx
        · simp at h
      · simp at h
termination_by (sizeOf jf, sizeOf e)
end

/-! ### serialise, read back, serialise: same JSON -/

section
variable (cast : Int → F64)

mutual
theorem roundtrip_json (s : SNode) (v : VNode) (hs : wf s = true) (hv : conf s v = true) :
    ∃ v', fromJson cast s (toJson v) = .ok v' ∧ toJson v' = toJson v := by
  cases v with
  | real x =>
      cases s <;> simp only [conf] at hv <;> try (simp at hv; done)
      refine ⟨.real x, ?_, rfl⟩
      simp [toJson, fromJson, not_oob_of_inBoundsF _ _ _ hv]
  | int i =>
      cases s <;> simp only [conf] at hv <;> try (simp at hv; done)
      refine ⟨.int i, ?_, rfl⟩
      simp [toJson, fromJson, not_oob_of_inBoundsI _ _ _ hv]
  | bool b =>
      cases s <;> simp only [conf] at hv <;> try (simp at hv; done)
      exact ⟨.bool b, by simp [toJson, fromJson], rfl⟩
  | sub f =>
      cases s <;> simp only [conf] at hv <;> try (simp at hv; done)
      rename_i sf
      simp only [wf, Bool.and_eq_true] at hs
      obtain ⟨f', h1, h2⟩ := rt_json_fields sf f hs.2 hv
      exact ⟨.sub f', by simp [toJson, fromJson, h1], by simp [toJson, h2]⟩
  | array l =>
      cases s <;> simp only [conf] at hv <;> try (simp at hv; done)
      rename_i e n
      simp only [wf, Bool.and_eq_true] at hs
      simp only [Bool.and_eq_true] at hv
      obtain ⟨l', h1, h2, h3⟩ := rt_json_list e l hs.2 hv.2
      refine ⟨.array l', ?_, by simp [toJson, h2]⟩
      simp only [toJson, fromJson, h1, h3]
      simp [hv.1]
  | amap m =>
      cases s <;> simp only [conf] at hv <;> try (simp at hv; done)
      rename_i e n mn mx
      simp only [wf, Bool.and_eq_true] at hs
      simp only [Bool.and_eq_true, List.all_eq_true, decide_eq_true_eq] at hv
      obtain ⟨m', h1, h2, h3⟩ := rt_json_entries e m hs.2 hv.2 hv.1.1.1 hv.1.1.2
      refine ⟨.amap m', ?_, by simp [toJson, h2]⟩
      have hl : m'.length = m.length := by rw [VEntries.length_eq_keys, VEntries.length_eq_keys, h3]
      simp only [toJson, fromJson, h1, hl]
      simp [hv.1.2]
  | variant n v0 =>
      cases s <;> simp only [conf] at hv <;> try (simp at hv; done)
      rename_i o i
      simp only [wf, Bool.and_eq_true] at hs
      split at hv
      · rename_i cs hcs
        obtain ⟨v', h1, h2⟩ := roundtrip_json cs v0 (lookup_wf o n cs hs.2 hcs) hv
        exact ⟨.variant n v', by simp [toJson, fromJson, hcs, h1], by simp [toJson, h2]⟩
      · simp at hv
  | «enum» x =>
      cases s <;> simp only [conf] at hv <;> try (simp at hv; done)
      exact ⟨.enum x, by simp only [toJson, fromJson, hv]; simp, rfl⟩
  | onone =>
      cases s <;> simp only [conf] at hv <;> try (simp at hv; done)
      exact ⟨.onone, by simp [toJson, fromJson], rfl⟩
  | osome v0 =>
      cases s <;> simp only [conf] at hv <;> try (simp at hv; done)
      rename_i e p
      simp only [wf] at hs
      obtain ⟨v', h1, h2⟩ := roundtrip_json e v0 hs hv
      by_cases hn : toJson v0 = .null
      · refine ⟨.onone, ?_, ?_⟩
        · simp only [toJson, hn]; exact fromJson_opt_null cast e p
        · simp [toJson, hn]
      · refine ⟨.osome v', ?_, by simp [toJson, h2]⟩
        simp only [toJson]
        rw [fromJson_opt_ne cast e p _ hn, h1]
  | const =>
      cases s <;> simp only [conf] at hv <;> try (simp at hv; done)
      exact ⟨.const, by simp [toJson, fromJson], rfl⟩
theorem rt_json_fields (sf : SFields) (vf : VFields) (hs : wfFields sf = true) (hv : confFields sf vf = true) :
    ∃ vf', fromJsonSub cast sf (toJsonFields vf) = .ok vf' ∧ toJsonFields vf' = toJsonFields vf := by
  cases vf with
  | nil =>
      cases sf <;> simp only [confFields] at hv <;> try (simp at hv; done)
      exact ⟨.nil, by simp [toJsonFields, fromJsonSub], rfl⟩
  | cons k' v r =>
      cases sf <;> simp only [confFields] at hv <;> try (simp at hv; done)
      rename_i k s sr
      simp only [wfFields, Bool.and_eq_true] at hs
      simp only [Bool.and_eq_true, beq_iff_eq] at hv
      obtain ⟨⟨hk, hv1⟩, hv2⟩ := hv
      subst hk
      obtain ⟨v', h1, h2⟩ := roundtrip_json s v hs.1 hv1
      obtain ⟨r', h3, h4⟩ := rt_json_fields sr r hs.2 hv2
      exact ⟨.cons k v' r', by simp [toJsonFields, fromJsonSub, h1, h3], by simp [toJsonFields, h2, h4]⟩
theorem rt_json_list (e : SNode) (l : VList) (hs : wf e = true) (hv : confList e l = true) :
    ∃ l', fromJsonList cast e (toJsonList l) = .ok l' ∧ toJsonList l' = toJsonList l ∧ l'.length = l.length := by
  cases l with
  | nil => exact ⟨.nil, by simp [toJsonList, fromJsonList], rfl, rfl⟩
  | cons v r =>
      simp only [confList, Bool.and_eq_true] at hv
      obtain ⟨v', h1, h2⟩ := roundtrip_json e v hs hv.1
      obtain ⟨r', h3, h4, h5⟩ := rt_json_list e r hs hv.2
      exact ⟨.cons v' r', by simp [toJsonList, fromJsonList, h1, h3], by simp [toJsonList, h2, h4],
        by simp [VList.length, h5]⟩
theorem rt_json_entries (e : SNode) (m : VEntries) (hs : wf e = true) (hv : confEntries e m = true)
    (hsorted : sortedNat m.keys = true) (hle : ∀ x ∈ m.keys, x ≤ usizeMax) :
    ∃ m', fromJsonMap cast e (toJsonEntries m) = .ok m' ∧ toJsonEntries m' = toJsonEntries m ∧ m'.keys = m.keys := by
  cases m with
  | nil => exact ⟨.nil, by simp [toJsonEntries, fromJsonMap], rfl, rfl⟩
  | cons k v r =>
      simp only [confEntries, Bool.and_eq_true] at hv
      simp only [VEntries.keys, sortedNat_cons] at hsorted
      simp only [VEntries.keys, List.mem_cons, forall_eq_or_imp] at hle
      obtain ⟨v', h1, h2⟩ := roundtrip_json e v hs hv.1
      obtain ⟨r', h3, h4, h5⟩ := rt_json_entries e r hs hv.2 hsorted.2 hle.2
      have hnc : r'.keys.contains k = false := by
        rw [h5]
        simp only [List.contains_eq_mem, decide_eq_false_iff_not]
        intro hk
        have := hsorted.1 k hk
        omega
      have hins : r'.insert k v' = .cons k v' r' := VEntries.insert_lt k v' r' (by rw [h5]; exact hsorted.1)
      refine ⟨.cons k v' r', ?_, by simp [toJsonEntries, h2, h4], by simp [VEntries.keys, h5]⟩
      simp only [toJsonEntries, fromJsonMap, parseUsize_toString k hle.1, h1, h3, hnc, hins]
      simp
end
end

/-! ### serialise, read back: same value, when the encoding is unambiguous -/

theorem lookup_unambiguous : ∀ (o : SFields) (k : String) (cs : SNode), unambiguousFields o = true →
    o.lookup k = some cs → unambiguous cs = true
  | .nil, _, _, _, h => by simp [SFields.lookup] at h
  | .cons k' n r, k, cs, hw, h => by
      simp only [unambiguousFields, Bool.and_eq_true] at hw
      simp only [SFields.lookup] at h
      split at h
      · injection h with h; subst h; exact hw.1
      · exact lookup_unambiguous r k cs hw.2 h

/-- a value of anything but an optional or a const is not serialised as `null` -/
theorem toJson_ne_null (e : SNode) (v : VNode) (hv : conf e v = true)
    (he1 : ∀ e' p, e ≠ .opt e' p) (he2 : e ≠ .const) : toJson v ≠ .null := by
  cases e <;> first | exact absurd rfl (he1 _ _) | exact absurd rfl he2 | skip
  all_goals cases v <;> simp [conf] at hv <;> simp [toJson]

section
variable (cast : Int → F64)

mutual
theorem roundtrip_value (s : SNode) (v : VNode) (hs : wf s = true) (hu : unambiguous s = true) (hv : conf s v = true) :
    fromJson cast s (toJson v) = .ok v := by
  cases v with
  | real x =>
      cases s <;> simp only [conf] at hv <;> try (simp at hv; done)
      simp [toJson, fromJson, not_oob_of_inBoundsF _ _ _ hv]
  | int i =>
      cases s <;> simp only [conf] at hv <;> try (simp at hv; done)
      simp [toJson, fromJson, not_oob_of_inBoundsI _ _ _ hv]
  | bool b =>
      cases s <;> simp only [conf] at hv <;> try (simp at hv; done)
      simp [toJson, fromJson]
  | sub f =>
      cases s <;> simp only [conf] at hv <;> try (simp at hv; done)
      rename_i sf
      simp only [wf, Bool.and_eq_true] at hs
      simp only [unambiguous] at hu
      simp [toJson, fromJson, rt_val_fields sf f hs.2 hu hv]
  | array l =>
      cases s <;> simp only [conf] at hv <;> try (simp at hv; done)
      rename_i e n
      simp only [wf, Bool.and_eq_true] at hs
      simp only [unambiguous] at hu
      simp only [Bool.and_eq_true] at hv
      simp only [toJson, fromJson, rt_val_list e l hs.2 hu hv.2]
      simp [hv.1]
  | amap m =>
      cases s <;> simp only [conf] at hv <;> try (simp at hv; done)
      rename_i e n mn mx
      simp only [wf, Bool.and_eq_true] at hs
      simp only [unambiguous] at hu
      simp only [Bool.and_eq_true, List.all_eq_true, decide_eq_true_eq] at hv
      simp only [toJson, fromJson, rt_val_entries e m hs.2 hu hv.2 hv.1.1.1 hv.1.1.2]
      simp [hv.1.2]
  | variant n v0 =>
      cases s <;> simp only [conf] at hv <;> try (simp at hv; done)
      rename_i o i
      simp only [wf, Bool.and_eq_true] at hs
      simp only [unambiguous] at hu
      split at hv
      · rename_i cs hcs
        simp [toJson, fromJson, hcs, roundtrip_value cs v0 (lookup_wf o n cs hs.2 hcs) (lookup_unambiguous o n cs hu hcs) hv]
      · simp at hv
  | «enum» x =>
      cases s <;> simp only [conf] at hv <;> try (simp at hv; done)
      simp only [toJson, fromJson, hv]; simp
  | onone =>
      cases s <;> simp only [conf] at hv <;> try (simp at hv; done)
      simp [toJson, fromJson]
  | osome v0 =>
      cases s <;> simp only [conf] at hv <;> try (simp at hv; done)
      rename_i e p
      simp only [wf] at hs
      simp only [unambiguous, Bool.and_eq_true] at hu
      have hn : toJson v0 ≠ .null := by
        apply toJson_ne_null e v0 hv
        · intro e' p' he; subst he; simp at hu
        · intro he; subst he; simp at hu
      simp only [toJson]
      rw [fromJson_opt_ne cast e p _ hn, roundtrip_value e v0 hs hu.2 hv]
  | const =>
      cases s <;> simp only [conf] at hv <;> try (simp at hv; done)
      simp [toJson, fromJson]
theorem rt_val_fields (sf : SFields) (vf : VFields) (hs : wfFields sf = true) (hu : unambiguousFields sf = true)
    (hv : confFields sf vf = true) : fromJsonSub cast sf (toJsonFields vf) = .ok vf := by
  cases vf with
  | nil =>
      cases sf <;> simp only [confFields] at hv <;> try (simp at hv; done)
      simp [toJsonFields, fromJsonSub]
  | cons k' v r =>
      cases sf <;> simp only [confFields] at hv <;> try (simp at hv; done)
      rename_i k s sr
      simp only [wfFields, Bool.and_eq_true] at hs
      simp only [unambiguousFields, Bool.and_eq_true] at hu
      simp only [Bool.and_eq_true, beq_iff_eq] at hv
      obtain ⟨⟨hk, hv1⟩, hv2⟩ := hv
      subst hk
      simp [toJsonFields, fromJsonSub, roundtrip_value s v hs.1 hu.1 hv1, rt_val_fields sr r hs.2 hu.2 hv2]
theorem rt_val_list (e : SNode) (l : VList) (hs : wf e = true) (hu : unambiguous e = true)
    (hv : confList e l = true) : fromJsonList cast e (toJsonList l) = .ok l := by
  cases l with
  | nil => simp [toJsonList, fromJsonList]
  | cons v r =>
      simp only [confList, Bool.and_eq_true] at hv
      simp [toJsonList, fromJsonList, roundtrip_value e v hs hu hv.1, rt_val_list e r hs hu hv.2]
theorem rt_val_entries (e : SNode) (m : VEntries) (hs : wf e = true) (hu : unambiguous e = true)
    (hv : confEntries e m = true) (hsorted : sortedNat m.keys = true) (hle : ∀ x ∈ m.keys, x ≤ usizeMax) :
    fromJsonMap cast e (toJsonEntries m) = .ok m := by
  cases m with
  | nil => simp [toJsonEntries, fromJsonMap]
  | cons k v r =>
      simp only [confEntries, Bool.and_eq_true] at hv
      simp only [VEntries.keys, sortedNat_cons] at hsorted
      simp only [VEntries.keys, List.mem_cons, forall_eq_or_imp] at hle
      have hnc : r.keys.contains k = false := by
        simp only [List.contains_eq_mem, decide_eq_false_iff_not]
        intro hk
        have := hsorted.1 k hk
        omega
      have hins : r.insert k v = .cons k v r := VEntries.insert_lt k v r hsorted.1
      simp only [toJsonEntries, fromJsonMap, parseUsize_toString k hle.1, roundtrip_value e v hs hu hv.1,
        rt_val_entries e r hs hu hv.2 hsorted.2 hle.2, hnc, hins]
      simp
end
end

end Cambrian
