import CambrianModel.Model.Path
import CambrianModel.Lemmas.MutGenLemmas
namespace Cambrian

theorem KeyMgr.foldl_seen_ge (k : KeyMgr) (keys : List Nat) :
    k.nextKey ≤ (keys.foldl (KeyMgr.onKeySeen true) k).nextKey := by
  induction keys generalizing k with
  | nil => simp
  | cons a r ih =>
    simp only [List.foldl_cons]
    refine Nat.le_trans ?_ (ih _)
    simp only [KeyMgr.onKeySeen, if_true]
    exact Nat.le_max_left _ _

theorem KeyMgr.foldl_seen_gt (k : KeyMgr) (keys : List Nat) (x : Nat) (hx : x ∈ keys) :
    x < (keys.foldl (KeyMgr.onKeySeen true) k).nextKey := by
  induction keys generalizing k with
  | nil => simp at hx
  | cons a r ih =>
    simp only [List.foldl_cons]
    rcases List.mem_cons.mp hx with h | h
    · subst h
      have h1 := KeyMgr.foldl_seen_ge (KeyMgr.onKeySeen true k x) r
      have h2 : x + 1 ≤ (KeyMgr.onKeySeen true k x).nextKey := by
        simp only [KeyMgr.onKeySeen, if_true]; exact Nat.le_max_right _ _
      omega
    · exact ih _ h

/-- the key handed out is larger than every key of the map: it is fresh -/
theorem KeyMgr.alloc_gt (k : KeyMgr) (keys : List Nat) (x : Nat) (hx : x ∈ keys) :
    x < (KeyMgr.alloc true true true k keys).1 := by
  simp only [KeyMgr.alloc, KeyMgr.next, if_true]
  exact KeyMgr.foldl_seen_gt k keys x hx

theorem KeyMgr.alloc_fresh (k : KeyMgr) (keys : List Nat) : (KeyMgr.alloc true true true k keys).1 ∉ keys := by
  intro h
  have := KeyMgr.alloc_gt k keys _ h
  omega

/-- the counter moves past the key handed out: the same manager never hands it out again -/
theorem KeyMgr.alloc_next (k : KeyMgr) (keys : List Nat) :
    (KeyMgr.alloc true true true k keys).2.nextKey = (KeyMgr.alloc true true true k keys).1 + 1 := by
  simp [KeyMgr.alloc, KeyMgr.next]

theorem VEntries.maxKey_mem : (m : VEntries) → m.keys ≠ [] → m.maxKey ∈ m.keys
  | .nil, h => by simp [VEntries.keys] at h
  | .cons k v r, _ => by
    simp only [VEntries.keys, VEntries.maxKey, List.mem_cons]
    by_cases hr : r.keys = []
    · left
      cases r with
      | nil => simp [VEntries.maxKey]
      | cons k' v' r' => simp [VEntries.keys] at hr
    · have := VEntries.maxKey_mem r hr
      rcases Nat.le_total k r.maxKey with hle | hle
      · right; have e : Nat.max k r.maxKey = r.maxKey := Nat.max_eq_right hle
        rw [e]; exact this
      · left; exact Nat.max_eq_left hle

/-- what `MutGen` assumes about the key of an added element is what the key manager computes:
    `largest key + 1` (0 for an empty map) plus a non-negative bump -/
theorem KeyMgr.alloc_form (k : KeyMgr) (m : VEntries) :
    ∃ bump, (KeyMgr.alloc true true true k m.keys).1 = (if m.keys.length == 0 then 0 else m.maxKey + 1) + bump := by
  by_cases h : m.keys = []
  · refine ⟨(KeyMgr.alloc true true true k m.keys).1, ?_⟩
    simp [h]
  · have hm := VEntries.maxKey_mem m h
    have hg := KeyMgr.alloc_gt k m.keys _ hm
    refine ⟨(KeyMgr.alloc true true true k m.keys).1 - (m.maxKey + 1), ?_⟩
    have hl : (m.keys.length == 0) = false := by
      cases hk : m.keys with
      | nil => exact absurd hk h
      | cons a r => simp
    rw [hl]
    simp only [Bool.false_eq_true, if_false]
    omega

end Cambrian
