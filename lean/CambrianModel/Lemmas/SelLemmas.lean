import CambrianModel.Model.Selection
import Mathlib.Tactic.Ring
import Mathlib.Tactic.Linarith
import Mathlib.Tactic.FieldSimp
import Mathlib.Algebra.Order.Field.Basic
namespace Cambrian.Sel

theorem loopMass_length (p : Rat) (n : Nat) (c : Rat) : (loopMass p n c).length = n := by
  induction n generalizing c with
  | zero => rfl
  | succ n ih => simp [loopMass, ih]

theorem loopMass_get (p : Rat) (n : Nat) (c : Rat) (i : Nat) (h : i < n) :
    (loopMass p n c)[i]'(by rw [loopMass_length]; exact h) = c * p * (1 - p) ^ i := by
  induction n generalizing c i with
  | zero => omega
  | succ n ih =>
    cases i with
    | zero => simp [loopMass]
    | succ i =>
      simp only [loopMass, List.getElem_cons_succ]
      rw [ih _ i (by omega)]; ring

theorem restMass_eq (p : Rat) (n : Nat) (c : Rat) : restMass p n c = c * (1 - p) ^ n := by
  induction n generalizing c with
  | zero => simp [restMass]
  | succ n ih => simp only [restMass]; rw [ih]; ring

theorem loopMass_sum (p : Rat) (n : Nat) (c : Rat) : (loopMass p n c).sum = c - restMass p n c := by
  induction n generalizing c with
  | zero => simp [loopMass, restMass]
  | succ n ih => simp only [loopMass, restMass, List.sum_cons]; rw [ih]; ring

theorem selDist_length (p : Rat) (n : Nat) : (selDist p n).length = n := by
  simp [selDist, loopMass_length]

theorem selDist_get (p : Rat) (n i : Nat) (h : i < n) :
    (selDist p n)[i]'(by rw [selDist_length]; exact h) = selPmf p n i := by
  simp only [selDist, List.getElem_map, selPmf]
  rw [loopMass_get p n 1 i h, restMass_eq]; ring

theorem map_add_sum (l : List Rat) (a : Rat) : (l.map (fun x => x + a)).sum = l.sum + l.length * a := by
  induction l with
  | nil => simp
  | cons x xs ih => simp only [List.map_cons, List.sum_cons, List.length_cons]; rw [ih]; push_cast; ring

theorem selDist_sum (p : Rat) (n : Nat) (hn : 0 < n) : (selDist p n).sum = 1 := by
  simp only [selDist]
  rw [map_add_sum, loopMass_sum, loopMass_length]
  have : (n : Rat) ≠ 0 := by exact_mod_cast (Nat.pos_iff_ne_zero.mp hn)
  field_simp
  ring

theorem selPmf_mono (p : Rat) (hp0 : 0 ≤ p) (hp1 : p ≤ 1) (n i j : Nat) (hij : i ≤ j) :
    selPmf p n j ≤ selPmf p n i := by
  simp only [selPmf]
  have hq0 : 0 ≤ 1 - p := by linarith
  have hq1 : 1 - p ≤ 1 := by linarith
  have := pow_le_pow_of_le_one hq0 hq1 hij
  have := mul_le_mul_of_nonneg_left this hp0
  linarith

theorem selPmf_nonneg (p : Rat) (hp0 : 0 ≤ p) (hp1 : p ≤ 1) (n i : Nat) : 0 ≤ selPmf p n i := by
  simp only [selPmf]
  have hq0 : 0 ≤ 1 - p := by linarith
  have h1 := pow_nonneg hq0 i
  have h2 := pow_nonneg hq0 n
  have h3 : (0:Rat) ≤ n := by exact_mod_cast Nat.zero_le n
  have := div_nonneg h2 h3
  have := mul_nonneg hp0 h1
  linarith

end Cambrian.Sel
