/-
The closed model: controller (L6) + algorithm core (L5) + the code-shaped operators (`crossGen`, `mutGen`).
If every offspring is what the ALGORITHMS compute from the population (for arbitrary consistent oracles, i.e. for
every random stream), the schedule is legal in the sense of `ConfInv.LegalFrom` - so the run-level conformance
theorem needs no assumption about the acceptors any more.
-/
import CambrianModel.Lemmas.ConfInv
import CambrianModel.Lemmas.MutGenLemmas
import CambrianModel.Lemmas.CrossGenLemmas
namespace Cambrian.Ctl
open Cambrian Cambrian.Algo

/-- `create_offspring` as the algorithms compute it: recombination of the whole population in ranking order (the
    initial value when the population is empty), then mutation -/
def algOffspring (oc : CrossOracle) (om : MutOracle) (spec : SNode) (core : Algo.St VNode) : VNode :=
  mutGen om spec [] (if core.pop.isEmpty then core.init else crossGen oc spec [] (core.pop.map (·.v)))

/-- the offspring value carried by an event is the algorithms' offspring for some consistent oracles -/
def IsAlgOffspring (spec : SNode) (core : Algo.St VNode) (v : VNode) : Prop :=
  ∃ (oc : CrossOracle) (om : MutOracle) (cp sp mp : PClass), oc.Consistent cp sp ∧ om.Consistent mp ∧
    v = algOffspring oc om spec core ∧ keysBounded v = true

def AlgEv (spec : SNode) (s : St VNode) : Ev VNode → Prop
  | .abortReq => True
  | .complete seed r ch =>
    ∀ ind, lookupSeed seed s.inflight = some ind →
      match r with
      | .acc x m => IsAlgOffspring spec (Algo.proc s.core ind (some (x, m))) ch.v
      | .rej => IsAlgOffspring spec (Algo.proc s.core ind none) ch.v
      | .fail _ => True

def AlgFrom (spec : SNode) (c : Cfg) : St VNode → List (Ev VNode) → Prop
  | _, [] => True
  | s, e :: es => AlgEv spec s e ∧ AlgFrom spec c (step c s e).1 es

/-- the initial evaluations after the first: mutations of the initial value (the population is still empty) -/
def AlgInit (spec : SNode) (v0 : VNode) (chs : Nat → Algo.Choice VNode) : Prop :=
  ∀ i, ∃ (om : MutOracle) (mp : PClass), om.Consistent mp ∧ (chs i).v = mutGen om spec [] v0 ∧ keysBounded (chs i).v = true

theorem algOffspring_ok {spec : SNode} (hs : wf spec = true) {core : Algo.St VNode} {v : VNode}
    (hinit : conf spec core.init = true) (hpop : ∀ e ∈ core.pop, conf spec e.v = true)
    (h : IsAlgOffspring spec core v) : OffspringOk spec core v := by
  obtain ⟨oc, om, cp, sp, mp, hoc, hom, hv, hk⟩ := h
  by_cases he : core.pop.isEmpty = true
  · refine ⟨cp, sp, mp, core.init, by simp [he], ?_, hk⟩
    rw [hv]; simp only [algOffspring, he, if_true]
    exact mutGen_mutAcc om mp hom spec [] core.init hs hinit
  · have hne : core.pop.map (·.v) ≠ [] := by
      intro h; apply he; simpa using h
    have hp : ∀ q ∈ core.pop.map (·.v), conf spec q = true := by
      intro q hq
      simp only [List.mem_map] at hq
      obtain ⟨e, he', rfl⟩ := hq
      exact hpop e he'
    have hcross := crossGen_crossAcc oc cp sp hoc spec [] _ hs hne hp
    refine ⟨cp, sp, mp, crossGen oc spec [] (core.pop.map (·.v)), by simp [he, hcross], ?_, hk⟩
    rw [hv]; simp only [algOffspring, he, Bool.false_eq_true, if_false]
    exact mutGen_mutAcc om mp hom spec [] _ hs (crossAcc_conf cp sp spec _ _ hs hne hp hcross)

theorem algEv_legal {spec : SNode} (hs : wf spec = true) {s : St VNode} {acts : List (Act VNode)} (e : Ev VNode)
    (h : ConfInv spec s acts) (ha : AlgEv spec s e) : LegalEv spec s e := by
  cases e with
  | abortReq => trivial
  | complete seed r ch =>
    intro ind hi
    have hind : conf spec ind.v = true := h.inflOk _ (lookupSeed_some hi)
    have ha' := ha ind hi
    cases r with
    | acc x m =>
      obtain ⟨p1, p2⟩ := proc_conf (some (x, m)) h.initOk h.popOk hind
      exact algOffspring_ok hs p1 p2 ha'
    | rej =>
      obtain ⟨p1, p2⟩ := proc_conf none h.initOk h.popOk hind
      exact algOffspring_ok hs p1 p2 ha'
    | fail _ => trivial

theorem algFrom_legalFrom {spec : SNode} (hs : wf spec = true) {c : Cfg} :
    ∀ (evs : List (Ev VNode)) (s : St VNode) (acts : List (Act VNode)), ConfInv spec s acts →
      AlgFrom spec c s evs → LegalFrom spec c s evs
  | [], _, _, _, _ => trivial
  | e :: es, s, acts, h, ha => by
    have hl := algEv_legal hs e h ha.1
    exact ⟨hl, algFrom_legalFrom hs es _ _ (step_conf hs e h hl) ha.2⟩

theorem algInit_legalInit {spec : SNode} (hs : wf spec = true) {v0 : VNode} (hv0 : conf spec v0 = true)
    {chs : Nat → Algo.Choice VNode} (h : AlgInit spec v0 chs) : LegalInit spec v0 chs := by
  intro i
  obtain ⟨om, mp, hom, hv, hk⟩ := h i
  exact ⟨mp, by rw [hv]; exact mutGen_mutAcc om mp hom spec [] v0 hs hv0, hk⟩

/-- the closed model: every parameter set handed to the objective function conforms, for every schedule and every
    random stream of the operators -/
theorem run_confInv_alg (spec : SNode) (hs : wf spec = true) (c : Cfg) (ss : Nat) (v0 d : VNode)
    (hv0 : conf spec v0 = true) (chs : Nat → Algo.Choice VNode) (hchs : AlgInit spec v0 chs)
    (evs : List (Ev VNode)) (halg : AlgFrom spec c (init c ss (some v0) d chs).1 evs) :
    ConfInv spec (run c ss (some v0) d chs evs).1 (run c ss (some v0) d chs evs).2 := by
  have hli := algInit_legalInit hs hv0 hchs
  have hi := init_conf hs c ss v0 d hv0 chs hli
  exact run_confInv spec hs c ss v0 d hv0 chs hli evs (algFrom_legalFrom hs evs _ _ hi halg)

end Cambrian.Ctl
