/-
Second controller invariant: work conservation, exact use of the budget, and "what is returned is the outcome
of the final state".  For every event list.
-/
import CambrianModel.Lemmas.CtlInv
namespace Cambrian.Ctl
open Cambrian

variable {V : Type}

structure Inv2 (c : Cfg) (s : St V) (acts : List (Act V)) : Prop where
  /-- work conservation with a budget -/
  wcSome : s.aborted = false → s.done = false → ∀ N, c.maxEval = some N →
      s.inflight.length = Nat.min c.nc (N - (s.accepted + s.rejected))
  /-- work conservation without a budget -/
  wcNone : s.aborted = false → s.done = false → c.maxEval = none → s.inflight.length = c.nc
  /-- a run that ends for no other reason has used the budget exactly -/
  exact : s.aborted = false → s.done = true → targetHit c s.core = false → ∀ N, c.maxEval = some N →
      s.accepted + s.rejected = N ∧ s.pushed = N
  /-- what is returned is the outcome of the (frozen) final state -/
  retOut : ∀ o d, Act.ret o d ∈ acts → s.done = true ∧ o = outcome s ∧ d = s.inflight.map (·.1)

/-- facts about the state in the middle of the `Ok(Some(..))` branch, after counting and processing -/
structure Mid2 (c : Cfg) (s : St V) (acts : List (Act V)) : Prop where
  wcSome : s.aborted = false → ∀ N, c.maxEval = some N →
      s.inflight.length + 1 = Nat.min c.nc (N + 1 - (s.accepted + s.rejected)) ∧ 1 ≤ s.accepted + s.rejected
  wcNone : s.aborted = false → c.maxEval = none → s.inflight.length + 1 = c.nc
  noRet : ∀ o d, Act.ret o d ∉ acts

theorem outcome_done (s : St V) : outcome { s with done := true } = outcome s := rfl

theorem finish_inv2 {c : Cfg} {s : St V} {acts : List (Act V)} (hm : InvMid c s acts)
    (failAb : s.aborted = false → s.failed = 0) (noRet : ∀ o d, Act.ret o d ∉ acts)
    (hx : s.aborted = false → targetHit c s.core = false → ∀ N, c.maxEval = some N →
        s.accepted + s.rejected = N ∧ s.pushed = N) :
    Inv2 c (finish s acts).1 (finish s acts).2 := by
  refine ⟨?_, ?_, ?_, ?_⟩ <;> dsimp only [finish]
  · intro _ h; simp at h
  · intro _ h; simp at h
  · intro ha _ ht N hN; exact hx ha ht N hN
  · intro o d hmem
    simp only [List.mem_append, List.mem_singleton] at hmem
    rcases hmem with hmem | hmem
    · exact absurd hmem (noRet o d)
    · injection hmem with h1 h2
      exact ⟨rfl, by rw [h1]; rfl, by rw [h2]⟩

theorem min_lemma1 {a nc N ar : Nat} (h : a + 1 = Nat.min nc (N + 1 - ar)) (h1 : 1 ≤ ar)
    (hlt : ar + a < N) : a + 1 = Nat.min nc (N - ar) := by
  simp only [Nat.min_def] at *
  split at h <;> split <;> omega

theorem min_lemma2 {a nc N ar : Nat} (h : a + 1 = Nat.min nc (N + 1 - ar)) (h1 : 1 ≤ ar)
    (hge : N ≤ ar + a) (hle : ar + a ≤ N) : a = Nat.min nc (N - ar) := by
  simp only [Nat.min_def] at *
  split at h <;> split <;> omega

theorem afterResult_inv2 {c : Cfg} {s : St V} {ch : Algo.Choice V} {acts : List (Act V)}
    (hm : InvMid c s acts) (failAb : s.aborted = false → s.failed = 0) (m2 : Mid2 c s acts) :
    Inv2 c (afterResult c s ch acts).1 (afterResult c s ch acts).2 := by
  have bal := hm.bal
  simp only [afterResult]
  split
  · rename_i ht
    exact finish_inv2 hm failAb m2.noRet (fun _ h => by simp [ht] at h)
  · split
    · rename_i hc
      refine finish_inv2 hm failAb m2.noRet (fun ha _ N hN => ?_)
      simp only [completedAll, hN, decide_eq_true_eq] at hc
      have := hm.bud N hN
      have := failAb ha
      omega
    · rename_i hnc
      split
      · rename_i hb
        simp only [Bool.and_eq_true, Bool.not_eq_true'] at hb
        obtain ⟨e1, e2, e3, e4, e5, e6, e7, e8, ind, e9, e10, _, _⟩ := startOne_state s ch
        refine ⟨?_, ?_, ?_, ?_⟩
        · intro ha _ N hN
          rw [e6] at ha
          obtain ⟨w, w1⟩ := m2.wcSome ha N hN
          have hbl := hb.1
          simp only [budgetLeft, hN, decide_eq_true_eq] at hbl
          have := failAb ha
          simp only [e9, e3, e4, List.length_append, List.length_singleton]
          exact min_lemma1 w w1 (by omega)
        · intro ha _ hN
          rw [e6] at ha
          have := m2.wcNone ha hN
          simp only [e9, List.length_append, List.length_singleton]; omega
        · intro _ hd
          rw [e8, hm.notDone] at hd; simp at hd
        · intro o d hmem
          simp only [List.mem_append, List.mem_singleton] at hmem
          rcases hmem with hmem | hmem
          · exact absurd hmem (m2.noRet o d)
          · rw [e10] at hmem; simp at hmem
      · rename_i hb
        have hb' : s.aborted = false → budgetLeft c s.pushed = false := by
          intro ha
          cases h1 : budgetLeft c s.pushed
          · rfl
          · simp [h1, ha] at hb
        simp only [again]
        split
        · rename_i hemp
          refine finish_inv2 hm failAb m2.noRet (fun ha _ N hN => ?_)
          have hbl := hb' ha
          simp only [budgetLeft, hN, decide_eq_false_iff_not] at hbl
          have := hm.bud N hN
          have := failAb ha
          have : s.inflight.length = 0 := by simpa using hemp
          omega
        · refine ⟨?_, ?_, ?_, ?_⟩ <;> dsimp only
          · intro ha _ N hN
            obtain ⟨w, w1⟩ := m2.wcSome ha N hN
            have hbl := hb' ha
            simp only [budgetLeft, hN, decide_eq_false_iff_not] at hbl
            have := hm.bud N hN
            have := failAb ha
            exact min_lemma2 w w1 (by omega) (by omega)
          · intro ha _ hN
            have := hb' ha
            simp [budgetLeft, hN] at this
          · intro _ hd; rw [hm.notDone] at hd; simp at hd
          · intro o d hmem; exact absurd hmem (m2.noRet o d)

/-- no `ret` has been emitted while the loop is running -/
theorem noRet_of_notDone {c : Cfg} {s : St V} {acts : List (Act V)} (h2 : Inv2 c s acts) (hd : s.done = false) :
    ∀ o d, Act.ret o d ∉ acts := by
  intro o d hmem
  have := (h2.retOut o d hmem).1
  simp [hd] at this

theorem onResult_inv2 {c : Cfg} {s : St V} {acts : List (Act V)} {seed : Nat} {ind : Algo.Ind V}
    (r : Option (Int × Int)) (ch : Algo.Choice V) (hd' : s.done = false)
    (hl : lookupSeed seed s.inflight = some ind) (h : Inv c s acts) (h2 : Inv2 c s acts) :
    Inv2 c (onResult c s seed ind r ch).1 (acts ++ (onResult c s seed ind r ch).2) := by
  obtain ⟨bal, cap, bud, seedEq, lt, nd, live, seeds, iA, iR, bc, rets, errAb, failAb⟩ := h
  obtain ⟨f1, f2, f3⟩ := eraseSeed_facts hl
  obtain ⟨f3, _⟩ := f3 nd
  have rets0 : nRet acts = 0 := by simpa [hd'] using rets
  have noRet := noRet_of_notDone h2 hd'
  simp only [onResult]
  have hmid : InvMid c (resultState s seed ind r) (acts ++ [.item ind.id seed (r.map (·.1))]) :=
    ⟨by cases r <;> simp <;> omega, by simp; omega, bud, seedEq, fun p hp => lt p (f2 p hp), f3, hd',
     by cases r <;> simpa using seeds,
     by cases r <;> simp [iA],
     by cases r <;> simp [iR],
     by cases r <;> simpa using bc,
     by cases r <;> simpa using rets0, errAb⟩
  have := @afterResult_inv2 V c (resultState s seed ind r) ch (acts ++ [.item ind.id seed (r.map (·.1))])
    hmid failAb
    ⟨fun ha N hN => by
        have w := h2.wcSome ha hd' N hN
        simp only [resultState_inflight]
        cases r <;> simp <;> refine ⟨?_, by omega⟩ <;> rw [f1, w] <;> congr 1 <;> omega,
     fun ha hN => by
        have w := h2.wcNone ha hd' hN
        simp only [resultState_inflight]; omega,
     fun o d hmem => by
        simp only [List.mem_append, List.mem_singleton] at hmem
        rcases hmem with hmem | hmem
        · exact noRet o d hmem
        · simp at hmem⟩
  rw [afterResult_append] at this; exact this

theorem again_inv2_aborted {c : Cfg} {s : St V} {acts : List (Act V)} (hm : InvMid c s acts)
    (failAb : s.aborted = false → s.failed = 0) (hab : s.aborted = true) (noRet : ∀ o d, Act.ret o d ∉ acts) :
    Inv2 c (again s acts).1 (again s acts).2 := by
  simp only [again]
  split
  · exact finish_inv2 hm failAb noRet (fun ha => by simp [hab] at ha)
  · exact ⟨fun ha => by simp [hab] at ha, fun ha => by simp [hab] at ha, fun ha => by simp [hab] at ha,
      fun o d hmem => absurd hmem (noRet o d)⟩

theorem onFail_inv2 {c : Cfg} {s1 : St V} {acts : List (Act V)} (er : Nat) (h : InvMid c s1 acts)
    (noRet : ∀ o d, Act.ret o d ∉ acts) :
    Inv2 c (onFail s1 er).1 (acts ++ (onFail s1 er).2) := by
  simp only [onFail]
  split
  · rename_i hab
    have := again_inv2_aborted h (fun hf => by simp [hab] at hf) hab noRet
    have e := again_append s1 acts []
    simp only [List.append_nil] at e
    rw [e] at this; exact this
  · rename_i hab
    simp only [Bool.not_eq_true] at hab
    obtain ⟨bal, cap, bud, seedEq, lt, nd, nDone, seeds, iA, iR, bc, rets, errAb⟩ := h
    have := @again_inv2_aborted V c { s1 with aborted := true, err := some er } (acts ++ [.broadcastAbort])
      ⟨bal, cap, bud, seedEq, lt, nd, nDone,
       by simpa using seeds, by simpa using iA, by simpa using iR, by simp [bc, hab],
       by simpa using rets, fun _ => rfl⟩ (fun hf => by simp at hf) rfl
      (fun o d hmem => by
        simp only [List.mem_append, List.mem_singleton] at hmem
        rcases hmem with hmem | hmem
        · exact noRet o d hmem
        · simp at hmem)
    rw [again_append] at this; exact this

theorem step_inv2 {c : Cfg} {s : St V} {acts : List (Act V)} (e : Ev V) (h : Inv c s acts) (h2 : Inv2 c s acts) :
    Inv2 c (step c s e).1 (acts ++ (step c s e).2) := by
  cases e with
  | abortReq =>
    simp only [step]
    split
    · simpa using h2
    · rename_i hd
      have hd' : s.done = false := by simpa using hd
      simp only [onAbort]
      split
      · simpa using h2
      · exact ⟨fun ha => by simp at ha, fun ha => by simp at ha, fun ha => by simp at ha,
          fun o d hmem => by
            simp only [List.mem_append, List.mem_singleton] at hmem
            rcases hmem with hmem | hmem
            · exact absurd hmem (noRet_of_notDone h2 hd' o d)
            · simp at hmem⟩
  | complete seed r ch =>
    simp only [step]
    split
    · simpa using h2
    · rename_i hd
      have hd' : s.done = false := by simpa using hd
      split
      · simpa using h2
      · rename_i ind hl
        cases r with
        | acc x m => exact onResult_inv2 _ ch hd' hl h h2
        | rej => exact onResult_inv2 _ ch hd' hl h h2
        | fail er =>
          obtain ⟨bal, cap, bud, seedEq, lt, nd, live, seeds, iA, iR, bc, rets, errAb, failAb⟩ := h
          obtain ⟨f1, f2, f3⟩ := eraseSeed_facts hl
          obtain ⟨f3, _⟩ := f3 nd
          have rets0 : nRet acts = 0 := by simpa [hd'] using rets
          apply onFail_inv2
          · exact ⟨by simp; omega, by simp; omega, bud, seedEq,
              fun p hp => lt p (f2 p hp), f3, hd', seeds, iA, iR, bc, rets0, errAb⟩
          · exact noRet_of_notDone h2 hd'

theorem startMany_facts (chs : Nat → Algo.Choice V) :
    ∀ (n i : Nat) (s : St V) (acts : List (Act V)),
      (startMany chs n i s acts).1.inflight.length = s.inflight.length + n ∧
      (startMany chs n i s acts).1.accepted = s.accepted ∧ (startMany chs n i s acts).1.rejected = s.rejected ∧
      (startMany chs n i s acts).1.done = s.done ∧
      ((∀ o d, Act.ret o d ∉ acts) → ∀ o d, Act.ret o d ∉ (startMany chs n i s acts).2)
  | 0, _, s, acts => by simp [startMany]
  | n+1, i, s, acts => by
    simp only [startMany]
    obtain ⟨e1, _, e3, e4, e5, e6, _, e8, ind, e9, e10, _, _⟩ := startOne_state s (chs i)
    obtain ⟨g1, g2, g3, g4, g5⟩ := startMany_facts chs n (i+1) (startOne s (chs i)).1 (acts ++ [(startOne s (chs i)).2])
    refine ⟨by rw [g1, e9]; simp; omega, by rw [g2, e3], by rw [g3, e4], by rw [g4, e8], ?_⟩
    intro hno
    apply g5
    intro o d hmem
    simp only [List.mem_append, List.mem_singleton] at hmem
    rcases hmem with hmem | hmem
    · exact hno o d hmem
    · rw [e10] at hmem; simp at hmem

theorem init_inv2 (c : Cfg) (hnc : 0 < c.nc) (sampleSize : Nat) (v0 : V) (dflt : V) (chs : Nat → Algo.Choice V) :
    Inv2 c (init c sampleSize (some v0) dflt chs).1 (init c sampleSize (some v0) dflt chs).2 := by
  simp only [init]
  have h0 : InvMid c ({ core := Algo.new v0 sampleSize } : St V) [] :=
    ⟨rfl, by simp, fun n _ => by simp, rfl, by simp, by simp [seedsOf], rfl, by simp [startSeeds], by simp [nItemsAcc],
     by simp [nItemsRej], by simp [nBroadcast], by simp [nRet], by simp⟩
  obtain ⟨hm, hf, ha⟩ := startMany_mid chs (initialCount c) 0 _ [] h0
    (by simp only [initialCount]; split <;> simp [Nat.min_def] <;> (try split) <;> omega)
    (fun N hN => by simp only [initialCount, hN]; simp [Nat.min_def]; split <;> omega)
  obtain ⟨g1, g2, g3, g4, g5⟩ := startMany_facts chs (initialCount c) 0 ({ core := Algo.new v0 sampleSize } : St V) []
  have noRet := g5 (by simp)
  simp only [again]
  split
  · rename_i hemp
    refine finish_inv2 hm (fun _ => by simp [hf]) noRet (fun _ _ N hN => ?_)
    have hl : (startMany chs (initialCount c) 0 ({ core := Algo.new v0 sampleSize } : St V) []).1.inflight.length = 0 := by
      simpa using hemp
    rw [g1] at hl
    simp only [List.length_nil, Nat.zero_add, initialCount, hN] at hl
    have hb := hm.bal
    rw [g2, g3, hf] at hb
    have : N = 0 := by
      simp only [Nat.min_def] at hl; split at hl <;> omega
    subst this
    have := hm.bud 0 hN
    rw [g2, g3]; simp; omega
  · refine ⟨?_, ?_, ?_, ?_⟩
    · intro _ _ N hN
      rw [g1, g2, g3]; simp [initialCount, hN]
    · intro _ _ hN
      rw [g1]; simp [initialCount, hN]
    · intro _ hd; rw [g4] at hd; simp at hd
    · intro o d hmem; exact absurd hmem (noRet o d)

theorem runFrom_inv2 {c : Cfg} : ∀ (evs : List (Ev V)) (s : St V) (acts : List (Act V)), Inv c s acts → Inv2 c s acts →
    Inv2 c (runFrom c s acts evs).1 (runFrom c s acts evs).2
  | [], _, _, _, h2 => h2
  | e :: es, s, acts, h, h2 => by
    simp only [runFrom]
    exact runFrom_inv2 es _ _ (step_inv e h) (step_inv2 e h h2)

theorem run_inv2 (c : Cfg) (hnc : 0 < c.nc) (sampleSize : Nat) (v0 : V) (dflt : V) (chs : Nat → Algo.Choice V)
    (evs : List (Ev V)) :
    Inv2 c (run c sampleSize (some v0) dflt chs evs).1 (run c sampleSize (some v0) dflt chs evs).2 :=
  runFrom_inv2 evs _ _ (init_inv c sampleSize (some v0) dflt chs) (init_inv2 c hnc sampleSize v0 dflt chs)

end Cambrian.Ctl
