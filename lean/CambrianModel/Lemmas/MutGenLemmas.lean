/-
Refinement: every result of the algorithm `mutGen` (the code-shaped model of `mutation::mutate`) is accepted by the
acceptor `mutAcc` - for every spec, every conforming value, every oracle consistent with the probability class.
-/
import CambrianModel.Model.MutGen
import CambrianModel.Lemmas.MutLemmas
namespace Cambrian

/-! ### what a consistent oracle says about the probability class -/

theorem MutOracle.Consistent.of_flip_true {o : MutOracle} {pc : PClass} (hc : o.Consistent pc) {p : Path}
    (h : o.flip p = true) : pc = .one ∨ pc = .mid := by
  obtain ⟨h0, _, hinv, _⟩ := hc
  cases pc
  · have := h0 rfl p; rw [h] at this; cases this
  · exact Or.inr rfl
  · exact Or.inl rfl
  · exact absurd rfl hinv

theorem MutOracle.Consistent.of_flip_false {o : MutOracle} {pc : PClass} (hc : o.Consistent pc) {p : Path}
    (h : o.flip p = false) : pc = .zero ∨ pc = .mid := by
  obtain ⟨_, h1, hinv, _⟩ := hc
  cases pc
  · exact Or.inl rfl
  · exact Or.inr rfl
  · have := h1 rfl p; rw [h] at this; cases this
  · exact absurd rfl hinv

theorem MutOracle.Consistent.valid {o : MutOracle} {pc : PClass} (hc : o.Consistent pc) : (pc != .invalid) = true := by
  obtain ⟨_, _, hinv, _⟩ := hc
  cases pc <;> first | rfl | exact absurd rfl hinv

/-! ### the clamps -/

theorem realOut_clampR (y : F64) (mn mx : Option F64) (hy : y.isFinite = true)
    (hlt : (match mn, mx with | some a, some b => F64.lt a b | _, _ => true) = true)
    (hmn : optAll F64.isFinite mn = true) (hmx : optAll F64.isFinite mx = true) :
    realOut (clampR y mn mx) mn mx = true := by
  cases y <;> simp [F64.isFinite] at hy
  rcases mn with _ | (_ | _ | a | _) <;> rcases mx with _ | (_ | _ | b | _) <;>
    simp [optAll, F64.isFinite] at hmn hmx <;>
    simp [F64.lt] at hlt <;>
    simp [realOut, clampR, F64.max_fin, F64.min_fin, F64.isFinite] <;>
    (repeat' split) <;> omega

theorem inI64_iff (z : Int) : inI64 z = true ↔ (-9223372036854775808 ≤ z ∧ z ≤ 9223372036854775807) := by
  unfold inI64 i64Min i64Max
  rw [Bool.and_eq_true, decide_eq_true_iff, decide_eq_true_iff]

theorem intOut_clampI (z : Int) (mn mx : Option Int) (hz : inI64 z = true)
    (hlt : (match mn, mx with | some a, some b => decide (a < b) | _, _ => true) = true)
    (hmn : optAll inI64 mn = true) (hmx : optAll inI64 mx = true) :
    intOut (clampI z mn mx) mn mx = true := by
  rw [inI64_iff] at hz
  rcases mn with _ | a <;> rcases mx with _ | b <;>
    simp only [optAll, inI64_iff] at hmn hmx <;>
    simp only [decide_eq_true_eq] at hlt <;>
    simp only [intOut, clampI, Bool.and_eq_true, beq_iff_eq, inI64_iff] <;>
    (repeat' split) <;> (try simp only [and_true]) <;> omega

/-! ### `choose` -/

theorem chooseD_mem {α} (l : List α) (i : Nat) (d : α) (h : l ≠ []) : chooseD l i d ∈ l := by
  have hpos : 0 < l.length := List.length_pos_iff.2 h
  have hlt : i % l.length < l.length := Nat.mod_lt _ hpos
  unfold chooseD
  rw [List.getD_eq_getElem?_getD, List.getElem?_eq_getElem hlt]
  exact List.getElem_mem hlt

theorem chooseD_nil {α} (i : Nat) (d : α) : chooseD ([] : List α) i d = d := by
  simp [chooseD]

theorem filter_ne_nonempty (l : List String) (cur a b : String) (hab : a ≠ b) (ha : a ∈ l) (hb : b ∈ l) :
    l.filter (· != cur) ≠ [] := by
  intro h
  rw [List.filter_eq_nil_iff] at h
  have h1 := h a ha
  have h2 := h b hb
  simp at h1 h2
  exact hab (h1.trans h2.symm)

theorem allDistinct_two (vs : List String) (h2 : 2 ≤ vs.length) (hd : allDistinct vs = true) :
    ∃ a b, a ≠ b ∧ a ∈ vs ∧ b ∈ vs := by
  match vs, h2, hd with
  | a :: b :: r, _, hd =>
    simp only [allDistinct, Bool.and_eq_true] at hd
    refine ⟨a, b, ?_, by simp, by simp⟩
    intro hab
    subst hab
    simp at hd

theorem sortedStr_two (ks : List String) (h2 : 2 ≤ ks.length) (hd : sortedStr ks = true) :
    ∃ a b, a ≠ b ∧ a ∈ ks ∧ b ∈ ks := by
  match ks, h2, hd with
  | a :: b :: r, _, hd =>
    simp only [sortedStr, Bool.and_eq_true, decide_eq_true_eq] at hd
    refine ⟨a, b, ?_, by simp, by simp⟩
    intro hab
    subst hab
    exact String.lt_irrefl _ hd.1

theorem SFields.length_eq_keys_mg : ∀ (o : SFields), o.length = o.keys.length
  | .nil => rfl
  | .cons _ _ r => by simp [SFields.length, SFields.keys, SFields.length_eq_keys_mg r]

theorem SFields.lookup_of_mem_keys : ∀ (o : SFields) (k : String), k ∈ o.keys → ∃ cs, o.lookup k = some cs
  | .nil, _, h => by simp [SFields.keys] at h
  | .cons k' n r, k, h => by
      simp only [SFields.keys, List.mem_cons] at h
      simp only [SFields.lookup]
      by_cases hk : k' = k
      · simp [hk]
      · have hr : k ∈ r.keys := by
          rcases h with h | h
          · exact absurd h.symm hk
          · exact h
        simpa [hk] using SFields.lookup_of_mem_keys r k hr

/-! ### the leaf cases -/

theorem mutGen_real (o : MutOracle) (pc : PClass) (hc : o.Consistent pc) (i sc : F64) (mn mx : Option F64) (p : Path)
    (x : F64) (hs : wf (.real i sc mn mx) = true) :
    mutAcc pc (.real i sc mn mx) (.real x) (mutGen o (.real i sc mn mx) p (.real x)) = true := by
  simp only [wf, Bool.and_eq_true] at hs
  simp only [mutGen]
  cases hf : o.flip p
  · rcases hc.of_flip_false hf with h | h <;> subst h <;> simp [mutAcc]
  · cases hy : (o.sampleR p).isFinite
    · rcases hc.of_flip_true hf with h | h <;> subst h <;> simp [mutAcc]
    · have := realOut_clampR (o.sampleR p) mn mx hy hs.1.1.2 hs.1.1.1.1.2 hs.1.1.1.2
      rcases hc.of_flip_true hf with h | h <;> subst h <;> simp [mutAcc, this]

theorem mutGen_int (o : MutOracle) (pc : PClass) (hc : o.Consistent pc) (i : Int) (sc : F64) (mn mx : Option Int)
    (p : Path) (x : Int) (hs : wf (.int i sc mn mx) = true) :
    mutAcc pc (.int i sc mn mx) (.int x) (mutGen o (.int i sc mn mx) p (.int x)) = true := by
  simp only [wf, Bool.and_eq_true] at hs
  simp only [mutGen]
  cases hf : o.flip p
  · rcases hc.of_flip_false hf with h | h <;> subst h <;> simp [mutAcc]
  · cases hy : o.sampleI p with
    | none => rcases hc.of_flip_true hf with h | h <;> subst h <;> simp [mutAcc]
    | some z =>
      have hz := hc.2.2.2 p z hy
      have := intOut_clampI z mn mx hz hs.1.1.2 hs.1.1.1.1.1.1.2 hs.1.1.1.1.1.2
      rcases hc.of_flip_true hf with h | h <;> subst h <;> simp [mutAcc, this]

theorem mutGen_bool (o : MutOracle) (pc : PClass) (hc : o.Consistent pc) (i : Bool) (p : Path) (x : Bool) :
    mutAcc pc (.bool i) (.bool x) (mutGen o (.bool i) p (.bool x)) = true := by
  simp only [mutGen]
  cases hf : o.flip p
  · rcases hc.of_flip_false hf with h | h <;> subst h <;> simp [mutAcc]
  · rcases hc.of_flip_true hf with h | h <;> subst h <;> simp [mutAcc]

theorem mutGen_enum (o : MutOracle) (pc : PClass) (hc : o.Consistent pc) (vs : List String) (i : String) (p : Path)
    (cur : String) (hs : wf (.enum vs i) = true) :
    mutAcc pc (.enum vs i) (.enum cur) (mutGen o (.enum vs i) p (.enum cur)) = true := by
  simp only [wf, Bool.and_eq_true, decide_eq_true_eq] at hs
  simp only [mutGen]
  cases hf : o.flip p
  · rcases hc.of_flip_false hf with h | h <;> subst h <;> simp [mutAcc]
  · obtain ⟨a, b, hab, ha, hb⟩ := allDistinct_two vs hs.1.1 hs.1.2
    have hm := chooseD_mem _ (o.pick p) cur (filter_ne_nonempty vs cur a b hab ha hb)
    rw [List.mem_filter] at hm
    have h1 : cur ≠ chooseD (vs.filter (· != cur)) (o.pick p) cur := by
      have := hm.2; simp at this; exact fun h => this h.symm
    rcases hc.of_flip_true hf with h | h <;> subst h <;> simp [mutAcc, hm.1, h1]

/-! ### arrays -/

theorem mapIdxV_mutAccList (pc : PClass) (e : SNode) (f : Nat → VNode → VNode)
    (ih : ∀ i v, conf e v = true → mutAcc pc e v (f i v) = true) :
    ∀ (l : VList) (i : Nat), confList e l = true → mutAccList pc e l (l.mapIdxV f i) = true
  | .nil, _, _ => by simp [VList.mapIdxV, mutAccList]
  | .cons v r, i, h => by
      simp only [confList, Bool.and_eq_true] at h
      simp only [VList.mapIdxV, mutAccList, Bool.and_eq_true]
      exact ⟨ih i v h.1, mapIdxV_mutAccList pc e f ih r (i + 1) h.2⟩

/-! ### maps: every element mutated in place -/

theorem VEntries.mapKV_keys (f : Nat → VNode → VNode) : ∀ (m : VEntries), (m.mapKV f).keys = m.keys
  | .nil => rfl
  | .cons k v r => by simp [VEntries.mapKV, VEntries.keys, VEntries.mapKV_keys f r]

theorem VEntries.mapKV_length (f : Nat → VNode → VNode) (m : VEntries) : (m.mapKV f).length = m.length := by
  rw [VEntries.length_eq_keys, VEntries.length_eq_keys, VEntries.mapKV_keys]

theorem mapKV_mutAccSame (pc : PClass) (e : SNode) (f : Nat → VNode → VNode)
    (ih : ∀ k v, conf e v = true → mutAcc pc e v (f k v) = true) :
    ∀ (m : VEntries), confEntries e m = true → mutAccSame pc e m (m.mapKV f) = true
  | .nil, _ => by simp [VEntries.mapKV, mutAccSame]
  | .cons k v r, h => by
      simp only [confEntries, Bool.and_eq_true] at h
      simp only [VEntries.mapKV, mutAccSame, Bool.and_eq_true, beq_self_eq_true, true_and]
      exact ⟨ih k v h.1, mapKV_mutAccSame pc e f ih r h.2⟩

/-! ### maps: `erase` -/

theorem VEntries.mem_erase_keys (k : Nat) : ∀ (m : VEntries) (x : Nat), x ∈ (m.erase k).keys → x ∈ m.keys
  | .nil, _, h => by simp [VEntries.erase, VEntries.keys] at h
  | .cons k' v' r, x, h => by
      simp only [VEntries.erase] at h
      simp only [VEntries.keys, List.mem_cons]
      split at h
      · exact Or.inr h
      · simp only [VEntries.keys, List.mem_cons] at h
        rcases h with h | h
        · exact Or.inl h
        · exact Or.inr (VEntries.mem_erase_keys k r x h)

theorem VEntries.erase_sorted (k : Nat) : ∀ (m : VEntries), sortedNat m.keys = true → sortedNat (m.erase k).keys = true
  | .nil, _ => by simp [VEntries.erase, VEntries.keys, sortedNat]
  | .cons k' v' r, h => by
      have h' := (sortedNat_cons k' r.keys).1 (by simpa [VEntries.keys] using h)
      simp only [VEntries.erase]
      split
      · exact h'.2
      · simp only [VEntries.keys]
        rw [sortedNat_cons]
        exact ⟨fun x hx => h'.1 x (VEntries.mem_erase_keys k r x hx), VEntries.erase_sorted k r h'.2⟩

theorem VEntries.erase_length (k : Nat) : ∀ (m : VEntries), k ∈ m.keys → (m.erase k).length + 1 = m.length
  | .nil, h => by simp [VEntries.keys] at h
  | .cons k' v' r, h => by
      simp only [VEntries.keys, List.mem_cons] at h
      simp only [VEntries.erase]
      split
      · simp [VEntries.length]
      · rename_i hne
        have hne' : ¬ k = k' := by simpa using hne
        have hr : k ∈ r.keys := by
          rcases h with h | h
          · exact absurd h hne'
          · exact h
        simp [VEntries.length, VEntries.erase_length k r hr]

theorem mutAccEntries_erase (pc : PClass) (e : SNode) (mi : VEntries) (added : Option Nat) (k : Nat) :
    ∀ (mo : VEntries), mutAccEntries pc e mi added mo = true → mutAccEntries pc e mi added (mo.erase k) = true
  | .nil, _ => by simp [VEntries.erase, mutAccEntries]
  | .cons k' v' r, h => by
      simp only [mutAccEntries, Bool.and_eq_true] at h
      simp only [VEntries.erase]
      split
      · exact h.2
      · simp only [mutAccEntries, Bool.and_eq_true]
        exact ⟨h.1, mutAccEntries_erase pc e mi added k r h.2⟩

/-! ### maps: `insert` -/

theorem VEntries.insert_length (k : Nat) (v : VNode) : ∀ (m : VEntries), ¬ k ∈ m.keys →
    (m.insert k v).length = m.length + 1
  | .nil, _ => by simp [VEntries.insert, VEntries.length]
  | .cons k' v' r, h => by
      simp only [VEntries.keys, List.mem_cons, not_or] at h
      simp only [VEntries.insert]
      split
      · simp [VEntries.length]
      · split
        · rename_i h2; exact absurd (by simpa using h2) h.1
        · simp [VEntries.length, VEntries.insert_length k v r h.2]

theorem mutAccEntries_insert (pc : PClass) (e : SNode) (mi : VEntries) (added : Option Nat) (k : Nat) (v : VNode)
    (hv : mutAccEntries pc e mi added (.cons k v .nil) = true) :
    ∀ (mo : VEntries), mutAccEntries pc e mi added mo = true → mutAccEntries pc e mi added (mo.insert k v) = true
  | .nil, _ => by simpa [VEntries.insert] using hv
  | .cons k' v' r, h => by
      have hv' := hv
      simp only [mutAccEntries, Bool.and_eq_true, and_true] at hv'
      have h' := h
      simp only [mutAccEntries, Bool.and_eq_true] at h'
      simp only [VEntries.insert]
      split
      · simp only [mutAccEntries, Bool.and_eq_true] at h ⊢
        exact ⟨hv', h⟩
      · split
        · simp only [mutAccEntries, Bool.and_eq_true]
          exact ⟨hv', h'.2⟩
        · simp only [mutAccEntries, Bool.and_eq_true]
          exact ⟨h'.1, mutAccEntries_insert pc e mi added k v hv r h'.2⟩

/-- the keys of the enlarged map that the input map does not have: exactly the new key -/
theorem VEntries.insert_new_keys (K : List Nat) (k : Nat) (v : VNode) (hk : ¬ k ∈ K) :
    ∀ (m : VEntries), (∀ x ∈ m.keys, x ∈ K) → (m.insert k v).keys.filter (fun x => !(K.contains x)) = [k]
  | .nil, _ => by simp [VEntries.insert, VEntries.keys, hk]
  | .cons k' v' r, h => by
      have hk' : k' ∈ K := h k' (by simp [VEntries.keys])
      have hr : ∀ x ∈ r.keys, x ∈ K := fun x hx => h x (by simp [VEntries.keys, hx])
      have hne : ¬ k = k' := fun hh => hk (hh ▸ hk')
      have hnil : r.keys.filter (fun x => !(K.contains x)) = [] := by
        rw [List.filter_eq_nil_iff]
        intro x hx
        simp [hr x hx]
      simp only [VEntries.insert]
      split
      · simpa [VEntries.keys, List.filter, hk, hk'] using hr
      · split
        · rename_i h2; exact absurd (by simpa using h2) hne
        · simp only [VEntries.keys, List.filter, List.contains_eq_mem, hk', decide_true, Bool.not_true]
          simpa using VEntries.insert_new_keys K k v hk r hr

/-- an entry whose key is not the added one is judged as if nothing had been added -/
theorem mutAccEntries_added (pc : PClass) (e : SNode) (mi : VEntries) (key : Nat) :
    ∀ (mo : VEntries), ¬ key ∈ mo.keys → mutAccEntries pc e mi none mo = true →
      mutAccEntries pc e mi (some key) mo = true
  | .nil, _, _ => by simp [mutAccEntries]
  | .cons k v' r, hk, h => by
      simp only [VEntries.keys, List.mem_cons, not_or] at hk
      simp only [mutAccEntries, Bool.and_eq_true] at h ⊢
      refine ⟨?_, mutAccEntries_added pc e mi key r hk.2 h.2⟩
      have h1 := h.1
      have hne : ¬ (some key == some k) = true := by simpa using hk.1
      have hne0 : ¬ ((none : Option Nat) == some k) = true := by simp
      rw [if_neg hne0] at h1
      rw [if_neg hne]
      exact h1

theorem VEntries.le_maxKey : ∀ (m : VEntries) (k : Nat), k ∈ m.keys → k ≤ m.maxKey
  | .nil, _, h => by simp [VEntries.keys] at h
  | .cons k' v' r, k, h => by
      simp only [VEntries.keys, List.mem_cons] at h
      simp only [VEntries.maxKey]
      rcases h with h | h
      · subst h; exact Nat.le_max_left _ _
      · exact Nat.le_trans (VEntries.le_maxKey r k h) (Nat.le_max_right _ _)

theorem VEntries.conf_of_mem_values (e : SNode) : ∀ (m : VEntries) (v : VNode), confEntries e m = true →
    v ∈ m.values → conf e v = true
  | .nil, _, _, h => by simp [VEntries.values] at h
  | .cons _ v' r, v, hc, h => by
      simp only [confEntries, Bool.and_eq_true] at hc
      simp only [VEntries.values, List.mem_cons] at h
      rcases h with h | h
      · subst h; exact hc.1
      · exact VEntries.conf_of_mem_values e r v hc.2 h

theorem VEntries.any_of_mem_values (f : VNode → Bool) : ∀ (m : VEntries) (v : VNode), v ∈ m.values → f v = true →
    m.any f = true
  | .nil, _, h, _ => by simp [VEntries.values] at h
  | .cons _ v' r, v, h, hf => by
      simp only [VEntries.values, List.mem_cons] at h
      simp only [VEntries.any, Bool.or_eq_true]
      rcases h with h | h
      · subst h; exact Or.inl hf
      · exact Or.inr (VEntries.any_of_mem_values f r v h hf)

/-! ### the resizable map, given the refinement for its element type -/

theorem mutGen_amap (o : MutOracle) (pc : PClass) (hc : o.Consistent pc) (e : SNode) (ini : Nat) (mn mx : Option Nat)
    (p : Path) (mi : VEntries)
    (ih : ∀ p v, conf e v = true → mutAcc pc e v (mutGen o e p v) = true)
    (hse : wf e = true)
    (hi : conf (.amap e ini mn mx) (.amap mi) = true) :
    mutAcc pc (.amap e ini mn mx) (.amap mi) (mutGen o (.amap e ini mn mx) p (.amap mi)) = true := by
  simp only [conf, Bool.and_eq_true] at hi
  obtain ⟨⟨⟨hsorted, _⟩, hsize⟩, hce⟩ := hi
  simp only [mutGen]
  generalize hmut : mi.mapKV (fun k v => mutGen o e (toString k :: p) v) = mutated
  have hkeys : mutated.keys = mi.keys := by rw [← hmut]; exact VEntries.mapKV_keys _ _
  have hlen : mutated.length = mi.length := by rw [← hmut]; exact VEntries.mapKV_length _ _
  have hsame : mutAccSame pc e mi mutated = true := by
    rw [← hmut]; exact mapKV_mutAccSame pc e _ (fun k v hv => ih _ v hv) mi hce
  have hent : mutAccEntries pc e mi none mutated = true :=
    mutAccSame_entries pc e mi mi mutated hsame hsorted (fun _ _ h => h)
  cases hf : o.flip p
  · simp only [Bool.false_eq_true, if_false]
    simp only [mutAcc, hlen, beq_self_eq_true, if_true, Bool.and_eq_true]
    refine ⟨?_, hsame⟩
    rcases hc.of_flip_false hf with h | h <;> subst h <;> rfl
  · have hpc : (pc == .one || pc == .mid) = true := by
      rcases hc.of_flip_true hf with h | h <;> subst h <;> rfl
    simp only [if_true]
    cases hrm : (!atMin mi.length mn && (atMax mi.length mx || o.coin p))
    · simp only [Bool.false_eq_true, if_false]
      generalize hkey : (if (mi.length == 0) = true then 0 else mi.maxKey + 1) + o.keyBump p = key
      have hknot : ¬ key ∈ mi.keys := by
        intro hm
        have hle := VEntries.le_maxKey mi key hm
        have hne : ¬ mi.length = 0 := by
          rw [VEntries.length_eq_keys]
          intro h0
          rw [List.eq_nil_of_length_eq_zero h0] at hm
          cases hm
        simp only [beq_iff_eq, hne, if_false] at hkey
        omega
      have hknot' : ¬ key ∈ mutated.keys := by rw [hkeys]; exact hknot
      have hhead : mutAccEntries pc e mi (some key)
          (.cons key (mutGen o e (toString key :: p) (chooseD mi.values (o.pick p) (initialValue e))) .nil) = true := by
        simp only [mutAccEntries, beq_self_eq_true, if_true, Bool.and_true]
        cases mi with
        | nil =>
          simp only [VEntries.values, chooseD_nil]
          exact ih _ _ (initialValue_conf e hse)
        | cons k0 v0 r0 =>
          have hm : chooseD (VEntries.cons k0 v0 r0).values (o.pick p) (initialValue e) ∈ (VEntries.cons k0 v0 r0).values :=
            chooseD_mem _ _ _ (by simp [VEntries.values])
          exact VEntries.any_of_mem_values _ _ _ hm (ih _ _ (VEntries.conf_of_mem_values e _ _ hce hm))
      generalize mutGen o e (toString key :: p) (chooseD mi.values (o.pick p) (initialValue e)) = v at hhead ⊢
      have hlen' : (mutated.insert key v).length = mi.length + 1 := by
        rw [VEntries.insert_length _ _ _ hknot', hlen]
      have hfilt := VEntries.insert_new_keys mi.keys key v hknot mutated (by rw [hkeys]; exact fun x hx => hx)
      have hsort' := VEntries.insert_sorted key v mutated (by rw [hkeys]; exact hsorted)
      have hent' := mutAccEntries_insert pc e mi (some key) key v hhead mutated
        (mutAccEntries_added pc e mi key mutated hknot' hent)
      have h1 : (mi.length + 1 == mi.length) = false := by
        rw [beq_eq_false_iff_ne]; omega
      have h2 : (mi.length + 1 + 1 == mi.length) = false := by
        rw [beq_eq_false_iff_ne]; omega
      have hmm : (atMin mi.length mn || !(atMax mi.length mx)) = true := by
        cases ha : atMin mi.length mn <;> cases hb : atMax mi.length mx <;> simp [ha, hb] at hrm ⊢
      simp only [mutAcc, hlen', h1, h2, beq_self_eq_true, if_true, Bool.false_eq_true, if_false, hfilt]
      simp only [hpc, hmm, hsort', hent', Bool.and_self]
    · simp only [if_true]
      have hmin : atMin mi.length mn = false := by
        cases ha : atMin mi.length mn
        · rfl
        · simp [ha] at hrm
      have hne : mi.keys ≠ [] := by
        intro h0
        have : mi.length = 0 := by rw [VEntries.length_eq_keys, h0]; rfl
        simp [atMin, this] at hmin
      have hk : chooseD mi.keys (o.pick p) 0 ∈ mutated.keys := by
        rw [hkeys]; exact chooseD_mem _ _ _ hne
      generalize chooseD mi.keys (o.pick p) 0 = k at hk ⊢
      have hlen' : (mutated.erase k).length + 1 = mi.length := by
        rw [VEntries.erase_length k mutated hk, hlen]
      have h1 : ((mutated.erase k).length == mi.length) = false := by
        rw [beq_eq_false_iff_ne]; omega
      have h2 : ((mutated.erase k).length + 1 == mi.length) = true := by
        rw [beq_iff_eq]; exact hlen'
      have hsort' := VEntries.erase_sorted k mutated (by rw [hkeys]; exact hsorted)
      have hsub : (mutated.erase k).keys.all (mi.keys.contains ·) = true := by
        rw [List.all_eq_true]
        intro x hx
        have := VEntries.mem_erase_keys k mutated x hx
        rw [hkeys] at this
        simpa using this
      have hent' := mutAccEntries_erase pc e mi none k mutated hent
      simp only [mutAcc, h1, h2, if_true, Bool.false_eq_true, if_false]
      simp only [hpc, hmin, hsort', hsub, hent', Bool.not_false, Bool.and_self]

/-! ### the refinement theorem -/

mutual
theorem mutGen_mutAcc (o : MutOracle) (pc : PClass) (hc : o.Consistent pc) (s : SNode) (p : Path) (vi : VNode)
    (hs : wf s = true) (hi : conf s vi = true) : mutAcc pc s vi (mutGen o s p vi) = true := by
  cases s with
  | real i sc mn mx =>
      cases vi <;> try (simp [conf] at hi; done)
      exact mutGen_real o pc hc i sc mn mx p _ hs
  | int i sc mn mx =>
      cases vi <;> try (simp [conf] at hi; done)
      exact mutGen_int o pc hc i sc mn mx p _ hs
  | bool i =>
      cases vi <;> try (simp [conf] at hi; done)
      exact mutGen_bool o pc hc i p _
  | «enum» vs i =>
      cases vi <;> try (simp [conf] at hi; done)
      exact mutGen_enum o pc hc vs i p _ hs
  | const =>
      cases vi <;> simp [mutGen, mutAcc]
  | sub sf =>
      cases vi <;> try (simp [conf] at hi; done)
      rename_i vf
      simp only [wf, Bool.and_eq_true] at hs
      simp only [conf] at hi
      simp only [mutGen, mutAcc, Bool.and_eq_true]
      exact ⟨hc.valid, mutGenFields_mutAcc o pc hc sf p vf hs.2 hi⟩
  | array e n =>
      cases vi <;> try (simp [conf] at hi; done)
      rename_i l
      simp only [wf, Bool.and_eq_true] at hs
      simp only [conf, Bool.and_eq_true] at hi
      simp only [mutGen, mutAcc, Bool.and_eq_true]
      exact ⟨hc.valid, mapIdxV_mutAccList pc e _ (fun i v hv => mutGen_mutAcc o pc hc e _ v hs.2 hv) l 0 hi.2⟩
  | amap e ini mn mx =>
      cases vi <;> try (simp [conf] at hi; done)
      rename_i mi
      have hse : wf e = true := by
        simp only [wf, Bool.and_eq_true] at hs
        exact hs.2
      exact mutGen_amap o pc hc e ini mn mx p mi (fun p v hv => mutGen_mutAcc o pc hc e p v hse hv) hse hi
  | opt e ip =>
      simp only [wf] at hs
      cases vi <;> try (simp [conf] at hi; done)
      · simp only [mutGen]
        cases hf : o.flip p
        · rcases hc.of_flip_false hf with h | h <;> subst h <;> simp [mutAcc]
        · have hpc : (pc == .one || pc == .mid) = true := by
            rcases hc.of_flip_true hf with h | h <;> subst h <;> rfl
          simp only [if_true, mutAcc, hpc, Bool.true_and]
          exact mutGen_mutAcc o pc hc e _ _ hs (initialValue_conf e hs)
      · rename_i v
        simp only [conf] at hi
        simp only [mutGen]
        cases hf : o.flip p
        · have hpc : (pc == .zero || pc == .mid) = true := by
            rcases hc.of_flip_false hf with h | h <;> subst h <;> rfl
          simp only [Bool.false_eq_true, if_false, mutAcc, hpc, Bool.true_and]
          exact mutGen_mutAcc o pc hc e _ v hs hi
        · rcases hc.of_flip_true hf with h | h <;> subst h <;> simp [mutAcc]
  | variant opts ini =>
      cases vi <;> try (simp [conf] at hi; done)
      rename_i n v
      simp only [wf, Bool.and_eq_true, decide_eq_true_eq] at hs
      obtain ⟨⟨⟨h2, hsorted⟩, _⟩, hwf⟩ := hs
      simp only [conf] at hi
      simp only [mutGen]
      cases hf : o.flip p
      · have hpc : (pc == .zero || pc == .mid) = true := by
          rcases hc.of_flip_false hf with h | h <;> subst h <;> rfl
        simp only [Bool.false_eq_true, if_false]
        cases ho : opts.lookup n with
        | none => simp [ho] at hi
        | some cs =>
          simp only [ho] at hi
          obtain ⟨v', hv1, hv2⟩ := mutGenOpt_mutAcc o pc hc opts n p (some v) cs hwf ho hi
          simp only [hv1, mutAcc, beq_self_eq_true, if_true, hpc, Bool.true_and, ho]
          exact hv2
      · have hpc : (pc == .one || pc == .mid) = true := by
          rcases hc.of_flip_true hf with h | h <;> subst h <;> rfl
        simp only [if_true]
        obtain ⟨a, b, hab, ha, hb⟩ := sortedStr_two opts.keys (by rw [← SFields.length_eq_keys_mg]; exact h2) hsorted
        have hm := chooseD_mem _ (o.pick p) n (filter_ne_nonempty opts.keys n a b hab ha hb)
        generalize chooseD (opts.keys.filter (· != n)) (o.pick p) n = n' at hm ⊢
        rw [List.mem_filter] at hm
        have hne : (n == n') = false := by
          have := hm.2
          simp only [bne_iff_ne, ne_eq] at this
          rw [beq_eq_false_iff_ne]
          exact fun h => this h.symm
        obtain ⟨cs, ho⟩ := SFields.lookup_of_mem_keys opts n' hm.1
        have hw := lookup_wf opts n' cs hwf ho
        obtain ⟨v', hv1, hv2⟩ := mutGenOpt_mutAcc o pc hc opts n' p none cs hwf ho (initialValue_conf cs hw)
        simp only [hv1, mutAcc, hne, Bool.false_eq_true, if_false, hpc, Bool.true_and, ho]
        exact hv2
termination_by structural s
theorem mutGenFields_mutAcc (o : MutOracle) (pc : PClass) (hc : o.Consistent pc) (sf : SFields) (p : Path) (vf : VFields)
    (hs : wfFields sf = true) (hi : confFields sf vf = true) :
    mutAccFields pc sf vf (mutGenFields o sf p vf) = true := by
  cases sf with
  | nil =>
      cases vf <;> try (simp [confFields] at hi; done)
      simp [mutGenFields, mutAccFields]
  | cons k s sr =>
      cases vf <;> try (simp [confFields] at hi; done)
      rename_i k' v vr
      simp only [wfFields, Bool.and_eq_true] at hs
      simp only [confFields, Bool.and_eq_true] at hi
      simp only [mutGenFields, mutAccFields, Bool.and_eq_true]
      exact ⟨⟨⟨hi.1.1, hi.1.1⟩, mutGen_mutAcc o pc hc s _ v hs.1 hi.1.2⟩, mutGenFields_mutAcc o pc hc sr p vr hs.2 hi.2⟩
termination_by structural sf
theorem mutGenOpt_mutAcc (o : MutOracle) (pc : PClass) (hc : o.Consistent pc) (opts : SFields) (name : String)
    (p : Path) (cur : Option VNode) (cs : SNode) (hs : wfFields opts = true) (hl : opts.lookup name = some cs)
    (hi : conf cs (cur.getD (initialValue cs)) = true) :
    ∃ v', mutGenOpt o opts name p cur = some v' ∧ mutAcc pc cs (cur.getD (initialValue cs)) v' = true := by
  cases opts with
  | nil => simp [SFields.lookup] at hl
  | cons k s r =>
      simp only [wfFields, Bool.and_eq_true] at hs
      simp only [SFields.lookup] at hl
      simp only [mutGenOpt]
      split at hl
      · rename_i hk
        injection hl with hl
        subst hl
        simp only [hk, if_true]
        exact ⟨_, rfl, mutGen_mutAcc o pc hc s _ _ hs.1 hi⟩
      · rename_i hk
        simp only [hk]
        exact mutGenOpt_mutAcc o pc hc r name p cur cs hs.2 hl hi
termination_by structural opts
end

end Cambrian
