/-
Step-level facts about the controller model (no invariant needed) and their lift to suffixes of a schedule.
-/
import CambrianModel.Lemmas.CtlInv2
namespace Cambrian.Ctl
open Cambrian

variable {V : Type}

/-- run a schedule from a state, returning only the new actions -/
def stepsFrom (c : Cfg) : St V → List (Ev V) → St V × List (Act V)
  | s, [] => (s, [])
  | s, e :: es => ((stepsFrom c (step c s e).1 es).1, (step c s e).2 ++ (stepsFrom c (step c s e).1 es).2)

theorem runFrom_eq_stepsFrom (c : Cfg) : ∀ (evs : List (Ev V)) (s : St V) (acts : List (Act V)),
    runFrom c s acts evs = ((stepsFrom c s evs).1, acts ++ (stepsFrom c s evs).2)
  | [], s, acts => by simp [runFrom, stepsFrom]
  | e :: es, s, acts => by
    simp only [runFrom, stepsFrom]
    rw [runFrom_eq_stepsFrom c es]
    simp [List.append_assoc]

theorem runFrom_append (c : Cfg) : ∀ (e1 e2 : List (Ev V)) (s : St V) (acts : List (Act V)),
    runFrom c s acts (e1 ++ e2) = runFrom c (runFrom c s acts e1).1 (runFrom c s acts e1).2 e2
  | [], _, _, _ => rfl
  | e :: es, e2, s, acts => by
    simp only [List.cons_append, runFrom]
    exact runFrom_append c es e2 _ _

/-- a schedule continued: the run of `e1 ++ e2` is the run of `e1` followed by the steps of `e2` -/
theorem run_append (c : Cfg) (ss : Nat) (iv : Option V) (d : V) (chs : Nat → Algo.Choice V) (e1 e2 : List (Ev V)) :
    run c ss iv d chs (e1 ++ e2) =
      ((stepsFrom c (run c ss iv d chs e1).1 e2).1, (run c ss iv d chs e1).2 ++ (stepsFrom c (run c ss iv d chs e1).1 e2).2) := by
  simp only [run]
  rw [runFrom_append, runFrom_eq_stepsFrom c e2]

/-! ### a finished run does nothing -/

theorem step_done {c : Cfg} {s : St V} (e : Ev V) (h : s.done = true) : step c s e = (s, []) := by
  cases e <;> simp [step, h]

theorem stepsFrom_done {c : Cfg} : ∀ (evs : List (Ev V)) (s : St V), s.done = true → stepsFrom c s evs = (s, [])
  | [], _, _ => rfl
  | e :: es, s, h => by
    simp only [stepsFrom, step_done e h]
    rw [stepsFrom_done es s h]; rfl

/-! ### once the abort flag is latched (termination request or failure): nothing new is started -/

theorem finish_facts (s : St V) (acts : List (Act V)) :
    (finish s acts).1.aborted = s.aborted ∧ (finish s acts).1.err = s.err ∧ (finish s acts).1.done = true ∧
    (finish s acts).2 = acts ++ [.ret (outcome s) (s.inflight.map (·.1))] ∧ (finish s acts).1.core = s.core ∧
    (finish s acts).1.inflight = s.inflight := by
  simp [finish]

theorem again_facts (s : St V) (acts : List (Act V)) :
    (again s acts).1.aborted = s.aborted ∧ (again s acts).1.err = s.err ∧ (again s acts).1.core = s.core ∧
    (again s acts).1.inflight = s.inflight ∧
    (∀ a ∈ (again s acts).2, a ∈ acts ∨ a = .ret (outcome s) (s.inflight.map (·.1))) ∧
    ((again s acts).1.done = true ↔ (s.done = true ∨ s.inflight = [])) := by
  simp only [again]
  split
  · rename_i h
    have : s.inflight = [] := by simpa using h
    simp [finish, this]
  · rename_i h
    have : s.inflight ≠ [] := by simpa using h
    refine ⟨rfl, rfl, rfl, rfl, fun a ha => Or.inl ha, ?_⟩
    simp [this]

theorem afterResult_aborted {c : Cfg} {s : St V} (ch : Algo.Choice V) (acts : List (Act V)) (hab : s.aborted = true) :
    (afterResult c s ch acts).1.aborted = true ∧ (afterResult c s ch acts).1.err = s.err ∧
    (∀ a ∈ (afterResult c s ch acts).2, a ∈ acts ∨ a.isRet = true) := by
  simp only [afterResult]
  split
  · obtain ⟨f1, f2, _, f4, _⟩ := finish_facts s acts
    refine ⟨by rw [f1, hab], f2, fun a ha => ?_⟩
    rw [f4] at ha; simp at ha; rcases ha with ha | ha
    · exact Or.inl ha
    · right; rw [ha]; rfl
  · split
    · obtain ⟨f1, f2, _, f4, _⟩ := finish_facts s acts
      refine ⟨by rw [f1, hab], f2, fun a ha => ?_⟩
      rw [f4] at ha; simp at ha; rcases ha with ha | ha
      · exact Or.inl ha
      · right; rw [ha]; rfl
    · split
      · rename_i hb; simp [hab] at hb
      · obtain ⟨f1, f2, _, _, f5, _⟩ := again_facts s acts
        refine ⟨by rw [f1, hab], f2, fun a ha => ?_⟩
        rcases f5 a ha with h | h
        · exact Or.inl h
        · right; rw [h]; rfl

theorem step_aborted {c : Cfg} {s : St V} (e : Ev V) (hab : s.aborted = true) :
    (step c s e).1.aborted = true ∧ (step c s e).1.err = s.err ∧
    (∀ a ∈ (step c s e).2, a.isStart = false ∧ a.isBroadcast = false) := by
  cases e with
  | abortReq =>
    simp only [step]
    split
    · simp [hab]
    · simp [onAbort, hab]
  | complete seed r ch =>
    simp only [step]
    split
    · simp [hab]
    · split
      · simp [hab]
      · rename_i ind hl
        cases r with
        | fail er =>
          simp only [onFail, failState_aborted, hab, ↓reduceIte]
          obtain ⟨f1, f2, _, _, f5, _⟩ := again_facts (failState s seed) ([] : List (Act V))
          refine ⟨by rw [f1]; simp [hab], by rw [f2]; simp, fun a ha => ?_⟩
          rcases f5 a ha with h | h
          · simp at h
          · rw [h]; simp [Act.isStart, Act.isBroadcast]
        | acc x m =>
          simp only [onResult, Option.map]
          obtain ⟨g1, g2, g3⟩ := afterResult_aborted (c := c) (s := resultState s seed ind (some (x, m))) ch
            [.item ind.id seed (some x)] (by simp [hab])
          refine ⟨g1, by rw [g2]; simp, fun a ha => ?_⟩
          rcases g3 a ha with h | h
          · simp at h; rw [h]; simp [Act.isStart, Act.isBroadcast]
          · cases a <;> simp_all [Act.isStart, Act.isBroadcast, Act.isRet]
        | rej =>
          simp only [onResult, Option.map]
          obtain ⟨g1, g2, g3⟩ := afterResult_aborted (c := c) (s := resultState s seed ind none) ch
            [.item ind.id seed none] (by simp [hab])
          refine ⟨g1, by rw [g2]; simp, fun a ha => ?_⟩
          rcases g3 a ha with h | h
          · simp at h; rw [h]; simp [Act.isStart, Act.isBroadcast]
          · cases a <;> simp_all [Act.isStart, Act.isBroadcast, Act.isRet]

theorem stepsFrom_aborted {c : Cfg} : ∀ (evs : List (Ev V)) (s : St V), s.aborted = true →
    (stepsFrom c s evs).1.aborted = true ∧ (stepsFrom c s evs).1.err = s.err ∧
    (∀ a ∈ (stepsFrom c s evs).2, a.isStart = false ∧ a.isBroadcast = false)
  | [], _, h => by simp [stepsFrom, h]
  | e :: es, s, h => by
    simp only [stepsFrom]
    obtain ⟨g1, g2, g3⟩ := step_aborted (c := c) e h
    obtain ⟨k1, k2, k3⟩ := stepsFrom_aborted es (step c s e).1 g1
    refine ⟨k1, by rw [k2, g2], fun a ha => ?_⟩
    simp only [List.mem_append] at ha
    rcases ha with ha | ha
    · exact g3 a ha
    · exact k3 a ha

/-! ### the first failure -/

/-- a failure taken while no abort is latched: recorded as the error, abort broadcast, nothing started -/
theorem step_fail_first {c : Cfg} {s : St V} {seed : Nat} {ind : Algo.Ind V} (er : Nat) (ch : Algo.Choice V)
    (hd : s.done = false) (hab : s.aborted = false) (hl : lookupSeed seed s.inflight = some ind) :
    (step c s (.complete seed (.fail er) ch)).1.err = some er ∧
    (step c s (.complete seed (.fail er) ch)).1.aborted = true ∧
    Act.broadcastAbort ∈ (step c s (.complete seed (.fail er) ch)).2 ∧
    (∀ a ∈ (step c s (.complete seed (.fail er) ch)).2, a.isStart = false) := by
  simp only [step, hd, Bool.false_eq_true, ↓reduceIte, hl, onFail, failState_aborted, hab]
  obtain ⟨f1, f2, _, _, f5, _⟩ := again_facts ({ failState s seed with aborted := true, err := some er })
    ([.broadcastAbort] : List (Act V))
  refine ⟨f2, f1, ?_, fun a ha => ?_⟩
  · simp only [again]; split <;> simp [finish]
  · rcases f5 a ha with h | h
    · simp at h; rw [h]; rfl
    · rw [h]; rfl

/-! ### the external abort request -/

theorem step_abort {c : Cfg} {s : St V} (hd : s.done = false) (hab : s.aborted = false) :
    step c s .abortReq = ({ s with aborted := true }, [.broadcastAbort]) := by
  simp [step, hd, onAbort, hab]

/-! ### the target -/

theorem outcome_ok_le_target {c : Cfg} {s : St V} {t : F64} (ht : c.target = some t) (hh : targetHit c s.core = true)
    (he : s.err = none) : ∃ x v, outcome s = .ok x v s.accepted s.rejected ∧ F64.le (.fin x) t = true ∧
      Algo.best s.core = some (x, v) := by
  simp only [targetHit, ht] at hh
  cases hb : Algo.best s.core with
  | none => simp [hb] at hh
  | some p =>
    obtain ⟨x, v⟩ := p
    simp only [hb] at hh
    exact ⟨x, v, by simp [outcome, he, hb], hh, rfl⟩

/-- the step in which the best-seen objective reaches the target returns at once: nothing is started, whatever
    is in flight is dropped -/
theorem step_target {c : Cfg} {s : St V} {seed : Nat} {ind : Algo.Ind V} (r : Option (Int × Int)) (ch : Algo.Choice V)
    (hh : targetHit c (Algo.proc s.core ind r) = true) :
    (onResult c s seed ind r ch).1.done = true ∧
    (onResult c s seed ind r ch).2 = [.item ind.id seed (r.map (·.1)),
        .ret (outcome (resultState s seed ind r)) ((eraseSeed seed s.inflight).map (·.1))] := by
  simp only [onResult, afterResult, resultState_core, hh, ↓reduceIte, finish]
  simp

end Cambrian.Ctl
