import CambrianModel.Model.F64
import CambrianModel.Model.Generated
import CambrianModel.Model.Algo
import CambrianModel.Model.Controller
