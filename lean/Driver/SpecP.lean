import Driver.Decode
import CambrianModel.Model.SpecParse
open Lean Cambrian
namespace Driver.SpecReplay

partial def decY (j : Json) : R Y := do
  match j with
  | .str "n" => pure .null
  | _ =>
    match j.getObjVal? "b" with
    | .ok b => pure (.bool (← asBool b))
    | .error _ =>
    match j.getObjVal? "num" with
    | .ok n => do
        let f ← asF64 (← field n "f")
        let i ← optInt (fieldD n "i")
        let u ← optNat (fieldD n "u")
        pure (.num f i u)
    | .error _ =>
    match j.getObjVal? "s" with
    | .ok s => pure (.str (← asStr s))
    | .error _ =>
    match j.getObjVal? "a" with
    | .ok a => do
        let l ← asArr a
        let mut acc : YList := .nil
        for p in l.reverse do acc := .cons (← decY p) acc
        pure (.seq acc)
    | .error _ =>
    match j.getObjVal? "m" with
    | .ok m => do
        let l ← asArr m
        let mut acc : YPairs := .nil
        for p in l.reverse do
          let a ← asArr p
          acc := .cons (← decY a[0]!) (← decY a[1]!) acc
        pure (.map acc)
    | .error _ => do
        let t ← asArr (← field j "t")
        pure (.tagged (← asStr t[0]!) (← decY t[1]!))

/-- the member names a sub mapping declares: every plain-string key other than `type` and `typeDef <name>` -/
def declaredMembers : YPairs → List String
  | .nil => []
  | .cons k _ r =>
    match k.asStr with
    | some ks => if ks != "type" && !ks.startsWith "typeDef " then ks :: declaredMembers r else declaredMembers r
    | none => declaredMembers r

def replay (j : Json) : R Verdict := do
  let case ← asNat (fieldD j "case")
  let kind ← asStr (← field j "kind")
  let imp ← field j "impl"
  let mut tags : List String := ["kind:" ++ kind]
  match (fieldD j "rule").getStr?.toOption with | some d => tags := ("rule:" ++ d) :: tags | none => pure ()
  let mut pf : List (String × String) := []
  let mut dis : Option String := none
  let implOk := (imp.getObjVal? "ok").toOption
  if (fieldD imp "panic").getBool?.toOption == some true then
    pf := ("C10", "parsing the spec document crashed (panic)") :: ("C15", "parsing the spec document crashed (panic)") :: pf
  if (fieldD j "yamlError").getBool?.toOption == some true then
    if implOk.isSome then dis := some "document is not valid YAML for serde_yaml but from_yaml_str accepted it"
    return { case, kind := if dis.isSome then "DISAGREE" else "ok", what := dis.getD "", tags := "invalid-yaml" :: tags, size := 1 }
  let y ← decY (← field j "yaml")
  let model := parseSpec y
  match implOk with
  | some sj =>
    let s ← decSpec sj
    tags := "impl:accept" :: (specKinds s).map ("root:" ++ ·) ++ tags
    if !wf s then
      pf := ("C10", s!"a parameter space that is not well-formed was accepted ({(fieldD j "rule").compress})") :: pf
    match model with
    | .ok ms => if ms != s then dis := some "accepted specs differ"
    | .error e =>
      dis := some s!"impl accepts, model rejects ({repr e})"
      -- a document in which exactly one rule was broken on purpose (unknown attribute / type name, wrong attribute
      -- type, missing mandatory attribute, inconsistent bounds ...) must be rejected whatever it would denote
      match (fieldD j "rule").getStr?.toOption with
      | some rule => pf := ("C10", s!"a document breaking a rule ({rule}) was accepted") :: pf
      | none => pure ()
    -- the initial value
    let ivj := fieldD imp "init"
    if ivj.isNull then
      pf := ("C10", "initial_value() of the accepted spec panicked") :: ("C15", "initial_value() panicked") :: pf
    else
      let iv ← decValue ivj
      if !conf s iv then
        pf := ("C01", s!"the initial value of an ACCEPTED spec - the first candidate of a run without a guess - does not conform to that spec ({(fieldD j "rule").compress})") :: ("C10", "the initial value of the accepted spec does not conform to it") :: pf
      if iv != initialValue s then dis := some "initial_value differs from the model's initialValue"
    -- mutations at probability 1 from the initial value (sent for accepted rule-breaking documents and soups)
    match (fieldD imp "walk").getArr?.toOption with
    | some steps =>
      let mut k := 0
      for st in steps do
        if !(fieldD st "panic").isNull then
          pf := ("C15", s!"mutation of the accepted spec's initial value panicked (step {k})") :: ("C01", s!"mutation of the accepted spec's initial value panicked (step {k})") :: pf
        else
          match decValue st with
          | .ok v => if !conf s v then
              pf := ("C01", s!"step {k} of a mutation walk from the initial value of an ACCEPTED spec does not conform to that spec ({(fieldD j "rule").compress})") :: pf
          | .error _ => pure ()
        k := k + 1
      if !steps.isEmpty then tags := "walk" :: tags
    | none => pure ()
    -- every declared parameter is present
    match y with
    | .map m =>
      let tn := (m.get "type").bind Y.asStr |>.getD "sub"
      if tn == "sub" then
        match s with
        | .sub f =>
          for k in declaredMembers m do
            if !f.keys.contains k then
              pf := ("C10", s!"declared parameter {k.quote} is missing from the accepted parameter space") :: pf
        | _ => pure ()
    | _ => pure ()
    -- the parameter space is the one written
    match (j.getObjVal? "expect").toOption with
    | some ej =>
      let e ← decSpec ej
      if e != s then pf := ("C10", "the accepted parameter space is not the one written") :: pf
      -- C08: without a guess the first individual is the init values written in the document
      match decValue (fieldD imp "init") with
      | .ok iv =>
        if !conf e iv then
          pf := ("C01", s!"the initial value of the accepted document does not conform to the parameter space written in it: the first candidate of the run has the wrong structure") :: pf
        if iv != initialValue e then
          pf := ("C08", s!"the initial value of the accepted document ({(fieldD imp "init").compress}) is not the init values written in it: the first individual would not be the spec's init values") :: pf
      | .error _ => pure ()
    | none => pure ()
  | none =>
    tags := "impl:reject" :: tags
    match model with
    | .ok _ => dis := some s!"impl rejects ({(fieldD imp "rej").compress}), model accepts"
    | .error e => tags := s!"rej:{repr e}" :: tags
    if (j.getObjVal? "expect").toOption.isSome && (fieldD imp "panic").isNull then
      pf := ("C10", s!"a well-formed spec document was rejected ({(fieldD imp "rej").compress})") :: pf
  let kindV := if !pf.isEmpty then "PROPFAIL" else if dis.isSome then "DISAGREE" else "ok"
  let what := match pf.reverse, dis with | (_, w) :: _, _ => w | [], some d => d | [], none => ""
  return { case, kind := kindV, props := (pf.map (·.1)).eraseDups, what, tags, size := 1, dis := dis.getD "",
           fails := pf.reverse.map (fun (p, w) => p ++ ": " ++ w) }

end Driver.SpecReplay
