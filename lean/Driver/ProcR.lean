import Driver.Decode
import CambrianModel.Model.Process
import CambrianModel.Model.ChildSchema
open Lean Cambrian
namespace Driver.ProcReplay
open Cambrian.Proc

def hasOpt (opts : List String) (o : String) : Bool := opts.contains o

/-- the value following option `o` -/
def optVal (opts : List String) (o : String) : Option String :=
  match opts with
  | a :: b :: r => if a == o then some b else optVal (b :: r) o
  | _ => none

def replay (j : Json) : R Verdict := do
  let case ← asNat (fieldD j "case")
  if !(fieldD j "harnessError").isNull then
    return { case, kind := "ERROR", what := "harness: " ++ (fieldD j "harnessError").compress }
  let family ← asStr (← field j "family")
  let obs ← field j "obs"
  let exp := fieldD j "expect"
  let der := fieldD obs "derived"
  let opts ← (← asArr (← field j "opts")).toList.mapM asStr
  let mut pf : List (String × String) := []
  let mut dis : Option String := none
  let mut tags : List String := ["family:" ++ family]
  let exitCode := (fieldD obs "exitCode").getInt?.toOption
  let hang := (fieldD obs "hang").getBool?.toOption == some true
  let panicked := (fieldD obs "stderrPanic").getBool?.toOption == some true
  let log ← asArr (← field obs "log")
  let starts := log.toList.filter (fun e => (fieldD e "ev").getStr?.toOption == some "start")
  let exits := log.toList.filter (fun e => (fieldD e "ev").getStr?.toOption == some "exit")
  let stdoutLines := ((fieldD obs "stdoutLines").getArr?.toOption.getD #[]).size
  let survivors := ((fieldD obs "survivors").getArr?.toOption.getD #[]).size
  let outMode := (fieldD j "outDirMode").getNat?.toOption.getD 0
  -- C15 / C04: no crash, no hang
  if hang then
    pf := ("C15", "cambrian neither returned nor could be waited for within the watchdog limit (hang)") :: ("C04", "hang") :: pf
    if family == "kill-after" then
      pf := ("C07", "an evaluation exceeding its time limit was not ended (killed and counted as rejected): the run did not continue") ::
            ("C05", "an evaluation that exceeded its time limit was never replaced: its slot stayed occupied although budget was left (the run did not continue)") :: pf
  match exitCode with
  | some cde => if cde != 0 && cde != 1 && cde != 2 then pf := ("C15", s!"cambrian exited with status {cde} (crash)") :: pf
  | none => if !hang then
      pf := ("C15", s!"cambrian was killed by signal {(fieldD obs "signal").compress}") :: pf
      if family == "sigint" then
        pf := ("C04", s!"an interrupt killed the tool (signal {(fieldD obs "signal").compress}) instead of ending the run with its best result ({opts})") :: pf
  if panicked then pf := ("C15", s!"cambrian panicked: {((fieldD obs "stderrTail").getStr?.toOption.getD "").takeEnd 200}") :: pf
  -- C07: nothing survives the run
  if survivors > 0 then
    let what := if family == "grandchild-lingers" then
        s!"D7 {survivors} background process(es) left behind by children that exited normally are still alive after the run"
      else s!"{survivors} objective-function process(es) of family {family} still alive after cambrian returned: {(fieldD obs "survivors").compress}"
    pf := ("C07", what) :: pf
  -- C06: after a child has failed, the evaluations in flight are told to abort: for children that means they are killed
  match (fieldD obs "aliveAfterFailure").getNat?.toOption with
  | some k => if family == "failure" && k > 0 then
      pf := ("C06", s!"{k} objective-function process(es) still alive seconds after a sibling failed (looked at repeatedly for 4 s): the evaluations in flight were not ended") ::
            ("C04", s!"{k} process(es) still alive after the run was told to stop by a failure") :: pf
  | none => pure ()
  -- exit status class
  let okExit := exitCode == some 0
  -- family outputs: every child of the run prints the same document and ends the same way; the schema model
  -- (`Proc.childOutOf` over the extracted "objects only" fact) and `classifyChild` say what one evaluation is, hence
  -- how the run ends: an accepted value -> success (sample size 1, budget 3); a rejection every time -> no individuals;
  -- a failure -> the run fails
  let cd := fieldD j "childDoc"
  if family == "outputs" && !cd.isNull then
    let (doc, casts) ← (if cd.getStr?.toOption == some "notJson" then pure (none, []) else do
      let (d, cs) ← decJ cd []
      pure (some d, cs) : R (Option J × List (Int × F64)))
    let st : ExitStatus := match (fieldD j "childSignal").getNat?.toOption with | some sg => .signaled sg | none => .exited 0
    let r := classifyChild { exitOk := exitOkOf Generated.childStatusBySuccessFirst st, out := childOutOf Generated.childResultObjectsOnly (mkCast casts) doc }
    let sampled := opts.contains "--sample-size"
    tags := (match r with | .accepted _ => "outputs:accepted" | .rejected => "outputs:rejected" | .failed _ => "outputs:failed") :: tags
    match r with
    | .accepted _ =>
      if !sampled && !okExit && !hang then
        dis := some s!"child result schema: the model accepts what every child printed ({cd.compress}), the run failed with exit status {(fieldD obs "exitCode").compress}"
        pf := ("C16", s!"every child printed a valid result ({cd.compress}) and exited with status 0, yet the run failed: {((fieldD obs "stderrTail").getStr?.toOption.getD "").takeEnd 160}") :: pf
    | _ =>
      if okExit then
        dis := some s!"child result schema: the model says {repr r} for what every child did (document {cd.compress}, signal {(fieldD j "childSignal").compress}), the run succeeded"
        pf := ("C16", s!"no child of this run delivered an accepted result (each one: {repr r}; document {cd.compress}, signal {(fieldD j "childSignal").compress}), yet the run ended with exit status 0") ::
              ("C06", s!"no child of this run delivered an accepted result (each one: {repr r}), yet the run ended with exit status 0") :: pf
  match (fieldD exp "exit").getStr?.toOption with
  | some "ok" => if !okExit then
      pf := ((if family == "kill-after" || family == "kill-huge" then "C07" else "C16"), s!"expected a successful run, got exit status {(fieldD obs "exitCode").compress}: {((fieldD obs "stderrTail").getStr?.toOption.getD "").takeEnd 160}") :: pf
  | some "fail" => if okExit then
      pf := ((if family == "failure" || family == "outputs" then "C06" else if family == "kill-zero" then "C07" else "C16"),
             (if family == "kill-zero" then "with a per-evaluation limit of zero every evaluation exceeds its limit, yet the run succeeded: evaluations were not ended at their time limit"
              else if family == "outputs" then s!"every child of this run fails its evaluation (ill-shaped output or a death by signal, also after a valid answer: {(fieldD (fieldD j "plan") "default").compress}), yet the run ended with exit status 0"
              else s!"expected a failing run ({family}), got exit status 0")) :: pf
      if family == "failure" || family == "outputs" then pf := ("C16", "a failing child did not make the tool fail") :: pf
  | _ => pure ()
  -- C16: stdout
  if okExit && stdoutLines != 1 then pf := ("C16", s!"successful run printed {stdoutLines} lines on stdout") :: pf
  if !okExit && stdoutLines != 0 && !hang then pf := ("C16", s!"failing run printed {stdoutLines} lines on stdout") :: pf
  -- the printed best and every argv JSON conform to the spec (model reader and conformance)
  match (der.getObjVal? "specEnc").toOption with
  | some sj =>
    let s ← decSpec sj
    if okExit then
      match (der.getObjVal? "stdoutJson").toOption with
      | some bj =>
        let (doc, casts) ← decJ bj []
        match fromJson (mkCast casts) s doc with
        | .ok v => if !conf s v then pf := ("C16", "printed best-seen does not conform to the spec") :: ("C01", "printed best-seen does not conform") :: pf
        | .error _ => pf := ("C16", "printed best-seen is not a value of the spec") :: ("C01", "printed best-seen is not a value of the spec") :: pf
      | none => pf := ("C16", "stdout of a successful run is not JSON") :: pf
    for a in ((fieldD der "argvJson").getArr?.toOption.getD #[]) do
      let arr ← asArr a
      let (doc, casts) ← decJ arr[1]! []
      match fromJson (mkCast casts) s doc with
      | .ok v => if !conf s v then pf := ("C01", s!"parameter set passed to the child (seed {arr[0]!.compress}) does not conform") :: pf
      | .error _ => pf := ("C01", s!"parameter set passed to the child (seed {arr[0]!.compress}) is not a value of the spec") :: ("C16", "argv JSON is not a value of the spec") :: pf
  | none => pure ()
  -- C16: argv protocol
  if (fieldD der "argvOk").getBool?.toOption == some false then
    pf := ("C16", "a child was not started as <program> <user args...> <JSON> <seed>") :: pf
  -- C08: seeds distinct
  let seeds := starts.filterMap (fun e => (fieldD e "seed").getNat?.toOption)
  if !seeds.Nodup then pf := ("C08", "two child processes received the same seed") :: pf
  -- starts
  match (fieldD exp "starts").getNat?.toOption with
  | some n =>
    if starts.length != n then
      let p := if n == 0 && family != "budget-zero" then "C16" else "C03"
      pf := (p, s!"{starts.length} evaluations were started, expected {n} ({family})") :: pf
      if family == "cli-invalid" && (fieldD exp "which").getNat?.toOption.getD 99 ∈ [4, 5, 6, 9, 10] then
        pf := ("C11", "an evaluation was started although the initial guess is invalid") :: pf
  | none => pure ()
  match optVal opts "-n" with
  | some ns => match ns.toNat? with
    | some n => if starts.length > n then pf := ("C03", s!"{starts.length} child processes started, budget {n}") :: pf
    | none => pure ()
  | none => pure ()
  -- C05: the evaluations in progress at the instant a child starts, as the process table shows them: live (not
  -- zombie) processes of the process groups of OTHER evaluations of this run
  -- (an evaluation whose child has exited by itself is finished: what it may leave behind is C07's business, D7)
  let mut finishedPids : List Int := []
  let mut groupOf : List (Int × Int) := []      -- pid of a started child -> its process group
  for e in log do
    match (fieldD e "ev").getStr?.toOption with
    | some "exit" => match (fieldD e "pid").getInt?.toOption with | some p => finishedPids := p :: finishedPids | none => pure ()
    | some "start" =>
      match (fieldD e "pid").getInt?.toOption, (fieldD e "pgid").getInt?.toOption with
      | some p, some g =>
        let others := ((fieldD e "others").getArr?.toOption.getD #[]).toList.filterMap (fun x => x.getInt?.toOption)
        let finishedGroups := groupOf.filterMap (fun (p', g') => if finishedPids.contains p' then some g' else none)
        let live := (others.filter (fun g' => groupOf.any (·.2 == g') && !finishedGroups.contains g')).length
        let ncOpt := (optVal opts "--num-concurrent").bind (·.toNat?) |>.getD 1
        if live + 1 > ncOpt then
          pf := ("C05", s!"when evaluation {(fieldD e "seed").compress} started, processes of {live} other unfinished evaluation(s) of the run were alive (num_concurrent {ncOpt})") :: pf
        groupOf := (p, g) :: groupOf
      | _, _ => pure ()
    | _ => pure ()
  -- C05: concurrency from the start/exit log (only where children are never killed)
  if family == "budget" then
    let mut cur := 0
    let mut mx := 0
    for e in log do
      match (fieldD e "ev").getStr?.toOption with
      | some "start" => cur := cur + 1; if cur > mx then mx := cur
      | some "exit" => cur := cur - 1
      | _ => pure ()
    match (fieldD exp "maxConcurrent").getNat?.toOption with
    | some nc => if mx > nc then pf := ("C05", s!"{mx} child processes alive at once, num_concurrent {nc}") :: pf
    | none => pure ()
  -- C07: an evaluation that finishes in time is never killed; timed-out ones are counted as rejected
  if family == "kill-after" && okExit then
    let exitSeeds := exits.filterMap (fun e => (fieldD e "seed").getNat?.toOption)
    let planSeeds := fieldD (fieldD j "plan") "seeds"
    for sd in seeds do
      let slow := !(fieldD planSeeds (toString sd)).isNull && (fieldD (fieldD planSeeds (toString sd)) "medium").getBool?.toOption != some true
      if !slow && !exitSeeds.contains sd then pf := ("C07", s!"evaluation {sd} finished in time but never reached its exit (killed?)") :: pf
  -- L9: the decision logic
  let which := (fieldD exp "which").getNat?.toOption.getD 99
  let cliIn : CliIn := {
    algoConfOk := !(family == "cli-invalid" && (which == 0 || which == 1)),
    termDurOk := !(family == "cli-invalid" && which == 2),
    outDir := if outMode == 0 then none else some (outMode ≥ 2, outMode == 3),
    specOk := !(family == "cli-invalid" && (which == 7 || which == 8)),
    killDurOk := !(family == "cli-invalid" && which == 3),
    guessJsonOk := !(family == "cli-invalid" && which == 4),
    run := if okExit then .ok else if family == "failure" && (fieldD exp "diagFiles").getBool?.toOption.isSome then .procError else .otherError }
  let m := cliM cliIn
  tags := s!"cli:launched={m.launched}" :: tags
  if !m.launched && !starts.isEmpty then
    pf := ("C16", "an evaluation was started although the options/inputs are invalid") :: pf
  if m.exitOk != okExit && !hang then
    dis := some s!"exit status: model {m.exitOk}, impl {okExit} ({family})"
  -- files
  let files := fieldD obs "files"
  let hasFile := fun (n : String) => !(fieldD files n).isNull
  if outMode ≥ 1 && !hang then
    if m.summaryFile && !(hasFile "summary_report.txt" && hasFile "detailed_report.csv" && hasFile "best_seen.json") then
      pf := ("C16", "successful run with an output directory did not write summary, detailed report and best-seen files") :: pf
    if m.diagFiles && family == "failure" then
      -- a non-finite value is not a process failure: only exit status / output schema failures dump diagnostics
      let nonFinite := ((fieldD (fieldD j "plan") "seeds").compress.splitOn "1e999").length > 1
      if !nonFinite && !(hasFile "failed_obj_func_arg" && hasFile "failed_obj_func_stdout" && hasFile "failed_obj_func_stderr") then
        pf := ("C16", "failing child with an output directory: diagnostic files missing") :: pf
      -- ... and they hold exactly the bytes the failing child wrote (whatever their encoding)
      for (fname, key) in [("failed_obj_func_stdout", "stdout_hex"), ("failed_obj_func_stderr", "stderr_hex")] do
        let planSeeds := fieldD (fieldD j "plan") "seeds"
        let wrote := match planSeeds.getObj? with
          | .ok o => (o.toList.filterMap (fun (_, b) => (fieldD b key).getStr?.toOption)).head?
          | .error _ => none
        match wrote, (fieldD (fieldD files fname) "hex").getStr?.toOption with
        | some w, some got => if hasFile fname && w != got then
            pf := ("C16", s!"{fname} does not hold the bytes the failing child wrote: child {w.take 40}, file {got.take 40} (hex)") :: pf
        | _, _ => pure ()
    match (fieldD obs "sentinelIntact").getBool?.toOption with
    | some intact =>
      if outMode == 2 && !intact then pf := ("C16", "existing output directory was modified although --force was not given") :: pf
      if outMode == 2 && okExit then pf := ("C16", "existing output directory was not refused") :: pf
      if outMode == 4 && !intact then pf := ("C16", "an existing (empty) output directory was written to although --force was not given") :: pf
      if outMode == 4 && okExit then pf := ("C16", "an existing (empty) output directory was not refused") :: pf
      if outMode == 3 && intact && okExit then dis := some "existing output directory not removed with --force"
    | none => pure ()
  -- C14: the report files
  match (der.getObjVal? "csvItems").toOption with
  | some ci =>
    let rows ← (← asArr ci).toList.mapM (fun r => do
      let a ← asArr r
      pure ((← asNat a[0]!), (← asNat a[1]!), (← optInt a[2]!), (← asStr a[3]!), a[4]!))
    if (fieldD der "csvOk").getBool?.toOption == some false then pf := ("C14", "detailed report has a malformed header or row") :: pf
    -- one record per processed evaluation, carrying the seed / id / parameter set of a started evaluation
    let argvJson := ((fieldD der "argvJson").getArr?.toOption.getD #[]).toList
    for (_, sd, _, inp, probs) in rows do
      match argvJson.find? (fun a => (a.getArrVal? 0).toOption.bind (·.getNat?.toOption) == some sd) with
      | some a => if (a.getArrVal? 2).toOption.bind (·.getStr?.toOption) != some inp then
          pf := ("C14", s!"record of seed {sd} carries a parameter set that is not the one passed to that child") :: pf
      | none => pf := ("C14", s!"record of seed {sd} does not belong to any started child") :: pf
      -- adaptive parameters in the record
      match probs.getArr?.toOption with
      | some pa =>
        let one : F64 := .fin 4607182418800017408
        let mut k := 0
        for pj in pa do
          if !pj.isNull then
            match asF64 pj with
            | .ok p =>
              if k < 3 && !(F64.le (.fin 0) p && F64.le p one) then pf := ("C14", s!"record of seed {sd}: adaptive probability outside [0,1]") :: pf
              if k == 3 && !(p.isFinite && F64.lt (.fin 0) p) then pf := ("C14", s!"record of seed {sd}: mutation scale not positive and finite") :: pf
            | .error _ => pf := ("C14", s!"record of seed {sd}: unparsable adaptive parameter") :: pf
          k := k + 1
      | none => pure ()
    if !(rows.map (fun (_, sd, _, _, _) => sd)).Nodup then pf := ("C14", "two records for one evaluation") :: pf
    -- the writer model: best-seen file = parameter set of the first minimum record
    let items : List Item := rows.map (fun (i, sd, o, _, _) => { id := i, seed := sd, obj := o })
    let f := writeAll items
    match f.best, (der.getObjVal? "bestSeenFile").toOption.bind (·.getStr?.toOption) with
    | some b, some file =>
      match rows.find? (fun (_, sd, _, _, _) => sd == b.seed) with
      | some (_, _, _, inp, _) =>
        if inp != file then
          -- property: some minimum record carries the file's content
          let minObj := b.obj
          if rows.any (fun (_, _, o, inp2, _) => o == minObj && inp2 == file) then dis := some "best-seen file holds a minimum record other than the first one"
          else pf := ("C14", "best-seen file does not hold the parameter set of a minimum-objective record") ::
                     ("C16", s!"the best-seen file written to the output directory does not hold the parameter set of a minimum-objective record: {file.take 120}") :: pf
      | none => pure ()
      match (fieldD (fieldD der "summary") "best").getInt?.toOption, optVal opts "--sample-size" with
      | some sb, none => if some sb != b.obj then pf := ("C14", "objective of the best-seen file's record differs from the final report's") :: pf
      | _, _ => pure ()
    | none, some _ => pf := ("C14", "best-seen file written although no evaluation was accepted") :: pf
    | some _, none => if okExit then pf := ("C14", "no best-seen file although an evaluation was accepted") :: pf
    | none, none => pure ()
    -- counts of the final report
    match (fieldD (fieldD der "summary") "completed").getNat?.toOption, (fieldD (fieldD der "summary") "rejected").getNat?.toOption with
    | some cpl, some rj =>
      let nA := (rows.filter (fun (_, _, o, _, _) => o.isSome)).length
      let nR := (rows.filter (fun (_, _, o, _, _) => o.isNone)).length
      if cpl != nA || rj != nR then pf := ("C14", s!"report counts {cpl}/{rj}, records {nA} accepted / {nR} rejected") :: pf
      match (fieldD exp "accepted").getNat?.toOption, (fieldD exp "rejected").getNat?.toOption with
      | some ea, some er => if ea != cpl || er != rj then
          pf := ((if family == "kill-after" then "C07" else "C14"), s!"report counts {cpl}/{rj}, the children delivered {ea} values and {er} rejections/timeouts") :: pf
      | _, _ => pure ()
    | _, _ => pure ()
  | none => pure ()
  -- C15: verbose changes nothing but the log
  match (j.getObjVal? "twin").toOption with
  | some tw =>
    let to := fieldD tw "obs"
    if (fieldD to "hang").getBool?.toOption == some true then pf := ("C15", "hang (twin run with verbose flipped)") :: pf
    if (fieldD to "stderrPanic").getBool?.toOption == some true then
      pf := ("C15", s!"cambrian panicked in the twin run with verbose flipped: {((fieldD to "stderrTail").getStr?.toOption.getD "").takeEnd 200}") :: pf
    if (fieldD to "exitCode").compress != (fieldD obs "exitCode").compress || (fieldD to "stdoutLines").compress != (fieldD obs "stdoutLines").compress then
      pf := ("C15", s!"verbose changes the outcome: exit {(fieldD obs "exitCode").compress} vs {(fieldD to "exitCode").compress}") :: pf
    -- the same parameter sets with the same seeds, in the same order; the same line on stdout
    if (fieldD to "argvJson").compress != (fieldD der "argvJson").compress then
      let a := ((fieldD der "argvJson").getArr?.toOption.getD #[]).toList
      let b := ((fieldD to "argvJson").getArr?.toOption.getD #[]).toList
      let k := ((a.zip b).takeWhile (fun (x, y) => x.compress == y.compress)).length
      pf := ("C15", s!"verbose changes the run: evaluation {k} is {(a[k]?.map (·.compress)).getD "absent"} without / with --verbose flipped {(b[k]?.map (·.compress)).getD "absent"}") :: pf
    else if (fieldD to "stdoutLines").compress != (fieldD obs "stdoutLines").compress then
      pf := ("C15", s!"verbose changes what is printed on stdout: {(fieldD obs "stdoutLines").compress} vs {(fieldD to "stdoutLines").compress}") :: pf
    -- the files of the output directory: the same names, and the diagnostic dump of a failing child (argument, stdout,
    -- stderr) and the best-seen file byte for byte (reports carry timings and are not compared)
    if outMode == 1 then
      let fa := fieldD obs "files"
      let fb := fieldD to "files"
      let names (x : Json) : List String := match x.getObj? with | .ok o => (o.toList.map (·.1)).mergeSort | .error _ => []
      if names fa != names fb then
        pf := ("C15", s!"verbose changes the files written to the output directory: {names fa} vs {names fb}") :: pf
      else
        for n in names fa do
          if n.startsWith "failed_obj_func_" || n == "best_seen.json" then
            if (fieldD fa n).compress != (fieldD fb n).compress then
              pf := ("C15", s!"verbose changes the content of {n} in the output directory ({(fieldD (fieldD fa n) "len").compress} vs {(fieldD (fieldD fb n) "len").compress} bytes)") :: pf
    if ((fieldD to "survivors").getArr?.toOption.getD #[]).size > 0 then pf := ("C07", "survivors in twin run") :: pf
  | none => pure ()
  for n in ((fieldD obs "scriptNotes").getArr?.toOption.getD #[]) do
    if ((n.getStr?.toOption.getD "").splitOn "timeout waiting for").length > 1 && family ∈ ["target-with-siblings", "sigint", "terminate-after", "failure"] then
      let ncO := (optVal opts "--num-concurrent").bind (·.toNat?) |>.getD 1
      pf := ("C05", s!"{starts.length} evaluation(s) were started and none finished, yet the harness waited 10 s in vain for num_concurrent = {ncO} of them to be in progress ({n.compress})") :: pf
    tags := ("note:" ++ n.compress) :: tags
  let kindV := if !pf.isEmpty then "PROPFAIL" else if dis.isSome then "DISAGREE" else "ok"
  let what := match pf.reverse, dis with | (_, w) :: _, _ => w | [], some d => d | [], none => ""
  return { case, kind := kindV, props := (pf.map (·.1)).eraseDups, what, tags, size := starts.length + 1, dis := dis.getD "",
           fails := pf.reverse.map (fun (p, w) => p ++ ": " ++ w) }

end Driver.ProcReplay
