import Driver.Util
import CambrianModel.Model.Algo
open Lean Cambrian
namespace Driver.PopReplay
open Cambrian.Algo

abbrev V := String

/-- (id, ordering key, state tag, samples) -/
def parseEntry (j : Json) : R (Nat × Int × Nat × List Int) := do
  let a ← asArr j
  pure (← asNat a[0]!, ← asInt a[1]!, ← asNat a[2]!, ← (← asArr a[3]!).toList.mapM asInt)

/-- the model's population in the harness's shape: a `Final` entry stores the single summary value -/
def shape (e : Entry V) : Nat × Int × Nat × List Int :=
  match e.st with
  | .ready l => (e.id, e.obj, 1, l)
  | .final x _ => (e.id, e.obj, 2, [x])

def replay (j : Json) : R Verdict := do
  let case ← asNat (fieldD j "case")
  let ss ← asNat (← field j "sampleSize")
  let init ← asStr (← field j "init")
  let ops ← asArr (← field j "ops")
  let mut a : St V := Algo.new init ss
  let mut inflight : List (Ind V) := []
  let mut dis : Option String := none
  let mut pf : List String := []
  let mut tags : List String := []
  let mut i := 0
  let addTag := fun (ts : List String) (t : String) => if ts.contains t then ts else t :: ts
  tags := addTag tags s!"ss:{ss}"
  for op in ops do
    if dis.isSome then break
    let kind ← asStr (← field op "op")
    let id ← asNat (← field op "id")
    let after ← field op "after"
    if kind == "next" then
      let v ← asStr (← field op "v")
      let samples ← (← asArr (← field op "samples")).toList.mapM asInt
      let ch : Choice V := ⟨decide (id < a.nextId), v⟩
      let (a', ind) := Algo.next a ch
      if ch.wantReeval then tags := addTag tags "reeval"
      if ind.id != id || ind.v != v || ind.samples != samples then
        dis := some s!"op {i}: next_individual returned (id {id}, samples {samples}), model (id {ind.id}, samples {ind.samples}){if ind.v != v then " with a different value" else ""}"
      -- property predicates on the hand-out (independent of the model)
      if inflight.any (·.id == id) then pf := pf ++ [s!"C05: op {i}: individual {id} handed out while it is still being evaluated"]
      if (fieldD op "state").getNat?.toOption != some 0 then pf := pf ++ [s!"C08: op {i}: an individual was handed out in a state other than pending"]
      if samples.length ≥ ss then pf := pf ++ [s!"C08: op {i}: individual {id} handed out with {samples.length} results already, sample size {ss}"]
      a := a'
      inflight := inflight ++ [ind]
    else
      let res := (fieldD op "res").getInt?.toOption
      let summ := (fieldD op "summ").getInt?.toOption
      match inflight.find? (·.id == id) with
      | none => dis := some s!"op {i}: result for an individual that is not in flight"
      | some ind =>
        inflight := inflight.filter (·.id != id)
        a := Algo.proc a ind (match res, summ with | some x, some m => some (x, m) | _, _ => none)
        if res.isNone then tags := addTag tags "rej"
    -- compare the populations entry by entry
    let mpopFull := a.pop.map shape
    -- a full snapshot, or (large populations, most operations) length + first three + last entry
    let (pop, mpop, popLen) ← match (fieldD after "pop").getArr?.toOption with
      | some popJ => do
          let pop ← popJ.toList.mapM parseEntry
          pure (pop, mpopFull, pop.length)
      | none => do
          let head ← (← asArr (← field after "head")).toList.mapM parseEntry
          let last ← parseEntry (← field after "last")
          let n ← asNat (← field after "len")
          tags := addTag tags "partial-snapshot"
          pure (head ++ [last], mpopFull.take 3 ++ (mpopFull.getLast?.map ([·])).getD [], n)
    if dis.isNone && (pop != mpop || popLen != mpopFull.length) then
      dis := some s!"op {i} ({kind} {id}): population differs: impl {popLen} entries {repr (pop.take 3)}..., model {mpopFull.length} entries {repr (mpop.take 3)}..."
    if (← asNat (← field after "nextId")) != a.nextId && dis.isNone then
      dis := some s!"op {i}: next id differs"
    if popLen ≥ 100 then tags := addTag tags "pop-full"
    if popLen > Generated.maxPopSize then pf := pf ++ [s!"C02: op {i}: population holds {popLen} entries, cap {Generated.maxPopSize}"]
    -- the population is ranked by (objective, id) and ids are unique (C08), nothing in flight is in it (C05)
    let keys := pop.map (fun (pid, o, _, _) => (o, pid))
    if !(keys.zip (keys.drop 1)).all (fun ((o1, i1), (o2, i2)) => keyLt o1 i1 o2 i2) then
      pf := pf ++ [s!"C02: op {i}: population is not ranked by (objective, id)"]
    if !(pop.map (·.1)).Nodup then pf := pf ++ [s!"C08: op {i}: two population entries share an id"]
    if pop.any (fun (pid, _, _, _) => inflight.any (·.id == pid)) then
      pf := pf ++ [s!"C05: op {i}: an individual is in the population and in flight at the same time"]
    -- best_seen_final: the best-ranked Final entry
    let bestI := (fieldD after "best")
    let mbest := Algo.best a
    let bi : Option (Int × String) := match bestI.getArr?.toOption with
      | some arr => (do let x ← arr[0]!.getInt?.toOption; let v ← arr[1]!.getStr?.toOption; pure (x, v))
      | none => none
    if dis.isNone && bi != mbest then dis := some s!"op {i}: best_seen_final differs: impl {repr bi} model {repr mbest}"
    -- C02 at sample size 1: best-seen is the minimum of everything accepted so far; kept by the harness-free fold below
    i := i + 1
  -- C02 (sample size 1): the final best is the minimum of all accepted results, ties to the smaller id
  if ss == 1 then
    let acc : List (Int × Nat) := ops.toList.filterMap fun op =>
      match (fieldD op "op").getStr?.toOption, (fieldD op "res").getInt?.toOption, (fieldD op "id").getNat?.toOption with
      | some "proc", some x, some id => some (x, id)
      | _, _, _ => none
    match acc, ops.toList.getLast? with
    | (x0, i0) :: rest, some last =>
      let (mx, _) := rest.foldl (fun (bx, bi) (x, id) => if x < bx || (x == bx && id < bi) then (x, id) else (bx, bi)) (x0, i0)
      let fb := (fieldD (fieldD last "after") "best")
      match fb.getArr?.toOption with
      | some arr => if arr[0]!.getInt?.toOption != some mx then pf := pf ++ [s!"C02: best_seen_final {arr[0]!.compress} is not the minimum {mx} of the {acc.length} accepted results"]
      | none => pf := pf ++ [s!"C02: no best-seen although {acc.length} results were accepted"]
    | _, _ => pure ()
  match (fieldD j "runPanic").getStr?.toOption with
  | some m => pf := pf ++ [s!"C15: the algorithm core panicked: {m}"]
  | none => pure ()
  let kind := if !pf.isEmpty then "PROPFAIL" else if dis.isSome then "DISAGREE" else "ok"
  return { case, kind, props := (pf.map (fun f => (f.take 3).toString)).eraseDups, what := (pf.head?.getD (dis.getD "")), tags, size := i, fails := pf, dis := dis.getD "" }

end Driver.PopReplay
