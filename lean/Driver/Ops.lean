import Driver.Decode
import CambrianModel.Model.Mutation
import CambrianModel.Model.Crossover
open Lean Cambrian
namespace Driver.OpsReplay

def parsePC (j : Json) : R PClass := do
  match ← asStr j with
  | "zero" => pure .zero | "mid" => pure .mid | "one" => pure .one | _ => pure .invalid

/-- branch tags of one mutation (coverage): which cases of the acceptor were exercised -/
partial def mutTags : SNode → VNode → VNode → List String
  | .amap e _ _ _, .amap mi, .amap mo =>
      (if mo.length == mi.length then ["map-same"] else if mo.length < mi.length then ["map-remove"]
       else if mi.length == 0 then ["map-add-into-empty"] else ["map-add"]) ++
      (match mi, mo with | .cons _ v _, .cons _ v' _ => mutTags e v v' | _, _ => [])
  | .variant o _, .variant n v, .variant n' v' =>
      (if n == n' then ["variant-keep"] else ["variant-switch"]) ++
      (match o.lookup n' with | some cs => mutTags cs (if n == n' then v else initialValue cs) v' | none => [])
  | .opt e _, .onone, .osome v' => "optional-materialise" :: mutTags e (initialValue e) v'
  | .opt _ _, .osome _, .onone => ["optional-drop"]
  | .opt e _, .osome v, .osome v' => mutTags e v v'
  | .sub (.cons _ s _), .sub (.cons _ v _), .sub (.cons _ v' _) => mutTags s v v'
  | .array e _, .array (.cons v _), .array (.cons v' _) => mutTags e v v'
  | .real .., .real x, .real y => if x == y then [] else ["real-changed"]
  | .int .., .int x, .int y => if x == y then [] else ["int-changed"]
  | _, _, _ => []

def replay (j : Json) : R Verdict := do
  let case ← asNat (fieldD j "case")
  let s ← decSpec (← field j "spec")
  if !wf s then return { case, kind := "ERROR", what := "generator produced a spec that is not well-formed" }
  let ops ← asArr (← field j "ops")
  let mut pf : List (String × String) := []
  let mut dis : Option String := none
  let mut tags : List String := []
  let mut n := 0
  let mut i := 0
  for op in ops do
    -- a non-conforming or crashed result poisons the pool: report the first failure of a sequence only
    if !pf.isEmpty then break
    let parents ← (← asArr (← field op "parents")).toList.mapM decValue
    let cp ← parsePC (← field op "cp")
    let sp ← parsePC (← field op "sp")
    let mp ← parsePC (← field op "mp")
    let addTag := fun (ts : List String) (t : String) => if ts.contains t then ts else t :: ts
    tags := addTag tags s!"parents:{if parents.length == 1 then "1" else if parents.length ≤ 3 then "2-3" else "4-8"}"
    tags := addTag tags s!"cp:{repr cp}|sp:{repr sp}"
    tags := addTag tags s!"mp:{repr mp}"
    if !(parents.all (conf s)) then
      pf := ("C01", s!"op {i}: a parent taken from the pool does not conform") :: pf
    match (fieldD op "crossPanic").getStr?.toOption with
    | some m =>
      pf := ("C15", s!"op {i}: crossover panicked: {m}") :: ("C01", s!"op {i}: crossover panicked: {m}") ::
            ("C12", s!"op {i}: recombining {parents.length} parent(s) produced no offspring at all (panic: {m})") :: pf
    | none =>
      let cross ← decValue (← field op "cross")
      n := n + 1
      if !(crossAcc cp sp s parents cross) then
        if dis.isNone then dis := some s!"op {i}: crossover result not accepted by crossAcc (cp {repr cp}, sp {repr sp}, {parents.length} parents)"
      if !(conf s cross) then pf := ("C01", s!"op {i}: crossover produced a value that does not conform to the spec") :: pf
      if !(prov s parents cross) then pf := ("C12", s!"op {i}: offspring contains material that no parent has at that position") :: pf
      match parents with
      | p :: rest => if rest.all (· == p) && cross != p then
          pf := ("C12", s!"op {i}: {parents.length} identical parent(s) gave a different offspring") :: pf
      | [] => pure ()
      if cross != (parents.headD .const) && !parents.contains cross then tags := addTag tags "cross-mixed"
      match (fieldD op "mutPanic").getStr?.toOption with
      | some m =>
        pf := ("C15", s!"op {i}: mutation panicked: {m}") :: ("C01", s!"op {i}: mutation panicked: {m}") :: pf
      | none =>
        let out ← decValue (← field op "mut")
        n := n + 1
        for t in mutTags s cross out do tags := addTag tags t
        if !(mutAcc mp s cross out) then
          if dis.isNone then dis := some s!"op {i}: mutation result not accepted by mutAcc (mp {repr mp})"
        if !(conf s out) then pf := ("C01", s!"op {i}: mutation produced a value that does not conform to the spec") :: pf
        if mp == .zero && out != cross then pf := ("C13", s!"op {i}: mutation with probability 0 changed its input") :: pf
        if mp == .one && !(liveOne s cross out) then
          pf := ("C17", s!"op {i}: mutation with probability 1 left a boolean / enum / variant / optional / map size unchanged") :: pf
        if !(resizeLocal mp s cross out) then
          pf := ("C13", s!"op {i}: a resizable map was not resized by exactly one fresh/removed key (mutation probability class {repr mp})") :: pf
    -- `to_json` panics exactly on the values the model calls not `jsonable`
    match (fieldD op "mut").isNull, decValue (fieldD op "mut") with
    | false, .ok outV =>
      let panicked := !(fieldD op "jsonPanic").isNull
      if panicked == jsonable outV then
        if dis.isNone then dis := some s!"op {i}: Value::to_json {if panicked then "panicked" else "did not panic"} on a value the model calls {if jsonable outV then "writable" else "not writable"}"
    | _, _ => pure ()
    match (fieldD op "jsonPanic").getStr?.toOption with
    | some m => pf := ("C15", s!"op {i}: the value produced by mutation cannot be written as JSON (Value::to_json panics: {m}); a run crashes when it hands this individual to the objective function") :: pf
    | none => pure ()
    -- adaptive parameters of in-run records (C14): probabilities in [0,1], scale positive and finite
    if (fieldD op "inRun").getBool?.toOption == some true then
      let one : F64 := .fin 4607182418800017408
      match (fieldD op "probs").getArr?.toOption with
      | some ps =>
        for pj in ps do
          match asF64 pj with
          | .ok p => if !(F64.le (.fin 0) p && F64.le p one) then
              pf := ("C14", s!"op {i}: an adaptive probability is outside [0,1]: {repr p}") :: pf
          | .error _ => pure ()
      | none => pure ()
      match asF64 (fieldD op "mscale") with
      | .ok sc => if !(sc.isFinite && F64.lt (.fin 0) sc) then
          pf := ("C14", s!"op {i}: the adaptive mutation scale is not positive and finite: {repr sc}") :: pf
      | .error _ => pure ()
    i := i + 1
  if (fieldD j "longHistory").getBool?.toOption == some true then tags := "long-adaptive-history" :: tags
  if !(fieldD j "badMeta").isNull then
    pf := ("C14", s!"an individual was created with adaptive parameters outside their ranges (probabilities in [0,1], scale positive and finite): {(fieldD j "badMeta").compress}") :: pf
  match (fieldD j "runPanic").getStr?.toOption with
  | some m => pf := ("C15", s!"the algorithm core panicked: {m}") :: ("C01", s!"the algorithm core panicked: {m}") :: pf
  | none => pure ()
  let kind := if !pf.isEmpty then "PROPFAIL" else if dis.isSome then "DISAGREE" else "ok"
  let what := match pf.reverse, dis with | (_, w) :: _, _ => w | [], some d => d | [], none => ""
  return { case, kind, props := (pf.map (·.1)).eraseDups, what, tags, size := n, dis := dis.getD "",
           fails := pf.reverse.map (fun (p, w) => p ++ ": " ++ w) }

end Driver.OpsReplay
