import Driver.Decode
import Driver.Ops
import CambrianModel.Model.Mutation
import CambrianModel.Model.Crossover
import CambrianModel.Model.Selection
open Lean Cambrian
namespace Driver.DirReplay

def mkRat (n d : Nat) : Rat := (n : Rat) / (d : Rat)

/-- K-sel: observed counts of `select_ref` against the exact distribution of the model -/
def replaySel (j : Json) : R Verdict := do
  let case ← asNat (fieldD j "case")
  let p := mkRat (← asNat (← field j "pNum")) (← asNat (← field j "pDen"))
  let n ← asNat (← field j "n")
  let draws ← asNat (← field j "draws")
  let counts ← (← asArr (← field j "counts")).toList.mapM asNat
  let tags := [s!"sel:n={if n == 1 then "1" else if n ≤ 3 then "2-3" else "4-10"}",
               s!"sel:p={if p == 0 then "0" else if p == 1 then "1" else "mid"}"]
  if counts.length != n || counts.foldl (· + ·) 0 != draws then
    return { case, kind := "ERROR", what := "malformed sel line", tags }
  let dist := Sel.selDist p n
  let mut dis : Option String := none
  let mut i := 0
  for (c, q) in counts.zip dist do
    if !(Sel.cellOk draws c q) then
      if dis.isNone then dis := some s!"selection frequency of rank {i} is {c} of {draws}, outside the 6-sigma band of the model's p(1-p)^i + (1-p)^n/n"
    i := i + 1
  if !(Sel.allPairs (fun a b => Sel.monoOk a b) counts) then
    return { case, kind := "PROPFAIL", props := ["C17"], tags, size := n,
             what := s!"selection: a worse rank is picked significantly more often than a better one (pressure {p}, counts {counts})",
             fails := [s!"C17: selection: a worse rank is picked significantly more often than a better one (pressure {p}, counts {counts})"] }
  match dis with
  | some d => return { case, kind := "DISAGREE", what := d, tags, size := n }
  | none => return { case, kind := "ok", tags, size := n }

/-- K-sel on an operator: presence of an optional inherited by rank selection (one absent parent at `noneRank`) -/
def replaySelOpt (j : Json) : R Verdict := do
  let case ← asNat (fieldD j "case")
  let p := mkRat (← asNat (← field j "pNum")) (← asNat (← field j "pDen"))
  let n ← asNat (← field j "n")
  let draws ← asNat (← field j "draws")
  let r ← asNat (← field j "noneRank")
  let c ← asNat (← field j "noneCount")
  let tags := [s!"selopt:rank={if r == 0 then "first" else if r + 1 == n then "last" else "mid"}",
               s!"sel:p={if p == 0 then "0" else if p == 1 then "1" else "mid"}"]
  if n < 2 || r ≥ n || c > draws then return { case, kind := "ERROR", what := "malformed selopt line", tags }
  let q := (Sel.selDist p n).getD r 0
  let e : Rat := draws * (mkRat 1 n)
  let farFromUniform := !(Sel.cellOk draws c (mkRat 1 n))
  -- the property's own clause: the probability of picking rank i never increases with i, so the worst-ranked parent
  -- is picked with probability at most 1/n and the best-ranked one with probability at least 1/n
  if r + 1 == n && farFromUniform && decide ((c : Rat) > e) then
    let w := s!"presence of an optional inherited by rank selection: the WORST of {n} parents was followed {c} times in {draws} recombinations (pressure {p}), significantly more than 1/{n}: better ranks are not favoured"
    return { case, kind := "PROPFAIL", props := ["C17"], tags, size := n, what := w, fails := ["C17: " ++ w] }
  if r == 0 && farFromUniform && decide ((c : Rat) < e) then
    let w := s!"presence of an optional inherited by rank selection: the BEST of {n} parents was followed only {c} times in {draws} recombinations (pressure {p}), significantly less than 1/{n}: better ranks are not favoured"
    return { case, kind := "PROPFAIL", props := ["C17"], tags, size := n, what := w, fails := ["C17: " ++ w] }
  if !(Sel.cellOk draws c q) then
    return { case, kind := "DISAGREE", tags, size := n,
             what := s!"optional presence: the parent at rank {r} of {n} was followed {c} times in {draws}, outside the 6-sigma band of the model's selection probability" }
  return { case, kind := "ok", tags, size := n }

def interAll : List (List (List String)) → List (List String)
  | [] => []
  | a :: r => r.foldl (fun acc l => acc.filter (l.contains ·)) a

/-- K-live: many mutations of one input at probability 1 -/
def replayLive (j : Json) : R Verdict := do
  let case ← asNat (fieldD j "case")
  let s ← decSpec (← field j "spec")
  if !wf s then return { case, kind := "ERROR", what := "generator produced a spec that is not well-formed" }
  let vi ← decValue (← field j "input")
  if !(conf s vi) then return { case, kind := "ERROR", what := "generator produced an input that does not conform" }
  if !(fieldD j "panic").isNull then
    return { case, kind := "PROPFAIL", props := ["C17", "C15"], what := "mutation at probability 1 panicked",
             fails := ["C17: mutation at probability 1 panicked", "C15: mutation at probability 1 panicked"] }
  let outs ← (← asArr (← field j "outs")).toList.mapM decValue
  let mut pf : List String := []
  let mut dis : Option String := none
  let mut tags : List String := []
  let mut k := 0
  for o in outs do
    if !(mutAcc .one s vi o) then
      if dis.isNone then dis := some s!"attempt {k}: result not accepted by mutAcc at probability 1"
    if !(liveOne s vi o) then
      if pf.isEmpty then pf := [s!"C17: attempt {k}: mutation with probability 1 left a boolean / enum / variant / optional / map size unchanged"]
    for t in OpsReplay.mutTags s vi o do if !tags.contains t then tags := t :: tags
    k := k + 1
  let stuck := interAll (outs.map (fun o => stuckNum s vi o []))
  if !stuck.isEmpty then
    pf := pf ++ [s!"C17: a real/integer parameter with scale >= 1 did not change in any of {outs.length} mutations at probability 1 (path {stuck.head!.reverse})"]
  if (outs.map (fun o => stuckNum s vi o [])).any (!·.isEmpty) then tags := "numeric-leaf-stuck-once" :: tags
  let kind := if !pf.isEmpty then "PROPFAIL" else if dis.isSome then "DISAGREE" else "ok"
  return { case, kind, props := if pf.isEmpty then [] else ["C17"], what := (pf.head?.getD (dis.getD "")), tags := "live" :: tags, dis := dis.getD "",
           size := outs.length, fails := pf }

/-- K-mix: crossover at crossover probability 1 on parents that differ everywhere -/
def replayMix (j : Json) : R Verdict := do
  let case ← asNat (fieldD j "case")
  let s ← decSpec (← field j "spec")
  let ps ← (← asArr (← field j "parents")).toList.mapM decValue
  let sp ← OpsReplay.parsePC (← field j "sp")
  let outs ← (← asArr (← field j "outs")).toList.mapM decValue
  if !wf s || !(ps.all (conf s)) then return { case, kind := "ERROR", what := "malformed mix case" }
  let mut dis : Option String := none
  let mut k := 0
  for o in outs do
    if !(crossAcc .one sp s ps o) then
      if dis.isNone then dis := some s!"attempt {k}: offspring not accepted by crossAcc at crossover probability 1"
    k := k + 1
  let mixed := outs.filter (fun o => !ps.contains o)
  let tags := [s!"mix:parents={ps.length}", s!"mix:mixed={if mixed.length * 2 ≥ outs.length then "most" else if mixed.isEmpty then "none" else "some"}"]
  if (fieldD j "variantRoot").getBool?.toOption == some true then
    -- parents with pairwise different alternatives: below pressure 1 the alternative is not always the first parent's
    let firstName := (ps.head?.bind varName).getD ""
    let others := outs.filter (fun o => varName o != some firstName)
    let tags2 := "mix:variant-root" :: tags
    if sp != .one && others.isEmpty then
      let w := s!"C17: recombining {ps.length} parents with different variant alternatives (selection pressure class {repr sp}) took the first parent's alternative in all {outs.length} attempts"
      return { case, kind := "PROPFAIL", props := ["C17"], what := w, tags := tags2, size := outs.length, fails := [w], dis := dis.getD "" }
    return { case, kind := if dis.isSome then "DISAGREE" else "ok", what := dis.getD "", tags := tags2, size := outs.length, dis := dis.getD "" }
  if (fieldD j "sharedLeaves").getBool?.toOption == some true then
    -- three parents sharing leaf values pairwise: below pressure 1 the offspring is not always the first parent
    let tags2 := "mix:shared-leaves" :: tags
    if sp != .one && outs.all (fun o => some o == ps.head?) then
      let w := s!"C17: recombining three parents that share leaf values pairwise (selection pressure class {repr sp}) returned the first parent in all {outs.length} attempts"
      return { case, kind := "PROPFAIL", props := ["C17"], what := w, tags := tags2, size := outs.length, fails := [w], dis := dis.getD "" }
    return { case, kind := if dis.isSome then "DISAGREE" else "ok", what := dis.getD "", tags := tags2, size := outs.length, dis := dis.getD "" }
  if ps.length ≥ 2 && mixed.isEmpty then
    let w := s!"C17: recombining {ps.length} parents that differ at every position with crossover probability 1 gave a copy of a parent in all {outs.length} attempts"
    return { case, kind := "PROPFAIL", props := ["C17"], what := w, tags, size := outs.length, fails := [w] }
  match dis with
  | some d => return { case, kind := "DISAGREE", what := d, tags, size := outs.length }
  | none => return { case, kind := "ok", tags, size := outs.length }

/-- benchmark battery: the stated goal per problem -/
def replayBench (j : Json) : R Verdict := do
  let case ← asNat (fieldD j "case")
  let name ← asStr (← field j "name")
  let nc ← asNat (← field j "nc")
  let tags := [s!"bench:{name}", s!"bench:nc={nc}"]
  match (fieldD j "error").getStr?.toOption with
  | some e =>
    let w := s!"C17: benchmark {name} (nc {nc}) ended with an error: {e}"
    return { case, kind := "PROPFAIL", props := ["C17"], what := w, tags, size := 1, fails := [w] }
  | none =>
    let ff ← asNat (← field j "factorFloor")
    let rz ← asBool (← field j "reachedZero")
    let budget ← asNat (← field j "budget")
    let evals ← asNat (← field j "evals")
    match Sel.goalOf name with
    | none => return { case, kind := "ERROR", what := "unknown benchmark " ++ name, tags }
    | some g =>
      if evals > budget then
        let w := s!"C17: benchmark {name}: {evals} evaluations, budget {budget}"
        return { case, kind := "PROPFAIL", props := ["C17", "C03"], what := w, tags, size := evals, fails := [w] }
      if Sel.goalMet g ff rz then return { case, kind := "ok", tags, size := evals }
      let txt := (fieldD j "bestText").getStr?.toOption.getD "?"
      let f0 := (fieldD j "f0Text").getStr?.toOption.getD "?"
      let w := s!"C17: benchmark {name} (nc {nc}, yields {(fieldD j "yields").compress}): within {budget} evaluations the best objective is {txt} (initial guess {f0}); stated goal {repr g} not met"
      return { case, kind := "PROPFAIL", props := ["C17"], what := w, tags, size := evals, fails := [w] }

/-- twin runs (C09): the comparison is done by the harness bit for bit; here the verdict and the sanity of the
    trace (ids and seeds as the model predicts them: seeds 0,1,2,... in start order are checked by K-ctl) -/
def replayTwin (j : Json) : R Verdict := do
  let case ← asNat (fieldD j "case")
  let nc ← asNat (← field j "nc")
  let ss ← asNat (← field j "sampleSize")
  let n ← asNat (← field j "nEvals")
  let dv ← asNat (← field j "distinctValues")
  let a ← asBool (← field j "sameInProcess")
  let b ← asBool (← field j "sameCrossProcess")
  let tags := [s!"twin:nc={nc}", s!"twin:ss={ss}", s!"twin:guess={(fieldD j "withGuess").compress}"]
  if n < 50 || dv < 10 then
    return { case, kind := "ERROR", what := s!"twin run too trivial to mean anything: {n} evaluations, {dv} distinct parameter sets", tags }
  if !a then
    let w := s!"C09: two runs with identical inputs in one process differ: {(fieldD j "diffInProcess").compress}"
    return { case, kind := "PROPFAIL", props := ["C09"], what := w, tags, size := n, fails := [w] }
  if !b then
    let pin := if (fieldD j "crossProcessPinnedToOneCpu").getBool?.toOption == some true then " restricted to one CPU" else ""
    let w := s!"C09: the same run in a fresh process{pin} differs: {(fieldD j "diffCrossProcess").compress}"
    return { case, kind := "PROPFAIL", props := ["C09"], what := w, tags, size := n, fails := [w] }
  if (fieldD j "sameGuessOrNot").getBool?.toOption == some false then
    let w := s!"C11: supplying the spec's own initial value as the guess does not give the same run as supplying none: {(fieldD j "diffGuessOrNot").compress}"
    return { case, kind := "PROPFAIL", props := ["C11"], what := w, tags, size := n, fails := [w] }
  return { case, kind := "ok", tags, size := n }

end Driver.DirReplay
