import Driver.Util
import CambrianModel.Model.Json
open Lean Cambrian
namespace Driver

def optNatJ (j : Json) : R (Option Nat) := optNat j

partial def decSpec (j : Json) : R SNode := do
  let t ← asStr (← field j "t")
  match t with
  | "real" => pure (.real (← asF64 (← field j "init")) (← asF64 (← field j "scale")) (← optF64 (fieldD j "min")) (← optF64 (fieldD j "max")))
  | "int" => pure (.int (← asInt (← field j "init")) (← asF64 (← field j "scale")) (← optInt (fieldD j "min")) (← optInt (fieldD j "max")))
  | "bool" => pure (.bool (← asBool (← field j "init")))
  | "sub" => do
      let fs ← asArr (← field j "f")
      let mut acc : SFields := .nil
      for p in fs.reverse do
        let a ← asArr p
        acc := .cons (← asStr a[0]!) (← decSpec a[1]!) acc
      pure (.sub acc)
  | "array" => pure (.array (← decSpec (← field j "e")) (← asNat (← field j "n")))
  | "amap" => pure (.amap (← decSpec (← field j "e")) (← asNat (← field j "init")) (← optNat (fieldD j "min")) (← optNat (fieldD j "max")))
  | "variant" => do
      let fs ← asArr (← field j "o")
      let mut acc : SFields := .nil
      for p in fs.reverse do
        let a ← asArr p
        acc := .cons (← asStr a[0]!) (← decSpec a[1]!) acc
      pure (.variant acc (← asStr (← field j "init")))
  | "enum" => do
      let vs ← (← asArr (← field j "vs")).toList.mapM asStr
      pure (.enum vs (← asStr (← field j "init")))
  | "opt" => pure (.opt (← decSpec (← field j "e")) (← asBool (← field j "p")))
  | "const" => pure .const
  | other => throw ("unknown spec tag " ++ other)

partial def decValue (j : Json) : R VNode := do
  let t ← asStr (← field j "t")
  match t with
  | "real" => pure (.real (← asF64 (← field j "x")))
  | "int" => pure (.int (← asInt (← field j "i")))
  | "bool" => pure (.bool (← asBool (← field j "b")))
  | "sub" => do
      let fs ← asArr (← field j "f")
      let mut acc : VFields := .nil
      for p in fs.reverse do
        let a ← asArr p
        acc := .cons (← asStr a[0]!) (← decValue a[1]!) acc
      pure (.sub acc)
  | "array" => do
      let l ← asArr (← field j "l")
      let mut acc : VList := .nil
      for p in l.reverse do acc := .cons (← decValue p) acc
      pure (.array acc)
  | "amap" => do
      let fs ← asArr (← field j "m")
      let mut acc : VEntries := .nil
      for p in fs.reverse do
        let a ← asArr p
        acc := .cons (← asNat a[0]!) (← decValue a[1]!) acc
      pure (.amap acc)
  | "variant" => pure (.variant (← asStr (← field j "n")) (← decValue (← field j "v")))
  | "enum" => pure (.enum (← asStr (← field j "s")))
  | "onone" => pure .onone
  | "osome" => pure (.osome (← decValue (← field j "v")))
  | "const" => pure .const
  | other => throw ("unknown value tag " ++ other)

/-- decodes the model-J encoding; collects the observed `i64 -> f64` pairs -/
partial def decJ (j : Json) (casts : List (Int × F64)) : R (J × List (Int × F64)) := do
  match j with
  | .str "n" => pure (.null, casts)
  | _ =>
    match j.getObjVal? "b" with
    | .ok b => pure (.bool (← asBool b), casts)
    | .error _ =>
    match j.getObjVal? "i" with
    | .ok i => do
        let iv ← asInt i
        let c := fieldD j "c"
        let casts' := if c.isNull then casts else match asF64 c with | .ok f => (iv, f) :: casts | .error _ => casts
        pure (.int iv, casts')
    | .error _ =>
    match j.getObjVal? "f" with
    | .ok f => pure (.flt (← asF64 f), casts)
    | .error _ =>
    match j.getObjVal? "s" with
    | .ok s => pure (.str (← asStr s), casts)
    | .error _ =>
    match j.getObjVal? "a" with
    | .ok a => do
        let l ← asArr a
        let mut acc : JList := .nil
        let mut cs := casts
        for p in l.reverse do
          let (x, cs') ← decJ p cs
          acc := .cons x acc
          cs := cs'
        pure (.arr acc, cs)
    | .error _ => do
        let fs ← asArr (← field j "o")
        let mut acc : JFields := .nil
        let mut cs := casts
        for p in fs.reverse do
          let a ← asArr p
          let (x, cs') ← decJ a[1]! cs
          acc := .cons (← asStr a[0]!) x acc
          cs := cs'
        pure (.obj acc, cs)

def mkCast (pairs : List (Int × F64)) : Int → F64 := fun i =>
  match pairs.find? (·.1 == i) with
  | some (_, f) => f
  | none => .nan      -- no integer number with this value occurred in the document

/-- canonical form for comparing JSON trees: object fields sorted by key (string order, as serde_json's map) -/
partial def sortJ : J → J
  | .arr l => .arr (sortL l)
  | .obj f =>
    let rec toList : JFields → List (String × J)
      | .nil => [] | .cons k j r => (k, sortJ j) :: toList r
    let sorted := (toList f).toArray.qsort (fun a b => a.1 < b.1) |>.toList
    .obj (sorted.foldr (fun (k, j) acc => .cons k j acc) .nil)
  | j => j
where sortL : JList → JList
  | .nil => .nil | .cons j r => .cons (sortJ j) (sortL r)

def specKinds : SNode → List String
  | .real .. => ["real"] | .int .. => ["int"] | .bool _ => ["bool"] | .enum .. => ["enum"] | .const => ["const"]
  | .sub _ => ["sub"] | .array .. => ["array"] | .amap .. => ["amap"] | .variant .. => ["variant"] | .opt .. => ["opt"]

end Driver
