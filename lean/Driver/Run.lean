import Driver.Util
import CambrianModel.Model.Launch
import CambrianModel.Model.Process
open Lean Cambrian
namespace Driver.RunReplay
open Cambrian.Launch

def parseCrit (j : Json) : R Crit :=
  match j.getObjVal? "numEval", j.getObjVal? "target", j.getObjVal? "after" with
  | .ok n, _, _ => do pure (.numEval (← asNat n))
  | _, .ok t, _ => do pure (.target (← asF64 t))
  | _, _, .ok d => do pure (.after (← asNat d))
  | _, _, _ => pure .signal

/-- K-run: whole runs through `sync_launch::launch` against the launch-layer model -/
def replay (j : Json) : R Verdict := do
  let case ← asNat (fieldD j "case")
  if (fieldD j "twoProcRuns").getBool?.toOption == some true then
    -- run 1: a bool spec, 6 evaluations; run 2 (same thread): an int in [0,10] with the guess 7, 10 evaluations
    let args := ((fieldD j "args").getArr?.toOption.getD #[]).toList.map (fun a => (a.getArr?.toOption.getD #[]).toList.map (fun x => x.getStr?.toOption.getD ""))
    let mut pf : List String := []
    match args with
    | [a1, a2] =>
      if a1.length != 6 || !(a1.all (fun x => x == "true" || x == "false")) then
        pf := pf ++ [s!"C01: first run (bool spec, 6 evaluations): the children were given {a1}"]
      let okInt (x : String) : Bool := match x.toInt? with | some i => decide (0 ≤ i ∧ i ≤ 10) | none => false
      if a2.length != 10 || !(a2.all okInt) then
        pf := pf ++ [s!"C01: second run on the same thread (an int in [0,10], 10 evaluations): the children were given {a2} - not parameter sets of this run"]
      else if a2.head? != some "7" then
        pf := pf ++ [s!"C08: second run on the same thread: the explicit guess 7 is not what the first child was given ({a2.head?})"]
    | _ => pf := pf ++ [s!"C15: two process-objective runs on one thread: {(fieldD j "rets").compress}"]
    let kind := if pf.isEmpty then "ok" else "PROPFAIL"
    return { case, kind, props := (pf.map (fun f => (f.take 3).toString)).eraseDups, what := pf.head?.getD "", tags := ["run:two-process-runs"], size := 16, fails := pf }
  if (fieldD j "wide").getBool?.toOption == some true then
    -- 300 evaluations in flight, a time limit of 200 ms: the run returns its best result once they have ended
    let r := fieldD j "ret"
    let ok := match (fieldD r "ok").getArr?.toOption with | some a => a.size == 2 && a[0]!.compress == "1" | none => false
    if ok then return { case, kind := "ok", tags := ["run:wide-300"], size := 300 }
    let w := if r.compress == "\"hang\"" then "C04: a run with 300 evaluations in flight was ended by its time limit (200 ms) and never returned, although every evaluation ended on the abort request"
             else s!"C04: a run with 300 evaluations in flight, one accepted result and a time limit of 200 ms returned {r.compress}"
    return { case, kind := "PROPFAIL", props := ["C04", "C15"], what := w, tags := ["run:wide-300"], size := 300, fails := [w, "C15: " ++ (w.drop 5).toString] }
  let crits ← (← asArr (← field j "criteria")).toList.mapM parseCrit
  let nc ← asNat (← field j "nc")
  let threaded ← asBool (← field j "threaded")
  let calls ← asNat (← field j "calls")
  let maxLive ← asNat (← field j "maxLive")
  let ret := fieldD j "ret"
  let failAt := (fieldD j "failAt").getNat?.toOption
  let csvRows ← asNat (← field j "csvRows")
  let rowObjs := ((fieldD j "rowObjs").getArr?.toOption.getD #[]).toList
  let rowInputs := ((fieldD j "rowInputs").getArr?.toOption.getD #[]).toList.map (fun x => x.getStr?.toOption.getD "")
  let mut pf : List String := []
  let mut dis : Option String := none
  let mut tags : List String := [s!"run:threaded={threaded}", s!"run:nc={nc}"]
  if (fieldD j "immediate").getBool?.toOption == some true then tags := "run:immediate-async" :: tags
  if (fieldD j "tiny").getBool?.toOption == some true then tags := "run:tiny-objective" :: tags
  if ret.compress == "\"panic\"" then
    pf := pf ++ [s!"C15: sync_launch::launch panicked ({if (fieldD j "stalledLate").getBool?.toOption == some true then "the time limit expired after the controller had finished, while the report writer was still waiting for its sink" else "in-process run"})",
                 s!"C04: a run whose time limit expired with nothing left in flight panicked instead of returning its result"]
  -- C04: two runs with the Signal criterion in one process, each interrupted at its 4th evaluation (budget 300)
  match (fieldD j "signalTwin").getArr?.toOption with
  | some runs =>
    tags := "run:signal-twice" :: tags
    let mut k := 1
    for r in runs do
      let calls := (fieldD r "calls").getNat?.toOption.getD 0
      if calls > 40 then
        pf := pf ++ [s!"C04: run {k} of a process (Signal criterion, budget 300) was interrupted at its 4th evaluation and still started {calls} evaluations: the interrupt was not taken ({(fieldD r "ret").compress})"]
      if (fieldD r "ret").compress == "\"panic\"" then pf := pf ++ [s!"C15: run {k} with the Signal criterion panicked"]
      k := k + 1
  | none => if !(fieldD j "signalTwin").isNull then dis := some s!"signal experiment gave no output: {(fieldD j "signalTwin").compress}"
  -- C04: two termination requests (interrupt and time limit, either order) reach the command loop while the only
  -- evaluation in flight (700 ms, deaf to the abort request) is still running; the model of the loop is asked
  let sd := fieldD j "signalDrain"
  if !sd.isNull then
    tags := (if (fieldD sd "sigintFirst").getBool?.toOption == some true then "run:drain-sigint-then-limit" else "run:drain-limit-then-sigint") :: tags
    let evs : List LEv := ((fieldD sd "events").getArr?.toOption.getD #[]).toList.filterMap (fun e =>
      match e.getStr?.toOption with | some "terminate" => some .terminate | some "closed" => some .closed | some "ctlDone" => some .ctlDone | _ => none)
    let acts := (lrun {} evs).2
    let r := fieldD sd "ret"
    -- the model: exactly one abort request, then the controller's own result (which, with at least one accepted evaluation and no rejection, is Ok; on a
    -- very slow machine a second evaluation may have been started before the first request arrived)
    let modelOk := acts == [.abortReq, .retCtl]
    let implOk := match (fieldD r "ok").getArr?.toOption with | some a => a.size == 3 && (a[0]!.getNat?.toOption.getD 0) ≥ 1 && a[1]!.compress == "0" | none => false
    if !modelOk then dis := some s!"launch-layer model on {(fieldD sd "events").compress}: unexpected actions"
    else if !implOk then
      dis := some s!"command loop: model answers [abortReq, retCtl] to terminate, terminate, ctlDone; the run returned {r.compress}"
      let order := if (fieldD sd "sigintFirst").getBool?.toOption == some true then "an interrupt after 100 ms and the time limit after 400 ms" else "the time limit after 100 ms and an interrupt after 400 ms"
      pf := pf ++ [s!"C04: {order}, both while the only evaluation in flight (700 ms, ignores the abort request, result 0.25) was running: the run returned {r.compress} instead of that evaluation's result as best-seen"]
      if r.compress == "\"panic\"" then pf := pf ++ [s!"C15: a second termination request while the run was draining panicked the launcher ({order})"]
  -- C04: the first result is one ulp ABOVE the target 1.0, the eleventh is the target: the run ends at the eleventh
  if (fieldD j "nearTarget").getBool?.toOption == some true then
    tags := "run:near-target" :: tags
    let one : Int := 4607182418800017408
    match (fieldD (fieldD ret "ok") "best").getInt?.toOption with
    | some b => if b > one || calls != 11 then
        pf := pf ++ [s!"C04: target 1.0, first result one ulp above it, eleventh result exactly 1.0: the run made {calls} evaluations and returned a best-seen objective with order code {b} ({if b > one then "ABOVE the target" else "the target"})"]
    | none => pf := pf ++ [s!"C04: target 1.0 reachable at the eleventh evaluation, the run returned {ret.compress}"]
  -- C04: a time limit of 100 ms against a budget of 40 000 never-suspending evaluations
  if (fieldD j "immLimit").getBool?.toOption == some true then
    tags := "run:immediate-with-time-limit" :: tags
    if calls ≥ 40000 then
      pf := pf ++ [s!"C04: time limit 100 ms, yet the run used up its whole budget of 40000 evaluations (about two seconds of work): the limit was not taken while finished evaluations kept coming"]
  match (fieldD j "stdoutNoise").getNat?.toOption with
  | some k => if k > 0 then pf := pf ++ [s!"C16: the library wrote {k} byte(s) to the process's standard output during a run: a successful CLI run would print more than its one line"]
  | none => pure ()
  if (fieldD j "nullGuess").getBool?.toOption == some true then
    tags := "run:null-guess" :: tags
    -- (conflicting criteria are reported first: also a failing run without any evaluation)
    let refused := (ret.getObjVal? "badGuess").toOption.isSome || ((compile crits).isNone && ret.compress == "\"conflict\"")
    if calls != 0 || !refused then
      pf := pf ++ [s!"C11: the guess `null` does not conform to the spec (its root is a mapping), yet {calls} evaluation(s) were started and the run returned {ret.compress}"]
    let kind := if !pf.isEmpty then "PROPFAIL" else "ok"
    return { case, kind, props := (pf.map (fun f => (f.take 3).toString)).eraseDups, what := (pf.head?.getD ""), tags, size := calls + 1, fails := pf }
  match compile crits with
  | none =>
    tags := "run:conflict" :: tags
    if ret.compress != "\"conflict\"" then dis := some s!"conflicting termination criteria: model rejects, impl returned {ret.compress}"
    if calls != 0 then pf := pf ++ [s!"C16: conflicting termination criteria, yet {calls} evaluation(s) were started"]
  | some c =>
    if ret.compress == "\"conflict\"" then dis := some "termination criteria: model accepts, impl reports a conflict"
    let n := c.maxEval.getD 0
    if n == 0 then tags := "run:zero-budget" :: tags
    if calls > n then pf := pf ++ [s!"C03: {calls} evaluations started, budget {n}"]
    if maxLive > nc then pf := pf ++ [s!"C05: {maxLive} evaluations in progress at once, num_concurrent {nc}"]
    if (fieldD j "barrier").getBool?.toOption == some true then
      tags := s!"run:barrier-nc={nc}" :: tags
      if maxLive < Nat.min nc n then
        pf := pf ++ [s!"C05: threaded launcher, num_concurrent {nc}, budget {n}: at most {maxLive} evaluations were ever in progress at once (the others waited although slots and budget were free)"]
    match (fieldD j "stalledStarted").getNat?.toOption with
    | some k =>
      tags := "run:stalled-report-sink" :: tags
      -- (with a time limit in the criteria - the stalled-late cases - a machine so loaded that the budget is not even
      -- started within the limit is not a work-conservation failure)
      if k < n && (fieldD j "stalledLate").getBool?.toOption != some true then
        pf := pf ++ [s!"C05: while the detailed report file could not be written (a FIFO nobody read yet; budget {n}, far below the report channel's capacity) only {k} of {n} evaluations were started: finished evaluations were not replaced although slots and budget were free"]
    | none => pure ()
    let reachable := match c.target with | some t => F64.le (.fin 0) t | none => false   -- 1e9: reached by the first accepted result
    let okj := ret.getObjVal? "ok"
    match okj with
    | .ok o =>
      tags := "run:ok" :: tags
      let a := (fieldD o "acc").getNat?.toOption.getD 0
      let rj := (fieldD o "rej").getNat?.toOption.getD 0
      if csvRows != a + rj then pf := pf ++ [s!"C14: the report counts {a} completed + {rj} rejected, the detailed report has {csvRows} records"]
      let accRows := (rowObjs.filter (fun x => !x.isNull)).length
      if accRows != a then pf := pf ++ [s!"C14: {a} completed evaluations reported, {accRows} records with a value"]
      if !reachable && failAt.all (fun k => k ≥ n) && (fieldD j "immLimit").getBool?.toOption != some true then
        if calls != n || a + rj != n then
          pf := pf ++ [s!"C03: budget {n}, nothing else ended the run, but {calls} evaluations were started and the report counts {a} + {rj}"]
      -- C02 (sample size 1): the reported objective is the minimum over the records with a value
      if (fieldD j "sampleSize").getNat?.toOption.getD 1 == 1 then
        let vals := rowObjs.filterMap (fun x => x.getInt?.toOption)
        match (fieldD o "best").getInt?.toOption, vals with
        | some b, v0 :: vs =>
          let mn := vs.foldl min v0
          if b != mn then pf := pf ++ [s!"C02: the reported best objective (order code {b}) is not the minimum (order code {mn}) of the {vals.length} accepted evaluations in the detailed report"]
        | _, _ => pure ()
      -- C06: an evaluation that returned NaN is a failure; the run cannot end with a success report
      match failAt with
      | some k => if calls > k && !reachable then
          pf := pf ++ [s!"C06: evaluation {k} returned NaN (a failure), yet the run went on ({calls} evaluations) and returned a success report"]
      | none => pure ()
      if reachable then tags := "run:target" :: tags
    | .error _ =>
      tags := s!"run:{ret.compress.take 12}" :: tags
      match failAt with
      | some k => if k < n && ret.compress != "\"nonFinite\"" && !reachable then
          dis := some s!"evaluation {k} returned a non-finite value, the run returned {ret.compress}"
          pf := pf ++ [s!"C06: evaluation {k} returned NaN (a failure), the run returned {ret.compress} instead of that failure"]
      | none => if ret.compress != "\"noIndividuals\"" then dis := some s!"unexpected error {ret.compress}"
      -- C14 on failure: the files written so far stay consistent; with one evaluation at a time every earlier
      -- evaluation has been processed, so it has its record
      match failAt with
      | some k => if nc == 1 && k < n && csvRows != k && !reachable then
          pf := pf ++ [s!"C14: the run failed at evaluation {k} (one at a time): {csvRows} records written, {k} evaluations were processed before"]
      | none => pure ()
    -- the best-seen file: the writer model over the records
    let items : List Proc.Item := (rowObjs.zipIdx).map (fun (x, i) => { id := i, seed := i, obj := x.getInt?.toOption })
    let files := Proc.writeAll items
    let bestFile := (fieldD j "bestFile").getStr?.toOption
    match files.best, bestFile with
    | some b, some f => if rowInputs[b.id]? != some f then
        pf := pf ++ [s!"C14: the best-seen file does not hold the parameter set of the first minimum-objective record (record {b.id})",
                     s!"C16: the best-seen file does not hold the parameter set of the first minimum-objective record (record {b.id})"]
    | some _, none => pf := pf ++ ["C14: records with a value exist but there is no (valid) best-seen file", "C16: records with a value exist but there is no (valid) best-seen file"]
    | none, some _ => pf := pf ++ ["C14: a best-seen file exists without any record with a value"]
    | none, none => pure ()
  -- C14: every record carries the individual id and the seed of an evaluation that took place (as a pair)
  match (fieldD j "rowPairs").getArr?.toOption, (fieldD j "callPairs").getArr?.toOption with
  | some rp, some cp =>
    let calls := cp.toList.map (·.compress)
    if (fieldD j "sampleSize").getNat?.toOption.getD 1 > 1 then tags := "run:sampled-records" :: tags
    if cp.toList.any (fun c => match c.getArr?.toOption with | some a => a[0]!.compress != a[1]!.compress | none => false) then tags := "run:id-differs-from-seed" :: tags
    let mut k := 0
    for r in rp do
      if !calls.contains r.compress then
        if !(pf.any (fun f => f.startsWith "C14: record")) then
          pf := pf ++ [s!"C14: record {k} of the detailed report carries (seed, individual id) = {r.compress}, which is not the seed and id of any evaluation of the run"]
      k := k + 1
  | _, _ => pure ()
  -- `AlgoConfigBuilder::build` against `Launch.buildConfig`
  for cj in ((fieldD j "configs").getArr?.toOption.getD #[]) do
    let ssO := (fieldD cj "ss").getNat?.toOption
    let ncO := (fieldD cj "nc").getNat?.toOption
    let want : Json := match buildConfig ssO ncO with
      | .ok c => Json.mkObj [("ok", Json.arr #[c.sampleSize, c.numConcurrent])]
      | .error .zeroSampleSize => "zeroSampleSize"
      | .error .zeroNumConcurrent => "zeroNumConcurrent"
    if !(fieldD cj "again").isNull && (fieldD cj "again").compress != (fieldD cj "res").compress then
      pf := pf ++ [s!"C09: one AlgoConfigBuilder({ssO}, {ncO}) asked twice for its configuration gives {(fieldD cj "res").compress} and then {(fieldD cj "again").compress}: a second run set up the same way is a different run"]
    if (fieldD cj "res").compress != want.compress then
      if dis.isNone then dis := some s!"AlgoConfigBuilder::build({ssO}, {ncO}) = {(fieldD cj "res").compress}, model {want.compress}"
      match (fieldD cj "res").getObjVal? "ok" with
      | .ok a => match a.getArr?.toOption.map (·.toList.map (fun x => x.getNat?.toOption.getD 1)) with
        | some [s0, n0] =>
          if s0 == 0 then pf := pf ++ ["C08: a configuration with sample size 0 was accepted (an individual would be evaluated 0 times / never completes a sample)"]
          if n0 == 0 then pf := pf ++ ["C05: a configuration with num_concurrent 0 was accepted (no evaluation can ever be in progress)"]
        | _ => pure ()
      | .error _ => pure ()
  if (fieldD j "bestLate").getBool?.toOption == some true then tags := "run:best-file-late" :: tags
  let kind := if !pf.isEmpty then "PROPFAIL" else if dis.isSome then "DISAGREE" else "ok"
  return { case, kind, props := (pf.map (fun f => (f.take 3).toString)).eraseDups, what := (pf.head?.getD (dis.getD "")), tags, size := calls + 1,
           fails := pf, dis := dis.getD "" }

end Driver.RunReplay
