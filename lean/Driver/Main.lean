import Driver.Util
import Driver.Ctl
import Driver.Codec
import Driver.Ops
import Driver.SpecP
import Driver.ProcR
import Driver.Dir
import Driver.Pop
import Driver.Run
open Lean Driver

def handle (line : String) : Verdict :=
  match Json.parse line with
  | .error e => { kind := "ERROR", what := "json: " ++ e }
  | .ok j =>
    let mode := (fieldD j "mode").getStr?.toOption.getD ""
    let r : R Verdict :=
      -- an in-process call into the implementation that did not come back (written by the harness's watchdog)
      if (fieldD j "hang").getBool?.toOption == some true && mode != "ctl" && mode != "proc" then
        let w := s!"C15: the call into the implementation did not return within {(fieldD j "limitSeconds").compress} s (correspondence {mode}, case {(fieldD j "case").compress}): an endless loop or a dead lock"
        pure { case := (fieldD j "case").getNat?.toOption.getD 0, kind := "PROPFAIL", props := ["C15"], what := w, tags := ["hang"], size := 1, fails := [w] }
      else if mode == "ctl" then CtlReplay.replay j
      else if mode == "ctllong" then CtlReplay.replayLong j
      else if mode == "codec" then CodecReplay.replay j
      else if mode == "ops" then OpsReplay.replay j
      else if mode == "spec" then SpecReplay.replay j
      else if mode == "proc" then ProcReplay.replay j
      else if mode == "pop" then PopReplay.replay j
      else if mode == "run" then RunReplay.replay j
      else if mode == "sel" then DirReplay.replaySel j
      else if mode == "selopt" then DirReplay.replaySelOpt j
      else if mode == "live" then DirReplay.replayLive j
      else if mode == "mix" then DirReplay.replayMix j
      else if mode == "bench" then DirReplay.replayBench j
      else if mode == "twin" then DirReplay.replayTwin j
      else .error ("unknown mode " ++ mode)
    match r with
    | .ok v => v
    | .error e => { case := (fieldD j "case").getNat?.toOption.getD 0, kind := "ERROR", what := e }

partial def loop (h : IO.FS.Stream) (out : IO.FS.Stream) : IO Unit := do
  let line ← h.getLine
  if line.isEmpty then return ()
  if line.trimAscii.toString.isEmpty then loop h out else
  out.putStrLn (handle line).toJson.compress
  loop h out

def main : IO Unit := do
  loop (← IO.getStdin) (← IO.getStdout)
