import Driver.Util
import CambrianModel.Model.Controller
import CambrianModel.Lemmas.CtlInv
open Lean Cambrian
namespace Driver.CtlReplay
open Cambrian.Ctl

abbrev V := String

structure ObsStart where
  seed : Nat
  id : Nat
  v : String
  deriving Repr, BEq

def parseStart (j : Json) : R ObsStart := do
  let a ← asArr j
  pure { seed := ← asNat a[0]!, id := ← asNat a[1]!, v := ← asStr a[2]! }

def parseItem (j : Json) : R (Nat × Nat × Option Int) := do
  let a ← asArr j
  pure (← asNat a[0]!, ← asNat a[1]!, ← optInt a[2]!)

def parseRes (j : Json) : R Res :=
  match j with
  | .str "rej" => pure .rej
  | _ =>
    match j.getObjVal? "acc" with
    | .ok a => do let a ← asArr a; pure (.acc (← asInt a[0]!) (← asInt a[1]!))
    | .error _ => do pure (.fail (← asNat (← field j "fail")))

/-- an event without its choice -/
inductive PreEv | complete (seed : Nat) (r : Res) | abort

def parseEv (j : Json) : R PreEv := do
  let k ← asStr (← field j "k")
  if k == "a" then pure .abort
  else pure (.complete (← asNat (← field j "seed")) (← parseRes (← field j "res")))

def outcomeJson : Outcome V → Json
  | .ok b v a r => Json.mkObj [("ok", Json.mkObj [("acc", a), ("best", b), ("rej", r), ("value", v)])]
  | .err e => Json.mkObj [("err", e)]
  | .noIndividuals => "noIndividuals"
  | .badGuess => "badGuess"

structure RS where
  st : St V
  verdict : Option (String × String) := none    -- (kind, what)
  tags : List String := []
  nEvents : Nat := 0
  -- raw observations, as an action list (for the property predicates)
  obsActs : List (Act V) := []
  abortSeenRound : Option Nat := none           -- first round whose events contain an effective abort/fail
  startsAfterStop : Nat := 0

def addTag (r : RS) (t : String) : RS := if r.tags.contains t then r else { r with tags := t :: r.tags }

def disagree (r : RS) (what : String) : RS :=
  match r.verdict with | some _ => r | none => { r with verdict := some ("DISAGREE", what) }

/-- compare the actions of one round with what was observed; `acts` in model order -/
def compareRound (r : RS) (round : Nat) (acts : List (Act V)) (starts : List ObsStart)
    (items : List (Nat × Nat × Option Int)) (abortObs : Option Bool) (retObs : Json) : RS := Id.run do
  let mut r := r
  let mStarts := acts.filterMap fun | .start sd i v => some (ObsStart.mk sd i v) | _ => none
  let mItems := acts.filterMap fun | .item i sd x => some (i, sd, x) | _ => none
  -- `start` in the model is "the evaluation future is created and queued"; the body of `evaluate()` runs at its
  -- first poll, which never happens for futures queued in the very pass of the loop that ends the run
  if retObs.isNull then
    if mStarts != starts then
      r := disagree r s!"round {round}: starts differ: model {repr mStarts} impl {repr starts}"
  else
    if !(starts.isPrefixOf mStarts) then
      r := disagree r s!"round {round}: starts differ (final round): model {repr mStarts} impl {repr starts}"
    if starts.length < mStarts.length then r := addTag r "queued-never-polled"
  if mItems != items then
    r := disagree r s!"round {round}: items differ: model {repr mItems} impl {repr items}"
  match abortObs with
  | some b =>
    -- broadcast is observable only while a receiver exists; the model flag is cumulative
    if b != r.st.aborted then
      r := disagree r s!"round {round}: abort broadcast: model {r.st.aborted} impl {b}"
  | none => pure ()
  let mRet := acts.filterMap fun | .ret o _ => some (outcomeJson o) | _ => none
  match mRet, retObs.isNull with
  | [], true => pure ()
  | [o], false => if o.compress != retObs.compress then r := disagree r s!"round {round}: return differs: model {o.compress} impl {retObs.compress}"
  | [], false => r := disagree r s!"round {round}: impl returned {retObs.compress}, model still running"
  | _, _ => r := disagree r s!"round {round}: model returned {mRet.map (·.compress)}, impl still running"
  return r

def replay (j : Json) : R Verdict := do
  let case ← asNat (fieldD j "case")
  let cfgJ ← field j "cfg"
  let cfg : Cfg := { nc := ← asNat (← field cfgJ "nc"), maxEval := ← optNat (fieldD cfgJ "maxEval"),
                     target := ← optF64 (fieldD cfgJ "target") }
  let ss ← asNat (← field cfgJ "sampleSize")
  let initV : Option String := (fieldD cfgJ "initV").getStr?.toOption
  let dflt ← asStr (← field cfgJ "defaultInit")
  let rounds ← asArr (← field j "rounds")
  if (fieldD j "hang").getBool?.toOption == some true then
    return { case, kind := "PROPFAIL", props := ["C04", "C15"], what := "controller neither returned nor yielded (hang); phase " ++ (fieldD j "phase").compress }
  -- a report item whose seed is not that of a completed evaluation (the harness could not attribute it)
  for rd in rounds do
    for e in ((fieldD rd "events").getArr?.toOption.getD #[]) do
      if !(fieldD (fieldD e "res") "unexpectedItem").isNull then
        let w := s!"a detailed-report record carries seed {(fieldD e "seed").compress}, which is not the seed of an evaluation that completed ({(fieldD (fieldD e "res") "unexpectedItem").compress})"
        return { case, kind := "PROPFAIL", props := ["C14"], what := w, fails := ["C14: " ++ w] }
  let mut r : RS := { st := (init cfg ss initV dflt (fun _ => ⟨false, dflt⟩)).1 }
  let mut roundNo := 0
  for rd in rounds do
    if (fieldD rd "stuck").isNull == false then
      r := { r with verdict := some ("PROPFAIL", "controller pending with nothing in flight") }
      break
    let obs ← field rd "obs"
    let starts ← (← asArr (← field obs "starts")).toList.mapM parseStart
    let items ← (← asArr (← field obs "items")).toList.mapM parseItem
    let abortObs := (fieldD obs "abort").getBool?.toOption
    let retObs := fieldD obs "ret"
    let evs ← (← asArr (← field rd "events")).toList.mapM parseEv
    -- raw observation as actions (order inside a round: events' items, then starts - only projections are used)
    let rawActs : List (Act V) := items.map (fun (i, sd, x) => Act.item i sd x) ++ starts.map (fun s => Act.start s.seed s.id s.v)
    r := { r with obsActs := r.obsActs ++ rawActs }
    if roundNo == 0 then
      let arr := starts.toArray
      let chs : Nat → Algo.Choice V := fun i => ⟨false, (arr[i]?.map (·.v)).getD dflt⟩
      let (s0, acts) := init cfg ss initV dflt chs
      r := { r with st := s0 }
      r := compareRound r 0 acts starts items abortObs retObs
    else
      let mut acts : List (Act V) := []
      let mut rest := starts
      if evs.length > 1 then r := addTag r "burst"
      for e in evs do
        let ch : Algo.Choice V := match rest with
          | s :: _ => ⟨decide (s.id < r.st.core.nextId), s.v⟩
          | [] => ⟨false, dflt⟩
        let ev : Ev V := match e with
          | .abort => .abortReq
          | .complete sd res => .complete sd res ch
        match e with
        | .abort => r := addTag r (if r.st.inflight.isEmpty then "abort-idle" else "abort-inflight")
        | .complete _ (.fail _) => r := addTag r (if r.st.aborted then "fail-after-abort" else "fail-first")
        | .complete _ .rej => r := addTag r "rej"
        | .complete _ (.acc _ _) => r := addTag r "acc"
        let wasAborted := r.st.aborted
        let (s', a) := step cfg r.st ev
        if a.any (fun | .start _ _ _ => true | _ => false) then
          rest := rest.drop 1
          if ch.wantReeval then r := addTag r "reeval"
        if a.any (fun | .ret (.ok ..) _ => true | _ => false) then
          r := addTag r (if wasAborted then "ret-ok-after-abort" else "ret-ok")
        if a.any (fun | .ret (.err _) _ => true | _ => false) then r := addTag r "ret-err"
        if a.any (fun | .ret .noIndividuals _ => true | _ => false) then r := addTag r "ret-noind"
        if a.any (fun | .ret _ (_ :: _) => true | _ => false) then r := addTag r "ret-dropping-inflight"
        if s'.core.pop.length ≥ 100 then r := addTag r "pop-full"
        r := { r with st := s', nEvents := r.nEvents + 1 }
        acts := acts ++ a
      r := compareRound r roundNo acts starts items abortObs retObs
    roundNo := roundNo + 1
  -- property predicates evaluated on the raw observations (independent of the model)
  let mut pf : List (String × String) := []
  let oa := r.obsActs
  match cfg.maxEval with
  | some n => if nStarts oa > n then pf := ("C03", s!"{nStarts oa} evaluations started, budget {n}") :: pf
  | none => pure ()
  if !(startSeeds oa).Nodup then pf := ("C08", "two evaluations received the same seed") :: pf
  let stats := fieldD j "stats"
  match (fieldD stats "maxInflight").getNat?.toOption with
  | some m => if m > cfg.nc then pf := ("C05", s!"{m} evaluations in progress at once, num_concurrent {cfg.nc}") :: pf
  | none => pure ()
  if (fieldD stats "dupInflight").getBool?.toOption == some true then
    pf := ("C05", "one individual was being evaluated twice at the same time") :: pf
  -- C09: a run that returned while finished evaluations were still undelivered was repeated with those evaluations
  -- not finished; the delivered results are the same, so the returned report must be the same
  let twin := fieldD j "twin"
  if !twin.isNull then
    if (fieldD twin "sameDelivered").getBool?.toOption == some true
        && (fieldD twin "retA").compress != (fieldD twin "retB").compress then
      pf := ("C09", s!"two runs with the same inputs in which the same results were delivered in the same order returned different reports: {(fieldD twin "retA").compress} when {(fieldD twin "withheld").compress} had finished but were not yet delivered, {(fieldD twin "retB").compress} when they had not finished") :: pf
  -- C02 (sample size 1): the reported objective value is exactly - bit for bit, negative zero included - a value the
  -- objective function returned
  if (fieldD stats "bestBitsOk").getBool?.toOption == some false then
    pf := ("C02", s!"sample size 1: the reported objective value {(fieldD stats "bestText").compress} is not bit for bit any of the values the objective function returned (negative zero and zero are different values)") :: pf
  -- C02: an evaluation that had finished with a value at least one full controller round before the run returned, and
  -- whose result the controller never took, is a lost result when it beats what the run reported
  for pk in ((fieldD stats "parked").getArr?.toOption.getD #[]) do
    match pk.getArr?.toOption.map (·.toList) with
    | some [sd, rd, xj] =>
      match xj.getInt?.toOption with
      | some x =>
        let lastRet := (rounds.toList.reverse.findSome? (fun r => match (fieldD (fieldD r "obs") "ret") with | .null => none | v => some v)).getD Json.null
        let worse : Bool := match (fieldD (fieldD lastRet "ok") "best").getInt?.toOption with
          | some b => decide (x < b)
          | none => lastRet.compress == "\"noIndividuals\""
        if worse then
          pf := ("C02", s!"the evaluation with seed {sd.compress} finished in round {rd.compress} with a value (order code {x}) better than the reported best, the controller ran on for more rounds and never took it: the run returned {lastRet.compress}") :: pf
      | none => pure ()
    | _ => pure ()
  -- C09: a run that ended by itself was repeated with the same completions in the same order, one per round
  let paced := fieldD j "paced"
  if !paced.isNull then
    if (fieldD paced "startsAgree").getBool?.toOption == some false then
      pf := ("C09", s!"two runs with the same inputs and the same results delivered in the same order, once in bursts and once one at a time, evaluated different parameter sets: {(fieldD paced "firstDiff").compress}") :: pf
    else if (fieldD paced "sameDelivered").getBool?.toOption == some true && (fieldD paced "returnedB").getBool?.toOption == some true
        && (fieldD paced "retA").compress != (fieldD paced "retB").compress then
      pf := ("C09", s!"two runs with the same inputs and the same results delivered in the same order, once in bursts and once one at a time, returned different reports: {(fieldD paced "retA").compress} / {(fieldD paced "retB").compress}") :: pf
  -- per-round scan: stop requests, failures, the return value
  let mut stopRound : Option Nat := none        -- first round whose stimulus was an abort request or a failure
  let mut firstFail : Option Nat := none        -- error code of a failure taken before any abort request
  let mut sawAbort := false
  let mut termReq := false                      -- a termination request was taken while the run was still going
  let mut allItems : List (Nat × Nat × Option Int) := []
  let mut allStarts : List ObsStart := []
  let mut retFinal : Json := Json.null
  let mut rn := 0
  let mut prevInflight := 0
  let mut accCount : List (Nat × Nat × Int) := [] -- per individual: accepted results so far, the mean of them (as computed by the harness)
  let mut targetRound : Option Nat := none      -- round in which a completed sample first reached the target
  for rd in rounds do
    match rd.getObjVal? "obs" with
    | .error _ => pure ()
    | .ok obs =>
      let hadStop := stopRound.isSome
      let starts := ((fieldD obs "starts").getArr?.toOption.getD #[]).toList.filterMap (fun x => (parseStart x).toOption)
      let items := ((fieldD obs "items").getArr?.toOption.getD #[]).toList.filterMap (fun x => (parseItem x).toOption)
      let evs := ((fieldD rd "events").getArr?.toOption.getD #[]).toList.filterMap (fun x => (parseEv x).toOption)
      for e in evs do
        match e with
        | .abort => if stopRound.isNone then stopRound := some rn
                    sawAbort := true
                    if retFinal.isNull then termReq := true
        | .complete _ (.fail k) =>
          if stopRound.isNone then stopRound := some rn
          if !sawAbort && firstFail.isNone then firstFail := some k
          sawAbort := true
        | _ => pure ()
      match stopRound with
      | some k => if rn ≥ k && !starts.isEmpty then
          pf := ("C04", s!"round {rn}: {starts.length} evaluation(s) started after a termination request or failure was taken (round {k})") :: pf
          if firstFail.isSome then pf := ("C06", s!"round {rn}: evaluation started after a failure") :: pf
      | none => pure ()
      -- the round in which the first termination request / failure is taken: evaluations that were in flight at that
      -- moment must be told to abort (the abort broadcast is observable through a receiver clone)
      if !hadStop && stopRound == some rn then
        let nCompl := (evs.filter (fun | .complete .. => true | .abort => false)).length
        let siblings := prevInflight - nCompl
        if siblings > 0 && (fieldD obs "abort").getBool?.toOption == some false then
          if firstFail.isSome then
            pf := ("C06", s!"round {rn}: an evaluation failed with {siblings} other evaluation(s) in flight and they were not told to abort") :: pf
          else
            pf := ("C04", s!"round {rn}: a termination request was taken with {siblings} evaluation(s) in flight and they were not told to abort") :: pf
      prevInflight := (fieldD obs "inflight").getNat?.toOption.getD 0
      allItems := allItems ++ items
      allStarts := allStarts ++ starts
      if !(fieldD obs "ret").isNull then retFinal := fieldD obs "ret"
      -- C04 (target): per individual the accepted results in processing order; a sample is complete after
      -- sample-size results and its summary is the mean the implementation computed (`acc: [x, mean]`)
      for e in evs do
        match e with
        | .complete sd (.acc x m) =>
          match items.find? (fun (_, isd, _) => isd == sd) with
          | some (iid, _, ival) =>
            -- the record the controller made of this evaluation: a finite result is never turned into a rejection
            -- (a lost result: the best-seen is no longer a minimum over all accepted evaluations), nor changed
            match ival with
            | none => pf := ("C02", s!"evaluation with seed {sd} returned the finite value with order code {x} and was recorded as REJECTED: an accepted result was lost") :: pf
            | some y => if y != x then pf := ("C02", s!"evaluation with seed {sd} returned the value with order code {x}, the record says {y}") :: ("C14", s!"evaluation with seed {sd} returned the value with order code {x}, the record says {y}") :: pf
            let cnt := (accCount.find? (·.1 == iid)).map (·.2.1) |>.getD 0
            accCount := (iid, cnt + 1, m) :: accCount.filter (·.1 != iid)
            if cnt + 1 == ss then
              match cfg.target with
              | some t => if F64.le (.fin m) t && targetRound.isNone then targetRound := some rn
              | none => pure ()
          | none => pure ()
        | .complete sd .rej =>
          match items.find? (fun (_, isd, _) => isd == sd) with
          | some (iid, _, _) => accCount := accCount.filter (·.1 != iid)
          | none => pure ()
        | _ => pure ()
      match targetRound with
      | some k =>
        if rn == k && retFinal.isNull then
          pf := ("C04", s!"round {rn}: a completed sample brought the best-seen objective to or below the target but the run did not return") :: pf
        if rn > k && !starts.isEmpty then
          pf := ("C04", s!"round {rn}: evaluation started after the target had been reached (round {k})") :: pf
      | none => pure ()
      -- C05 (work conservation): while the run is neither stopping nor returned, exactly
      -- min(num_concurrent, remaining budget) evaluations are in progress after every round
      if stopRound.isNone && retFinal.isNull && targetRound.isNone then
        let completed := allItems.length
        let want := match cfg.maxEval with | some n => Nat.min cfg.nc (n - completed) | none => cfg.nc
        match (fieldD obs "inflight").getNat?.toOption with
        | some have_ => if have_ != want then
            pf := ("C05", s!"round {rn}: {have_} evaluation(s) in progress, expected min(num_concurrent {cfg.nc}, remaining budget) = {want}") :: pf
        | none => pure ()
    rn := rn + 1
  let accItems := allItems.filterMap (fun (i, sd, x) => x.map (fun v => (v, i, sd)))
  let nRej := (allItems.filter (fun (_, _, x) => x.isNone)).length
  -- C06: the first failure (before any termination request) is the run's result
  match firstFail with
  | some k =>
    if !retFinal.isNull && retFinal.compress != (Json.mkObj [("err", k)]).compress then
      pf := ("C06", s!"first failure had code {k} but the run returned {retFinal.compress}") :: pf
  | none => pure ()
  -- C03 (exact use of the budget): no termination request, no failure, target not reached, the run returned a report
  match cfg.maxEval, retFinal.getObjVal? "ok" with
  | some n, .ok okj =>
    if stopRound.isNone && targetRound.isNone then
      let a := (fieldD okj "acc").getNat?.toOption.getD 0
      let rj := (fieldD okj "rej").getNat?.toOption.getD 0
      if allStarts.length != n || a + rj != n then
        pf := ("C03", s!"budget {n}, nothing else ended the run, but {allStarts.length} evaluations were started and the report counts {a} completed + {rj} rejected") :: pf
  | _, _ => pure ()
  -- C04 (target): a run that returns a report although nobody asked it to stop, nothing failed and its budget is not
  -- used up can only have ended by its target: then the best-seen objective is at or below the target
  match cfg.target, retFinal.getObjVal? "ok" with
  | some t, .ok okj =>
    let a := (fieldD okj "acc").getNat?.toOption.getD 0
    let rj := (fieldD okj "rej").getNat?.toOption.getD 0
    let budgetLeft := match cfg.maxEval with | some n => decide (a + rj < n) | none => true
    match (fieldD okj "best").getInt?.toOption with
    | some b =>
      if stopRound.isNone && budgetLeft && !(F64.le (.fin b) t) then
        pf := ("C04", s!"the run returned as target-terminated (no stop request, no failure, budget not used up) with a best-seen objective (order code {b}) ABOVE the target {repr t}") :: pf
    | none => pure ()
  | _, _ => pure ()
  -- C02 (sample size > 1): the reported objective is the mean of exactly sample-size returns of ONE individual
  match retFinal.getObjVal? "ok" with
  | .ok okj =>
    if ss > 1 then
      let best := (fieldD okj "best").getInt?.toOption.getD 0
      if !(accCount.any (fun (_, cnt, m) => cnt == ss && m == best)) then
        pf := ("C02", s!"sample size {ss}: the reported objective {best} is not the mean of exactly {ss} accepted results of one individual") :: pf
  | .error _ => pure ()
  -- C14 / C02 / C04 on a success report
  match retFinal.getObjVal? "ok" with
  | .ok okj =>
    let a := (fieldD okj "acc").getNat?.toOption.getD 0
    let rj := (fieldD okj "rej").getNat?.toOption.getD 0
    if a != accItems.length || rj != nRej then
      pf := ("C14", s!"report counts {a}/{rj}, processed evaluations {accItems.length} accepted / {nRej} rejected") :: pf
    if ss == 1 then
      let best := (fieldD okj "best").getInt?.toOption.getD 0
      let bv := (fieldD okj "value").getStr?.toOption.getD ""
      match accItems with
      | [] => pf := ("C02", "success report without any accepted evaluation") :: pf
      | (x0, i0, s0) :: rest =>
        let (mx, mi, _) := rest.foldl (fun (bx, bi, bs) (x, i, sd) => if x < bx || (x == bx && i < bi) then (x, i, sd) else (bx, bi, bs)) (x0, i0, s0)
        if best != mx then pf := ("C02", s!"reported best {best} is not the minimum {mx} of the accepted evaluations") :: pf
        else if !(allStarts.any (fun st => st.v == bv && accItems.any (fun (x, i, _) => x == mx && i == st.id))) then
          pf := ("C02", s!"reported best-seen value {bv} was not evaluated with the minimum result") :: pf
      match cfg.target with
      | some t => if accItems.any (fun (x, _, _) => F64.le (.fin x) t) && !(F64.le (.fin best) t) then
          pf := ("C04", "an accepted evaluation reached the target but the reported best is above it") :: pf
      | none => pure ()
  | .error _ => pure ()
  -- C04: a run ended by a termination request still yields the best result seen so far rather than an error (a
  -- failure that only happens while draining does not replace it); decided on the raw observations at sample size 1
  if termReq && firstFail.isNone && ss == 1 && !accItems.isEmpty then
    match retFinal.getObjVal? "err" with
    | .ok e => pf := ("C04", s!"a terminated run with {accItems.length} accepted evaluation(s) returned the error {e.compress} of an evaluation that failed while draining instead of the best result") :: pf
    | .error _ => pure ()
  if retFinal.compress == "\"noIndividuals\"" && !accItems.isEmpty then
    if ss == 1 then
      pf := ("C02", "run ended with NoIndividuals although an evaluation was accepted") :: ("C04", "run ended with NoIndividuals although an evaluation was accepted") :: pf
    else if firstFail.isNone && termReq then
      pf := ("C04", s!"KF1 sample size {ss}: run ended with NoIndividuals although {accItems.length} evaluation(s) were accepted (no individual completed its sample)") :: pf
  -- C08 on the observed hand-outs
  let ids := allStarts.map (·.id)
  for st in allStarts do
    if allStarts.any (fun o => o.id == st.id && o.v != st.v) then
      pf := ("C08", s!"individual {st.id} was evaluated with two different parameter sets") :: pf
    if ss ≥ 1 && ids.count st.id > ss then
      pf := ("C08", s!"individual {st.id} was evaluated {ids.count st.id} times, sample size {ss}") :: pf
  match allStarts.head?, initV with
  | some st, some v0 => if st.v != v0 then
      pf := ("C08", s!"the first individual of the run is {st.v}, expected the initial value {v0}") :: pf
  | _, _ => pure ()
  -- C11: a guess that conforms (the reader accepts it: `initV`) must not be refused by the run
  if (fieldD cfgJ "hasGuess").getBool?.toOption == some true && initV.isSome && allStarts.isEmpty then
    if retFinal.compress == "\"badGuess\"" || !(retFinal.getObjVal? "otherError").toOption.isNone then
      pf := ("C11", s!"a conforming guess ({(fieldD cfgJ "guess").compress}) was refused by the run: {retFinal.compress}") ::
            ("C08", "an explicit initial guess that conforms was refused instead of being the first individual") :: pf
  -- C11: a rejected guess must not lead to any evaluation
  if initV.isNone && !allStarts.isEmpty then pf := ("C11", "evaluation started although the initial guess was rejected") :: pf
  let kind := match pf, r.verdict with
    | _ :: _, _ => "PROPFAIL"
    | [], some (k, _) => k
    | [], none => "ok"
  let what := match pf, r.verdict with
    | (_, w) :: _, _ => w
    | [], some (_, w) => w
    | [], none => ""
  return { case, kind, props := (pf.map (·.1)).eraseDups, what, tags := r.tags, size := r.nEvents,
           dis := (match r.verdict with | some ("DISAGREE", w) => w | _ => ""),
           fails := pf.map (fun (p, w) => p ++ ": " ++ w) }

/-- one long run (hundreds of thousands of evaluations): the facts about seeds and ids gathered by the harness -/
def replayLong (j : Json) : R Verdict := do
  let case ← asNat (fieldD j "case")
  let n ← asNat (← field j "n")
  let want := (fieldD (fieldD j "cfg") "longEvals").getNat?.toOption.getD 0
  let mut pf : List (String × String) := []
  let d := fieldD j "dupSeed"
  if !d.isNull then
    pf := ("C08", s!"two evaluations of one run received the same seed: (seed, first evaluation, second evaluation) = {d.compress} in a run of {n} evaluations") :: pf
  if !(fieldD j "idTwoValues").isNull then
    pf := ("C08", s!"individual {(fieldD j "idTwoValues").compress} was evaluated with two different parameter sets (run of {n} evaluations)") :: pf
  if !(fieldD j "overSampled").isNull then
    pf := ("C08", s!"(individual, evaluations) = {(fieldD j "overSampled").compress}: evaluated more often than the sample size (run of {n} evaluations)") :: pf
  if n > want then pf := ("C03", s!"{n} evaluations started, budget {want}") :: pf
  let dis := if (fieldD (fieldD j "ret") "ok").isNull then s!"a long run with a budget of {want} evaluations ended with {(fieldD j "ret").compress}"
             else if n != want then s!"a long run with a budget of {want} started {n} evaluations" else ""
  let kind := if !pf.isEmpty then "PROPFAIL" else if dis != "" then "DISAGREE" else "ok"
  return { case, kind, props := (pf.map (·.1)).eraseDups, what := (pf.reverse.head?.map (·.2)).getD dis, tags := ["long-run"], size := n,
           dis, fails := pf.reverse.map (fun (p, w) => p ++ ": " ++ w) }

end Driver.CtlReplay
