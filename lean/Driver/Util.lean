import Lean.Data.Json
import CambrianModel.Model.F64
open Lean
namespace Driver

abbrev R := Except String

def field (j : Json) (k : String) : R Json := j.getObjVal? k
def fieldD (j : Json) (k : String) : Json := (j.getObjVal? k).toOption.getD Json.null
def asNat (j : Json) : R Nat := j.getNat?
def asInt (j : Json) : R Int := j.getInt?
def asStr (j : Json) : R String := j.getStr?
def asArr (j : Json) : R (Array Json) := j.getArr?
def asBool (j : Json) : R Bool := j.getBool?
def optNat (j : Json) : R (Option Nat) := if j.isNull then pure none else some <$> j.getNat?
def optInt (j : Json) : R (Option Int) := if j.isNull then pure none else some <$> j.getInt?

/-- "nan" | "ninf" | "pinf" | {"fin": code} -/
def asF64 (j : Json) : R Cambrian.F64 :=
  match j with
  | .str "nan" => pure .nan
  | .str "ninf" => pure .ninf
  | .str "pinf" => pure .pinf
  | _ => do let c ← (← field j "fin").getInt?; pure (.fin c)
def optF64 (j : Json) : R (Option Cambrian.F64) := if j.isNull then pure none else some <$> asF64 j

structure Verdict where
  case : Nat := 0
  kind : String := "ok"          -- ok | DISAGREE | PROPFAIL | ERROR
  props : List String := []      -- properties concerned
  what : String := ""
  tags : List String := []       -- coverage tags
  size : Nat := 0                -- e.g. number of events replayed
  fails : List String := []      -- every property-predicate failure, "Cxx: what"
  dis : String := ""             -- model / implementation disagreement (reported also when `fails` is non-empty)

def Verdict.toJson (v : Verdict) : Json :=
  Json.mkObj [("case", v.case), ("verdict", v.kind), ("props", Json.arr (v.props.map Json.str).toArray),
              ("what", v.what), ("tags", Json.arr (v.tags.map Json.str).toArray), ("size", v.size),
              ("fails", Json.arr (v.fails.map Json.str).toArray),
              ("dis", v.dis)]

end Driver
