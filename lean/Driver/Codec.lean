import Driver.Decode
open Lean Cambrian
namespace Driver.CodecReplay

def replay (j : Json) : R Verdict := do
  let case ← asNat (fieldD j "case")
  let s ← decSpec (← field j "spec")
  let (doc, casts) ← decJ (← field j "json") []
  let cast := mkCast casts
  let kind ← asStr (← field j "kind")
  let imp ← field j "impl"
  let mut tags : List String := ["kind:" ++ kind] ++ (specKinds s).map ("root:" ++ ·)
  match (fieldD j "defect").getStr?.toOption with | some d => tags := ("defect:" ++ d) :: tags | none => pure ()
  if !wf s then
    return { case, kind := "ERROR", what := "generator produced a spec that is not well-formed" }
  let model := fromJson cast s doc
  let mut pf : List (String × String) := []
  let mut dis : Option String := none
  if (fieldD imp "panic").getBool?.toOption == some true then
    pf := ("C11", "reading the guess crashed (panic)") :: ("C15", "reading the guess crashed (panic)") :: pf
  else
    match imp.getObjVal? "ok" with
    | .ok vj =>
      let v ← decValue vj
      tags := "impl:accept" :: tags
      if !conf s v then
        pf := ("C11", s!"a guess that does not conform to the spec was accepted ({(fieldD j "defect").compress})") ::
              ("C01", "a guess that does not conform to the spec was accepted") :: pf
      match model with
      | .ok mv => if mv != v then
          dis := some "accepted values differ"
          pf := ("C11", "an accepted guess was read as a different value than the one written") ::
                ("C08", "an explicit initial guess would not be the first individual: it is read as a different value than the one written") :: pf
      | .error e =>
        dis := some s!"impl accepts, model rejects ({repr e})"
        -- a number the declared integer type cannot hold (beyond i64, or not whole) has no reading at all: whatever
        -- value was made of it is not the one written
        if e == .numberConversion then
          pf := ("C11", s!"a guess holding a number that is not a value of the declared integer type was accepted and read as {(fieldD imp "back").compress}: not the value written") ::
                ("C08", "an explicit initial guess would not be the first individual: a number outside the integer type was read as another number") :: pf
        -- a guess built from a conforming value by ONE defect (wrong array length, size out of bounds, unknown
        -- key / option, out-of-bounds number ...) does not conform by construction: accepting it fails C11
        match (fieldD j "defect").getStr?.toOption with
        | some d => if kind == "value-defect" then
            pf := ("C11", s!"a guess that does not conform to the spec ({d}) was accepted") :: pf
        | none => pure ()
      -- serialising the accepted value again
      let backJ := fieldD imp "back"
      if backJ.isNull then
        pf := ("C11", "serialising the accepted guess crashed") :: ("C15", "to_json panicked") :: pf
      else
        let (back, _) ← decJ backJ []
        if jsonable v && sortJ (toJson v) != sortJ back then dis := some "to_json of the accepted value differs from the model's toJson"
        if kind == "roundtrip" && sortJ back != sortJ doc then
          pf := ("C11", "value -> JSON -> value -> JSON is not the same JSON") :: pf
        else if kind == "roundtrip" then
          match (fieldD imp "backText").getStr?.toOption, (fieldD imp "guessText").getStr?.toOption with
          | some bt, some gt => if bt != gt then
              pf := ("C11", s!"value -> JSON -> value -> JSON is not the same JSON TEXT: {gt.take 120} became {bt.take 120}") :: pf
          | _, _ => pure ()
    | .error _ =>
      tags := "impl:reject" :: tags
      match model with
      | .ok _ => dis := some s!"impl rejects ({(fieldD imp "rej").compress}), model accepts"
      | .error e => tags := s!"rej:{repr e}" :: tags
      if kind == "roundtrip" then
        pf := ("C11", "the JSON of a conforming value was rejected as a guess") :: pf
  -- the round-trip input: the model's own serialisation must be what the implementation produced
  if kind == "roundtrip" then
    let v ← decValue (← field j "value")
    if !conf s v then return { case, kind := "ERROR", what := "generator produced a value that does not conform" }
    if sortJ (toJson v) != sortJ doc then
      dis := some "to_json differs from the model's toJson"
      -- the JSON handed to the objective function is `to_json` of the (conforming) value: it must carry every
      -- declared key and no other, arrays of the declared length, ... i.e. be the JSON of that value
      pf := ("C01", "the JSON written for a conforming value is not the JSON of that value (a declared key / element is missing, extra or different)") ::
            ("C16", "the JSON written for a conforming value is not the JSON of that value") :: pf
  let kindV := if !pf.isEmpty then "PROPFAIL" else if dis.isSome then "DISAGREE" else "ok"
  let what := match pf, dis with | (_, w) :: _, _ => w | [], some d => d | [], none => ""
  return { case, kind := kindV, props := (pf.map (·.1)).eraseDups, what, tags, size := 1, dis := dis.getD "",
           fails := pf.map (fun (p, w) => p ++ ": " ++ w) }

end Driver.CodecReplay
