//! K-codec: `Value::to_json` and `value_util::from_json_value` against the model's `toJson` / `fromJson`.
use crate::enc::*;
use crate::gen::*;
use crate::util::Rng;
use cambrian::{spec, value, value_util};
use serde_json::{json, Value as J};

fn run_case(spec: &spec::Spec, guess: &J, kind: &str, tag: Option<&str>, orig: Option<&value::Value>) -> J {
    // reading the guess must not panic
    let res = std::panic::catch_unwind(|| value_util::from_json_value(guess, spec));
    let imp = match res {
        Err(_) => json!({"panic": true}),
        Ok(Err(e)) => json!({"rej": format!("{:?}", e).split(|c: char| !c.is_alphanumeric()).next().unwrap_or("").to_string()}),
        Ok(Ok(v)) => {
            // serialising what was read must not panic either; it is compared with the guess
            let back = std::panic::catch_unwind(|| v.to_json());
            // the JSON TEXT written for what was read (the two zeros differ in text, not in value)
            let back_text = back.as_ref().ok().map(|b| crate::util::canon(b));
            json!({"ok": enc_value(&v.0), "back": back.ok().map(|b| enc_json(&b)), "backText": back_text, "guessText": crate::util::canon(guess)})
        }
    };
    let mut line = json!({"mode": "codec", "kind": kind, "spec": enc_spec(&spec.0), "json": enc_json(guess), "impl": imp});
    if let Some(t) = tag { line["defect"] = json!(t); }
    if let Some(v) = orig { line["value"] = enc_value(&v.0); }
    line
}

pub fn gen_case(rng: &mut Rng, thorough: bool) -> J {
    let cfg = if thorough { GenCfg::thorough() } else { GenCfg::quick() };
    let d0 = if rng.chance(1, 4) { cfg.max_depth - 1 } else { 0 };
    let spec = spec::Spec(gen_spec(rng, &cfg, d0));
    match rng.below(11) {
        10 => {
            // object encoding of resizable maps with ALIASED key spellings ("01", "+1", "001" all parse to 1): the
            // entries collapse, so the number of JSON members is not the size of the map that is read
            let v = value::Value(gen_value(rng, &spec.0, &cfg));
            let mut j = v.to_json();
            alias_keys(rng, &spec.0, &mut j);
            run_case(&spec, &j, "alias-keys", None, None)
        }
        0..=4 => {
            // a conforming value: to_json, then read it back
            let v = value::Value(gen_value(rng, &spec.0, &cfg));
            let j = v.to_json();
            run_case(&spec, &j, "roundtrip", None, Some(&v))
        }
        5 => {
            // the array encoding of resizable maps: re-encode top-level-reachable maps as arrays
            let v = value::Value(gen_value(rng, &spec.0, &cfg));
            let mut j = v.to_json();
            arrayify(rng, &spec.0, &mut j);
            run_case(&spec, &j, "array-encoding", None, None)
        }
        6 | 7 => {
            // one defect introduced into a conforming value
            let mut v = value::Value(gen_value(rng, &spec.0, &cfg));
            let tag = corrupt_value(rng, &spec.0, &mut v.0, &cfg);
            let j = v.to_json();
            run_case(&spec, &j, "value-defect", tag, None)
        }
        8 => {
            let v = value::Value(gen_value(rng, &spec.0, &cfg));
            let mut j = v.to_json();
            corrupt_json(rng, &mut j);
            run_case(&spec, &j, "json-defect", None, None)
        }
        _ => { let j = gen_json(rng, 0); run_case(&spec, &j, "arbitrary", None, None) }
    }
}

/// at resizable maps: add an alias of an existing key, respell a key, or replace a key by an alias of another one
fn alias_keys(rng: &mut Rng, s: &spec::Node, j: &mut J) {
    match (s, &mut *j) {
        (spec::Node::AnonMap { value_type, .. }, J::Object(m)) => {
            let ks: Vec<String> = m.keys().cloned().collect();
            for k in &ks { if let Some(c) = m.get_mut(k) { alias_keys(rng, value_type, c); } }
            if ks.is_empty() { return; }
            let spell = |rng: &mut Rng, k: &str| -> String { match rng.below(3) { 0 => format!("0{k}"), 1 => format!("+{k}"), _ => format!("00{k}") } };
            let k = ks[rng.below(ks.len() as u64) as usize].clone();
            match rng.below(3) {
                0 => { let v = m[&k].clone(); let a = spell(rng, &k); m.insert(a, v); }                       // one more member, same map
                1 => { let v = m.remove(&k).unwrap(); let a = spell(rng, &k); m.insert(a, v); }               // respelled
                _ => {                                                                                          // same member count, one entry fewer
                    if ks.len() >= 2 {
                        let other = ks.iter().find(|x| **x != k).unwrap().clone();
                        let v = m.remove(&k).unwrap();
                        let a = spell(rng, &other);
                        m.insert(a, v);
                    }
                }
            }
        }
        (spec::Node::Sub { map }, J::Object(m)) => { for (k, cs) in map { if let Some(c) = m.get_mut(k) { alias_keys(rng, cs, c); } } }
        (spec::Node::Array { value_type, .. }, J::Array(a)) => { for c in a.iter_mut() { alias_keys(rng, value_type, c); } }
        (spec::Node::Variant { map, .. }, J::Object(m)) => { for (k, c) in m.iter_mut() { if let Some(cs) = map.get(k) { alias_keys(rng, cs, c); } } }
        (spec::Node::Optional { value_type, .. }, other) => { if !other.is_null() { alias_keys(rng, value_type, other); } }
        _ => {}
    }
}

/// rewrite the JSON objects that encode resizable maps into arrays (the second accepted encoding), where the
/// spec says so, with probability 1/2 each
fn arrayify(rng: &mut Rng, s: &spec::Node, j: &mut J) {
    match (s, &mut *j) {
        (spec::Node::AnonMap { value_type, .. }, J::Object(m)) => {
            let mut ks: Vec<(usize, String)> = m.keys().filter_map(|k| k.parse::<usize>().ok().map(|n| (n, k.clone()))).collect();
            ks.sort();
            let mut vals: Vec<J> = ks.iter().map(|(_, k)| m[k].clone()).collect();
            for v in vals.iter_mut() { arrayify(rng, value_type, v); }
            if rng.chance(1, 2) { *j = J::Array(vals); } else { for ((_, k), v) in ks.iter().zip(vals) { m.insert(k.clone(), v); } }
        }
        (spec::Node::Sub { map }, J::Object(m)) => { for (k, cs) in map { if let Some(c) = m.get_mut(k) { arrayify(rng, cs, c); } } }
        (spec::Node::Array { value_type, .. }, J::Array(a)) => { for c in a.iter_mut() { arrayify(rng, value_type, c); } }
        (spec::Node::Variant { map, .. }, J::Object(m)) => { for (k, c) in m.iter_mut() { if let Some(cs) = map.get(k) { arrayify(rng, cs, c); } } }
        (spec::Node::Optional { value_type, .. }, other) => { if !other.is_null() { arrayify(rng, value_type, other); } }
        _ => {}
    }
}
