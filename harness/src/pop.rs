//! K-pop: the real `AlgoContext` driven directly (hooks H1/H2): random interleavings of `next_individual` and
//! `process_individual_eval` (accepted values incl. ties, -0.0, monotone sequences, far more than the population
//! cap; rejections), sample sizes 1..4, several individuals in flight.  After EVERY operation the whole ranked
//! population (id, ordering key, state, stored samples) is written; the driver replays the operations through
//! the L5 model (`Algo.next` / `Algo.proc`) and compares the populations entry by entry, plus `best_seen_final`.
use crate::gen::*;
use crate::util::*;
use cambrian::verif_hooks::AlgoContext;
use cambrian::{spec, value};
use serde_json::{json, Value as J};
use std::panic::{catch_unwind, AssertUnwindSafe};
use tangram_finite::FiniteF64;

/// the whole ranked population while it is small and at every 16th operation; otherwise its length, its first
/// three and its last entry (what insertion at the front and eviction at the back change)
fn snapshot(ctx: &AlgoContext, full: bool) -> J {
    let pop: Vec<J> = ctx.verif_population().iter().map(|e| {
        json!([e.id, order_code(e.key_obj_func_val), e.state_tag, e.samples.iter().map(|x| order_code(*x)).collect::<Vec<_>>()])
    }).collect();
    let best = ctx.best_seen_final().map(|(x, v)| json!([order_code(x.get()), canon(&v.to_json())]));
    if full || pop.len() <= 12 {
        json!({"pop": pop, "nextId": ctx.verif_next_id(), "best": best})
    } else {
        json!({"len": pop.len(), "head": pop[..3].to_vec(), "last": pop[pop.len() - 1], "nextId": ctx.verif_next_id(), "best": best})
    }
}

pub fn gen_case(rng: &mut Rng, thorough: bool) -> J {
    let mut cfg = GenCfg::quick();
    cfg.max_depth = 2; cfg.max_width = 3; cfg.max_array = 3; cfg.max_map = 3;
    let spec = spec::Spec(gen_spec(rng, &cfg, 1));
    let sample_size = match rng.below(8) { 0..=2 => 1, 3..=4 => 2, 5..=6 => 3, _ => 4 } as usize;
    let guess = if rng.chance(1, 4) { Some(value::Value(gen_value(rng, &spec.0, &cfg))) } else { None };
    let n_steps = if rng.chance(1, 3) { if thorough { 400 + rng.below(1500) } else { 260 + rng.below(200) } } else { 20 + rng.below(120) } as usize;
    let pool = rng.below(7);
    let rej_permille = *rng.pick(&[0u64, 0, 100, 400]);
    let width = 1 + rng.below(5) as usize;
    let mut ops: Vec<J> = Vec::new();
    let init_val = guess.clone().unwrap_or_else(|| spec.initial_value());
    let res = catch_unwind(AssertUnwindSafe(|| {
        let mut ctx = AlgoContext::new(spec.clone(), sample_size, None, guess.clone());
        let mut inflight = Vec::new();
        for step in 0..n_steps {
            // hand out until `width` are in flight (sometimes fewer), then complete one of them
            while inflight.len() < width && (inflight.is_empty() || rng.chance(3, 4)) {
                let ind = ctx.next_individual();
                let (tag, samples) = ind.verif_state();
                ops.push(json!({"op": "next", "id": ind.id, "v": canon(&ind.value.to_json()), "state": tag,
                                "samples": samples.iter().map(|x| order_code(*x)).collect::<Vec<_>>(), "after": snapshot(&ctx, false)}));
                inflight.push(ind);
            }
            let k = rng.below(inflight.len() as u64) as usize;
            let ind = inflight.remove(k);
            let id = ind.id;
            let mut samples: Vec<f64> = ind.verif_state().1;
            let val = if rng.below(1000) < rej_permille { None } else {
                Some(match pool {
                    0 => { let k = rng.range(-3, 3); if k == 0 && rng.chance(1, 2) { -0.0 } else { k as f64 } }
                    1 => -(step as f64),
                    2 => step as f64,
                    3 => (rng.range(-1000, 1000) as f64) * 1e297,
                    4 => 1.0,                                   // plateau: every result ties
                    5 => if rng.chance(9, 10) { 1.0 } else { 2.0 + step as f64 },
                    _ => rng.range(-50, 50) as f64 / 8.0,
                })
            };
            let summ = val.map(|x| { samples.push(x); order_code(mean_like_impl(&samples)) });
            ctx.process_individual_eval(ind, val.map(|x| FiniteF64::new(x).unwrap()));
            ops.push(json!({"op": "proc", "id": id, "res": val.map(order_code), "summ": summ, "after": snapshot(&ctx, step % 16 == 0 || step + 1 == n_steps)}));
        }
    }));
    let mut line = json!({"mode": "pop", "sampleSize": sample_size, "init": canon(&init_val.to_json()), "ops": ops, "pool": pool});
    if let Err(e) = res { line["runPanic"] = json!(if let Some(s) = e.downcast_ref::<&str>() { s.to_string() } else if let Some(s) = e.downcast_ref::<String>() { s.clone() } else { "panic".into() }); }
    line
}
