//! K-sel / K-live / K-mix / benchmark battery (C17) and twin runs (C09).
//!
//! * `sel`:   `SelectionImpl::select_ref` drawn many times on `n` ranked items; the driver compares the counts with the
//!            exact distribution `selPmf` of the Lean model (6-sigma band) and checks monotonicity.
//! * `live`:  `mutation::mutate` at probability 1, many attempts from the same input: the driver checks `liveOne` on
//!            every attempt (theorem side) and that every numeric leaf with scale >= 1 changed in some attempt.
//! * `mix`:   `Crossover::crossover` at crossover probability 1 on parents differing in >= 2 positions: some offspring
//!            equals no parent.
//! * `bench`: whole runs on problems with a known optimum; the driver holds the stated thresholds.
//! * `twin`:  the same scripted run twice in this process and once more in a fresh process; full traces compared.
use crate::enc::*;
use crate::gen::*;
use crate::util::*;
use async_trait::async_trait;
use cambrian::crossover::Crossover;
use cambrian::error::Error;
use cambrian::message::Command;
use cambrian::meta::{AlgoConfig, AsyncObjectiveFunction, CrossoverParams, MutationParams};
use cambrian::verif_hooks::{PathContext, Selection, SelectionImpl};
use cambrian::{async_launch, mutation, spec, spec_util, value};
use futures::channel::mpsc;
use rand::rngs::StdRng;
use rand::SeedableRng;
use rustc_hash::FxHashMap;
use serde_json::{json, Value as J};
use std::sync::{Arc, Mutex};

// ------------------------------------------------------------------------------------------------ K-sel

/// rank selection as the operators use it: the presence of an `optional` node is inherited from a parent picked by
/// rank selection, so with exactly one absent parent at rank r the offspring is absent with probability selPmf(r)
pub fn gen_sel_opt(rng: &mut Rng, thorough: bool) -> J {
    let n = 3 + rng.below(8) as usize;
    let num = match rng.below(5) { 0 => 0, 1 => 3, 2 => 8, _ => rng.below(16) };
    let p = num as f64 / 16.0;
    let draws: u64 = if thorough { 200_000 } else { 20_000 };
    let none_rank = match rng.below(3) { 0 => 0, 1 => n - 1, _ => rng.below(n as u64) as usize };
    let spec = spec::Spec(spec::Node::Optional { value_type: Box::new(spec::Node::Int { init: 0, scale: 1.0, min: None, max: None }), init_present: true });
    let parents: Vec<value::Value> = (0..n).map(|i| value::Value(value::Node::Optional(if i == none_rank { None } else { Some(Box::new(value::Node::Int(i as i64))) }))).collect();
    let refs: Vec<&value::Value> = parents.iter().collect();
    let cparams = CrossoverParams { crossover_prob: 1.0, selection_pressure: p };
    let crossover = Crossover::new();
    let mut std_rng = StdRng::seed_from_u64(rng.next());
    let mut path_ctx = PathContext::default();
    for q in &parents { path_ctx.add_nodes_for(q); }
    let mut none_count = 0u64;
    for _ in 0..draws {
        let out = crossover.crossover(&spec, &refs, &cparams, &mut path_ctx, &mut std_rng);
        if matches!(out.0, value::Node::Optional(None)) { none_count += 1; }
    }
    json!({"mode": "selopt", "pNum": num, "pDen": 16, "n": n, "draws": draws, "noneRank": none_rank, "noneCount": none_count})
}

pub fn gen_sel(rng: &mut Rng, thorough: bool) -> J {
    if rng.chance(1, 4) { return gen_sel_opt(rng, thorough); }
    let n = 1 + rng.below(10) as usize;
    let num = match rng.below(6) { 0 => 0, 1 => 16, 2 => 15, 3 => 1, _ => rng.below(17) };
    let p = num as f64 / 16.0;
    let draws: u64 = if thorough { 400_000 } else { 40_000 };
    let items: Vec<usize> = (0..n).collect();
    let refs: Vec<&usize> = items.iter().collect();
    let mut std_rng = StdRng::seed_from_u64(rng.next());
    let sel = SelectionImpl::new();
    let mut counts = vec![0u64; n];
    let via_value = rng.chance(1, 3);
    for _ in 0..draws {
        let k = if via_value { sel.select_value(&items, p, &mut std_rng) } else { *sel.select_ref(&refs, p, &mut std_rng) };
        counts[k] += 1;
    }
    json!({"mode": "sel", "pNum": num, "pDen": 16, "n": n, "draws": draws, "counts": counts, "viaValue": via_value})
}

// ------------------------------------------------------------------------------------------------ K-live

/// numeric leaves of moderate magnitude and scale >= 1 (the property's "unpinned reals and integers (scale >= 1)")
fn moderate(n: &mut spec::Node, rng: &mut Rng) {
    match n {
        spec::Node::Real { init, scale, min, max } => {
            let c = rng.range(-1000, 1000) as f64 / 4.0;
            let w = *rng.pick(&[0.5, 3.0, 50.0, 1000.0]);
            *min = if rng.chance(1, 2) { Some(c - w) } else { None };
            *max = if rng.chance(1, 2) { Some(c + w) } else { None };
            *init = match rng.below(3) { 0 => min.unwrap_or(c), 1 => max.unwrap_or(c), _ => c };
            *scale = *rng.pick(&[1.0, 2.5, 10.0, 100.0]);
        }
        spec::Node::Int { init, scale, min, max } => {
            let c = rng.range(-1000, 1000);
            let w = *rng.pick(&[1i64, 3, 50, 1000]);
            *min = if rng.chance(1, 2) { Some(c - w) } else { None };
            *max = if rng.chance(1, 2) { Some(c + w) } else { None };
            *init = match rng.below(3) { 0 => min.unwrap_or(c), 1 => max.unwrap_or(c), _ => c };
            *scale = *rng.pick(&[1.0, 2.5, 10.0, 100.0]);
        }
        spec::Node::Sub { map } | spec::Node::Variant { map, .. } => { let mut ks: Vec<String> = map.keys().cloned().collect(); ks.sort(); for k in ks { moderate(map.get_mut(&k).unwrap(), rng); } }
        spec::Node::Array { value_type, .. } | spec::Node::AnonMap { value_type, .. } | spec::Node::Optional { value_type, .. } => moderate(value_type, rng),
        _ => {}
    }
}

/// values of moderate magnitude (|x| <= 1e6): beyond 2^53 an integer +- a few units is not representable in the f64
/// arithmetic of `mutate_int`, which is not what "unpinned" means
fn tame(v: &mut value::Node, s: &spec::Node) {
    match (v, s) {
        (value::Node::Int(i), spec::Node::Int { init, .. }) => { if i.unsigned_abs() > 1_000_000 { *i = *init; } }
        (value::Node::Real(x), spec::Node::Real { init, .. }) => { if x.abs() > 1e6 { *x = *init; } }
        (value::Node::Sub(m), spec::Node::Sub { map }) => { for (k, c) in m.iter_mut() { if let Some(cs) = map.get(k) { tame(c, cs); } } }
        (value::Node::Array(l), spec::Node::Array { value_type, .. }) => { for c in l.iter_mut() { tame(c, value_type); } }
        (value::Node::AnonMap(m), spec::Node::AnonMap { value_type, .. }) => { for (_, c) in m.iter_mut() { tame(c, value_type); } }
        (value::Node::Variant(n, c), spec::Node::Variant { map, .. }) => { if let Some(cs) = map.get(n) { tame(c, cs); } }
        (value::Node::Optional(Some(c)), spec::Node::Optional { value_type, .. }) => tame(c, value_type),
        _ => {}
    }
}

pub fn gen_live(rng: &mut Rng, thorough: bool) -> J {
    let mut cfg = if thorough { GenCfg::thorough() } else { GenCfg::quick() };
    cfg.max_depth = 3; cfg.max_width = 3; cfg.max_array = 3; cfg.max_map = 4;
    let d0 = if rng.chance(1, 2) { 1 } else { 0 };
    let mut node = gen_spec(rng, &cfg, d0);
    moderate(&mut node, rng);
    let spec = spec::Spec(node);
    let input = if rng.chance(1, 2) { spec.initial_value() } else { let mut v = gen_value(rng, &spec.0, &cfg); tame(&mut v, &spec.0); value::Value(v) };
    let attempts = 64;
    let mparams = MutationParams { mutation_prob: 1.0, mutation_scale: 1.0 };
    let mut outs = Vec::new();
    let mut panic = None;
    for _ in 0..attempts {
        let mut path_ctx = PathContext::default();
        path_ctx.add_nodes_for(&input);
        let mut std_rng = StdRng::seed_from_u64(rng.next());
        match std::panic::catch_unwind(std::panic::AssertUnwindSafe(|| mutation::mutate(&spec, &input, &mparams, &mut path_ctx, &mut std_rng))) {
            Ok(v) => outs.push(enc_value(&v.0)),
            Err(_) => { panic = Some("mutation panicked"); break; }
        }
    }
    json!({"mode": "live", "spec": enc_spec(&spec.0), "input": enc_value(&input.0), "outs": outs, "panic": panic})
}

// ------------------------------------------------------------------------------------------------ K-mix

pub fn gen_mix(rng: &mut Rng, _thorough: bool) -> J {
    // a sub of k >= 2 discrete leaves (or an array of them); parents pairwise different in >= 2 positions
    let k = 2 + rng.below(4) as usize;
    if rng.chance(1, 7) {
        // a sub with ONE member whose value is itself composite: recombination still happens below it
        let mut inner = FxHashMap::default();
        for k in ["a", "b", "c", "d"] { inner.insert(k.to_string(), Box::new(spec::Node::Bool { init: false })); }
        let mut outer = FxHashMap::default();
        outer.insert("point".to_string(), Box::new(spec::Node::Sub { map: inner }));
        let spec = spec::Spec(spec::Node::Sub { map: outer });
        let mk = |b: bool| { let mut m = FxHashMap::default(); for k in ["a", "b", "c", "d"] { m.insert(k.to_string(), Box::new(value::Node::Bool(b))); } let mut o = FxHashMap::default(); o.insert("point".to_string(), Box::new(value::Node::Sub(m))); value::Value(value::Node::Sub(o)) };
        let parents = vec![mk(false), mk(true)];
        let refs: Vec<&value::Value> = parents.iter().collect();
        let sp = *rng.pick(&[0.0, 0.25]);
        let cparams = CrossoverParams { crossover_prob: 1.0, selection_pressure: sp };
        let crossover = Crossover::new();
        let mut outs = Vec::new();
        for _ in 0..64 {
            let mut path_ctx = PathContext::default();
            for p in &parents { path_ctx.add_nodes_for(p); }
            let mut std_rng = StdRng::seed_from_u64(rng.next());
            let out = crossover.crossover(&spec, &refs, &cparams, &mut path_ctx, &mut std_rng);
            outs.push(enc_value(&out.0));
        }
        return json!({"mode": "mix", "singleMemberSub": true, "spec": enc_spec(&spec.0), "parents": parents.iter().map(|p| enc_value(&p.0)).collect::<Vec<_>>(),
                      "sp": crate::ops::pclass(sp), "outs": outs});
    }
    if rng.chance(1, 6) {
        // three parents at a variant node, two of them on the same alternative with different payloads: when that
        // alternative is picked, its payloads are recombined (mixed), not one parent's copied
        let mut foo = FxHashMap::default();
        foo.insert("x".to_string(), Box::new(spec::Node::Bool { init: false }));
        foo.insert("y".to_string(), Box::new(spec::Node::Bool { init: false }));
        foo.insert("z".to_string(), Box::new(spec::Node::Bool { init: false }));
        let mut map = FxHashMap::default();
        map.insert("foo".to_string(), Box::new(spec::Node::Sub { map: foo }));
        map.insert("bar".to_string(), Box::new(spec::Node::Bool { init: false }));
        let spec = spec::Spec(spec::Node::Variant { map, init: "foo".into() });
        let mk = |b: bool| { let mut m = FxHashMap::default(); for k in ["x", "y", "z"] { m.insert(k.to_string(), Box::new(value::Node::Bool(b))); } value::Node::Variant("foo".into(), Box::new(value::Node::Sub(m))) };
        let mut parents = vec![value::Value(mk(false)), value::Value(mk(true)), value::Value(value::Node::Variant("bar".into(), Box::new(value::Node::Bool(true))))];
        if rng.chance(1, 2) { parents.swap(1, 2); }
        let refs: Vec<&value::Value> = parents.iter().collect();
        let sp = *rng.pick(&[0.0, 0.25]);
        let cparams = CrossoverParams { crossover_prob: 1.0, selection_pressure: sp };
        let crossover = Crossover::new();
        let mut outs = Vec::new();
        for _ in 0..64 {
            let mut path_ctx = PathContext::default();
            for p in &parents { path_ctx.add_nodes_for(p); }
            let mut std_rng = StdRng::seed_from_u64(rng.next());
            let out = crossover.crossover(&spec, &refs, &cparams, &mut path_ctx, &mut std_rng);
            outs.push(enc_value(&out.0));
        }
        return json!({"mode": "mix", "variantPayload": true, "spec": enc_spec(&spec.0), "parents": parents.iter().map(|p| enc_value(&p.0)).collect::<Vec<_>>(),
                      "sp": crate::ops::pclass(sp), "outs": outs});
    }
    if rng.chance(1, 4) {
        // a variant root whose parents carry different alternatives: the offspring's alternative is chosen by rank
        // selection with the SELECTION PRESSURE, so below pressure 1 it is not always the first parent's
        let mut map = FxHashMap::default();
        for name in ["a", "b", "c"] { map.insert(name.to_string(), Box::new(spec::Node::Bool { init: false })); }
        let spec = spec::Spec(spec::Node::Variant { map, init: "a".into() });
        let np = 2 + rng.below(2) as usize;
        let parents: Vec<value::Value> = ["a", "b", "c"][..np].iter().map(|n| value::Value(value::Node::Variant(n.to_string(), Box::new(value::Node::Bool(true))))).collect();
        let refs: Vec<&value::Value> = parents.iter().collect();
        let sp = *rng.pick(&[0.0, 0.5, 0.25]);
        let cparams = CrossoverParams { crossover_prob: 1.0, selection_pressure: sp };
        let crossover = Crossover::new();
        let mut outs = Vec::new();
        for _ in 0..64 {
            let mut path_ctx = PathContext::default();
            for p in &parents { path_ctx.add_nodes_for(p); }
            let mut std_rng = StdRng::seed_from_u64(rng.next());
            outs.push(enc_value(&crossover.crossover(&spec, &refs, &cparams, &mut path_ctx, &mut std_rng).0));
        }
        return json!({"mode": "mix", "variantRoot": true, "spec": enc_spec(&spec.0), "parents": parents.iter().map(|p| enc_value(&p.0)).collect::<Vec<_>>(),
                      "sp": crate::ops::pclass(sp), "outs": outs});
    }
    if rng.chance(1, 4) {
        // three parents that share leaf values pairwise - (T,T), (T,F), (F,T) and the like for ints / reals: at selection
        // pressure < 1 every leaf is still drawn among ALL parents, so the first parent's value does not always win
        let kind = rng.below(3);
        let (node, vals): (spec::Node, [value::Node; 2]) = match kind {
            0 => (spec::Node::Bool { init: false }, [value::Node::Bool(true), value::Node::Bool(false)]),
            1 => (spec::Node::Int { init: 0, scale: 1.0, min: Some(-5), max: Some(5) }, [value::Node::Int(1), value::Node::Int(-2)]),
            _ => (spec::Node::Real { init: 0.0, scale: 1.0, min: None, max: None }, [value::Node::Real(0.25), value::Node::Real(-1.5)]),
        };
        let mut map = FxHashMap::default();
        map.insert("x".to_string(), Box::new(node.clone()));
        map.insert("y".to_string(), Box::new(node));
        let spec = spec::Spec(spec::Node::Sub { map });
        let mk = |a: usize, b: usize| -> value::Value { let mut m = FxHashMap::default(); m.insert("x".to_string(), Box::new(vals[a].clone())); m.insert("y".to_string(), Box::new(vals[b].clone())); value::Value(value::Node::Sub(m)) };
        let parents = vec![mk(0, 0), mk(0, 1), mk(1, 0)];
        let refs: Vec<&value::Value> = parents.iter().collect();
        let sp = *rng.pick(&[0.0, 0.5, 0.25]);
        let cparams = CrossoverParams { crossover_prob: 1.0, selection_pressure: sp };
        let crossover = Crossover::new();
        let mut outs = Vec::new();
        for _ in 0..64 {
            let mut path_ctx = PathContext::default();
            for p in &parents { path_ctx.add_nodes_for(p); }
            let mut std_rng = StdRng::seed_from_u64(rng.next());
            outs.push(enc_value(&crossover.crossover(&spec, &refs, &cparams, &mut path_ctx, &mut std_rng).0));
        }
        return json!({"mode": "mix", "sharedLeaves": true, "spec": enc_spec(&spec.0), "parents": parents.iter().map(|p| enc_value(&p.0)).collect::<Vec<_>>(),
                      "sp": crate::ops::pclass(sp), "outs": outs});
    }
    let as_array = rng.chance(1, 3);
    let leaf = |rng: &mut Rng| -> spec::Node { match rng.below(3) { 0 => spec::Node::Bool { init: false }, 1 => spec::Node::Int { init: 0, scale: 1.0, min: Some(-5), max: Some(5) }, _ => spec::Node::Enum { values: vec!["p".into(), "q".into(), "r".into()], init: "p".into() } } };
    let node = if as_array { spec::Node::Array { value_type: Box::new(leaf(rng)), size: k } } else {
        let mut map = FxHashMap::default();
        for i in 0..k { map.insert(format!("f{i}"), Box::new(leaf(rng))); }
        spec::Node::Sub { map }
    };
    let spec = spec::Spec(node);
    let np = 2 + rng.below(3) as usize;
    let leaf_val = |rng: &mut Rng, s: &spec::Node, j: usize| -> value::Node { match s { spec::Node::Bool { .. } => value::Node::Bool(j % 2 == 1), spec::Node::Int { .. } => value::Node::Int(j as i64 - 2), _ => { let _ = rng; value::Node::Enum(["p", "q", "r"][j % 3].to_string()) } } };
    // parent j takes "colour" j at every position: any two parents differ everywhere (bool: parity, so use j in {0,1} for bools when np > 2 is still distinct in other kinds)
    let mut parents: Vec<value::Value> = Vec::new();
    for j in 0..np.min(if matches!(&spec.0, spec::Node::Array { value_type, .. } if matches!(**value_type, spec::Node::Bool { .. })) { 2 } else { 3 }) {
        let v = match &spec.0 {
            spec::Node::Array { value_type, size } => value::Node::Array((0..*size).map(|_| Box::new(leaf_val(rng, value_type, j))).collect()),
            spec::Node::Sub { map } => value::Node::Sub(map.iter().map(|(key, s)| (key.clone(), Box::new(leaf_val(rng, s, j)))).collect()),
            _ => unreachable!(),
        };
        parents.push(value::Value(v));
    }
    // parents that coincide (all-bool sub with j = 0, 2) are dropped
    parents.dedup_by(|a, b| a == b);
    let mut uniq: Vec<value::Value> = Vec::new();
    for p in parents { if !uniq.contains(&p) { uniq.push(p); } }
    let parents = uniq;
    let refs: Vec<&value::Value> = parents.iter().collect();
    let sp = *rng.pick(&[0.0, 0.5, 0.25]);
    let cparams = CrossoverParams { crossover_prob: 1.0, selection_pressure: sp };
    let crossover = Crossover::new();
    let mut outs = Vec::new();
    for _ in 0..64 {
        let mut path_ctx = PathContext::default();
        for p in &parents { path_ctx.add_nodes_for(p); }
        let mut std_rng = StdRng::seed_from_u64(rng.next());
        let out = crossover.crossover(&spec, &refs, &cparams, &mut path_ctx, &mut std_rng);
        outs.push(enc_value(&out.0));
    }
    json!({"mode": "mix", "spec": enc_spec(&spec.0), "parents": parents.iter().map(|p| enc_value(&p.0)).collect::<Vec<_>>(),
           "sp": crate::ops::pclass(sp), "outs": outs})
}

// ------------------------------------------------------------------------------------------------ benchmark battery

#[derive(Clone)]
pub struct Problem { pub name: String, pub spec: String, pub budget: usize, pub f: fn(&J, f64) -> f64, pub scale: f64 }

fn f_sphere(v: &J, s: f64) -> f64 { v.as_object().unwrap().values().map(|x| { let x = x.as_f64().unwrap() / s; x * x }).sum() }
fn f_bound(v: &J, _s: f64) -> f64 { v.as_f64().unwrap() }
fn f_far(v: &J, _s: f64) -> f64 { (v.as_f64().unwrap() - 1e6).abs() }
fn f_deep(v: &J, _s: f64) -> f64 { v.as_f64().unwrap().abs() }
fn f_warm(v: &J, _s: f64) -> f64 { let x = v.as_f64().unwrap(); x * x }
fn f_grid(v: &J, _s: f64) -> f64 { let a = v["a"].as_i64().unwrap() as f64; let b = v["b"].as_i64().unwrap() as f64; (a - 7.0) * (a - 7.0) + (b + 3.0) * (b + 3.0) }
fn f_onemax(v: &J, _s: f64) -> f64 { v.as_array().unwrap().iter().filter(|b| !b.as_bool().unwrap()).count() as f64 }
fn f_mapsize(v: &J, _s: f64) -> f64 { (v.as_object().unwrap().len() as f64 - 10.0).abs() }
fn f_mapshrink(v: &J, _s: f64) -> f64 { (v.as_object().unwrap().len() as f64 - 2.0).abs() }
fn f_choice(v: &J, _s: f64) -> f64 {
    // optimum: variant "b" with enum value "z"
    match v.as_object().unwrap().iter().next().unwrap() { (k, x) if k == "b" => match x.as_str().unwrap() { "z" => 0.0, "y" => 1.0, _ => 2.0 }, _ => 3.0 }
}

/// a variant with five alternatives: the optimum is alternative `target` (passed in the `scale` slot), everything else is
/// equally bad - every alternative must be reachable by variant switches from any other
fn f_choice5(v: &J, target: f64) -> f64 {
    let want = format!("v{}", target as usize);
    match v.as_object().unwrap().iter().next().unwrap() { (k, _) if *k == want => 0.0, _ => 1.0 }
}

fn sphere_spec(d: usize, s: f64) -> String {
    (0..d).map(|i| format!("x{i}:\n  type: real\n  init: {}\n  scale: {}\n", 3.0 * s, s)).collect()
}

pub fn battery() -> Vec<Problem> {
    let mut v = Vec::new();
    for d in [2usize, 5, 10] { for s in [1.0f64, 1e-3, 1e4] {
        v.push(Problem { name: format!("sphere{d}@{s:e}"), spec: sphere_spec(d, s), budget: 2000, f: f_sphere, scale: s });
    } }
    // the search is scale invariant: the same problem posed in units of 1e-17 and of 1e12
    for s in [1e-17f64, 1e12] { v.push(Problem { name: format!("sphere2@{s:e}"), spec: sphere_spec(2, s), budget: 2000, f: f_sphere, scale: s }); }
    v.push(Problem { name: "bound".into(), spec: "type: real\ninit: 5.0\nscale: 1.0\nmin: 0.0\nmax: 10.0\n".into(), budget: 1000, f: f_bound, scale: 1.0 });
    v.push(Problem { name: "grid".into(), spec: "a:\n  type: int\n  init: 50\n  scale: 10\n  min: -100\n  max: 100\nb:\n  type: int\n  init: -50\n  scale: 10\n  min: -100\n  max: 100\n".into(), budget: 2000, f: f_grid, scale: 1.0 });
    v.push(Problem { name: "onemax".into(), spec: "type: array\nsize: 16\nvalueType:\n  type: bool\n  init: false\n".into(), budget: 2000, f: f_onemax, scale: 1.0 });
    v.push(Problem { name: "mapsize".into(), spec: "type: anon map\ninitSize: 1\nvalueType:\n  type: bool\n  init: false\n".into(), budget: 1000, f: f_mapsize, scale: 1.0 });
    v.push(Problem { name: "mapshrink".into(), spec: "type: anon map\ninitSize: 7\nvalueType:\n  type: bool\n  init: false\n".into(), budget: 1000, f: f_mapshrink, scale: 1.0 });
    // the useful step size is many orders of magnitude away from the declared scale: only adaptation of the mutation
    // scale over generations gets there (optimum 1e6 scales away; convergence 12 orders below the scale)
    v.push(Problem { name: "far".into(), spec: "type: real\ninit: 0.0\nscale: 1.0\n".into(), budget: 10000, f: f_far, scale: 1.0 });
    v.push(Problem { name: "deep".into(), spec: "type: real\ninit: 1.0\nscale: 1000.0\n".into(), budget: 10000, f: f_deep, scale: 1.0 });
    // warm start: the initial guess is already within 1e-3 scale units of the optimum and stays the best-ranked
    // individual for a long time; the adaptive parameters of its offspring must be inherited all the same
    v.push(Problem { name: "warm".into(), spec: "type: real\ninit: 0.001\nscale: 1.0\n".into(), budget: 2000, f: f_warm, scale: 1.0 });
    for t in 0..5usize {
        let init = if t == 0 { 4 } else { 0 };
        let mut spec = format!("type: variant\ninit: v{init}\n");
        for i in 0..5 { spec += &format!("v{i}:\n  type: bool\n  init: false\n"); }
        v.push(Problem { name: format!("choice5@{t}"), spec, budget: 300, f: f_choice5, scale: t as f64 });
    }
    v.push(Problem { name: "choice".into(), spec: "type: variant\ninit: a\na:\n  type: real\n  init: 0.0\n  scale: 1.0\nb:\n  type: enum\n  values: [x, y, z]\n  init: x\n".into(), budget: 500, f: f_choice, scale: 1.0 });
    v
}

struct BenchObj { f: fn(&J, f64) -> f64, scale: f64, yields: u64, log: Arc<Mutex<Vec<(u64, usize, String, f64)>>> }

#[async_trait]
impl AsyncObjectiveFunction for BenchObj {
    async fn evaluate(&self, value: J, _abort: async_broadcast::Receiver<()>, seed: u64, id: usize) -> Result<Option<f64>, Error> {
        // completion order at concurrency > 1 is dictated here: evaluation `seed` yields (seed * 7 + 3) % yields times
        if self.yields > 0 { for _ in 0..((seed * 7 + 3) % self.yields) { tokio::task::yield_now().await; } }
        let x = (self.f)(&value, self.scale);
        self.log.lock().unwrap().push((seed, id, canon(&value), x));
        Ok(Some(x))
    }
}

/// one whole run through `async_launch::launch` on a current-thread runtime; returns (log of evaluations in
/// completion order, final report or error text)
pub fn run_once(spec_yaml: &str, f: fn(&J, f64) -> f64, scale: f64, nc: usize, sample_size: usize, yields: u64, budget: usize, guess: Option<J>)
    -> (Vec<(u64, usize, String, f64)>, Result<(f64, String, usize, usize), String>) {
    let log = Arc::new(Mutex::new(Vec::new()));
    let log2 = log.clone();
    let spec_yaml = spec_yaml.to_string();
    let rt = tokio::runtime::Builder::new_current_thread().enable_all().build().unwrap();
    let res = rt.block_on(async move {
        let spec = spec_util::from_yaml_str(&spec_yaml).unwrap();
        let (_cmd_tx, cmd_rx) = mpsc::channel::<Command>(1);
        let (rep_tx, mut rep_rx) = mpsc::channel(1 << 16);
        let cfg = AlgoConfig { individual_sample_size: sample_size, num_concurrent: nc };
        let obj = BenchObj { f, scale, yields, log: log2 };
        let launch = async_launch::launch(spec, obj, cfg, cmd_rx, rep_tx, Some(budget), None, guess);
        tokio::pin!(launch);
        loop {
            tokio::select! {
                r = &mut launch => { break r; }
                _ = futures::StreamExt::next(&mut rep_rx) => {}
            }
        }
    });
    let l = log.lock().unwrap().clone();
    (l, res.map(|r| (r.best_seen.obj_func_val, canon(&r.best_seen.value), r.num_obj_func_eval_completed, r.num_obj_func_eval_rejected)).map_err(|e| e.to_string()))
}

pub fn gen_bench(case: u64) -> J {
    let b = battery();
    let variants: [(usize, u64); 3] = [(1, 0), (4, 0), (4, 5)];
    let p = &b[(case as usize / variants.len()) % b.len()];
    let (nc, yields) = variants[case as usize % variants.len()];
    let spec = spec_util::from_yaml_str(&p.spec).unwrap();
    let f0 = (p.f)(&spec.initial_value().to_json(), p.scale);
    let (log, res) = run_once(&p.spec, p.f, p.scale, nc, 1, yields, p.budget, None);
    match res {
        Ok((best, _v, acc, rej)) => json!({"mode": "bench", "name": p.name, "nc": nc, "yields": yields, "budget": p.budget,
            "f0": f64_model(f0), "best": f64_model(best), "f0Text": format!("{f0:e}"), "bestText": format!("{best:e}"),
            // improvement factor as an integer floor (capped), computed here because float division is not modelled
            "factorFloor": if best > 0.0 { (f0 / best).min(1e15).floor() as u64 } else { 1_000_000_000_000_000u64 },
            "reachedZero": best == 0.0, "firstZeroAt": log.iter().position(|e| e.3 == 0.0), "evals": log.len(), "acc": acc, "rej": rej}),
        Err(e) => json!({"mode": "bench", "name": p.name, "nc": nc, "yields": yields, "budget": p.budget, "error": e}),
    }
}

// ------------------------------------------------------------------------------------------------ twin runs (C09)

/// a variant with many options (which option a switch lands on must not depend on the parse), subs with many members
/// (their order must not depend on the parse), many optionals that start absent (what is materialised must come from
/// THIS spec)
fn big_specs() -> Vec<String> {
    let mut v = Vec::new();
    let mut s = String::from("type: variant\ninit: o0\n");
    for i in 0..8 { s += &format!("o{i}:\n  type: {}\n", match i % 3 { 0 => "bool\n  init: true", 1 => "int\n  init: 1\n  scale: 2", _ => "real\n  init: 0.5\n  scale: 0.5" }); }
    v.push(s);
    let mut s = String::new();
    for g in ["left", "right"] {
        s += &format!("{g}:\n  type: sub\n");
        for i in 0..24 { s += &format!("  m{i}:\n    type: {}\n", if i % 2 == 0 { "bool\n    init: false".to_string() } else { format!("int\n    init: {i}\n    scale: 3") }); }
    }
    v.push(s);
    let mut s = String::new();
    for i in 0..16 { s += &format!("p{i}:\n  type: optional\n  initPresent: false\n  valueType:\n    type: real\n    init: 0.{}\n    scale: 0.1\n    min: 0\n    max: 1\n", i + 1); }
    v.push(s);
    let mut s = String::new();
    for i in 0..16 { s += &format!("p{i}:\n  type: optional\n  initPresent: false\n  valueType:\n    type: int\n    init: {}\n    scale: 5\n    min: 40\n    max: 90\n", 50 + i); }
    v.push(s);
    v
}

fn twin_spec(idx: usize) -> String {
    let big = big_specs();
    let n = TWIN_SPECS.len() + big.len();
    let i = idx % n;
    if i < TWIN_SPECS.len() { TWIN_SPECS[i].to_string() } else { big[i - TWIN_SPECS.len()].clone() }
}
pub fn n_twin_specs() -> usize { TWIN_SPECS.len() + 4 }

const TWIN_SPECS: &[&str] = &[
    "x:\n  type: real\n  init: 1.0\n  scale: 1.0\ny:\n  type: real\n  init: -2.0\n  scale: 0.5\n  min: -5\n  max: 5\n",
    "type: anon map\ninitSize: 3\nminSize: 1\nmaxSize: 9\nvalueType:\n  a:\n    type: int\n    init: 3\n    scale: 2\n  b:\n    type: optional\n    initPresent: true\n    valueType:\n      type: enum\n      values: [u, v, w]\n      init: u\n",
    "type: variant\ninit: m\nm:\n  type: anon map\n  initSize: 2\n  valueType:\n    type: anon map\n    initSize: 1\n    valueType:\n      type: bool\n      init: true\nn:\n  type: array\n  size: 3\n  valueType:\n    type: real\n    init: 0.5\n    scale: 0.1\n    min: 0\n    max: 1\n",
    "p:\n  type: sub\n  q:\n    type: bool\n    init: false\n  r:\n    type: const\ns:\n  type: array\n  size: 4\n  valueType:\n    type: int\n    init: 0\n    scale: 5\n    min: -20\n    max: 20\n",
    // resizable maps whose initial size and maximum size fall into different hash-table size classes
    "type: anon map\ninitSize: 3\nmaxSize: 6\nvalueType:\n  type: real\n  init: 0.5\n  scale: 0.2\n",
    "m:\n  type: anon map\n  initSize: 5\n  maxSize: 10\n  valueType:\n    type: int\n    init: 1\n    scale: 3\nk:\n  type: anon map\n  initSize: 6\n  minSize: 2\n  maxSize: 12\n  valueType:\n    type: bool\n    init: true\n",
];

/// objective: a function of (value, seed) only - a hash of the canonical JSON text and the seed, mapped to a float;
/// some evaluations are rejected
fn f_hash(v: &J, _s: f64) -> f64 {
    let t = canon(v);
    let mut h: u64 = 0xcbf29ce484222325;
    for b in t.bytes() { h ^= b as u64; h = h.wrapping_mul(0x100000001b3); }
    ((h >> 11) % 100_000) as f64 / 7.0 - 3000.0
}

pub fn twin_trace(spec_idx: usize, nc: usize, sample_size: usize, yields: u64, budget: usize, with_guess: bool) -> J {
    twin_trace_g(spec_idx, nc, sample_size, yields, budget, if with_guess { 1 } else { 0 })
}

/// guess_kind: 0 none, 1 the spec's own initial value, 2 (spec 4 only: a map of reals) a guess with sparse keys that
/// collide in small hash tables - the kind of value a best-seen of an earlier run has
pub fn twin_trace_g(spec_idx: usize, nc: usize, sample_size: usize, yields: u64, budget: usize, guess_kind: u64) -> J {
    let with_guess = guess_kind == 1;
    let spec_yaml = twin_spec(spec_idx);
    let spec_yaml = spec_yaml.as_str();
    let guess = if with_guess { Some(spec_util::from_yaml_str(spec_yaml).unwrap().initial_value().to_json()) }
                else if guess_kind == 2 { Some(json!({"1": 0.25, "5": 0.5, "17": 0.75, "33": 0.125})) } else { None };
    let (log, res) = run_once(spec_yaml, f_hash, 1.0, nc, sample_size, yields, budget, guess);
    json!({
        "evals": log.iter().map(|(s, i, v, x)| json!([s, i, v, x.to_bits()])).collect::<Vec<_>>(),
        "report": match res { Ok((b, v, a, r)) => json!({"best": b.to_bits(), "value": v, "acc": a, "rej": r}), Err(e) => json!({"err": e}) },
    })
}

pub fn gen_twin(rng: &mut Rng, thorough: bool, exe: &str) -> J {
    let spec_idx = rng.below(n_twin_specs() as u64) as usize;
    let nc = *rng.pick(&[1usize, 1, 2, 4, 7]);
    let sample_size = *rng.pick(&[1usize, 1, 2, 3]);
    let yields = if nc == 1 { 0 } else { *rng.pick(&[0u64, 3, 5]) };
    let budget = if thorough { 500 + rng.below(3000) as usize } else { 100 + rng.below(500) as usize };
    let with_guess = rng.chance(1, 4);
    // spec 4 (a resizable map of reals, at most 6 elements): half of the time with a sparse-key guess
    let sparse = spec_idx == 4 && rng.chance(1, 2);
    // before the first run, this thread runs something else (other specs): a run is a function of ITS inputs, not of what
    // the thread or the process did before (the fresh process below has done nothing before)
    for k in 1..4 { let _ = twin_trace(spec_idx + k * 3 + 1, 1, 1, 0, 40, false); }
    let gk: u64 = if sparse { 2 } else if with_guess { 1 } else { 0 };
    let a = twin_trace_g(spec_idx, nc, sample_size, yields, budget, gk);
    let b = twin_trace_g(spec_idx, nc, sample_size, yields, budget, gk);
    // third run: a fresh process
    let pinned = rng.chance(1, 2);
    let mut cmd = std::process::Command::new(exe);
    if pinned { cmd.env("CVH_PIN_ONE_CPU", "1"); }
    let out = cmd
        .args(["twin-child", &spec_idx.to_string(), &nc.to_string(), &sample_size.to_string(), &yields.to_string(), &budget.to_string(), &gk.to_string()])
        .output();
    let c: J = match out { Ok(o) => serde_json::from_slice(&o.stdout).unwrap_or(json!({"childError": String::from_utf8_lossy(&o.stderr).to_string()})), Err(e) => json!({"childError": e.to_string()}) };
    // guess = the spec's own initial value must give the same run as no guess (C11's same-run clause)
    let d = if sparse { a.clone() } else { twin_trace(spec_idx, nc, sample_size, yields, budget, !with_guess) };
    let first_diff = |x: &J, y: &J| -> J {
        let (ex, ey) = (x["evals"].as_array().cloned().unwrap_or_default(), y["evals"].as_array().cloned().unwrap_or_default());
        for i in 0..ex.len().max(ey.len()) { if ex.get(i) != ey.get(i) { return json!({"index": i, "a": ex.get(i), "b": ey.get(i)}); } }
        if x["report"] != y["report"] { return json!({"report": [x["report"], y["report"]]}); }
        J::Null
    };
    let distinct_values = { let mut s: Vec<&str> = a["evals"].as_array().unwrap().iter().map(|e| e[2].as_str().unwrap()).collect(); s.sort(); s.dedup(); s.len() };
    json!({"mode": "twin", "specIdx": spec_idx, "nc": nc, "sampleSize": sample_size, "yields": yields, "budget": budget, "withGuess": with_guess,
           "nEvals": a["evals"].as_array().map(|x| x.len()), "distinctValues": distinct_values,
           "sameInProcess": a == b, "sameCrossProcess": a == c, "crossProcessPinnedToOneCpu": pinned, "sameGuessOrNot": a == d,
           "diffGuessOrNot": first_diff(&a, &d),
           "diffInProcess": first_diff(&a, &b), "diffCrossProcess": first_diff(&a, &c),
           "ids": a["evals"].as_array().unwrap().iter().map(|e| e[1].clone()).collect::<Vec<_>>(),
           "seeds": a["evals"].as_array().unwrap().iter().map(|e| e[0].clone()).collect::<Vec<_>>(),
           "report": a["report"]})
}
