//! K-run: whole runs through `sync_launch::launch` (the threaded in-process launcher and the current-thread one) with
//! generated lists of termination criteria.  Compared with the launch-layer model (`Launch.compile`): conflicting
//! criteria are rejected before anything is evaluated, otherwise the budget in force is the one given; the closure
//! counts its own invocations and their overlap (C03, C05 on the threaded launcher), detailed reporting is on and the
//! files are read back after the run has returned, also when it failed (C14: the writer is drained).
use crate::util::*;
use cambrian::meta::{self, AlgoConfigBuilder};
use cambrian::sync_launch::{self, DetailedReportingFileInfo};
use cambrian::termination::TerminationCriterion;
use cambrian::{error::Error, spec_util};
use serde_json::{json, Value as J};
use std::sync::atomic::{AtomicUsize, Ordering};
use std::sync::Arc;
use std::time::Duration;

const SPEC: &str = "x:\n  type: real\n  init: 1.0\n  scale: 1.0\nn:\n  type: int\n  init: 3\n  scale: 2\n  min: -50\n  max: 50\n";

/// C04 with very many evaluations in flight: 300 at once, all but the first wait for the abort; a time limit of 200 ms
/// ends the run, and the 300 rejections that follow must not block it (the report channel holds 256 items)
pub fn wide_case(case: u64) -> J {
    struct Wide;
    #[async_trait::async_trait]
    impl cambrian::meta::AsyncObjectiveFunction for Wide {
        async fn evaluate(&self, _v: J, mut abort: async_broadcast::Receiver<()>, _seed: u64, id: usize) -> Result<Option<f64>, Error> {
            if id == 0 { return Ok(Some(1.0)); }
            let _ = abort.recv().await;
            Ok(None)
        }
    }
    let (tx, rx) = std::sync::mpsc::channel();
    let with_files = case % 2 == 0;
    let dir = crate::proc::build_dir().join("run").join(format!("{}_{}w", std::process::id(), case));
    let _ = std::fs::remove_dir_all(&dir);
    std::fs::create_dir_all(&dir).unwrap();
    let info = DetailedReportingFileInfo { detailed_report_file_path: dir.join("report.csv"), best_seen_file_path: dir.join("best.json") };
    std::thread::spawn(move || {
        let spec = spec_util::from_yaml_str(SPEC).unwrap();
        let cfg = AlgoConfigBuilder::new().num_concurrent(300).build().unwrap();
        let r = sync_launch::launch_with_async_obj_func(spec, Wide, cfg, vec![TerminationCriterion::TerminateAfter(Duration::from_millis(200))], None, false, if with_files { Some(&info) } else { None });
        let _ = tx.send(match r { Ok(rep) => json!({"ok": [rep.num_obj_func_eval_completed, rep.num_obj_func_eval_rejected]}), Err(e) => json!({"err": e.to_string()}) });
    });
    let ret = rx.recv_timeout(Duration::from_secs(20)).unwrap_or(json!("hang"));
    let _ = std::fs::remove_dir_all(&dir);
    json!({"mode": "run", "wide": true, "withFiles": with_files, "ret": ret, "criteria": [{"after": 200}], "nc": 300, "threaded": false, "calls": 0, "maxLive": 0, "csvRows": 0})
}

pub fn gen_case(rng: &mut Rng, _thorough: bool, case: u64) -> J {
    if case % 53 == 11 { return wide_case(case); }
    if case % 47 == 13 { return two_proc_runs(case); }
    // criteria: always at least one evaluation budget, so that the run ends even if conflicts were wrongly accepted
    let n1 = 1 + rng.below(60) as usize;
    let mut crits: Vec<(J, TerminationCriterion)> = vec![(json!({"numEval": n1}), TerminationCriterion::NumObjFuncEval(n1))];
    for _ in 0..rng.below(4) {
        match rng.below(5) {
            0 => { let n = 1 + rng.below(60) as usize; crits.push((json!({"numEval": n}), TerminationCriterion::NumObjFuncEval(n))); }
            1 => { let t = -(rng.below(400) as f64) - 50.0; crits.push((json!({"target": f64_model(t)}), TerminationCriterion::TargetObjFuncVal(t))); }
            2 => { let ms = 20_000 + rng.below(1000); crits.push((json!({"after": ms}), TerminationCriterion::TerminateAfter(Duration::from_millis(ms)))); }
            3 => { let t = 1e9; crits.push((json!({"target": f64_model(t)}), TerminationCriterion::TargetObjFuncVal(t))); }
            _ => {}
        }
    }
    // shuffle
    for i in (1..crits.len()).rev() { let j = rng.below(i as u64 + 1) as usize; crits.swap(i, j); }
    // barrier family (threaded launcher): the first evaluations wait until min(num_concurrent, budget) of them are in
    // progress at once - work conservation seen from inside the objective function, also above the number of cores
    let barrier = rng.chance(1, 6);
    let cores = std::thread::available_parallelism().map(|n| n.get()).unwrap_or(4);
    let nc = if barrier { *rng.pick(&[3usize, cores + 2]) } else { 1 + rng.below(4) as usize };
    let threaded = barrier || rng.chance(2, 3);
    if barrier { crits = vec![(json!({"numEval": 2 * nc}), TerminationCriterion::NumObjFuncEval(2 * nc))]; }
    let n1 = if barrier { 2 * nc } else { n1 };
    // a budget of zero, with a target that the very first result would reach (so that a run which wrongly starts ends)
    let zero_budget = !barrier && rng.chance(1, 12);
    if zero_budget { crits = vec![(json!({"numEval": 0}), TerminationCriterion::NumObjFuncEval(0)), (json!({"target": f64_model(1e9)}), TerminationCriterion::TargetObjFuncVal(1e9))]; if rng.chance(1, 2) { crits.swap(0, 1); } }
    let n1 = if zero_budget { 0 } else { n1 };
    // objective values of tiny magnitude: improvements far below 1e-16 are improvements all the same
    let scale: f64 = if rng.chance(1, 5) { 1e-18 } else { 1.0 };
    // an asynchronous objective function that never suspends, through `launch_with_async_obj_func`, for more
    // evaluations than the report channel holds: the writer only runs when the controller waits for it
    let immediate = !barrier && !zero_budget && crits.len() == 1 && rng.chance(1, 4);
    if immediate { let n = 300 + rng.below(900) as usize; crits = vec![(json!({"numEval": n}), TerminationCriterion::NumObjFuncEval(n))]; }
    // ... and sometimes with a time limit that must be taken although a finished evaluation is available every time
    // the controller looks (budget 40 000: about two seconds of work; limit 100 ms)
    let imm_limit = immediate && rng.chance(1, 3);
    if imm_limit { crits = vec![(json!({"numEval": 40000}), TerminationCriterion::NumObjFuncEval(40000)), (json!({"after": 100}), TerminationCriterion::TerminateAfter(Duration::from_millis(100)))]; }
    let n1 = if immediate { match crits[0].1 { TerminationCriterion::NumObjFuncEval(n) => n, _ => n1 } } else { n1 };
    // near-target family: the first result is ONE ulp above the target, the eleventh is the target itself
    let near_target = !barrier && !zero_budget && !immediate && rng.chance(1, 12);
    if near_target { crits = vec![(json!({"numEval": 40}), TerminationCriterion::NumObjFuncEval(40)), (json!({"target": f64_model(1.0)}), TerminationCriterion::TargetObjFuncVal(1.0))]; if rng.chance(1, 2) { crits.swap(0, 1); } }
    let n1 = if near_target { 40 } else { n1 };
    let nc = if near_target { 1 } else { nc };
    let threaded = if near_target { false } else { threaded };
    let want_live = nc.min(n1);
    // stalled report sink: the detailed report file is a FIFO that nobody reads until the whole budget has been started
    // (think of an output directory on a slow share).  The budget is far below the report channel's capacity, so the
    // optimisation must not care: finished evaluations are replaced all the same.
    let stalled = !barrier && !zero_budget && !immediate && !near_target && crits.len() == 1 && rng.chance(1, 4);
    // ... and in some of these a time limit expires while the controller has finished and the report writer is still
    // waiting for the sink: the result is there, the limit has nothing left to stop
    let stalled_late = stalled && rng.chance(1, 3);
    if stalled_late { crits.push((json!({"after": 1500}), TerminationCriterion::TerminateAfter(Duration::from_millis(1500)))); }
    let fail_at = if !barrier && !stalled && !immediate && !near_target && rng.chance(1, 4) { Some(rng.below(n1 as u64 + 5) as usize) } else { None };
    let rej_permille = *rng.pick(&[0u64, 0, 200]);
    let calls = Arc::new(AtomicUsize::new(0));
    let live = Arc::new(AtomicUsize::new(0));
    let max_live = Arc::new(AtomicUsize::new(0));
    let (c2, l2, m2) = (calls.clone(), live.clone(), max_live.clone());
    let script_seed = rng.next();
    let obj = meta::make_obj_func(move |v: J| {
        let k = c2.fetch_add(1, Ordering::SeqCst);
        let now = l2.fetch_add(1, Ordering::SeqCst) + 1;
        m2.fetch_max(now, Ordering::SeqCst);
        if barrier {
            let t0 = std::time::Instant::now();
            while m2.load(Ordering::SeqCst) < want_live && t0.elapsed() < Duration::from_secs(5) { std::thread::sleep(Duration::from_millis(1)); }
        } else if threaded { std::thread::sleep(Duration::from_micros(300)); }
        let x = v["x"].as_f64().unwrap_or(0.0);
        let n = v["n"].as_i64().unwrap_or(0) as f64;
        l2.fetch_sub(1, Ordering::SeqCst);
        if near_target { return Some(match k { 0 => f64::from_bits(1.0f64.to_bits() + 1), 10 => 1.0, _ => 2.0 + k as f64 }); }
        let mut h = Rng::new(script_seed ^ k as u64);
        if fail_at == Some(k) { return Some(f64::NAN); }                     // a non-finite value is a failure
        if h.below(1000) < rej_permille { return None; }
        Some((x * x + n * n - k as f64 * 0.01) * scale)
    });
    let dir = crate::proc::build_dir().join("run").join(format!("{}_{}", std::process::id(), case));
    let _ = std::fs::remove_dir_all(&dir);
    std::fs::create_dir_all(&dir).unwrap();
    let info = DetailedReportingFileInfo { detailed_report_file_path: dir.join("report.csv"), best_seen_file_path: dir.join("best.json") };
    let reader = if stalled {
        nix::unistd::mkfifo(&dir.join("report.csv"), nix::sys::stat::Mode::from_bits_truncate(0o600)).unwrap();
        let (calls, path) = (calls.clone(), dir.join("report.csv"));
        Some(std::thread::spawn(move || {
            let t0 = std::time::Instant::now();
            while calls.load(Ordering::SeqCst) < n1 && t0.elapsed() < Duration::from_secs(8) { std::thread::sleep(Duration::from_millis(2)); }
            let started = calls.load(Ordering::SeqCst);
            if stalled_late { std::thread::sleep(Duration::from_millis(2300)); }
            let mut content = String::new();
            if let Ok(mut f) = std::fs::File::open(&path) { let _ = std::io::Read::read_to_string(&mut f, &mut content); }
            (started, content)
        }))
    } else { None };
    let spec = spec_util::from_yaml_str(SPEC).unwrap();
    // a guess of JSON null does not conform to this spec (its root is a mapping): rejected before anything is evaluated
    let null_guess = !barrier && !stalled && !near_target && rng.chance(1, 10);
    let guess: Option<J> = if null_guess { Some(J::Null) } else { None };
    let cap_len = || std::env::var("CVH_STDOUT_CAP").ok().and_then(|p| std::fs::metadata(p).ok()).map(|m| m.len()).unwrap_or(0);
    let cap0 = cap_len();
    // the never-suspending family also runs with sample size 2 or 3: from 20 individuals on, re-evaluations give an
    // individual further seeds, so ids and seeds part company (they coincide for ever at sample size 1)
    let ss_run = if immediate { *rng.pick(&[1usize, 2, 3]) } else { 1 };
    let cfg = AlgoConfigBuilder::new().num_concurrent(nc).individual_sample_size(ss_run).build().unwrap();
    let pairs: Arc<std::sync::Mutex<Vec<(u64, usize)>>> = Arc::new(std::sync::Mutex::new(Vec::new()));
    let res = if immediate {
        struct Imm { calls: Arc<AtomicUsize>, scale: f64, pairs: Arc<std::sync::Mutex<Vec<(u64, usize)>>> }
        #[async_trait::async_trait]
        impl cambrian::meta::AsyncObjectiveFunction for Imm {
            async fn evaluate(&self, v: J, _abort: async_broadcast::Receiver<()>, seed: u64, id: usize) -> Result<Option<f64>, Error> {
                let k = self.calls.fetch_add(1, Ordering::SeqCst);
                self.pairs.lock().unwrap().push((seed, id));
                let x = v["x"].as_f64().unwrap_or(0.0);
                Ok(Some((x * x - k as f64 * 0.01) * self.scale))
            }
        }
        drop(obj);
        let cr = crits.iter().map(|c| c.1.clone()).collect::<Vec<_>>();
        std::panic::catch_unwind(std::panic::AssertUnwindSafe(|| sync_launch::launch_with_async_obj_func(spec, Imm { calls: calls.clone(), scale, pairs: pairs.clone() }, cfg, cr, guess.clone(), false, Some(&info))))
    } else {
        let cr = crits.iter().map(|c| c.1.clone()).collect::<Vec<_>>();
        std::panic::catch_unwind(std::panic::AssertUnwindSafe(|| sync_launch::launch(spec, obj, cfg, cr, guess.clone(), threaded, Some(&info))))
    };
    let panicked = res.is_err();
    let res = match res { Ok(r) => r, Err(_) => Err(Error::ClientHungUp) };
    { use std::io::Write; let _ = std::io::stdout().flush(); }
    let stdout_noise = cap_len().saturating_sub(cap0);
    let (stalled_started, csv) = match reader {
        Some(h) => { let (k, c) = h.join().unwrap(); (Some(k), c) }
        None => (None, std::fs::read_to_string(dir.join("report.csv")).unwrap_or_default()),
    };
    let rows: Vec<&str> = csv.lines().skip(1).collect();
    let row_objs: Vec<J> = rows.iter().map(|r| { let last = r.rsplit(';').next().unwrap_or(""); if last.is_empty() { J::Null } else { last.parse::<f64>().map(|x| json!(order_code(x))).unwrap_or(json!("unparsable")) } }).collect();
    let row_inputs: Vec<String> = rows.iter().map(|r| { let f: Vec<&str> = r.split(';').collect(); if f.len() >= 10 { canon(&serde_json::from_str::<J>(&f[7..f.len() - 2].join(";")).unwrap_or(J::Null)) } else { String::new() } }).collect();
    // (individual id, seed) of every record, as written in the first and the last-but-one column
    let row_pairs: Vec<J> = rows.iter().map(|r| { let f: Vec<&str> = r.split(';').collect(); if f.len() >= 10 { json!([f[f.len() - 2].parse::<u64>().ok(), f[0].parse::<u64>().ok()]) } else { J::Null } }).collect();
    let call_pairs: Vec<J> = pairs.lock().unwrap().iter().map(|(s, i)| json!([s, i])).collect();
    let read_best = || std::fs::read_to_string(dir.join("best.json")).ok().and_then(|t| serde_json::from_str::<J>(&t).ok()).map(|j| canon(&j));
    let mut best_file = read_best();
    // diagnostic: a file that is not (yet) valid JSON right after the return is read once more a moment later; the
    // driver judges the final content and reports "late" as a coverage tag
    let mut best_late = false;
    if best_file.is_none() && !row_objs.iter().all(|x| x.is_null()) {
        std::thread::sleep(Duration::from_millis(300));
        best_file = read_best();
        best_late = best_file.is_some();
    }
    let _ = std::fs::remove_dir_all(&dir);
    let ret = match &res {
        Ok(r) => json!({"ok": {"best": order_code(r.best_seen.obj_func_val), "value": canon(&r.best_seen.value), "acc": r.num_obj_func_eval_completed, "rej": r.num_obj_func_eval_rejected}}),
        Err(Error::ConflictingTerminationCriteria) => json!("conflict"),
        Err(Error::ObjFuncValMustBeFinite) => json!("nonFinite"),
        Err(Error::NoIndividuals) => json!("noIndividuals"),
        Err(_) if panicked => json!("panic"),
        Err(e) if null_guess && !matches!(e, Error::Io(_) | Error::ClientHungUp) => json!({"badGuess": e.to_string()}),
        Err(e) => json!({"other": e.to_string()}),
    };
    // `AlgoConfigBuilder::build` on a few option combinations (absent / 0 / positive)
    let mut cfgs = Vec::new();
    for (ssz, ncc) in [(None, None), (Some(0usize), Some(nc)), (Some(1 + (case % 4) as usize), Some(0usize)), (Some((case % 3) as usize), None), (None, Some((case % 2) as usize * nc))] {
        let mut b = AlgoConfigBuilder::new();
        if let Some(x) = ssz { b.individual_sample_size(x); }
        if let Some(x) = ncc { b.num_concurrent(x); }
        let enc = |r: Result<cambrian::meta::AlgoConfig, Error>| match r { Ok(c) => json!({"ok": [c.individual_sample_size, c.num_concurrent]}), Err(Error::ZeroSampleSize) => json!("zeroSampleSize"), Err(Error::ZeroNumConcurrent) => json!("zeroNumConcurrent"), Err(e) => json!({"other": e.to_string()}) };
        let r = enc(b.build());
        // the same builder asked again (a second run set up the same way): the same configuration
        let r2 = enc(b.build());
        cfgs.push(json!({"ss": ssz, "nc": ncc, "res": r, "again": r2}));
    }
    // now and then: the two-runs-with-an-interrupt experiment, in a process of its own
    let signal_twin = if case % 61 == 7 {
        std::process::Command::new(std::env::current_exe().unwrap()).arg("signal-child").output().ok()
            .and_then(|o| serde_json::from_slice::<J>(&o.stdout).ok()).unwrap_or(json!("no-output"))
    } else { J::Null };
    // ... and the two-termination-requests-while-draining experiment (interrupt and time limit, in either order)
    let signal_drain = if case % 59 == 5 || case % 59 == 34 {
        std::process::Command::new(std::env::current_exe().unwrap()).arg("signal-drain-child").arg(if case % 59 == 5 { "sigint-first" } else { "limit-first" }).output().ok()
            .and_then(|o| serde_json::from_slice::<J>(&o.stdout).ok()).unwrap_or(json!("no-output"))
    } else { J::Null };
    json!({"mode": "run", "signalDrain": signal_drain, "immLimit": imm_limit, "nearTarget": near_target, "signalTwin": signal_twin, "nullGuess": null_guess, "stdoutNoise": stdout_noise, "stalledLate": stalled_late, "configs": cfgs, "criteria": crits.iter().map(|c| c.0.clone()).collect::<Vec<_>>(), "nc": nc, "threaded": threaded, "barrier": barrier, "immediate": immediate, "tiny": scale != 1.0, "failAt": fail_at,
           "calls": calls.load(Ordering::SeqCst), "maxLive": max_live.load(Ordering::SeqCst), "ret": ret,
           "csvRows": rows.len(), "rowObjs": row_objs, "rowInputs": row_inputs, "bestFile": best_file, "bestLate": best_late, "stalledStarted": stalled_started,
           "sampleSize": ss_run, "rowPairs": if immediate { json!(row_pairs) } else { J::Null }, "callPairs": if immediate { json!(call_pairs) } else { J::Null }})
}

/// C04 in a process that launches twice: two runs with the `Signal` criterion, each interrupted (SIGINT to this very
/// process, raised by the objective function at its 4th call).  Either a run refuses to start, or it stops soon after
/// the interrupt - it never runs on to its budget of 300.  Runs in a process of its own (`cvh signal-child`).
pub fn signal_child() -> J {
    let mut out = Vec::new();
    for _ in 0..2 {
        let calls = Arc::new(AtomicUsize::new(0));
        let c2 = calls.clone();
        let obj = meta::make_obj_func(move |v: J| {
            let k = c2.fetch_add(1, Ordering::SeqCst);
            if k == 3 { let _ = nix::sys::signal::raise(nix::sys::signal::Signal::SIGINT); }
            std::thread::sleep(Duration::from_millis(3));
            Some(v["x"].as_f64().unwrap_or(0.0).abs() + 1.0)
        });
        let spec = spec_util::from_yaml_str(SPEC).unwrap();
        let cfg = AlgoConfigBuilder::new().build().unwrap();
        let res = std::panic::catch_unwind(std::panic::AssertUnwindSafe(|| sync_launch::launch(spec, obj, cfg, vec![TerminationCriterion::NumObjFuncEval(300), TerminationCriterion::Signal], None, false, None)));
        let ret = match res { Err(_) => json!("panic"), Ok(Ok(r)) => json!({"ok": r.num_obj_func_eval_completed + r.num_obj_func_eval_rejected}), Ok(Err(e)) => json!({"err": e.to_string()}) };
        out.push(json!({"ret": ret, "calls": calls.load(Ordering::SeqCst)}));
    }
    json!(out)
}

/// C04 with TWO termination requests reaching the command loop of `async_launch::launch` while the run is draining:
/// the only evaluation in flight ignores the abort request and needs 700 ms; an interrupt (SIGINT to this very process)
/// and the time limit arrive 100 ms and 400 ms into the run, in either order.  The launch-layer model (`Launch.lrun`
/// on `[terminate, terminate, ctlDone]`) answers: one abort request, then the controller's own result.  Runs in a
/// process of its own (`cvh signal-drain-child <order>`): the interrupt handler can be installed once per process.
pub fn signal_drain_child(sigint_first: bool) -> J {
    struct SlowDeaf { calls: Arc<AtomicUsize> }
    #[async_trait::async_trait]
    impl cambrian::meta::AsyncObjectiveFunction for SlowDeaf {
        async fn evaluate(&self, _v: J, _abort: async_broadcast::Receiver<()>, _seed: u64, _id: usize) -> Result<Option<f64>, Error> {
            self.calls.fetch_add(1, Ordering::SeqCst);
            tokio::time::sleep(Duration::from_millis(700)).await;
            Ok(Some(0.25))
        }
    }
    let calls = Arc::new(AtomicUsize::new(0));
    let (sig_ms, limit_ms) = if sigint_first { (100u64, 400u64) } else { (400, 100) };
    std::thread::spawn(move || {
        std::thread::sleep(Duration::from_millis(sig_ms));
        let _ = nix::sys::signal::kill(nix::unistd::Pid::this(), nix::sys::signal::Signal::SIGINT);
    });
    let spec = spec_util::from_yaml_str(SPEC).unwrap();
    let cfg = AlgoConfigBuilder::new().build().unwrap();
    let t0 = std::time::Instant::now();
    let res = std::panic::catch_unwind(std::panic::AssertUnwindSafe(|| sync_launch::launch_with_async_obj_func(spec, SlowDeaf { calls: calls.clone() }, cfg,
        vec![TerminationCriterion::Signal, TerminationCriterion::TerminateAfter(Duration::from_millis(limit_ms))], None, false, None)));
    let ret = match res { Err(_) => json!("panic"), Ok(Ok(r)) => json!({"ok": [r.num_obj_func_eval_completed, r.num_obj_func_eval_rejected, order_code(r.best_seen.obj_func_val)]}), Ok(Err(e)) => json!({"err": e.to_string()}) };
    json!({"sigintFirst": sigint_first, "events": ["terminate", "terminate", "ctlDone"], "ret": ret, "calls": calls.load(Ordering::SeqCst), "ms": t0.elapsed().as_millis() as u64})
}

/// two runs with a child-process objective function, one after the other on ONE thread, with different specs: what
/// the children of the second run are given must be parameter sets of the second run (C01, C08), whatever the first
/// run did before.  The children are `/bin/sh` one-liners that append their parameter argument to a log file.
pub fn two_proc_runs(case: u64) -> J {
    let dir = crate::proc::build_dir().join("run").join(format!("{}_{}p", std::process::id(), case));
    let _ = std::fs::remove_dir_all(&dir);
    std::fs::create_dir_all(&dir).unwrap();
    let mut logs = Vec::new();
    let specs = ["type: bool\ninit: true\n", "type: int\ninit: 3\nscale: 2\nmin: 0\nmax: 10\n"];
    let guesses: [Option<J>; 2] = [None, Some(json!(7))];
    let mut rets = Vec::new();
    for r in 0..2 {
        let log = dir.join(format!("args_{r}.log"));
        let script = format!("printf '%s\\n' \"$1\" >> '{}'; echo '{{\"objFuncVal\": 1.5}}'", log.display());
        let def = cambrian::process::ObjFuncProcessDef::new("/bin/sh".into(), vec!["-c".into(), script.into(), "sh".into()], None);
        let spec = spec_util::from_yaml_str(specs[r]).unwrap();
        let cfg = AlgoConfigBuilder::new().build().unwrap();
        let res = std::panic::catch_unwind(std::panic::AssertUnwindSafe(|| sync_launch::launch_with_async_obj_func(spec, def, cfg, vec![TerminationCriterion::NumObjFuncEval(if r == 0 { 6 } else { 10 })], guesses[r].clone(), false, None)));
        rets.push(match res { Err(_) => json!("panic"), Ok(Ok(rep)) => json!({"ok": rep.num_obj_func_eval_completed}), Ok(Err(e)) => json!({"err": e.to_string()}) });
        logs.push(std::fs::read_to_string(&log).unwrap_or_default().lines().map(|l| l.to_string()).collect::<Vec<_>>());
    }
    let _ = std::fs::remove_dir_all(&dir);
    json!({"mode": "run", "twoProcRuns": true, "rets": rets, "args": logs, "criteria": [{"numEval": 10}], "nc": 1, "threaded": false, "calls": 0, "maxLive": 0, "csvRows": 0, "ret": "n/a"})
}
