//! K-ops: `Crossover::crossover` and `mutation::mutate` called directly, in operation sequences that share one
//! `PathContext` (so keys seen before and parts materialised during mutation accumulate), on generated specs,
//! conforming values and parameter corners.  The driver feeds every (parents, offspring) and (input, output) pair
//! to the acceptors `crossAcc` / `mutAcc` and evaluates the property predicates on the real outputs.
use crate::enc::*;
use crate::gen::*;
use crate::util::*;
use cambrian::crossover::Crossover;
use cambrian::meta::{CrossoverParams, MutationParams};
use cambrian::verif_hooks::PathContext;
use cambrian::{mutation, spec, value};
use rand::rngs::StdRng;
use rand::SeedableRng;
use serde_json::{json, Value as J};
use std::panic::{catch_unwind, AssertUnwindSafe};

pub fn pclass(p: f64) -> &'static str {
    if p == 0.0 { "zero" } else if p == 1.0 { "one" } else if p > 0.0 && p < 1.0 { "mid" } else { "invalid" }
}

fn gen_prob(rng: &mut Rng) -> f64 {
    match rng.below(8) { 0 | 1 => 0.0, 2 | 3 => 1.0, 4 => 0.5, 5 => 0.9, 6 => 1e-3, _ => (1 + rng.below(998)) as f64 / 1000.0 }
}

thread_local! { static LAST_PANIC_LOC: std::cell::RefCell<String> = std::cell::RefCell::new(String::new()); }

/// panic hook for the in-process correspondences: silent, but remembers WHERE the panic was raised (file:line), so
/// that a known finding can be told from another panic with the same message
pub fn install_panic_hook() {
    std::panic::set_hook(Box::new(|info| {
        let loc = info.location().map(|l| format!("{}:{}", l.file(), l.line())).unwrap_or_default();
        LAST_PANIC_LOC.with(|c| *c.borrow_mut() = loc);
    }));
}

fn panic_msg(e: Box<dyn std::any::Any + Send>) -> String {
    let m = if let Some(s) = e.downcast_ref::<&str>() { s.to_string() } else if let Some(s) = e.downcast_ref::<String>() { s.clone() } else { "panic".into() };
    let loc = LAST_PANIC_LOC.with(|c| std::mem::take(&mut *c.borrow_mut()));
    // only the path inside the crate (the checkout directory differs between runs)
    let loc = loc.rsplit_once("/src/").map(|(_, f)| format!("src/{f}")).unwrap_or(loc);
    if loc.is_empty() { m } else { format!("{m} [at {loc}]") }
}

pub fn gen_case(rng: &mut Rng, thorough: bool) -> J {
    let mut cfg = if thorough { GenCfg::thorough() } else { GenCfg::quick() };
    cfg.max_depth = cfg.max_depth.min(4);
    if !thorough { cfg.max_width = 3; cfg.max_array = 3; cfg.max_map = 4; }
    let d0 = if rng.chance(1, 3) { 1 } else { 0 };
    let spec = spec::Spec(gen_spec(rng, &cfg, d0));
    let n_ops = if thorough { 10 + rng.below(40) } else { 4 + rng.below(12) };
    let mut init = if rng.chance(1, 2) { spec.initial_value() } else { value::Value(gen_value(rng, &spec.0, &cfg)) };
    // the end of the key space: now and then a root-level map holds the key usize::MAX (a valid key of a guess)
    if rng.chance(1, 60) {
        if let value::Node::AnonMap(m) = &mut init.0 {
            if let Some(k) = m.keys().copied().max() { if let Some(v) = m.remove(&k) { m.insert(usize::MAX, v); } }
        }
    }
    let mut path_ctx = PathContext::default();
    if let Err(e) = catch_unwind(AssertUnwindSafe(|| path_ctx.add_nodes_for(&init))) {
        return json!({"mode": "ops", "spec": enc_spec(&spec.0), "init": enc_value(&init.0), "ops": [], "runPanic": panic_msg(e)});
    }
    let crossover = Crossover::new();
    let mut pool: Vec<value::Value> = vec![init.clone()];
    let mut ops: Vec<J> = Vec::new();
    // sticky corners make long runs at probability 1 / 0 (where the strongest clauses of the properties apply)
    let sticky_mp = if rng.chance(1, 3) { Some(*rng.pick(&[0.0, 1.0, 1.0])) } else { None };
    for _ in 0..n_ops {
        let k = 1 + rng.below(8.min(pool.len() as u64 + 2)) as usize;
        let parents: Vec<value::Value> = (0..k).map(|_| pool[rng.below(pool.len() as u64) as usize].clone()).collect();
        let parent_refs: Vec<&value::Value> = parents.iter().collect();
        let cparams = CrossoverParams { crossover_prob: gen_prob(rng), selection_pressure: gen_prob(rng) };
        let mprob = sticky_mp.unwrap_or_else(|| gen_prob(rng));
        let mscale = *rng.pick(&[1.0, 1.0, 1e-3, 1e3, 1e-300, 1e300, 0.0]);
        let mparams = MutationParams { mutation_prob: mprob, mutation_scale: mscale };
        let rng_seed = rng.next();
        let mut std_rng = StdRng::seed_from_u64(rng_seed);
        let mut op = json!({
            "parents": parents.iter().map(|p| enc_value(&p.0)).collect::<Vec<_>>(),
            "cp": pclass(cparams.crossover_prob), "sp": pclass(cparams.selection_pressure), "mp": pclass(mprob),
            "mscale": f64_model(mscale), "rngSeed": rng_seed,
        });
        let cross = catch_unwind(AssertUnwindSafe(|| crossover.crossover(&spec, &parent_refs, &cparams, &mut path_ctx, &mut std_rng)));
        let cross = match cross {
            Ok(v) => v,
            Err(e) => { op["crossPanic"] = json!(panic_msg(e)); ops.push(op); break; }
        };
        op["cross"] = enc_value(&cross.0);
        let out = catch_unwind(AssertUnwindSafe(|| mutation::mutate(&spec, &cross, &mparams, &mut path_ctx, &mut std_rng)));
        let out = match out {
            Ok(v) => v,
            Err(e) => { op["mutPanic"] = json!(panic_msg(e)); ops.push(op); break; }
        };
        op["mut"] = enc_value(&out.0);
        // the controller writes every new individual as JSON before it is evaluated
        if let Err(e) = catch_unwind(AssertUnwindSafe(|| out.to_json())) { op["jsonPanic"] = json!(panic_msg(e)); }
        // values in nested resizable maps grow with every operation at probability 1: stop a sequence whose
        // operations have become very large (the trace line is bounded, nothing is hidden: the ops so far are checked)
        let big = op.to_string().len() > 150_000;
        ops.push(op);
        if big { break; }
        if pool.len() < 12 { pool.push(out); } else { let i = rng.below(pool.len() as u64) as usize; pool[i] = out; }
    }
    json!({"mode": "ops", "spec": enc_spec(&spec.0), "init": enc_value(&init.0), "ops": ops})
}

/// K-algo (in-run operator calls): drives the real `AlgoContext` (`next_individual` / `process_individual_eval`)
/// with generated objective values and rejections and records, through hook H3, every crossover and mutation the
/// algorithm performs on its own population (parents in ranking order, adaptive parameters).  The records are
/// written in the same form as K-ops lines, so the driver checks them with the same acceptors and predicates -
/// on populations that only exist after many generations.
pub fn gen_algo_case(rng: &mut Rng, thorough: bool) -> J {
    use cambrian::verif_hooks::{offspring_log_enable, offspring_log_take, AlgoContext};
    let mut cfg = GenCfg::quick();
    cfg.max_depth = 3; cfg.max_width = 3; cfg.max_array = 3; cfg.max_map = 4;
    let d0 = if rng.chance(1, 2) { 1 } else { 0 };
    // thorough tier, now and then: a LONG adaptive history on an unbounded real whose objective rewards ever larger
    // (or ever smaller) values, so that the adaptive mutation scale drifts as far as it can (C14: scale positive and finite)
    let long_history = thorough && rng.chance(1, 120);
    let spec = if long_history { spec::Spec(spec::Node::Real { init: 0.0, scale: 1.0, min: None, max: None }) } else { spec::Spec(gen_spec(rng, &cfg, d0)) };
    let sample_size = if long_history { 1 } else { 1 + rng.below(3) as usize };
    let guess = if !long_history && rng.chance(1, 3) { Some(value::Value(gen_value(rng, &spec.0, &cfg))) } else { None };
    let n_steps = if long_history { 60_000 } else if thorough { 200 + rng.below(600) } else { 40 + rng.below(120) } as usize;
    let pool = if long_history { 4 + rng.below(2) } else { rng.below(4) };
    offspring_log_enable();
    let res = catch_unwind(AssertUnwindSafe(|| {
        let mut ctx = AlgoContext::new(spec.clone(), sample_size, None, guess.clone());
        let mut inflight = Vec::new();
        let width = if long_history { 1 } else { 1 + rng.below(4) as usize };
        for step in 0..n_steps {
            while inflight.len() < width { inflight.push(ctx.next_individual()); }
            let k = rng.below(inflight.len() as u64) as usize;
            let ind = inflight.remove(k);
            let val = if !long_history && rng.chance(1, 8) { None } else {
                let root = if let value::Node::Real(r) = &ind.value.0 { *r } else { 0.0 };
                let x = match pool { 0 => rng.range(-5, 5) as f64, 1 => -(step as f64), 2 => step as f64, 4 => -(root.abs().min(1e300)), 5 => root.abs().min(1e300), _ => (rng.range(-1000, 1000) as f64) * 1e297 };
                Some(tangram_finite::FiniteF64::new(x).unwrap())
            };
            ctx.process_individual_eval(ind, val);
        }
    }));
    let recs = offspring_log_take();
    let init_val = guess.clone().unwrap_or_else(|| spec.initial_value());
    let mut ops: Vec<J> = Vec::new();
    // keep the line size bounded: the first records, and a sample of the later ones (large populations)
    let keep: Vec<usize> = (0..recs.len()).filter(|i| *i < 12 || i % 7 == 0).take(if thorough { 120 } else { 40 }).collect();
    for i in keep {
        let r = &recs[i];
        ops.push(json!({
            // with an empty population `create_offspring` takes the initial value instead of a crossover result
            "parents": if r.parent_values.is_empty() { vec![enc_value(&init_val.0)] } else { r.parent_values.iter().map(|p| enc_value(&p.0)).collect::<Vec<_>>() },
            "cp": pclass(r.crossover_prob), "sp": pclass(r.selection_pressure), "mp": pclass(r.mutation_prob),
            "mscale": f64_model(r.mutation_scale), "source": r.source, "inRun": true,
            "cross": enc_value(&r.crossover_result.0), "mut": enc_value(&r.mutation_result.0),
            "probs": [f64_model(r.crossover_prob), f64_model(r.selection_pressure), f64_model(r.mutation_prob)],
        }));
    }
    // the adaptive parameters of EVERY record (not only the sampled ones): probabilities in [0,1], scale positive and finite
    let bad_meta = recs.iter().enumerate().find(|(_, r)| {
        let pr = |p: f64| p >= 0.0 && p <= 1.0;
        !(pr(r.crossover_prob) && pr(r.selection_pressure) && pr(r.mutation_prob) && r.mutation_scale.is_finite() && r.mutation_scale > 0.0)
    }).map(|(i, r)| json!({"index": i, "source": r.source, "crossoverProb": format!("{:e}", r.crossover_prob), "selectionPressure": format!("{:e}", r.selection_pressure),
                           "mutationProb": format!("{:e}", r.mutation_prob), "mutationScale": format!("{:e}", r.mutation_scale)}));
    let mut line = json!({"mode": "ops", "inRun": true, "spec": enc_spec(&spec.0), "sampleSize": sample_size, "nRecords": recs.len(), "ops": ops, "badMeta": bad_meta, "longHistory": long_history,
                          "init": enc_value(&guess.unwrap_or_else(|| spec.initial_value()).0)});
    if let Err(e) = res { line["runPanic"] = json!(panic_msg(e)); }
    line
}
