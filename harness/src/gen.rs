//! PRNG-driven, type-directed generators: well-formed specs, values conforming to a spec, single-defect
//! corruptions of values and of JSON documents.
use crate::util::Rng;
use cambrian::{spec, value};
use rustc_hash::FxHashMap;
use serde_json::Value as J;

/// quoting-hostile and keyword-like strings next to plain ones
pub const STRINGS: &[&str] = &[
    "a", "b", "c", "x", "y", "foo", "bar", "baz", "alpha", "beta", "k1", "k2",
    "type", "init", "typeDef", "typeDefault", "typeDef x", "values", "optional", "0", "1", "10", "",
    "with space", "semi;colon", "quo\"te", "back\\slash", "new\nline", "ünï", "null", "true",
];

#[derive(Clone, Debug)]
pub struct GenCfg { pub max_depth: u32, pub max_width: u64, pub max_array: u64, pub max_map: u64, pub plain_keys: bool, pub max_nodes: u32, pub max_value_nodes: u32 }

impl GenCfg {
    pub fn quick() -> Self { GenCfg { max_depth: 4, max_width: 4, max_array: 5, max_map: 6, plain_keys: false, max_nodes: 24, max_value_nodes: 400 } }
    pub fn thorough() -> Self { GenCfg { max_depth: 6, max_width: 8, max_array: 12, max_map: 40, plain_keys: false, max_nodes: 60, max_value_nodes: 3000 } }
}

const MAGS: &[f64] = &[0.0, 1.0, 2.5, 1e-100, 1e-9, 1e-3, 10.0, 1e3, 1e9, 1e100];

fn gen_mag(rng: &mut Rng) -> f64 { *rng.pick(MAGS) * (1.0 + (rng.below(100) as f64) / 100.0) }
fn gen_signed(rng: &mut Rng) -> f64 { let m = gen_mag(rng); if rng.chance(1, 2) { -m } else { m } }

fn distinct_strings(rng: &mut Rng, n: usize, plain: bool) -> Vec<String> {
    let pool: Vec<&str> = if plain { STRINGS[..12].to_vec() } else { STRINGS.to_vec() };
    let mut out: Vec<String> = Vec::new();
    let mut guard = 0;
    while out.len() < n && guard < 1000 {
        guard += 1;
        let s = pool[rng.below(pool.len() as u64) as usize].to_string();
        if !out.contains(&s) { out.push(s); }
    }
    let mut i = 0;
    while out.len() < n { out.push(format!("gen{i}")); i += 1; }
    out
}

pub fn gen_spec(rng: &mut Rng, cfg: &GenCfg, depth: u32) -> spec::Node {
    let mut budget = cfg.max_nodes;
    gen_spec_b(rng, cfg, depth, &mut budget, 1)
}

/// `budget`: spec nodes that may still be created (the tree would otherwise grow super-critically at thorough widths)
/// `mult`: how many copies of this node a value holds at least (product of the array sizes and initial map sizes
/// above it) - arrays and initial map sizes are chosen so that a value stays below `max_value_nodes`
fn gen_spec_b(rng: &mut Rng, cfg: &GenCfg, depth: u32, budget: &mut u32, mult: u64) -> spec::Node {
    *budget = budget.saturating_sub(1);
    let leaf_only = depth >= cfg.max_depth || *budget == 0;
    let kind = if leaf_only { rng.below(5) } else { rng.below(12) };
    match kind {
        0 => {
            // real: bounds optional, init inside, scale > 0
            let (mut lo, mut hi) = (gen_signed(rng), gen_signed(rng));
            if lo > hi { std::mem::swap(&mut lo, &mut hi); }
            if lo == hi { hi = lo + 1.0 + lo.abs(); }
            let min = if rng.chance(1, 2) { Some(lo) } else { None };
            let max = if rng.chance(1, 2) { Some(hi) } else { None };
            let init = match rng.below(4) {
                0 => min.unwrap_or(lo),
                1 => max.unwrap_or(hi),
                _ => { let t = rng.below(101) as f64 / 100.0; let v = lo + (hi - lo) * t; v.max(lo).min(hi) }
            };
            let mut scale = gen_mag(rng);
            if scale <= 0.0 { scale = 1.0; }
            spec::Node::Real { init, scale, min, max }
        }
        1 => {
            let pick = |rng: &mut Rng| -> i64 { match rng.below(7) { 6 => { let b = *rng.pick(&[(1i64 << 53) + 1, (1i64 << 53) + 3, 9_999_999_999_999_999, (1i64 << 60) + 1, (1i64 << 62) + 129]); if rng.chance(1, 2) { -b } else { b } } 0 => rng.range(-5, 5), 1 => rng.range(-1000, 1000), 2 => 1i64 << 62, 3 => -(1i64 << 62), 4 => if rng.chance(1, 2) { i64::MAX } else { i64::MIN }, _ => rng.range(-100000, 100000) } };
            let (mut lo, mut hi) = (pick(rng), pick(rng));
            if lo > hi { std::mem::swap(&mut lo, &mut hi); }
            if lo == hi { if hi < i64::MAX { hi += 1 } else { lo -= 1 } }
            let min = if rng.chance(1, 2) { Some(lo) } else { None };
            let max = if rng.chance(1, 2) { Some(hi) } else { None };
            let init = match rng.below(3) { 0 => lo, 1 => hi, _ => lo / 2 + hi / 2 };
            let mut scale = gen_mag(rng);
            if scale <= 0.0 { scale = 1.0; }
            spec::Node::Int { init, scale, min, max }
        }
        2 => spec::Node::Bool { init: rng.chance(1, 2) },
        3 => {
            let n = 2 + rng.below(4) as usize;
            let values = distinct_strings(rng, n, cfg.plain_keys);
            let init = values[rng.below(n as u64) as usize].clone();
            spec::Node::Enum { values, init }
        }
        4 => spec::Node::Const,
        5 | 6 => {
            let n = (1 + rng.below(cfg.max_width) as usize).min(1 + *budget as usize);
            let keys = distinct_strings(rng, n, cfg.plain_keys);
            let mut map = FxHashMap::default();
            for k in keys { map.insert(k, Box::new(gen_spec_b(rng, cfg, depth + 1, budget, mult))); }
            spec::Node::Sub { map }
        }
        7 => {
            let cap = (cfg.max_value_nodes as u64 / mult.max(1)).max(2);
            let size = (2 + rng.below(cfg.max_array - 1)).min(cap);
            if mult * 2 > cfg.max_value_nodes as u64 { return spec::Node::Bool { init: rng.chance(1, 2) }; }
            spec::Node::Array { value_type: Box::new(gen_spec_b(rng, cfg, depth + 1, budget, mult * size)), size: size as usize }
        }
        8 | 9 => {
            let init_size = rng.below(cfg.max_map + 1).min(cfg.max_value_nodes as u64 / mult.max(1)) as usize;
            let min_size = if rng.chance(1, 2) { Some(rng.below(init_size as u64 + 1) as usize) } else { None };
            let lo = init_size.max(1).max(min_size.map(|m| m + 1).unwrap_or(0));
            // now and then a bound that only says "effectively unbounded"
            let max_size = if rng.chance(1, 2) { Some(lo + rng.below(3) as usize) } else if rng.chance(1, 8) { Some(*rng.pick(&[1usize << 62, usize::MAX / 2, usize::MAX - 1])) } else { None };
            spec::Node::AnonMap { value_type: Box::new(gen_spec_b(rng, cfg, depth + 1, budget, mult * (init_size.max(1) as u64))), init_size, min_size, max_size }
        }
        10 => {
            let n = 2 + rng.below(3) as usize;
            let keys = distinct_strings(rng, n, cfg.plain_keys);
            let init = keys[rng.below(n as u64) as usize].clone();
            let mut map = FxHashMap::default();
            // now and then a variant used like an enum: every alternative is `const`
            let all_const = rng.chance(1, 6);
            for k in keys { map.insert(k, Box::new(if all_const { spec::Node::Const } else { gen_spec_b(rng, cfg, depth + 1, budget, mult) })); }
            spec::Node::Variant { map, init }
        }
        _ => spec::Node::Optional { value_type: Box::new(gen_spec_b(rng, cfg, depth + 1, budget, mult)), init_present: rng.chance(1, 2) },
    }
}

fn gen_real_in(rng: &mut Rng, init: f64, min: Option<f64>, max: Option<f64>) -> f64 {
    let v = match rng.below(6) {
        0 => init,
        1 => min.unwrap_or(init),
        2 => max.unwrap_or(init),
        3 => { let lo = min.unwrap_or(init - 1.0 - init.abs()); let hi = max.unwrap_or(init + 1.0 + init.abs()); lo + (hi - lo) * (rng.below(1001) as f64 / 1000.0) }
        4 => if min.is_none() { -gen_mag(rng) * 1e10 } else if max.is_none() { gen_mag(rng) * 1e10 } else { init },
        _ => init + gen_signed(rng),
    };
    let mut v = if v.is_finite() { v } else { init };
    // negative zero is a value of its own (its JSON text is "-0.0")
    if rng.chance(1, 12) && min.map(|m| m <= 0.0).unwrap_or(true) && max.map(|m| m >= 0.0).unwrap_or(true) { v = -0.0; }
    if let Some(m) = min { if v < m { v = m; } }
    if let Some(m) = max { if v > m { v = m; } }
    v
}

fn gen_int_in(rng: &mut Rng, init: i64, min: Option<i64>, max: Option<i64>) -> i64 {
    let v = match rng.below(5) {
        0 => init,
        1 => min.unwrap_or(init),
        2 => max.unwrap_or(init),
        3 => init.saturating_add(rng.range(-10, 10)),
        _ => if min.is_none() && rng.chance(1, 2) { i64::MIN + rng.range(0, 3) } else if max.is_none() { i64::MAX - rng.range(0, 3) } else { init },
    };
    let mut v = v;
    if let Some(m) = min { if v < m { v = m; } }
    if let Some(m) = max { if v > m { v = m; } }
    v
}

pub fn gen_map_keys(rng: &mut Rng, n: usize) -> Vec<usize> {
    let mut keys: Vec<usize> = Vec::new();
    while keys.len() < n {
        let k = match rng.below(10) { 0 => 1_000_000 + rng.below(5) as usize, 1 => (1usize << 40) + rng.below(3) as usize, _ => rng.below(3 * n as u64 + 4) as usize };
        if !keys.contains(&k) { keys.push(k); }
    }
    keys
}

/// a value that conforms to `s`
pub fn gen_value(rng: &mut Rng, s: &spec::Node, cfg: &GenCfg) -> value::Node {
    let mut budget = cfg.max_value_nodes;
    gen_value_b(rng, s, cfg, &mut budget)
}

/// `budget`: value nodes that may still be created; once it is used up maps take their minimum size
fn gen_value_b(rng: &mut Rng, s: &spec::Node, cfg: &GenCfg, budget: &mut u32) -> value::Node {
    *budget = budget.saturating_sub(1);
    match s {
        spec::Node::Real { init, min, max, .. } => value::Node::Real(gen_real_in(rng, *init, *min, *max)),
        spec::Node::Int { init, min, max, .. } => value::Node::Int(gen_int_in(rng, *init, *min, *max)),
        spec::Node::Bool { .. } => value::Node::Bool(rng.chance(1, 2)),
        spec::Node::Sub { map } => {
            let mut ks: Vec<&String> = map.keys().collect();
            ks.sort();
            value::Node::Sub(ks.into_iter().map(|k| (k.clone(), Box::new(gen_value_b(rng, &map[k], cfg, budget)))).collect())
        }
        spec::Node::Array { value_type, size } => value::Node::Array((0..*size).map(|_| Box::new(gen_value_b(rng, value_type, cfg, budget))).collect()),
        spec::Node::AnonMap { value_type, min_size, max_size, init_size } => {
            let lo = min_size.unwrap_or(0);
            // (a declared bound may be astronomically large - "effectively unbounded": values stay small all the same)
            let hi = max_size.unwrap_or(lo.max(*init_size) + 3).min(lo.max(*init_size) + 6);
            let n = if *budget == 0 { lo } else { match rng.below(4) { 0 => lo, 1 => hi, 2 => (*init_size).clamp(lo, hi), _ => lo + rng.below((hi - lo + 1) as u64) as usize } };
            let keys = gen_map_keys(rng, n);
            value::Node::AnonMap(keys.into_iter().map(|k| (k, Box::new(gen_value_b(rng, value_type, cfg, budget)))).collect())
        }
        spec::Node::Variant { map, .. } => {
            let mut ks: Vec<&String> = map.keys().collect();
            ks.sort();
            let k = ks[rng.below(ks.len() as u64) as usize];
            value::Node::Variant(k.clone(), Box::new(gen_value_b(rng, &map[k], cfg, budget)))
        }
        spec::Node::Enum { values, .. } => value::Node::Enum(values[rng.below(values.len() as u64) as usize].clone()),
        spec::Node::Optional { value_type, .. } => if rng.chance(1, 3) { value::Node::Optional(None) } else { value::Node::Optional(Some(Box::new(gen_value_b(rng, value_type, cfg, budget)))) },
        spec::Node::Const => value::Node::Const,
    }
}

fn next_up(x: f64) -> f64 { if x == 0.0 { 5e-324 } else if x > 0.0 { f64::from_bits(x.to_bits() + 1) } else { f64::from_bits(x.to_bits() - 1) } }
fn next_down(x: f64) -> f64 { -next_up(-x) }

/// Introduce exactly one defect at a random position so that the result does NOT conform.  Returns a tag naming
/// the defect, or None when no defect is possible at the chosen position (the value is then unchanged).
pub fn corrupt_value(rng: &mut Rng, s: &spec::Node, v: &mut value::Node, cfg: &GenCfg) -> Option<&'static str> {
    // descend with probability, else corrupt here
    let descend = rng.chance(2, 3);
    match (s, v) {
        (spec::Node::Sub { map }, value::Node::Sub(vm)) if descend && !vm.is_empty() => {
            let mut ks: Vec<String> = vm.keys().cloned().collect();
            ks.sort();
            let k = ks[rng.below(ks.len() as u64) as usize].clone();
            if let Some(cs) = map.get(&k) { return corrupt_value(rng, cs, vm.get_mut(&k).unwrap(), cfg); }
            None
        }
        (spec::Node::Array { value_type, .. }, value::Node::Array(l)) if descend && !l.is_empty() => {
            let i = rng.below(l.len() as u64) as usize;
            corrupt_value(rng, value_type, &mut l[i], cfg)
        }
        (spec::Node::AnonMap { value_type, .. }, value::Node::AnonMap(m)) if descend && !m.is_empty() => {
            let mut ks: Vec<usize> = m.keys().cloned().collect();
            ks.sort();
            let k = ks[rng.below(ks.len() as u64) as usize];
            corrupt_value(rng, value_type, m.get_mut(&k).unwrap(), cfg)
        }
        (spec::Node::Variant { map, .. }, value::Node::Variant(name, child)) if descend => {
            let cs = map.get(name)?;
            corrupt_value(rng, cs, child, cfg)
        }
        (spec::Node::Optional { value_type, .. }, value::Node::Optional(Some(child))) if descend => corrupt_value(rng, value_type, child, cfg),
        (s, v) => corrupt_here(rng, s, v, cfg),
    }
}

fn corrupt_here(rng: &mut Rng, s: &spec::Node, v: &mut value::Node, cfg: &GenCfg) -> Option<&'static str> {
    match s {
        spec::Node::Real { min, max, .. } => {
            match (min, max, rng.chance(1, 2)) {
                (Some(m), _, true) | (Some(m), None, _) => { *v = value::Node::Real(if rng.chance(1, 2) { next_down(*m) } else { *m - 1.0 - m.abs() }); Some("real-below-min") }
                (_, Some(m), _) => { *v = value::Node::Real(if rng.chance(1, 2) { next_up(*m) } else { *m + 1.0 + m.abs() }); Some("real-above-max") }
                _ => { *v = value::Node::Bool(true); Some("real-wrong-type") }
            }
        }
        spec::Node::Int { min, max, .. } => {
            match (min, max, rng.chance(1, 2)) {
                (Some(m), _, true) | (Some(m), None, _) if *m > i64::MIN => { *v = value::Node::Int(*m - 1); Some("int-below-min") }
                (_, Some(m), _) if *m < i64::MAX => { *v = value::Node::Int(*m + 1); Some("int-above-max") }
                _ => { *v = value::Node::Real(0.5); Some("int-wrong-type") }
            }
        }
        spec::Node::Bool { .. } => { *v = value::Node::Int(1); Some("bool-wrong-type") }
        spec::Node::Sub { map } => {
            if let value::Node::Sub(vm) = v {
                if rng.chance(1, 2) && vm.len() >= 1 {
                    let mut ks: Vec<String> = vm.keys().cloned().collect();
                    ks.sort();
                    let k = ks[rng.below(ks.len() as u64) as usize].clone();
                    vm.remove(&k);
                    return Some("sub-missing-key");
                } else {
                    // (sometimes long and not ASCII: error messages that quote the offending text must cope with it)
                    let mut extra = if rng.chance(1, 2) { "zz_extra".to_string() } else { format!("zz_{}", "\u{e9}".repeat(20 + rng.below(30) as usize)) };
                    while map.contains_key(&extra) { extra.push('z'); }
                    vm.insert(extra, Box::new(value::Node::Bool(true)));
                    return Some("sub-extra-key");
                }
            }
            None
        }
        spec::Node::Array { value_type, .. } => {
            if let value::Node::Array(l) = v {
                if rng.chance(1, 2) { l.pop(); if rng.chance(1, 3) { l.clear(); } return Some("array-too-short"); }
                let extra = gen_value(rng, value_type, cfg);
                l.push(Box::new(extra));
                return Some("array-too-long");
            }
            None
        }
        spec::Node::AnonMap { value_type, min_size, max_size, .. } => {
            if let value::Node::AnonMap(m) = v {
                match (min_size, max_size, rng.chance(1, 2)) {
                    (Some(mn), _, true) | (Some(mn), None, _) if *mn > 0 => {
                        let mut ks: Vec<usize> = m.keys().cloned().collect();
                        ks.sort();
                        while m.len() >= *mn { let k = ks.pop().unwrap(); m.remove(&k); }
                        Some("map-below-min")
                    }
                    (_, Some(mx), _) if *mx < 64 => {
                        let mut k = 0usize;
                        while m.len() <= *mx { while m.contains_key(&k) { k += 1; } m.insert(k, Box::new(gen_value(rng, value_type, cfg))); }
                        Some("map-above-max")
                    }
                    _ => { *v = value::Node::Enum("not-a-map".to_string()); Some("map-wrong-type") }
                }
            } else { None }
        }
        spec::Node::Variant { map, .. } => {
            let mut name = if rng.chance(1, 2) { "zz_unknown".to_string() } else { format!("zz_{}", "\u{20ac}".repeat(13 + rng.below(20) as usize)) };
            while map.contains_key(&name) { name.push('z'); }
            *v = value::Node::Variant(name, Box::new(value::Node::Const));
            Some("variant-unknown")
        }
        spec::Node::Enum { values, .. } => {
            let mut name = if rng.chance(1, 2) { "zz_unknown".to_string() } else { format!("z{}", "\u{e9}".repeat(20 + rng.below(30) as usize)) };
            while values.contains(&name) { name.push('z'); }
            *v = value::Node::Enum(name);
            Some("enum-unknown")
        }
        spec::Node::Optional { .. } => None,
        spec::Node::Const => { *v = value::Node::Bool(false); Some("const-wrong-type") }
    }
}

/// an arbitrary JSON document (not spec-directed)
pub fn gen_json(rng: &mut Rng, depth: u32) -> J {
    let k = if depth >= 3 { rng.below(6) } else { rng.below(9) };
    match k {
        0 => J::Null,
        1 => J::Bool(rng.chance(1, 2)),
        2 => serde_json::json!(rng.range(-5, 20)),
        3 => serde_json::json!(gen_signed(rng)),
        4 => J::String(rng.pick(STRINGS).to_string()),
        5 => match rng.below(4) { 0 => serde_json::json!(u64::MAX), 1 => serde_json::json!(i64::MIN), 2 => serde_json::json!(1e308), _ => serde_json::json!(-0.0) },
        6 => J::Array((0..rng.below(4)).map(|_| gen_json(rng, depth + 1)).collect()),
        _ => {
            let mut m = serde_json::Map::new();
            for _ in 0..rng.below(4) {
                let key = match rng.below(4) { 0 => rng.below(12).to_string(), 1 => format!("+{}", rng.below(5)), 2 => format!("0{}", rng.below(5)), _ => rng.pick(STRINGS).to_string() };
                m.insert(key, gen_json(rng, depth + 1));
            }
            J::Object(m)
        }
    }
}

/// one random structural edit of a JSON document
pub fn corrupt_json(rng: &mut Rng, j: &mut J) {
    match j {
        J::Array(a) if !a.is_empty() && rng.chance(2, 3) => { let i = rng.below(a.len() as u64) as usize; corrupt_json(rng, &mut a[i]); }
        J::Object(m) if !m.is_empty() && rng.chance(2, 3) => {
            let ks: Vec<String> = m.keys().cloned().collect();
            let k = ks[rng.below(ks.len() as u64) as usize].clone();
            corrupt_json(rng, m.get_mut(&k).unwrap());
        }
        J::Array(a) => match rng.below(3) { 0 => { a.pop(); } 1 => { a.push(gen_json(rng, 2)); } _ => { *j = gen_json(rng, 2); } },
        J::Object(m) => match rng.below(4) {
            0 => { let ks: Vec<String> = m.keys().cloned().collect(); if let Some(k) = ks.first() { m.remove(k); } }
            1 => { m.insert(rng.pick(STRINGS).to_string(), gen_json(rng, 2)); }
            2 => { m.insert(if rng.chance(1, 3) { format!("k{}", "\u{e9}".repeat(20 + rng.below(30) as usize)) } else { format!("{}", rng.below(30)) }, gen_json(rng, 2)); }
            _ => { *j = gen_json(rng, 2); }
        },
        _ => { *j = gen_json(rng, 2); }
    }
}
