//! K-proc: the real `cambrian` binary with scripted `objprog` children.
//!
//! Which evaluations are in flight when the run ends is chosen by the harness through release files (no sleeps in
//! the decision path); survivors are found by scanning /proc for the marker environment variable.
use crate::util::*;
use serde_json::{json, Value as J};
use std::ffi::OsString;
use std::os::unix::ffi::OsStringExt;
use std::path::{Path, PathBuf};
use std::process::{Command, Stdio};
use std::time::{Duration, Instant};

#[derive(Clone, Debug)]
pub enum Step { WaitStarts(usize), Release(u64), ReleaseAllUntilExit, SleepMs(u64), SigInt, CountAlive }

#[derive(Clone, Debug)]
pub struct Scen {
    pub family: String,
    pub spec_yaml: String,
    pub opts: Vec<String>,
    pub user_args: Vec<Vec<u8>>,
    pub plan: J,
    pub script: Vec<Step>,
    pub out_dir: u8,            // 0 none, 1 fresh, 2 existing without --force, 3 existing with --force
    pub program_missing: bool,
    pub spec_missing: bool,
    pub expect: J,
}

fn hex(b: &[u8]) -> String { b.iter().map(|x| format!("{:02x}", x)).collect() }
fn unhex(s: &str) -> Vec<u8> { (0..s.len() / 2).map(|i| u8::from_str_radix(&s[2 * i..2 * i + 2], 16).unwrap_or(0)).collect() }

pub fn bin_dir() -> PathBuf { std::env::current_exe().unwrap().parent().unwrap().to_path_buf() }
/// the orchestrator's build directory (`CVH_BUILD`, default /verif/build): scratch directories and the cambrian binary live there
pub fn build_dir() -> PathBuf { std::env::var_os("CVH_BUILD").map(PathBuf::from).unwrap_or_else(|| PathBuf::from("/verif/build")) }
pub fn cambrian_bin() -> PathBuf {
    std::env::var_os("CVH_CAMBRIAN").map(PathBuf::from).unwrap_or_else(|| build_dir().join("cambrian-target/release/cambrian"))
}

fn read_log(scen: &Path) -> Vec<J> {
    std::fs::read_to_string(scen.join("log")).unwrap_or_default().lines().filter_map(|l| serde_json::from_str(l).ok()).collect()
}

fn count_starts(scen: &Path) -> usize { read_log(scen).iter().filter(|e| e["ev"] == "start").count() }

/// processes (not zombies) whose environment carries the marker
fn survivors(mark: &str) -> Vec<J> {
    let needle = format!("CVH_MARK={}", mark);
    let mut out = Vec::new();
    if let Ok(rd) = std::fs::read_dir("/proc") {
        for e in rd.flatten() {
            let name = e.file_name();
            let pid: i32 = match name.to_str().and_then(|s| s.parse().ok()) { Some(p) => p, None => continue };
            if pid == std::process::id() as i32 { continue; }
            let env = match std::fs::read(e.path().join("environ")) { Ok(b) => b, Err(_) => continue };
            if !env.split(|c| *c == 0).any(|kv| kv == needle.as_bytes()) { continue; }
            let stat = std::fs::read_to_string(e.path().join("stat")).unwrap_or_default();
            // pid (comm) state ppid pgrp ...
            let after = stat.rsplit(')').next().unwrap_or("").trim().to_string();
            let f: Vec<&str> = after.split_whitespace().collect();
            let state = f.first().copied().unwrap_or("?");
            if state == "Z" || state == "X" { continue; }
            let cmd = std::fs::read(e.path().join("cmdline")).unwrap_or_default();
            let cmd: Vec<String> = cmd.split(|c| *c == 0).filter(|s| !s.is_empty()).map(|s| String::from_utf8_lossy(s).to_string()).collect();
            out.push(json!({"pid": pid, "state": state, "pgrp": f.get(2).copied().unwrap_or("?"), "cmd": cmd.iter().take(3).collect::<Vec<_>>()}));
        }
    }
    out
}

fn kill_marked(mark: &str) {
    for s in survivors(mark) { if let Some(p) = s["pid"].as_i64() { let _ = nix::sys::signal::kill(nix::unistd::Pid::from_raw(p as i32), nix::sys::signal::Signal::SIGKILL); } }
}

pub fn run_scen(sc: &Scen, case: u64) -> J {
    let base = build_dir().join("proc").join(format!("{}_{}", std::process::id(), case));
    let _ = std::fs::remove_dir_all(&base);
    std::fs::create_dir_all(&base).unwrap();
    let mark = format!("cvh{}x{}", std::process::id(), case);
    let spec_path = base.join("spec.yaml");
    if !sc.spec_missing { std::fs::write(&spec_path, &sc.spec_yaml).unwrap(); }
    std::fs::write(base.join("plan.json"), sc.plan.to_string()).unwrap();
    let out_dir = base.join("out");
    if sc.out_dir >= 2 {
        std::fs::create_dir_all(&out_dir).unwrap();
        // mode 4: the existing directory is EMPTY (it exists all the same: refused without --force, left as it is)
        if sc.out_dir != 4 { std::fs::write(out_dir.join("sentinel"), b"keep me").unwrap(); }
    }
    let program = if sc.program_missing { base.join("no-such-program") } else { bin_dir().join("objprog") };
    let mut cmd = Command::new(cambrian_bin());
    cmd.args(&sc.opts).arg("-s").arg(&spec_path);
    // the children are told the concurrency of the run (see objprog: how hard to look at the process table)
    let nc_opt = sc.opts.iter().position(|o| o == "--num-concurrent").and_then(|i| sc.opts.get(i + 1)).and_then(|v| v.parse::<usize>().ok()).unwrap_or(1);
    cmd.env("CVH_NC", nc_opt.max(1).to_string());
    if sc.out_dir >= 1 { cmd.arg("-o").arg(&out_dir); }
    if sc.out_dir == 3 { cmd.arg("--force"); }
    cmd.arg("--").arg(&program);
    for a in &sc.user_args { cmd.arg(OsString::from_vec(a.clone())); }
    cmd.env("CVH_SCEN", &base).env("CVH_MARK", &mark).env_remove("RUST_LOG").env_remove("RUST_BACKTRACE");
    cmd.stdin(Stdio::null());
    cmd.stdout(std::fs::File::create(base.join("stdout")).unwrap());
    cmd.stderr(std::fs::File::create(base.join("stderr")).unwrap());
    let t0 = Instant::now();
    let mut child = match cmd.spawn() { Ok(c) => c, Err(e) => return json!({"mode": "proc", "family": sc.family, "harnessError": format!("cannot start cambrian: {e}")}) };
    let pid = child.id() as i32;
    let deadline = Duration::from_secs(30);
    let mut hang = false;
    let mut status = None;
    let mut script_notes: Vec<String> = Vec::new();
    let mut released: Vec<u64> = Vec::new();
    let mut alive_mid: Option<usize> = None;
    'script: for st in &sc.script {
        match st {
            Step::WaitStarts(n) => {
                let t = Instant::now();
                while count_starts(&base) < *n {
                    if let Ok(Some(s)) = child.try_wait() { status = Some(s); break 'script; }
                    if t.elapsed() > Duration::from_secs(10) { script_notes.push(format!("timeout waiting for {n} starts")); break; }
                    std::thread::sleep(Duration::from_millis(2));
                }
            }
            Step::Release(seed) => { let _ = std::fs::write(base.join(format!("release_{}", seed)), b""); released.push(*seed); }
            Step::ReleaseAllUntilExit => {
                let t = Instant::now();
                loop {
                    if let Ok(Some(s)) = child.try_wait() { status = Some(s); break 'script; }
                    for e in read_log(&base) { if e["ev"] == "start" { if let Some(sd) = e["seed"].as_u64() { if !released.contains(&sd) { let _ = std::fs::write(base.join(format!("release_{}", sd)), b""); released.push(sd); } } } }
                    if t.elapsed() > deadline { break; }
                    std::thread::sleep(Duration::from_millis(2));
                }
            }
            Step::SleepMs(ms) => std::thread::sleep(Duration::from_millis(*ms)),
            // how many marked processes (children of the run, not zombies) are alive at this point of the script
            // (looked at again and again for up to 4 s, so that a machine under heavy load is not mistaken for a run that
            // does not end its children: what counts is that they ARE ended, not that it takes less than 400 ms)
            Step::CountAlive => {
                let t1 = Instant::now();
                let mut n = survivors(&mark).len();
                while n > 0 && t1.elapsed() < Duration::from_secs(4) { std::thread::sleep(Duration::from_millis(50)); n = survivors(&mark).len(); }
                alive_mid = Some(n);
            }
            Step::SigInt => { let _ = nix::sys::signal::kill(nix::unistd::Pid::from_raw(pid), nix::sys::signal::Signal::SIGINT); }
        }
    }
    while status.is_none() {
        match child.try_wait() {
            Ok(Some(s)) => status = Some(s),
            _ => {
                if t0.elapsed() > deadline { hang = true; let _ = child.kill(); status = child.wait().ok(); break; }
                std::thread::sleep(Duration::from_millis(2));
            }
        }
    }
    let wall_ms = t0.elapsed().as_millis() as u64;
    // survivors: SIGKILLed group members need a moment to disappear
    let mut surv = survivors(&mark);
    let t1 = Instant::now();
    while !surv.is_empty() && t1.elapsed() < Duration::from_millis(1000) { std::thread::sleep(Duration::from_millis(20)); surv = survivors(&mark); }
    let log = read_log(&base);
    let eval_groups: Vec<String> = log.iter().filter(|e| e["ev"] == "start").filter_map(|e| e["pgid"].as_i64().map(|g| g.to_string())).collect();
    let (surv, escaped): (Vec<J>, Vec<J>) = surv.into_iter().partition(|s| s["pgrp"].as_str().map(|g| eval_groups.iter().any(|x| x == g)).unwrap_or(true));
    kill_marked(&mark);
    use std::os::unix::process::ExitStatusExt;
    let st = status.unwrap();
    let stdout = std::fs::read(base.join("stdout")).unwrap_or_default();
    let stderr = std::fs::read(base.join("stderr")).unwrap_or_default();
    let stdout_lines: Vec<String> = String::from_utf8_lossy(&stdout).lines().map(|s| s.to_string()).collect();
    let mut files = serde_json::Map::new();
    let mut sentinel_intact = J::Null;
    if sc.out_dir >= 1 {
        if let Ok(rd) = std::fs::read_dir(&out_dir) {
            for e in rd.flatten() {
                let n = e.file_name().to_string_lossy().to_string();
                let b = std::fs::read(e.path()).unwrap_or_default();
                files.insert(n, json!({"len": b.len(), "hex": hex(&b[..b.len().min(200_000)])}));
            }
        }
        if sc.out_dir == 4 { sentinel_intact = json!(out_dir.is_dir() && files.is_empty()); }
        else if sc.out_dir >= 2 { sentinel_intact = json!(std::fs::read(out_dir.join("sentinel")).map(|b| b == b"keep me").unwrap_or(false)); }
    }
    let stderr_s = String::from_utf8_lossy(&stderr).to_string();
    // derived observations: parsed report files, the spec and the printed best as the model sees them
    let mut derived = serde_json::Map::new();
    if let Ok(spec) = cambrian::spec_util::from_yaml_str(&sc.spec_yaml) { derived.insert("specEnc".into(), crate::enc::enc_spec(&spec.0)); }
    if let Some(l0) = stdout_lines.first() { if let Ok(j) = serde_json::from_str::<J>(l0) { derived.insert("stdoutJson".into(), crate::enc::enc_json(&j)); derived.insert("stdoutCanon".into(), json!(canon(&j))); } }
    if sc.out_dir >= 1 {
        if let Ok(txt) = std::fs::read_to_string(out_dir.join("detailed_report.csv")) {
            let mut lines = txt.split('\n').collect::<Vec<_>>();
            if lines.last() == Some(&"") { lines.pop(); }
            let header_ok = lines.first().map(|h| *h == "individualId;evalTimeSeconds;metaParamsSource;crossoverProb;selectionPressure;mutationProb;mutationScale;inputVal;seed;objFuncVal").unwrap_or(false);
            let mut items = Vec::new();
            let mut rows_ok = header_ok;
            for row in lines.iter().skip(1) {
                let f: Vec<&str> = row.split(';').collect();
                if f.len() < 10 { rows_ok = false; continue; }
                let id = f[0].parse::<u64>().ok();
                let seed = f[f.len() - 2].parse::<u64>().ok();
                let objs = f[f.len() - 1];
                let obj = if objs.is_empty() { Some(J::Null) } else { objs.parse::<f64>().ok().map(|x| json!(order_code(x))) };
                let input = f[7..f.len() - 2].join(";");
                let input_j = serde_json::from_str::<J>(&input).ok();
                let probs: Vec<J> = f[3..7].iter().map(|p| if p.is_empty() { J::Null } else { p.parse::<f64>().map(f64_model).unwrap_or(json!("unparsable")) }).collect();
                match (id, seed, obj, input_j) {
                    (Some(i), Some(sd), Some(o), Some(ij)) => items.push(json!([i, sd, o, canon(&ij), probs])),
                    _ => { rows_ok = false; }
                }
            }
            derived.insert("csvOk".into(), json!(rows_ok));
            derived.insert("csvItems".into(), J::Array(items));
        }
        if let Ok(txt) = std::fs::read_to_string(out_dir.join("best_seen.json")) { derived.insert("bestSeenFile".into(), serde_json::from_str::<J>(&txt).map(|j| json!(canon(&j))).unwrap_or(json!("unparsable"))); }
        if let Ok(txt) = std::fs::read_to_string(out_dir.join("summary_report.txt")) {
            let num = |key: &str| txt.lines().find(|l| l.starts_with(key)).and_then(|l| l[key.len()..].trim().parse::<f64>().ok());
            derived.insert("summary".into(), json!({
                "best": num("Best seen objective function value:").map(order_code),
                "completed": num("Number of completed objective function evaluations:").map(|x| x as u64),
                "rejected": num("Number of rejected objective function evaluations:").map(|x| x as u64)}));
        }
    }
    // argv of every started child, decoded: user args as given? last two: JSON parameters and seed
    let mut argv_ok = true;
    let mut argv_json: Vec<J> = Vec::new();
    for e in &log {
        if e["ev"] == "start" {
            let av: Vec<Vec<u8>> = e["argv"].as_array().map(|a| a.iter().map(|h| unhex(h.as_str().unwrap_or(""))).collect()).unwrap_or_default();
            if av.len() != sc.user_args.len() + 2 || av[..sc.user_args.len()] != sc.user_args[..] { argv_ok = false; continue; }
            let js = String::from_utf8_lossy(&av[av.len() - 2]).to_string();
            let sd = String::from_utf8_lossy(&av[av.len() - 1]).to_string();
            match (serde_json::from_str::<J>(&js), sd.parse::<u64>()) {
                (Ok(j), Ok(sdn)) if e["seed"].as_u64() == Some(sdn) => argv_json.push(json!([sdn, crate::enc::enc_json(&j), canon(&j)])),
                _ => { argv_ok = false; }
            }
        }
    }
    derived.insert("argvOk".into(), json!(argv_ok));
    derived.insert("argvJson".into(), J::Array(argv_json));
    let line = json!({
        "mode": "proc", "family": sc.family, "opts": sc.opts, "userArgs": sc.user_args.iter().map(|a| hex(a)).collect::<Vec<_>>(),
        "spec": sc.spec_yaml, "plan": sc.plan, "outDirMode": sc.out_dir, "expect": sc.expect, "released": released,
        "obs": {
            "exitCode": st.code(), "signal": st.signal(), "hang": hang, "wallMs": wall_ms,
            "stdoutLines": stdout_lines, "stderrTail": stderr_s.chars().rev().take(600).collect::<String>().chars().rev().collect::<String>(),
            "stderrPanic": stderr_s.contains("panicked at"),
            "derived": derived, "log": log, "survivors": surv, "escapedBySetsid": escaped.len(), "aliveAfterFailure": alive_mid, "files": files, "sentinelIntact": sentinel_intact, "scriptNotes": script_notes,
        }
    });
    let _ = std::fs::remove_dir_all(&base);
    line
}

// ------------------------------------------------------------------------------------------------ scenarios

const SPEC_SIMPLE: &str = "type: real\ninit: 0.5\nscale: 0.1\nmin: 0\nmax: 1\n";
const SPEC_HOSTILE: &str = "\"quo\\\"te\":\n  type: enum\n  init: \"semi;colon\"\n  values: [\"semi;colon\", \"new\\nline\", \"with space\"]\n\"back\\\\slash\":\n  type: anon map\n  initSize: 2\n  valueType:\n    type: bool\n    init: true\nplain:\n  type: int\n  init: 3\n  scale: 2\n";

fn base_scen(family: &str) -> Scen {
    Scen { family: family.into(), spec_yaml: SPEC_SIMPLE.into(), opts: vec![], user_args: vec![], plan: json!({"default": {"value_of_seed": "neg"}}),
           script: vec![], out_dir: 0, program_missing: false, spec_missing: false, expect: json!({}) }
}

fn s(x: &str) -> String { x.to_string() }

pub fn gen_scen(rng: &mut Rng, _thorough: bool) -> Scen {
    let fam = rng.below(18);
    let nc = 1 + rng.below(4) as usize;
    match fam {
        0 | 1 => {
            // budget run, fast children, some rejections
            if rng.chance(1, 10) {
                // a budget of zero: nothing is started (the time limit only ends a run that wrongly goes on)
                let mut sc = base_scen("budget-zero");
                sc.opts = vec![s("-n"), s("0"), s("--num-concurrent"), nc.to_string(), s("--terminate-after"), s("1500ms")];
                sc.expect = json!({"exit": "fail", "starts": 0, "stdoutLines": 0, "survivors": 0});
                return sc;
            }
            let n = 1 + rng.below(10) as usize;
            let mut sc = base_scen("budget");
            if rng.chance(1, 4) {
                // a long stochastic run: from 20 individuals on, individuals are re-evaluated (new seeds for old ids); the
                // budget still counts every start, every child gets its own seed, stdout is still one line
                let n = 50 + rng.below(40) as usize;
                let k = 2 + rng.below(2) as usize;
                let mut sc = base_scen("sampled");
                sc.opts = vec![s("-n"), n.to_string(), s("--sample-size"), k.to_string(), s("--num-concurrent"), (1 + rng.below(2)).to_string()];
                sc.plan = json!({"default": {"value_of_seed": "pos"}});
                sc.out_dir = *rng.pick(&[0, 1]);
                sc.expect = json!({"exit": "ok", "starts": n, "survivors": 0, "accepted": n, "rejected": 0, "argv": true});
                return sc;
            }
            sc.opts = vec![s("-n"), n.to_string(), s("--num-concurrent"), nc.to_string()];
            let mut seeds = serde_json::Map::new();
            let mut acc = 0;
            for sd in 0..n { match rng.below(5) { 0 => { seeds.insert(sd.to_string(), json!({"stdout": "{\"objFuncVal\": null}"})); } 1 => { seeds.insert(sd.to_string(), json!({"stdout": "{}"})); } _ => { acc += 1; } } }
            sc.plan = json!({"default": {"value_of_seed": *rng.pick(&["neg", "pos", "const"])}, "seeds": seeds});
            sc.out_dir = *rng.pick(&[0, 1, 1]);
            match rng.below(9) {
                0 | 1 | 2 => { sc.spec_yaml = SPEC_HOSTILE.into(); }
                // a root enum: every parameter set is a top-level JSON string
                3 => { sc.spec_yaml = "type: enum\nvalues: [plain, \"two words\", \"quo\\\"te\", \"7\", \"true\"]\ninit: plain\n".into(); }
                // many members with multi-byte names: the initial value is several hundred bytes of JSON, and wherever a
                // byte-indexed cut falls, in some of these documents it falls inside a character
                4 | 6 | 7 | 8 => {
                    let mut y = String::new();
                    let shift = rng.below(7) as usize;
                    for i in 0..28 { y += &format!("\"{}{}\u{e4}\u{f6}\u{fc}\u{e4}\u{f6}\u{fc}st\u{e4}rke{}\":\n  type: real\n  init: 0.{}\n  scale: 0.1\n", "x".repeat(if i == 0 { shift } else { 0 }), ["\u{e4}", "\u{20ac}", "\u{1f600}", "\u{f6}\u{fc}"][i % 4], i, i + 1); }
                    sc.spec_yaml = y;
                }
                _ => {}
            }
            if rng.chance(1, 2) { sc.user_args = vec![b"plain".to_vec(), b"with space".to_vec(), b"--looks-like-option".to_vec(), b"quo\"te'".to_vec(), vec![0xff, 0xfe, b'x']]; }
            sc.expect = json!({"exit": if acc > 0 { "ok" } else { "fail" }, "starts": n, "maxConcurrent": nc, "survivors": 0, "accepted": acc, "rejected": n - acc, "argv": true});
            sc
        }
        2 | 3 => {
            // target reached while siblings are still in flight
            let nc = 2 + rng.below(3) as usize;
            let mut sc = base_scen("target-with-siblings");
            sc.opts = vec![s("--target-obj-func-val=-0.5"), s("--num-concurrent"), nc.to_string()];
            let winner = 1 + rng.below(nc as u64 - 1);
            // (a child whose background process keeps the stdout pipe open never completes: the winner does not fork)
            let mut seeds = serde_json::Map::new();
            seeds.insert(winner.to_string(), json!({"wait": true, "value_of_seed": "neg"}));
            sc.plan = json!({"default": {"wait": true, "value_of_seed": "neg", "fork": *rng.pick(&["none", "none", "keep"]), "fork_ignore_term": rng.chance(1, 2), "ignore_term": rng.chance(1, 2)}, "seeds": seeds});
            sc.script = vec![Step::WaitStarts(nc), Step::Release(winner)];
            sc.expect = json!({"exit": "ok", "survivors": 0, "maxConcurrent": nc});
            sc
        }
        4 => {
            // time limit with evaluations that never finish by themselves
            let mut sc = base_scen("terminate-after");
            sc.opts = vec![s("--terminate-after"), s("1200ms"), s("--num-concurrent"), nc.to_string()];
            let mut seeds = serde_json::Map::new();
            seeds.insert("0".to_string(), json!({"wait": true, "value_of_seed": "const"}));
            sc.plan = json!({"default": {"wait": true, "value_of_seed": "neg", "fork": *rng.pick(&["none", "keep"]), "fork_ignore_term": rng.chance(1, 2), "ignore_term": rng.chance(1, 2)}, "seeds": seeds});
            let early = rng.chance(1, 2);
            sc.script = if early { vec![Step::WaitStarts(nc), Step::Release(0)] } else { vec![Step::WaitStarts(nc)] };
            sc.expect = json!({"exit": if early { "ok" } else { "fail" }, "survivors": 0, "maxConcurrent": nc});
            sc
        }
        5 => {
            // interrupt
            let mut sc = base_scen("sigint");
            sc.opts = vec![s("--num-concurrent"), nc.to_string()];
            // an interrupt is taken the same way when a (far away) time limit is set as well
            if rng.chance(1, 2) { sc.opts.push(s("--terminate-after")); sc.opts.push(s("10min")); }
            // (a child whose background process keeps the stdout pipe open never completes: the one that is released does not fork)
            sc.plan = json!({"default": {"wait": true, "value_of_seed": "neg", "fork": *rng.pick(&["none", "keep"]), "fork_ignore_term": true, "ignore_term": rng.chance(1, 2)},
                             "seeds": {"0": {"wait": true, "value_of_seed": "neg", "ignore_term": rng.chance(1, 2)}}});
            let early = rng.chance(1, 2);
            sc.script = if early { vec![Step::WaitStarts(nc), Step::Release(0), Step::WaitStarts(nc + 1), Step::SigInt] } else { vec![Step::WaitStarts(nc), Step::SigInt] };
            sc.expect = json!({"exit": if early { "ok" } else { "fail" }, "survivors": 0, "maxConcurrent": nc});
            sc
        }
        6 | 7 => {
            // a failing child while siblings are in flight
            let nc = 2 + rng.below(2) as usize;
            let mut sc = base_scen("failure");
            sc.opts = vec![s("-n"), s("20"), s("--num-concurrent"), nc.to_string()];
            let bad = match rng.below(12) {
                                           // a result member of the wrong JSON type is not a rejection (only null / absent is)
                                           8 => json!({"wait": true, "stdout": *rng.pick(&["{\"objFuncVal\": \"0.25\"}", "{\"objFuncVal\": true}", "{\"objFuncVal\": [1]}", "{\"objFuncVal\": {}}"])}),
                                           // output that is not UTF-8: the diagnostic files hold exactly these bytes
                                           9 => json!({"wait": true, "exit": 3, "stdout_hex": "e96c616e20766974616cff00fe", "stderr_hex": "fffe4c6174696e31e9"}),
                                           10 => json!({"wait": true, "stdout_hex": "7b226f626a46756e6356616c223a20e97d", "stderr_hex": "c328"}),
                                           11 => json!({"wait": true, "exit": 1, "stdout": "plain text", "stderr_hex": "80818283"}), 0 => json!({"wait": true, "exit": 3, "stdout": "{\"objFuncVal\": 1}"}), 1 => json!({"wait": true, "stdout": "this is not json"}),
                                           // a well-formed result followed by more output (a second document, a log line): not a result
                                           5 => json!({"wait": true, "stdout": "{\"objFuncVal\": 1}\nTraceback (most recent call last):\n"}),
                                           6 => json!({"wait": true, "stdout": "{\"objFuncVal\": 1} {\"objFuncVal\": 2}"}),
                                           // a child that printed a valid result and then died from a signal did not succeed
                                           7 => json!({"wait": true, "stdout": "{\"objFuncVal\": 1}", "self_signal": *rng.pick(&[11, 6, 9, 40, 64])}),     // 40, 64: real-time signals
                                           2 => json!({"wait": true, "stdout": "{\"objFuncVal\": 1, \"extra\": 2}"}), 3 => json!({"wait": true, "stdout": ""}), _ => json!({"wait": true, "stdout": "{\"objFuncVal\": 1e999}"}) };
            let failing = rng.below(nc as u64);
            let mut seeds = serde_json::Map::new();
            seeds.insert(failing.to_string(), bad);
            // in half of the cases the failure comes AFTER an accepted result: a sibling (which does not fork, so that its
            // evaluation can complete) is released first and its successor is awaited
            let good_first = rng.chance(1, 2);
            let good = (failing + 1) % nc as u64;
            if good_first { seeds.insert(good.to_string(), json!({"wait": true, "value_of_seed": "neg"})); }
            sc.plan = json!({"default": {"wait": true, "value_of_seed": "neg", "fork": *rng.pick(&["none", "keep"]), "fork_ignore_term": rng.chance(1, 2)}, "seeds": seeds});
            // after the failure has had ample time to be handled (the run is over by then on a correct tree) everything
            // else is released, so that a run which wrongly goes on ends by its budget rather than by the watchdog
            sc.script = if good_first { vec![Step::WaitStarts(nc), Step::Release(good), Step::WaitStarts(nc + 1), Step::Release(failing), Step::SleepMs(400), Step::CountAlive, Step::ReleaseAllUntilExit] }
                        else { vec![Step::WaitStarts(nc), Step::Release(failing), Step::SleepMs(400), Step::CountAlive, Step::ReleaseAllUntilExit] };
            sc.out_dir = *rng.pick(&[0, 1]);
            sc.expect = json!({"exit": "fail", "survivors": 0, "stdoutLines": 0, "diagFiles": sc.out_dir == 1, "maxStartsAfterFailure": nc});
            sc
        }
        8 | 16 | 17 => {
            // per-evaluation time limit: slow ones are killed with their group and counted as rejected
            let n = 2 + rng.below(5) as usize;
            if rng.chance(1, 6) {
                // the degenerate limit: `-k 0ms` means every evaluation exceeds its limit at once; all are killed with
                // their groups and counted as rejected, so the run ends without a single accepted result
                let mut sc = base_scen("kill-zero");
                sc.opts = vec![s("-n"), n.to_string(), s("-k"), s(*rng.pick(&["0ms", "0s"])), s("--num-concurrent"), (1 + rng.below(2)).to_string()];
                sc.plan = json!({"default": {"wait": true, "value_of_seed": "neg", "fork": *rng.pick(&["none", "keep"]), "ignore_term": rng.chance(1, 2)}});
                // (a child may be killed before it has written its start record: the number of starts is not judged here)
                sc.expect = json!({"exit": "fail", "survivors": 0, "stdoutLines": 0});
                return sc;
            }
            if rng.chance(1, 6) {
                // the largest limit the option accepts: nothing is ever killed, the run is an ordinary budget run
                let mut sc = base_scen("kill-huge");
                sc.opts = vec![s("-n"), n.to_string(), s("-k"), s(*rng.pick(&["18446744073709551615s", "18446744073709551615ms"])), s("--num-concurrent"), (1 + rng.below(2)).to_string()];
                sc.plan = json!({"default": {"value_of_seed": "neg", "sleep_ms": 30}});
                sc.expect = json!({"exit": "ok", "starts": n, "survivors": 0, "accepted": n, "rejected": 0});
                return sc;
            }
            let mut sc = base_scen("kill-after");
            // with or without an output directory (detailed reporting on): a rejected record must not stop the run
            sc.out_dir = *rng.pick(&[0, 1]);
            sc.opts = vec![s("-n"), n.to_string(), s("-k"), s("1200ms"), s("--num-concurrent"), (1 + rng.below(2)).to_string()];
            let mut seeds = serde_json::Map::new();
            let mut slow = 0;
            for sd in 0..n { if rng.chance(1, 2) && slow < 3 { slow += 1; seeds.insert(sd.to_string(), json!({"wait": true, "fork": *rng.pick(&["none", "keep", "detach-stdio"]), "fork_ignore_term": rng.chance(1, 2), "ignore_term": rng.chance(1, 2), "value_of_seed": "neg"})); } }
            // a slow child that closes its own stdout and stderr at once and keeps running: the pipes are at EOF, the
            // exit is not; it must still be killed at its time limit and counted as rejected
            for sd in 0..n { if !seeds.contains_key(&sd.to_string()) && slow < 3 && rng.chance(1, 4) { slow += 1; seeds.insert(sd.to_string(), json!({"wait": true, "close_stdio": true, "ignore_term": rng.chance(1, 2), "value_of_seed": "neg"})); } }
            // a slow child whose helper left the process group (setsid) but still holds the output pipe: the helper is not
            // the tool's to kill, and the evaluation must all the same end at its time limit and the run continue
            for sd in 0..n { if !seeds.contains_key(&sd.to_string()) && slow < 3 && rng.chance(1, 4) { slow += 1; seeds.insert(sd.to_string(), json!({"wait": true, "fork": "keep", "fork_setsid": true, "value_of_seed": "neg"})); } }
            // a child that answers and EXITS while a background process of its group keeps the output pipe open: the
            // evaluation cannot complete (no EOF), so the time limit must kill the group - the leader is already gone
            for sd in 0..n { if !seeds.contains_key(&sd.to_string()) && slow < 3 && rng.chance(1, 3) { slow += 1; seeds.insert(sd.to_string(), json!({"fork": "keep", "value_of_seed": "neg"})); } }
            if slow == n { seeds.remove("0"); slow -= 1; }
            // an evaluation that needs 2.1 s under a limit of 2.9 s finishes in time and is never killed
            let medium = rng.chance(1, 3);
            if medium {
                sc.opts = vec![s("-n"), n.to_string(), s("-k"), s("2900ms"), s("--num-concurrent"), (1 + rng.below(2)).to_string()];
                if let Some(sd) = (0..n).find(|sd| !seeds.contains_key(&sd.to_string())) { seeds.insert(sd.to_string(), json!({"sleep_ms": 2100, "value_of_seed": "neg", "medium": true})); }
            }
            // with a target that cannot be reached (the values are -seed) nothing changes: a timed-out evaluation is
            // counted as rejected and the run goes on to its budget
            if rng.chance(1, 2) { sc.opts.push(s("--target-obj-func-val=-1e12")); }
            sc.plan = json!({"default": {"value_of_seed": "neg"}, "seeds": seeds});
            sc.expect = json!({"exit": "ok", "starts": n, "survivors": 0, "accepted": n - slow, "rejected": slow, "fastNotKilled": true});
            sc
        }
        9 => {
            // a child that exits normally but leaves a background process in its group
            let n = 1 + rng.below(3) as usize;
            let mut sc = base_scen("grandchild-lingers");
            sc.opts = vec![s("-n"), n.to_string()];
            sc.plan = json!({"default": {"value_of_seed": "neg", "fork": "detach-stdio"}});
            sc.expect = json!({"exit": "ok", "starts": n, "survivors": 0});
            sc
        }
        10 | 11 => {
            // invalid options / inputs: rejected before any evaluation
            let mut sc = base_scen("cli-invalid");
            let which = rng.below(11);
            sc.opts = match which {
                0 => vec![s("-n"), s("3"), s("--num-concurrent"), s("0")],
                1 => vec![s("-n"), s("3"), s("--sample-size"), s("0")],
                2 => vec![s("-n"), s("3"), s("--terminate-after"), s("soon")],
                3 => vec![s("-n"), s("3"), s("-k"), s("a while")],
                4 => vec![s("-n"), s("3"), s("--initial-guess"), s("{not json")],
                5 => vec![s("-n"), s("3"), s("--initial-guess"), s("7.5")],
                6 => vec![s("-n"), s("3"), s("--initial-guess"), s("\"text\"")],
                10 => vec![s("-n"), s("3"), s("--initial-guess"), s("null")],     // the spec's root is a real: null does not conform
                9 => vec![s("-n"), s("3"), s("--initial-guess"), s(*rng.pick(&["{\"1\":true,\"01\":false}", "{\"+2\":true,\"2\":true}", "{\"7\":true}"]))],
                _ => vec![s("-n"), s("3")],
            };
            if which == 7 { sc.spec_missing = true; }
            if which == 8 { sc.spec_yaml = "type: real\ninit: 2\nscale: 1\nmin: 3\n".into(); }
            // a map that must hold 2..4 entries; the guesses above denote ONE entry (two spellings of one key, or one key)
            if which == 9 { sc.spec_yaml = "type: anon map\ninitSize: 2\nminSize: 2\nmaxSize: 4\nvalueType:\n  type: bool\n  init: true\n".into(); }
            sc.out_dir = *rng.pick(&[0, 1]);
            sc.expect = json!({"exit": "fail", "starts": 0, "stdoutLines": 0, "survivors": 0, "which": which});
            sc
        }
        12 => {
            // existing output directory
            let force = rng.chance(1, 2);
            let mut sc = base_scen("outdir-exists");
            sc.opts = vec![s("-n"), s("2")];
            sc.out_dir = if force { 3 } else if rng.chance(1, 2) { 4 } else { 2 };
            sc.expect = if force { json!({"exit": "ok", "starts": 2, "sentinel": false, "survivors": 0}) } else { json!({"exit": "fail", "starts": 0, "sentinel": true, "stdoutLines": 0, "survivors": 0}) };
            sc
        }
        13 | 14 => {
            // what a child may write: verbose must not matter (the driver pairs the two runs)
            let mut sc = base_scen("outputs");
            let verbose = rng.chance(1, 2);
            sc.opts = vec![s("-n"), s("3")];
            if rng.chance(1, 2) { sc.opts.push(s("--sample-size")); sc.opts.push(s("2")); }
            if verbose { sc.opts.push(s("--verbose")); }
            if rng.chance(1, 3) {
                // a discrete space with a resizable map, 40 evaluations one at a time, objective a function of the seed:
                // the verbose twin must evaluate the very same parameter sets and print the same line
                let mut sc = base_scen("outputs");
                sc.spec_yaml = "typeDef flag:\n  type: bool\n  init: false\nflags:\n  type: anon map\n  initSize: 3\n  valueType:\n    type: flag\ntags:\n  type: anon map\n  initSize: 0\n  valueType:\n    type: flag\nmode:\n  type: enum\n  values: [a, b, c]\n  init: a\non:\n  type: bool\n  init: true\n".into();
                sc.opts = vec![s("-n"), s("40")];
                // half of the time from an explicit guess (its maps written as JSON objects with sparse keys)
                if rng.chance(1, 2) { sc.opts.push(s("--initial-guess")); sc.opts.push(s("{\"flags\":{\"0\":true,\"1\":false,\"5\":true},\"tags\":{\"2\":true},\"mode\":\"b\",\"on\":false}")); }
                if verbose { sc.opts.push(s("--verbose")); }
                sc.plan = json!({"default": {"value_of_seed": *rng.pick(&["pos", "neg", "const"])}});
                sc.out_dir = *rng.pick(&[0, 1]);
                sc.expect = json!({"noCrash": true, "survivors": 0, "verbose": verbose, "starts": 40});
                return sc;
            }
            let out = match rng.below(14) {
                0 => json!({"stdout": "{\"objFuncVal\": 1.5}"}), 1 => json!({"stdout": "{\"objFuncVal\": null}"}), 2 => json!({"stdout": "{}"}),
                3 => json!({"stdout": "{\"objFuncVal\": 2}", "pad": 1_000_000}), 4 => json!({"stdout_hex": "fffe00"}), 5 => json!({"stdout": "{\"objFuncVal\": "}),
                6 => json!({"stdout": ""}), 7 => json!({"stdout": "{\"objFuncVal\": -1e300}"}),
                // a child that answers and is then killed by a signal (no exit code to report)
                9 | 11 | 12 => json!({"stdout": "{\"objFuncVal\": 1.5}", "self_signal": *rng.pick(&[9, 11, 40])}), 10 | 13 => json!({"stdout": "", "self_signal": 6}),
                _ => json!({"stdout": "[1]"}),
            };
            let err = match rng.below(6) { 0 => json!(""), 1 => json!(hex(b"some warning\n")), 2 => json!("fffefd80"), 3 => json!(hex(&vec![b'x'; 100_000])),
                _ => {
                    // long text of multi-byte characters behind 0..3 single bytes: wherever a byte-indexed cut falls, for
                    // some of these it falls inside a character
                    let mut b: Vec<u8> = vec![b'x'; rng.below(4) as usize];
                    let ch = *rng.pick(&["\u{e9}", "\u{20ac}", "\u{1f600}", "\u{fffd}"]);
                    for _ in 0..(3000 + rng.below(20000)) { b.extend_from_slice(ch.as_bytes()); }
                    json!(hex(&b))
                } };
            let mut beh = out.clone();
            beh["stderr_hex"] = err;
            sc.plan = json!({"default": beh});
            // with an output directory the diagnostic files of a failing child are compared as well
            sc.out_dir = *rng.pick(&[0, 1]);
            sc.expect = json!({"noCrash": true, "survivors": 0, "verbose": verbose});
            // every child of this run ends the same way; when that way is a failure (ill-shaped or unparsable output,
            // a death by signal - also after a perfectly valid answer) the very first evaluation fails the run
            let fails = out.get("self_signal").is_some() || out.get("stdout_hex").is_some()
                || matches!(out["stdout"].as_str(), Some("{\"objFuncVal\": ") | Some("") | Some("[1]"));
            if fails { sc.expect["exit"] = json!("fail"); }
            sc
        }
        _ => {
            let mut sc = base_scen("unlaunchable");
            sc.opts = vec![s("-n"), s("3")];
            sc.program_missing = true;
            sc.out_dir = *rng.pick(&[0, 1]);
            sc.expect = json!({"exit": "fail", "starts": 0, "stdoutLines": 0, "survivors": 0});
            sc
        }
    }
}

pub fn gen_case(rng: &mut Rng, thorough: bool, case: u64) -> J {
    let mut sc = gen_scen(rng, thorough);
    // every twelfth case is a child that dies from a signal - alone (family outputs) or with siblings in flight (family
    // failure), also after a perfectly valid answer: a death by signal has no exit code, and code that reads "no exit
    // code" as success or as a rejection is only seen here
    if case % 12 == 7 {
        let dies = |sc: &Scen| sc.plan["default"].get("self_signal").is_some()
            || sc.plan["seeds"].as_object().map(|m| m.values().any(|b| b.get("self_signal").is_some())).unwrap_or(false);
        let mut tries = 0;
        while !dies(&sc) && tries < 2000 { sc = gen_scen(rng, thorough); tries += 1; }
    }
    let mut line = run_scen(&sc, case);
    if sc.family == "outputs" {
        // what every child of this run prints, as a JSON tree (or "notJson"), for the schema model `Proc.childOutOf`
        let d = &sc.plan["default"];
        let bytes: Option<Vec<u8>> = if let Some(t) = d["stdout"].as_str() { Some(t.as_bytes().to_vec()) } else { d["stdout_hex"].as_str().map(unhex) };
        if let Some(b) = bytes {
            line["childDoc"] = match serde_json::from_slice::<J>(&b) { Ok(doc) => crate::enc::enc_json(&doc), Err(_) => json!("notJson") };
            line["childSignal"] = d.get("self_signal").cloned().unwrap_or(J::Null);
        }
    }
    if sc.family == "outputs" {
        // the same scenario with verbose flipped
        let mut twin = sc.clone();
        if twin.opts.contains(&s("--verbose")) { twin.opts.retain(|o| o != "--verbose"); } else { twin.opts.push(s("--verbose")); }
        let t = run_scen(&twin, case + 1_000_000);
        line["twin"] = json!({"opts": twin.opts, "obs": {"exitCode": t["obs"]["exitCode"], "signal": t["obs"]["signal"], "hang": t["obs"]["hang"],
                                "stdoutLines": t["obs"]["stdoutLines"], "stderrPanic": t["obs"]["stderrPanic"], "stderrTail": t["obs"]["stderrTail"], "survivors": t["obs"]["survivors"],
                                "files": t["obs"]["files"], "argvJson": t["obs"]["derived"]["argvJson"]}});
    }
    line
}
