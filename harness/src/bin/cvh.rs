//! cvh: correspondence harness.  Subcommands write one JSON trace line per case to stdout.
use cvh::util::Rng;
use serde_json::json;
use std::io::Write;
use std::sync::{Arc, Mutex};
use std::time::Duration;

fn arg(args: &[String], name: &str) -> Option<String> {
    args.iter().position(|a| a == name).and_then(|i| args.get(i + 1).cloned())
}
fn flag(args: &[String], name: &str) -> bool { args.iter().any(|a| a == name) }

/// runs one in-process case under a watchdog: the implementation is called on a worker thread; if it does not come
/// back within the limit (an endless loop, a dead lock), a line saying so is written and the process gives up - the
/// cases after it in this shard are not run, the line is the finding
fn watched<F: Fn() -> serde_json::Value + Send + Clone + 'static>(limit_s: u64, mode: &str, seed: u64, case: u64, thorough: bool, f: F) -> serde_json::Value {
    // a case during which this process was not run for seconds (overloaded machine, frozen sandbox) is run again: what
    // it observed about time limits, hangs and processes still alive says nothing about the code
    for attempt in 0..3 {
        let epoch = cvh::util::stall_epoch();
        let mut v = watched_once(limit_s, mode, seed, case, thorough, f.clone());
        if cvh::util::stall_epoch() == epoch || attempt == 2 { if attempt > 0 { v["stallRetries"] = json!(attempt); } return v; }
    }
    unreachable!()
}

fn watched_once<F: FnOnce() -> serde_json::Value + Send + 'static>(limit_s: u64, mode: &str, seed: u64, case: u64, thorough: bool, f: F) -> serde_json::Value {
    let (tx, rx) = std::sync::mpsc::channel();
    std::thread::Builder::new().stack_size(64 << 20).spawn(move || { let _ = tx.send(f()); }).unwrap();
    match rx.recv_timeout(Duration::from_secs(limit_s)) {
        Ok(v) => v,
        Err(_) => {
            let line = json!({"mode": mode, "case": case, "hang": true, "limitSeconds": limit_s, "gen": {"seed": seed, "case": case, "thorough": thorough}});
            // the trace may have been redirected (K-run): fd 1 is the capture there, so write to the saved descriptor if any
            let text = format!("{}\n", line);
            let fd: i32 = std::env::var("CVH_TRACE_FD").ok().and_then(|s| s.parse().ok()).unwrap_or(1);
            let _ = nix::unistd::write(fd, text.as_bytes());
            std::process::exit(3);
        }
    }
}

fn main() {
    let args: Vec<String> = std::env::args().collect();
    let cmd = args.get(1).map(String::as_str).unwrap_or("");
    let seed: u64 = arg(&args, "--seed").and_then(|s| s.parse().ok()).unwrap_or(1);
    let cases: u64 = arg(&args, "--cases").and_then(|s| s.parse().ok()).unwrap_or(100);
    let start: u64 = arg(&args, "--start").and_then(|s| s.parse().ok()).unwrap_or(0);
    let thorough = flag(&args, "--thorough");
    let out = std::io::stdout();
    match cmd {
        "selftest" => match cvh::util::selftest() {
            Ok(n) => println!("{}", json!({"mode": "selftest", "ok": true, "pairs": n})),
            Err(e) => { println!("{}", json!({"mode": "selftest", "ok": false, "error": e})); std::process::exit(1); }
        },
        "ctl" => {
            // replay: scenarios come from a file (one cfg JSON per line, or trace lines with a cfg field)
            let replay: Option<Vec<cvh::ctl::Scenario>> = arg(&args, "--replay").map(|p| {
                std::fs::read_to_string(p).unwrap().lines().filter(|l| !l.trim().is_empty()).map(|l| {
                    let j: serde_json::Value = serde_json::from_str(l).unwrap();
                    let cfg = if j.get("cfg").is_some() { j["cfg"].clone() } else { j };
                    cvh::ctl::scenario_from_json(&cfg)
                }).collect()
            });
            let n = replay.as_ref().map(|r| r.len() as u64).unwrap_or(cases);
            for case in start..n {
                let sc = match &replay {
                    Some(r) => r[case as usize].clone(),
                    None => {
                        let mut rng = Rng::new(seed.wrapping_mul(1_000_003).wrapping_add(case));
                        let mut sc = cvh::ctl::gen_scenario(&mut rng, thorough);
                        // now and then one long run instead of a scripted scenario (C08 over a long history)
                        if case % 1500 == 7 { sc.long_evals = 200_000; sc.sample_size = 1 + (case / 1500 % 2) as usize; sc.nc = 1 + (case / 1500 % 3) as usize; sc.rej_permille = 50; sc.guess = None; }
                        sc
                    }
                };
                let sh = Arc::new(Mutex::new(cvh::ctl::Shared::default()));
                let (tx, rx) = std::sync::mpsc::channel();
                let sh2 = sh.clone();
                let sc2 = sc.clone();
                std::thread::spawn(move || { let line = cvh::ctl::run_scenario_twin(&sc2, sh2); tx.send(line).ok(); });
                match rx.recv_timeout(Duration::from_secs(if sc.long_evals > 0 { 600 } else if thorough { 60 } else { 20 })) {
                    Ok(mut line) => { line["case"] = json!(case); let mut o = out.lock(); writeln!(o, "{}", line).unwrap(); }
                    Err(_) => {
                        // the controller neither returned nor yielded: dump what was observed and give up on this process
                        let g = sh.lock().unwrap();
                        let line = json!({"mode": "ctl", "case": case, "cfg": g.header, "rounds": g.rounds, "hang": true, "phase": g.phase});
                        let mut o = out.lock();
                        writeln!(o, "{}", line).unwrap();
                        o.flush().unwrap();
                        std::process::exit(3);
                    }
                }
            }
        }
        "codec" | "ops" | "spec" | "algo" | "pop" => {
            let salt: u64 = match cmd { "codec" => 0xC0DEC, "ops" => 0x0B5, "algo" => 0xA160, "pop" => 0x909, _ => 0x59EC };
            let genf: fn(&mut Rng, bool) -> serde_json::Value = match cmd { "codec" => cvh::codec::gen_case, "ops" => cvh::ops::gen_case, "algo" => cvh::ops::gen_algo_case, "pop" => cvh::pop::gen_case, _ => cvh::specgen::gen_case };
            cvh::ops::install_panic_hook();
            if let Some(p) = arg(&args, "--replay") {
                // replay: lines carry their generator coordinates
                for l in std::fs::read_to_string(p).unwrap().lines().filter(|l| !l.trim().is_empty()) {
                    let j: serde_json::Value = serde_json::from_str(l).unwrap();
                    let (s, c) = (j["gen"]["seed"].as_u64().unwrap_or(seed), j["gen"]["case"].as_u64().unwrap_or(0));
                    let th = j["gen"]["thorough"].as_bool().unwrap_or(false);
                    let mut line = watched(if th { 1800 } else { 150 }, cmd, s, c, th, move || { let mut rng = Rng::new(s.wrapping_mul(1_000_003).wrapping_add(c) ^ salt); cvh::ops::install_panic_hook(); genf(&mut rng, th) });
                    line["case"] = json!(c); line["gen"] = json!({"seed": s, "case": c, "thorough": th});
                    let mut o = out.lock(); writeln!(o, "{}", line).unwrap();
                }
                return;
            }
            for case in start..cases {
                let mut line = watched(if thorough { 1800 } else { 150 }, cmd, seed, case, thorough, move || { let mut rng = Rng::new(seed.wrapping_mul(1_000_003).wrapping_add(case) ^ salt); genf(&mut rng, thorough) });
                line["case"] = json!(case); line["gen"] = json!({"seed": seed, "case": case, "thorough": thorough});
                let mut o = out.lock(); writeln!(o, "{}", line).unwrap();
            }
        }
        "dir" | "twin" => {
            // C17 families (sel / live / mix / bench) and C09 twin runs; cases cycle through the families
            let exe = std::env::current_exe().unwrap().to_string_lossy().to_string();
            let replay: Option<Vec<(u64, u64, bool)>> = arg(&args, "--replay").map(|p| std::fs::read_to_string(p).unwrap().lines().filter(|l| !l.trim().is_empty()).map(|l| {
                let j: serde_json::Value = serde_json::from_str(l).unwrap();
                (j["gen"]["seed"].as_u64().unwrap_or(seed), j["gen"]["case"].as_u64().unwrap_or(0), j["gen"]["thorough"].as_bool().unwrap_or(false))
            }).collect());
            let list: Vec<(u64, u64, bool)> = replay.unwrap_or_else(|| (start..cases).map(|c| (seed, c, thorough)).collect());
            for (s, case, th) in list {
                let (is_twin, exe2) = (cmd == "twin", exe.clone());
                let mut line = watched(if th { 3600 } else { 900 }, cmd, s, case, th, move || {
                    let mut rng = Rng::new(s.wrapping_mul(1_000_003).wrapping_add(case) ^ 0xD17);
                    if is_twin { cvh::dir::gen_twin(&mut rng, th, &exe2) } else {
                        match case % 8 { 0 | 1 => cvh::dir::gen_sel(&mut rng, th), 2 | 3 | 4 => cvh::dir::gen_live(&mut rng, th), 5 => cvh::dir::gen_mix(&mut rng, th), _ => cvh::dir::gen_bench(case / 8 * 2 + (case % 8 - 6)) }
                    }
                });
                line["case"] = json!(case); line["gen"] = json!({"seed": s, "case": case, "thorough": th});
                let mut o = out.lock(); writeln!(o, "{}", line).unwrap();
            }
        }
        "signal-child" => { println!("{}", cvh::run::signal_child()); }
        "signal-drain-child" => { println!("{}", cvh::run::signal_drain_child(args.get(2).map(|a| a == "sigint-first").unwrap_or(true))); }
        "twin-child" => {
            let a: Vec<u64> = args[2..8].iter().map(|x| x.parse().unwrap()).collect();
            // the environment is not an input of a run: restrict this process to ONE of its CPUs when asked to
            if std::env::var_os("CVH_PIN_ONE_CPU").is_some() {
                if let Ok(cur) = nix::sched::sched_getaffinity(nix::unistd::Pid::from_raw(0)) {
                    if let Some(cpu) = (0..nix::sched::CpuSet::count()).find(|c| cur.is_set(*c).unwrap_or(false)) {
                        let mut one = nix::sched::CpuSet::new();
                        let _ = one.set(cpu);
                        let _ = nix::sched::sched_setaffinity(nix::unistd::Pid::from_raw(0), &one);
                    }
                }
            }
            println!("{}", cvh::dir::twin_trace_g(a[0] as usize, a[1] as usize, a[2] as usize, a[3], a[4] as usize, a[5]));
        }
        "run" | "proc" => {
            // replay: lines carry their generator coordinates
            let list: Vec<(u64, u64, bool)> = match arg(&args, "--replay") {
                Some(p) => std::fs::read_to_string(p).unwrap().lines().filter(|l| !l.trim().is_empty()).map(|l| {
                    let j: serde_json::Value = serde_json::from_str(l).unwrap();
                    (j["gen"]["seed"].as_u64().unwrap_or(seed), j["gen"]["case"].as_u64().unwrap_or(0), j["gen"]["thorough"].as_bool().unwrap_or(false))
                }).collect(),
                None => (start..cases).map(|c| (seed, c, thorough)).collect(),
            };
            // K-run calls the library in this process: whatever the library itself prints on stdout must not mix with the
            // trace lines, and is an observation of its own (a CLI run prints exactly one line: the library prints nothing)
            let mut trace_out: Option<std::fs::File> = None;
            if cmd == "run" {
                use std::os::unix::io::FromRawFd;
                let cap_path = cvh::proc::build_dir().join("run").join(format!("stdout_{}.cap", std::process::id()));
                std::fs::create_dir_all(cap_path.parent().unwrap()).unwrap();
                let real = nix::unistd::dup(1).unwrap();
                let cap = nix::fcntl::open(&cap_path, nix::fcntl::OFlag::O_RDWR | nix::fcntl::OFlag::O_CREAT | nix::fcntl::OFlag::O_TRUNC | nix::fcntl::OFlag::O_APPEND, nix::sys::stat::Mode::from_bits_truncate(0o600)).unwrap();
                nix::unistd::dup2(cap, 1).unwrap();
                std::env::set_var("CVH_STDOUT_CAP", &cap_path);
                std::env::set_var("CVH_TRACE_FD", real.to_string());
                trace_out = Some(unsafe { std::fs::File::from_raw_fd(real) });
            }
            for (s, case, th) in list {
                let mut line = if cmd == "run" {
                    watched(if th { 1800 } else { 600 }, cmd, s, case, th, move || { let mut rng = Rng::new(s.wrapping_mul(1_000_003).wrapping_add(case) ^ 0x4E17); cvh::run::gen_case(&mut rng, th, case) })
                } else {
                    let mut v = json!(null);
                    for attempt in 0..3 {
                        let epoch = cvh::util::stall_epoch();
                        let mut rng = Rng::new(s.wrapping_mul(1_000_003).wrapping_add(case) ^ 0x9A0C);
                        v = cvh::proc::gen_case(&mut rng, th, case);
                        if cvh::util::stall_epoch() == epoch { if attempt > 0 { v["stallRetries"] = json!(attempt); } break; }
                    }
                    v
                };
                line["case"] = json!(case); line["gen"] = json!({"seed": s, "case": case, "thorough": th});
                match trace_out.as_mut() { Some(f) => { writeln!(f, "{}", line).unwrap(); } None => { let mut o = out.lock(); writeln!(o, "{}", line).unwrap(); } }
            }
            if let Ok(p) = std::env::var("CVH_STDOUT_CAP") { let _ = std::fs::remove_file(p); }
        }
        _ => { eprintln!("usage: cvh selftest|ctl ... [--seed S] [--cases K] [--start K0] [--thorough] [--replay FILE]"); std::process::exit(2); }
    }
}
