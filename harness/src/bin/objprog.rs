//! objprog: a scripted objective-function program for process-level scenarios.
//!
//! Invoked by cambrian as `objprog <user args...> <json> <seed>`.  Its behaviour for each seed comes from
//! `$CVH_SCEN/plan.json`; it logs its start (pid, pgid, argv) and exit to `$CVH_SCEN/log`, can block until the
//! harness creates `$CVH_SCEN/release_<seed>`, fork a lingering grandchild, ignore SIGTERM, write arbitrary bytes
//! to stdout / stderr and exit with any status.  Every process carries `CVH_MARK` in its environment so that
//! survivors can be found in /proc afterwards.
use std::fs::OpenOptions;
use std::io::Write;
use std::os::unix::ffi::OsStrExt;
use std::os::unix::process::CommandExt;
use std::path::PathBuf;
use std::time::{Duration, Instant};

fn hex(b: &[u8]) -> String { b.iter().map(|x| format!("{:02x}", x)).collect() }
fn unhex(s: &str) -> Vec<u8> { (0..s.len() / 2).map(|i| u8::from_str_radix(&s[2 * i..2 * i + 2], 16).unwrap_or(0)).collect() }

fn log(scen: &PathBuf, line: &str) {
    if let Ok(mut f) = OpenOptions::new().create(true).append(true).open(scen.join("log")) {
        let _ = f.write_all(format!("{}\n", line).as_bytes());
    }
}

fn main() {
    let args: Vec<std::ffi::OsString> = std::env::args_os().collect();
    let scen = PathBuf::from(std::env::var_os("CVH_SCEN").unwrap_or_else(|| "/nonexistent".into()));
    if args.get(1).map(|a| a == "--grandchild").unwrap_or(false) {
        let mode = args.get(2).and_then(|a| a.to_str().map(String::from)).unwrap_or_default();
        if mode.ends_with("+ignore-term") {
            unsafe { let _ = nix::sys::signal::signal(nix::sys::signal::Signal::SIGTERM, nix::sys::signal::SigHandler::SigIgn); }
        }
        if mode.starts_with("detach-stdio") {
            // give up the inherited pipes so that the parent's stdout/stderr reach EOF without us
            unsafe { libc_close(0); libc_close(1); libc_close(2); }
        }
        log(&scen, &format!("{{\"ev\":\"grandchild\",\"pid\":{},\"pgid\":{}}}", std::process::id(), nix::unistd::getpgrp()));
        std::thread::sleep(Duration::from_secs(120));
        return;
    }
    let pid = std::process::id();
    let pgid = nix::unistd::getpgrp();
    let seed: u64 = args.last().and_then(|a| a.to_str()).and_then(|s| s.parse().ok()).unwrap_or(u64::MAX);
    let argv: Vec<String> = args.iter().skip(1).map(|a| hex(a.as_bytes())).collect();
    // which other marked processes are alive right now (not zombies), by process group: the evaluations in progress
    // at the instant this one starts, as the process table shows them
    let scan = |pid: u32, pgid: nix::unistd::Pid| -> Vec<i32> {
        let mut others: Vec<i32> = Vec::new();
        if let (Ok(mark), Ok(rd)) = (std::env::var("CVH_MARK"), std::fs::read_dir("/proc")) {
            let needle = format!("CVH_MARK={}", mark);
            for e in rd.flatten() {
                let p: i32 = match e.file_name().to_str().and_then(|s| s.parse().ok()) { Some(p) => p, None => continue };
                if p == pid as i32 { continue; }
                let env = match std::fs::read(e.path().join("environ")) { Ok(b) => b, Err(_) => continue };
                if !env.split(|c| *c == 0).any(|kv| kv == needle.as_bytes()) { continue; }
                let stat = std::fs::read_to_string(e.path().join("stat")).unwrap_or_default();
                let after = stat.rsplit(')').next().unwrap_or("").trim().to_string();
                let f: Vec<&str> = after.split_whitespace().collect();
                if matches!(f.first().copied(), Some("Z") | Some("X") | None) { continue; }
                if let Some(g) = f.get(2).and_then(|x| x.parse::<i32>().ok()) { if g != pgid.as_raw() && !others.contains(&g) { others.push(g); } }
            }
        }
        others
    };
    // a group that has just been sent SIGKILL may still be in the table for a moment (its processes need to be
    // scheduled once more to die): only groups that are still there on every one of several looks count as alive
    // the tool itself (this child's parent) carries the mark too: its group is not an evaluation
    let parent_group = nix::unistd::getpgid(Some(nix::unistd::getppid())).map(|g| g.as_raw()).unwrap_or(-1);
    let scan = |pid: u32, pgid: nix::unistd::Pid| -> Vec<i32> { let mut v = scan(pid, pgid); v.retain(|g| *g != parent_group); v };
    let mut others = scan(pid, pgid);
    // (only when there are more of them than the concurrency of the run allows - CVH_NC, set by the harness - so that
    // ordinary runs are not slowed down)
    let nc: usize = std::env::var("CVH_NC").ok().and_then(|s| s.parse().ok()).unwrap_or(usize::MAX);
    for wait_ms in [30u64, 120, 450] {
        if others.len() + 1 <= nc { break; }
        std::thread::sleep(Duration::from_millis(wait_ms));
        let again = scan(pid, pgid);
        others.retain(|g| again.contains(g));
    }
    log(&scen, &format!("{{\"ev\":\"start\",\"seed\":{},\"pid\":{},\"pgid\":{},\"argv\":{:?},\"others\":{:?}}}", seed, pid, pgid, argv, others));
    let plan: serde_json::Value = std::fs::read_to_string(scen.join("plan.json")).ok().and_then(|s| serde_json::from_str(&s).ok()).unwrap_or(serde_json::json!({}));
    let beh = plan["seeds"].get(seed.to_string()).cloned().unwrap_or_else(|| plan["default"].clone());
    if beh["ignore_term"].as_bool().unwrap_or(false) {
        unsafe { let _ = nix::sys::signal::signal(nix::sys::signal::Signal::SIGTERM, nix::sys::signal::SigHandler::SigIgn); }
    }
    match beh["fork"].as_str().unwrap_or("none") {
        "none" => {}
        mode => {
            let exe = std::env::current_exe().unwrap();
            let mut c = std::process::Command::new(exe);
            c.arg("--grandchild").arg(if beh["fork_ignore_term"].as_bool().unwrap_or(false) { format!("{mode}+ignore-term") } else { mode.to_string() });
            if beh["fork_setsid"].as_bool().unwrap_or(false) { unsafe { c.pre_exec(|| { let _ = nix::unistd::setsid(); Ok(()) }); } }
            let _ = c.spawn();
            // give the grandchild time to exist before we may exit
            std::thread::sleep(Duration::from_millis(30));
        }
    }
    if beh["close_stdio"].as_bool().unwrap_or(false) {
        // give up stdout and stderr right away and keep running: the parent sees EOF on both pipes long before the exit
        unsafe { libc_close(1); libc_close(2); }
    }
    if beh["wait"].as_bool().unwrap_or(false) {
        let rel = scen.join(format!("release_{}", seed));
        let t0 = Instant::now();
        while !rel.exists() && t0.elapsed() < Duration::from_secs(60) { std::thread::sleep(Duration::from_millis(2)); }
    }
    if let Some(ms) = beh["sleep_ms"].as_u64() { std::thread::sleep(Duration::from_millis(ms)); }
    let mut out: Vec<u8> = Vec::new();
    if let Some(s) = beh["stdout"].as_str() { out.extend_from_slice(s.as_bytes()); }
    if let Some(s) = beh["stdout_hex"].as_str() { out.extend_from_slice(&unhex(s)); }
    if let Some(f) = beh["value_of_seed"].as_str() {
        // objective as a function of the seed: "neg" -> -seed, "pos" -> seed, "const" -> 1.0
        let v = match f { "neg" => -(seed as f64), "pos" => seed as f64, _ => 1.0 };
        out.extend_from_slice(format!("{{\"objFuncVal\": {}}}", v).as_bytes());
    }
    if let Some(n) = beh["pad"].as_u64() { out.extend(std::iter::repeat(b' ').take(n as usize)); }
    let _ = std::io::stdout().write_all(&out);
    let _ = std::io::stdout().flush();
    if let Some(s) = beh["stderr_hex"].as_str() { let _ = std::io::stderr().write_all(&unhex(s)); }
    log(&scen, &format!("{{\"ev\":\"exit\",\"seed\":{},\"pid\":{}}}", seed, pid));
    if let Some(sig) = beh["self_signal"].as_i64() {
        // die from a signal after the output has been written (real-time signals have no name in `nix`: use kill(1))
        match nix::sys::signal::Signal::try_from(sig as i32) {
            Ok(s) => {
                unsafe { let _ = nix::sys::signal::signal(s, nix::sys::signal::SigHandler::SigDfl); }
                let _ = nix::sys::signal::kill(nix::unistd::Pid::this(), s);
            }
            Err(_) => { let _ = std::process::Command::new("kill").arg(format!("-{sig}")).arg(pid.to_string()).status(); }
        }
        std::thread::sleep(Duration::from_secs(5));
    }
    std::process::exit(beh["exit"].as_i64().unwrap_or(0) as i32);
}

unsafe fn libc_close(fd: i32) { let _ = nix::unistd::close(fd); }
