//! Encoders: cambrian's spec / value / serde_json trees -> the line protocol the Lean driver reads.
//! Everything is canonical: map keys sorted (strings byte-wise, map keys numerically), floats as order codes.
use crate::util::*;
use cambrian::{spec, value};
use serde_json::{json, Value as J};

pub fn opt_f(x: &Option<f64>) -> J { match x { Some(v) => f64_model(*v), None => J::Null } }

pub fn enc_spec(n: &spec::Node) -> J {
    match n {
        spec::Node::Real { init, scale, min, max } => json!({"t": "real", "init": f64_model(*init), "scale": f64_model(*scale), "min": opt_f(min), "max": opt_f(max)}),
        spec::Node::Int { init, scale, min, max } => json!({"t": "int", "init": init, "scale": f64_model(*scale), "min": min, "max": max}),
        spec::Node::Bool { init } => json!({"t": "bool", "init": init}),
        spec::Node::Sub { map } => {
            let mut ks: Vec<&String> = map.keys().collect();
            ks.sort();
            json!({"t": "sub", "f": ks.iter().map(|k| json!([k, enc_spec(&map[*k])])).collect::<Vec<_>>()})
        }
        spec::Node::Array { value_type, size } => json!({"t": "array", "e": enc_spec(value_type), "n": size}),
        spec::Node::AnonMap { value_type, init_size, min_size, max_size } => json!({"t": "amap", "e": enc_spec(value_type), "init": init_size, "min": min_size, "max": max_size}),
        spec::Node::Variant { map, init } => {
            let mut ks: Vec<&String> = map.keys().collect();
            ks.sort();
            json!({"t": "variant", "o": ks.iter().map(|k| json!([k, enc_spec(&map[*k])])).collect::<Vec<_>>(), "init": init})
        }
        spec::Node::Enum { values, init } => json!({"t": "enum", "vs": values, "init": init}),
        spec::Node::Optional { value_type, init_present } => json!({"t": "opt", "e": enc_spec(value_type), "p": init_present}),
        spec::Node::Const => json!({"t": "const"}),
    }
}

pub fn enc_value(n: &value::Node) -> J {
    match n {
        value::Node::Real(x) => json!({"t": "real", "x": f64_model(*x)}),
        value::Node::Int(i) => json!({"t": "int", "i": i}),
        value::Node::Bool(b) => json!({"t": "bool", "b": b}),
        value::Node::Sub(map) => {
            let mut ks: Vec<&String> = map.keys().collect();
            ks.sort();
            json!({"t": "sub", "f": ks.iter().map(|k| json!([k, enc_value(&map[*k])])).collect::<Vec<_>>()})
        }
        value::Node::Array(l) => json!({"t": "array", "l": l.iter().map(|v| enc_value(v)).collect::<Vec<_>>()}),
        value::Node::AnonMap(map) => {
            let mut ks: Vec<&usize> = map.keys().collect();
            ks.sort();
            json!({"t": "amap", "m": ks.iter().map(|k| json!([k, enc_value(&map[*k])])).collect::<Vec<_>>()})
        }
        value::Node::Variant(name, v) => json!({"t": "variant", "n": name, "v": enc_value(v)}),
        value::Node::Enum(s) => json!({"t": "enum", "s": s}),
        value::Node::Optional(None) => json!({"t": "onone"}),
        value::Node::Optional(Some(v)) => json!({"t": "osome", "v": enc_value(v)}),
        value::Node::Const => json!({"t": "const"}),
    }
}

/// serde_json tree as the model's `J`: numbers by what `as_i64` / `as_f64` answer
pub fn enc_json(j: &J) -> J {
    match j {
        J::Null => json!("n"),
        J::Bool(b) => json!({"b": b}),
        J::Number(n) => match n.as_i64() {
            Some(i) => json!({"i": i, "c": n.as_f64().map(f64_model)}),
            None => json!({"f": n.as_f64().map(f64_model)}),
        },
        J::String(s) => json!({"s": s}),
        J::Array(a) => json!({"a": a.iter().map(enc_json).collect::<Vec<_>>()}),
        J::Object(m) => {
            let mut ks: Vec<&String> = m.keys().collect();
            ks.sort();
            json!({"o": ks.iter().map(|k| json!([k, enc_json(&m[*k])])).collect::<Vec<_>>()})
        }
    }
}
