//! Shared helpers: the single PRNG all random choices derive from, float order codes, JSON canonicalisation.
use serde_json::{json, Value as J};

/// SplitMix64: every random choice of the harness derives from one of these, seeded from VERIF_SEED.
#[derive(Clone, Debug)]
pub struct Rng(pub u64);
impl Rng {
    pub fn new(seed: u64) -> Self { Rng(seed.wrapping_mul(0x9E3779B97F4A7C15) ^ 0xD1B54A32D192ED03) }
    pub fn next(&mut self) -> u64 {
        self.0 = self.0.wrapping_add(0x9E3779B97F4A7C15);
        let mut z = self.0;
        z = (z ^ (z >> 30)).wrapping_mul(0xBF58476D1CE4E5B9);
        z = (z ^ (z >> 27)).wrapping_mul(0x94D049BB133111EB);
        z ^ (z >> 31)
    }
    pub fn below(&mut self, n: u64) -> u64 { if n == 0 { 0 } else { self.next() % n } }
    pub fn range(&mut self, lo: i64, hi: i64) -> i64 { lo + self.below((hi - lo + 1) as u64) as i64 }
    pub fn chance(&mut self, num: u64, den: u64) -> bool { self.below(den) < num }
    pub fn pick<'a, T>(&mut self, xs: &'a [T]) -> &'a T { &xs[self.below(xs.len() as u64) as usize] }
    pub fn fork(&mut self) -> Rng { Rng(self.next()) }
}

/// Order code of a finite f64: the sign-magnitude integer of its bit pattern (-0.0 and 0.0 are both 0).
pub fn order_code(x: f64) -> i64 {
    let b = x.to_bits();
    let mag = (b & 0x7fff_ffff_ffff_ffff) as i64;
    if b >> 63 == 1 { -mag } else { mag }
}

/// f64 as the model sees it: "nan" | "ninf" | "pinf" | {"fin": code}
pub fn f64_model(x: f64) -> J {
    if x.is_nan() { json!("nan") }
    else if x == f64::INFINITY { json!("pinf") }
    else if x == f64::NEG_INFINITY { json!("ninf") }
    else { json!({"fin": order_code(x)}) }
}

/// canonical text of a JSON value: object keys sorted recursively (serde_json's default map is a BTreeMap, so
/// `to_string` already sorts; this re-parses to be independent of the `preserve_order` feature)
pub fn canon(v: &J) -> String {
    fn go(v: &J) -> J {
        match v {
            J::Object(m) => {
                let mut keys: Vec<&String> = m.keys().collect();
                keys.sort();
                let mut out = serde_json::Map::new();
                for k in keys { out.insert(k.clone(), go(&m[k])); }
                J::Object(out)
            }
            J::Array(a) => J::Array(a.iter().map(go).collect()),
            other => other.clone(),
        }
    }
    go(v).to_string()
}

/// the implementation's `summary_obj_func_val`: same expression, same summation order
pub fn mean_like_impl(vals: &[f64]) -> f64 {
    vals.iter().copied().sum::<f64>() / vals.len() as f64
}

pub fn selftest() -> Result<u64, String> {
    // order code is an order isomorphism on finite floats
    let mut rng = Rng::new(12345);
    let mut n = 0u64;
    let specials = [0.0f64, -0.0, 1.0, -1.0, f64::MIN_POSITIVE, -f64::MIN_POSITIVE, 5e-324, -5e-324, f64::MAX, f64::MIN, 1e300, -1e300, 0.5, 2.0];
    let mut samples: Vec<f64> = specials.to_vec();
    for _ in 0..200_000 {
        let x = f64::from_bits(rng.next());
        if x.is_finite() { samples.push(x); }
        let e = rng.range(-300, 300) as f64;
        let m = (rng.below(2_000_001) as f64 - 1_000_000.0) / 1000.0;
        samples.push(m * 10f64.powf(e));
    }
    for i in 0..samples.len() {
        let a = samples[i];
        let b = samples[(i * 7919 + 13) % samples.len()];
        if !a.is_finite() || !b.is_finite() { continue; }
        let (ca, cb) = (order_code(a), order_code(b));
        if (a < b) != (ca < cb) || (a == b) != (ca == cb) || (a <= b) != (ca <= cb) {
            return Err(format!("order code not monotone: {a:e} {b:e}"));
        }
        n += 1;
    }
    // FL-mean1: the mean of a single value is that value
    for &x in &samples { if x.is_finite() && mean_like_impl(&[x]) != x { return Err(format!("FL-mean1 fails for {x:e}")); } }
    Ok(n)
}

/// Stall detector: a thread that sleeps 100 ms at a time and counts every time such a sleep took more than two seconds
/// of monotonic or of wall-clock time - the machine (or the whole sandbox: a snapshot of the VM freezes every process
/// for tens of seconds) did not run this process.  Timing-sensitive cases that overlap a stall are run again.
static STALLS: std::sync::atomic::AtomicU64 = std::sync::atomic::AtomicU64::new(0);
static STALL_WATCH: std::sync::Once = std::sync::Once::new();
pub fn stall_epoch() -> u64 {
    STALL_WATCH.call_once(|| {
        std::thread::spawn(|| loop {
            let (t, w) = (std::time::Instant::now(), std::time::SystemTime::now());
            std::thread::sleep(std::time::Duration::from_millis(100));
            let wall = w.elapsed().unwrap_or(std::time::Duration::from_secs(3600));
            if t.elapsed() > std::time::Duration::from_secs(2) || wall > std::time::Duration::from_secs(2) {
                STALLS.fetch_add(1, std::sync::atomic::Ordering::SeqCst);
            }
        });
    });
    STALLS.load(std::sync::atomic::Ordering::SeqCst)
}
